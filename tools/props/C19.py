"""C19 — Public functions are pure, deterministic and keep the documented schema.

Static part: tools/alias2ir.py translates every function of pyins (Python `ast`) into the aliasing
IR of coq/Model/Alias.v, validates its numpy/pandas/scipy classification tables by micro-tests on the
installed libraries, computes points-to solutions and callee summaries and writes coq/Gen/AliasIR.v;
Coq re-validates the solutions and summaries and proves (Props/C19.v) that the verified checker accepts
every public callable, that random draws come from caller-supplied generators, and that the schema
constants are the documented ones.

Dynamic part (validates the abstraction Python -> IR and is the falsifier): every public callable is
executed on writable float64 ndarray / list / DataFrame / Series argument forms with byte snapshots
before and after, twice with equal inputs and equal integer seeds (bit-identical results, also with
other calls in between), scalar vs stacked vs list vs array vs table forms are compared (1e-12), and
returned tables are compared with the documented schema.
"""
import os
import sys
import time
import traceback

HERE = os.path.dirname(os.path.abspath(__file__))
sys.path.insert(0, os.path.dirname(HERE))
import common

RULE = ("static: all functions/methods of the ten pyins modules are translated (fail closed) and the "
        "classification tables are micro-tested on every run; dynamic: every public callable (enumerated "
        "from the autosummary lists + public methods; a callable without an argument builder is a coverage "
        "break) x every applicable argument form (C/F-ordered and non-contiguous ndarray, list, tuple, "
        "DataFrame, Series, scalar / 1-row / n-row) on a simulated data set drawn from random.Random(seed); "
        "a case is distinct by (callable, argument form, check kind)")


class _Dyn:
    """the dynamic validation (second half of this file)"""
    @staticmethod
    def run_dynamic(r, n_rounds):
        return run_dynamic(r, n_rounds)

    @staticmethod
    def replay(obj):
        return replay_dynamic(obj)

    @staticmethod
    def public_callables():
        return public_callables()


def _dyn():
    return _Dyn


def static_part(r):
    t = time.time()
    try:
        import alias2ir
        with common.Lock():
            stats = alias2ir.generate(repo=common.REPO)
    except Exception as e:
        r.broken('translator', type(e).__name__, traceback.format_exc())
        return None
    mt = stats['microtests']
    r.evaluations += mt.get('tests', 0)
    r.coverage['translator'] = dict(
        functions=stats['functions'], public=stats['public'], statements=stats['statements'],
        variables=stats['variables'], slots=stats['slots'], readonly_slots=stats['readonly'],
        microtests=mt, gen_changed=stats['changed'], drawing=stats['drawing'],
        slot_categories=stats['slot_categories'])
    r.log(f"translator: {stats['functions']} functions ({stats['public']} public), "
          f"{stats['statements']} IR statements, {mt.get('tests', 0)} micro-tests of the classification "
          f"tables, Gen changed: {stats['changed']}, {time.time() - t:.1f}s")
    # diagnostics of the (untrusted) python mirror of the checker: the verdict that counts is Coq's
    for fid, why in stats['rejected'].items():
        r.log(f"static checker (mirror) rejects {fid}: {why[:3]}")
    for fid in stats['unplumbed']:
        r.log(f"static checker (mirror): {fid} draws random numbers not derived from its rng argument")
    r.coverage['static_rejected'] = {k: v[:4] for k, v in stats['rejected'].items()}
    r.coverage['static_unplumbed'] = stats['unplumbed']
    return stats


def check(r):
    r.trusted += [
        "translator tools/alias2ir.py (Python ast -> aliasing IR): the classification of numpy/pandas/scipy "
        "operations (fresh / may alias / writes) is data, micro-tested against the installed libraries on every run",
        "abstract semantics of calls: a call behaves as any sequence of the effects its (Coq-validated) callee "
        "summary allows; the points-to solver and the summary computation (python) are NOT trusted: their output "
        "is re-validated by Coq (valid_hints, summary_ok, check_fun)",
        "heap model: one cell per buffer/container/object, views = same cell, flow-insensitive executions",
    ]
    r.assumptions += [
        "entry condition of checker_sound: caller memory, the receiver's private state and numpy's global "
        "generator are disjoint regions at entry (no references across, except from the receiver's own containers "
        "into caller memory)",
        "bit-identical repeated results, equality of argument forms and the schema of returned VALUES are "
        "validated dynamically, not proved (C19_partial in DESIGN.md)",
        "documented exceptions (policy C19_policy): filters may rebind/update EstimationModel.transform/.bias of "
        "the models they are given; apply_imu_parameters (like Parameters.apply) sets Parameters.data_frame and, "
        "with default Parameters(), draws from numpy's global generator (rng=None: documented nondeterministic seeding)",
        "shallow copies of Python containers of arrays (list.copy()) are classified as fresh; pyins has none",
    ]
    stats = static_part(r)
    if stats is not None:
        r.prove('Props/C19.v')
    dyn = _dyn()
    if dyn is None:
        r.broken('harness', 'dynamic validation missing', '')
    else:
        n_rounds = 1 if r.tier == 'quick' else 6
        try:
            dyn.run_dynamic(r, n_rounds)
        except Exception:
            r.broken('dynamic', 'exception in run_dynamic', traceback.format_exc())
        if stats is not None:
            try:
                mine = set(stats['public_names'])
                theirs = set(dyn.public_callables())
                norm = lambda s: s.replace('pyins.', '')
                theirs = {norm(x) for x in theirs}
                missing = sorted(mine - theirs)
                if missing:
                    r.broken('coverage', 'public callables of the static enumeration not exercised dynamically',
                             missing[:20])
            except Exception:
                r.broken('coverage', 'enumeration comparison failed', traceback.format_exc())
    if r.tier == 'thorough':
        r.hygiene('Props/C19.v')
        if hasattr(r, 'coqchk'):
            r.coqchk('Props/C19.v')


def falsify(r):
    dyn = _dyn()
    if dyn is not None:
        dyn.run_dynamic(r, 4)


def replay(obj):
    dyn = _dyn()
    rep = obj.get('replay', obj)
    if dyn is None or not isinstance(rep, dict) or 'callable' not in rep:
        print(obj)
        return 1 if obj.get('no_failing_input_found') else 0
    return dyn.replay(rep)


# ==================================================================================================
# DYNAMIC VALIDATION (written as a separate module, merged here: one harness file per property)
# ==================================================================================================
"""C19 (dynamic part) -- public callables are pure, deterministic, form-independent and
keep the documented schema.

The public API is ENUMERATED from the ``.. autosummary::`` lists of the ten module
docstrings at run time; every enumerated callable needs an argument builder in BUILDERS
(fail closed: a public callable without builder is ``r.broken('coverage', ...)``).

For every (callable, argument form) case the runner
  a. snapshots every argument (and constructor inputs still held by the caller, and the
     callable's default arguments) before and after the call          -> kind 'mutation'
  b. calls twice with fresh equal inputs / equal integer seeds, with other callables
     called in between, and a third time at the end of the run; compares bit for bit;
     watches numpy's global RandomState                              -> kind 'determinism'
  c. compares the values of list/tuple/ndarray/Fortran/strided/pandas forms and of
     scalar vs stacked forms of the same input                            -> kind 'forms'
  d. checks documented columns / index of returned tables                -> kind 'schema'

Only random.Random(seed + k) / np.random.RandomState(seed + k) created locally are used.
"""
import importlib
import inspect
import random
import struct
import time
import traceback
import types
import warnings

import numpy as np
import pandas as pd

MODULES = ['earth', 'error_model', 'filters', 'inertial_sensor', 'kalman', 'measurements',
           'sim', 'strapdown', 'transform', 'util']
EXTRA = ['transform.ecef_to_lla']          # public-looking, but not in the autosummary

# ---------------------------------------------------------------------------------------
# Documented schema: literal copy of pyins/__init__.py:3-31 and of the function docstrings.
DOC_LLA = ['lat', 'lon', 'alt']
DOC_VEL = ['VN', 'VE', 'VD']
DOC_RPH = ['roll', 'pitch', 'heading']
DOC_NED = ['north', 'east', 'down']
DOC_RATE = ['rate_x', 'rate_y', 'rate_z']
DOC_GYRO = ['gyro_x', 'gyro_y', 'gyro_z']
DOC_ACCEL = ['accel_x', 'accel_y', 'accel_z']
DOC_THETA = ['theta_x', 'theta_y', 'theta_z']
DOC_DV = ['dv_x', 'dv_y', 'dv_z']
DOC_BODY_VEL = ['VX', 'VY', 'VZ']
DOC_TRAJECTORY = ['lat', 'lon', 'alt', 'VN', 'VE', 'VD', 'roll', 'pitch', 'heading']
DOC_IMU = ['gyro_x', 'gyro_y', 'gyro_z', 'accel_x', 'accel_y', 'accel_z']
DOC_INCREMENTS = ['dt', 'theta_x', 'theta_y', 'theta_z', 'dv_x', 'dv_y', 'dv_z']
DOC_TRAJECTORY_ERROR = ['north', 'east', 'down', 'VN', 'VE', 'VD', 'roll', 'pitch', 'heading']
DOC_STATES_3D = ['DR1', 'DR2', 'DR3', 'DV1', 'DV2', 'DV3', 'PHI1', 'PHI2', 'PHI3']
DOC_STATES_2D = ['DR1', 'DR2', 'DV1', 'DV2', 'PHI1', 'PHI2', 'PHI3']
UTIL_CONSTANTS = dict(
    LLA_COLS=DOC_LLA, VEL_COLS=DOC_VEL, RPH_COLS=DOC_RPH, RATE_COLS=DOC_RATE,
    GYRO_COLS=DOC_GYRO, ACCEL_COLS=DOC_ACCEL, THETA_COLS=DOC_THETA, DV_COLS=DOC_DV,
    NED_COLS=DOC_NED, TRAJECTORY_COLS=DOC_TRAJECTORY,
    TRAJECTORY_ERROR_COLS=DOC_TRAJECTORY_ERROR)
R_EARTH = 6.4e6

_PX = None


def P():
    """The pyins modules (imported lazily, warnings silenced)."""
    global _PX
    if _PX is None:
        with warnings.catch_warnings():
            warnings.simplefilter('ignore')
            ns = types.SimpleNamespace()
            for m in MODULES:
                setattr(ns, m, importlib.import_module('pyins.' + m))
        _PX = ns
    return _PX


# ---------------------------------------------------------------------------------------
# 1. enumeration of the public API from the module docstrings
def _autosummary_names(doc, section):
    lines = (doc or '').splitlines()

    def underline(k):
        s = lines[k].strip() if k < len(lines) else ''
        return bool(s) and set(s) == {'-'}

    out = []
    for i in range(len(lines) - 1):
        if lines[i].strip() == section and underline(i + 1):
            j = i + 2
            while j < len(lines) and not lines[j].strip().startswith('.. autosummary::'):
                if underline(j + 1):
                    return out
                j += 1
            j += 1
            started = False
            while j < len(lines):
                s, st = lines[j], lines[j].strip()
                if not st:
                    if started:
                        break
                elif not s.startswith((' ', '\t')):
                    break
                elif not st.startswith(':'):
                    out.append(st)
                    started = True
                j += 1
            break
    return out


def enumerate_api():
    """[(name, kind)] with kind in function/init/method/property/classmethod/staticmethod."""
    px = P()
    out = []
    for m in MODULES:
        mod = getattr(px, m)
        for f in _autosummary_names(mod.__doc__, 'Functions'):
            out.append((f"{m}.{f}", 'function'))
        for c in _autosummary_names(mod.__doc__, 'Classes'):
            cls = getattr(mod, c)
            out.append((f"{m}.{c}.__init__", 'init'))
            seen = set()
            for k in cls.__mro__:
                if not (k.__module__ or '').startswith('pyins'):
                    continue
                for a, v in vars(k).items():
                    if a.startswith('_') or a in seen:
                        continue
                    kind = ('property' if isinstance(v, property) else
                            'classmethod' if isinstance(v, classmethod) else
                            'staticmethod' if isinstance(v, staticmethod) else
                            'method' if inspect.isfunction(v) else None)
                    if kind:
                        seen.add(a)
                        out.append((f"{m}.{c}.{a}", kind))
    return out


def public_callables():
    return [n for n, _ in enumerate_api()]


def _resolve(name):
    parts = name.split('.')
    obj = getattr(P(), parts[0])
    for p in parts[1:]:
        obj = inspect.getattr_static(obj, p) if inspect.isclass(obj) else getattr(obj, p)
    return obj


def _defaults_of(name):
    try:
        o = _resolve(name)
    except Exception:
        return None
    if isinstance(o, (classmethod, staticmethod)):
        o = o.__func__
    if isinstance(o, property):
        o = o.fget
    return (getattr(o, '__defaults__', None), getattr(o, '__kwdefaults__', None))


# ---------------------------------------------------------------------------------------
# 2. snapshots (bit exact) and value comparison
def _is_pyins_obj(o):
    return (type(o).__module__ or '').startswith('pyins') and hasattr(o, '__dict__')


def _vars(o):
    """Attributes of a pyins object.  strapdown.Integrator keeps np.empty work buffers of
    10000 rows: only the rows filled so far (len(trajectory)) are state."""
    d = dict(vars(o))
    if type(o).__name__ == 'Integrator' and isinstance(d.get('trajectory'), pd.DataFrame):
        n = len(d['trajectory'])
        for k in ('lla', 'velocity_n', 'mat_nb'):
            if isinstance(d.get(k), np.ndarray):
                d[k] = d[k][:n]
    return d


def _idx_snap(ix):
    a = ix.to_numpy()
    body = tuple(map(repr, a.tolist())) if a.dtype == object else a.tobytes()
    return ('idx', str(a.dtype), len(a), body, repr(ix.name))


def _arr_body(a):
    if a.dtype == object:
        return tuple(map(repr, a.ravel().tolist()))
    return a.tobytes()


def snap(o, args_mode=False, depth=0):
    """Canonical bit-exact snapshot (nested tuples).  args_mode: snapshot of an argument
    (RandomState attributes of objects are skipped, the base of an ndarray view is included)."""
    if depth > 8:
        return ('deep',)
    if isinstance(o, np.ndarray):
        base = None
        if args_mode and isinstance(o.base, np.ndarray):
            base = _arr_body(o.base)
        return ('nd', o.dtype.str, o.shape, _arr_body(o), bool(o.flags.writeable), base)
    if isinstance(o, pd.DataFrame):
        return ('df', _arr_body(o.to_numpy()), o.shape, _idx_snap(o.index),
                tuple(map(repr, o.columns.tolist())), repr(o.columns.name),
                tuple(str(t) for t in o.dtypes))
    if isinstance(o, pd.Series):
        return ('ser', _arr_body(o.to_numpy()), str(o.dtype), _idx_snap(o.index), repr(o.name))
    if isinstance(o, pd.Index):
        return _idx_snap(o)
    if isinstance(o, (bool, np.bool_)):
        return ('bool', bool(o))
    if isinstance(o, (float, np.floating)):
        return ('f', type(o).__name__, struct.pack('<d', float(o)))
    if isinstance(o, (int, np.integer)):
        return ('i', int(o))
    if isinstance(o, (str, bytes)) or o is None:
        return ('py', repr(o))
    if isinstance(o, dict):
        return ('dict', type(o).__name__,
                tuple((repr(k), snap(v, args_mode, depth + 1)) for k, v in o.items()))
    if isinstance(o, (list, tuple)):
        return ('seq', type(o).__name__, tuple(snap(v, args_mode, depth + 1) for v in o))
    if isinstance(o, np.random.RandomState):
        if args_mode:
            return ('rng', 'skipped')
        s = o.get_state()
        return ('rng', s[0], s[1].tobytes(), s[2], s[3], struct.pack('<d', s[4]))
    if type(o).__name__ == 'Rotation':
        return ('rot', _arr_body(np.asarray(o.as_quat())), np.shape(o.as_quat()))
    if _is_pyins_obj(o):
        return ('obj', type(o).__name__,
                tuple((k, snap(v, args_mode, depth + 1)) for k, v in sorted(_vars(o).items())))
    if isinstance(o, (types.FunctionType, types.MethodType, type)):
        return ('callable', getattr(o, '__qualname__', repr(o)))
    return ('repr', type(o).__name__, repr(o))


def snap_diffs(a, b, path='', out=None, cap=20):
    """Paths at which two snapshots differ."""
    if out is None:
        out = []
    if len(out) >= cap or a == b:
        return out
    cont = ('dict', 'seq', 'obj')
    if (isinstance(a, tuple) and isinstance(b, tuple) and a and b and a[0] == b[0] and a[0] in cont
            and a[1] == b[1] and len(a[2]) == len(b[2])):
        for k, (x, y) in enumerate(zip(a[2], b[2])):
            if a[0] == 'seq':
                snap_diffs(x, y, f"{path}[{k}]", out, cap)
            elif x[0] != y[0]:
                out.append(f"{path}.<keys>")
                break
            else:
                key = x[0].strip("'") if a[0] == 'dict' else x[0]
                snap_diffs(x[1], y[1], f"{path}.{key}" if path else key, out, cap)
        return out
    out.append(path or '<top>')
    return out


def collect_refs(o, path='', out=None, depth=0):
    """(path, object) for every array/table/series/list reachable from the arguments --
    used for the identity based mutation check (content of the ORIGINAL objects)."""
    if out is None:
        out = []
    if depth > 6:
        return out
    if isinstance(o, (np.ndarray, pd.DataFrame, pd.Series, pd.Index)):
        out.append((path, o))
    elif isinstance(o, dict):
        for k, v in o.items():
            collect_refs(v, f"{path}.{k}" if path else str(k), out, depth + 1)
    elif isinstance(o, (list, tuple)):
        if isinstance(o, list):
            out.append((path, o))
        for k, v in enumerate(o):
            collect_refs(v, f"{path}[{k}]", out, depth + 1)
    elif _is_pyins_obj(o):
        for k, v in sorted(_vars(o).items()):
            collect_refs(v, f"{path}.{k}" if path else k, out, depth + 1)
    return out


def leaves(o, path='', out=None, depth=0):
    """Numeric leaves [(path, float ndarray)] / other leaves [(path, repr)] of a result."""
    if out is None:
        out = []
    if depth > 8:
        return out
    if isinstance(o, (pd.DataFrame, pd.Series)):
        try:
            out.append((path, np.asarray(o.to_numpy(), dtype=float)))
        except (TypeError, ValueError):
            out.append((path, repr(o.to_numpy().tolist())))
    elif isinstance(o, np.ndarray):
        if o.dtype == object:
            out.append((path, repr(o.tolist())))
        else:
            out.append((path, np.asarray(o, dtype=float)))
    elif isinstance(o, (bool, np.bool_, str)) or o is None:
        out.append((path, repr(o)))
    elif isinstance(o, (int, float, np.integer, np.floating)):
        out.append((path, np.asarray(float(o))))
    elif isinstance(o, dict):
        for k, v in o.items():
            leaves(v, f"{path}.{k}", out, depth + 1)
    elif isinstance(o, (list, tuple)):
        if o and all(isinstance(v, (int, float, np.integer, np.floating)) for v in o):
            out.append((path, np.asarray(o, dtype=float)))
        else:
            for k, v in enumerate(o):
                leaves(v, f"{path}[{k}]", out, depth + 1)
    elif type(o).__name__ == 'Rotation':
        out.append((path + '.as_matrix', np.asarray(o.as_matrix(), dtype=float)))
    elif isinstance(o, np.random.RandomState):
        pass
    elif _is_pyins_obj(o):
        for k, v in sorted(_vars(o).items()):
            if not k.startswith('_'):
                leaves(v, f"{path}.{k}", out, depth + 1)
    else:
        out.append((path, repr(o)))
    return out


def values_differ(ref, got, tol, scale=None):
    """None if equal within tol (relative to the magnitude of the leaf, floor tol*scale),
    else a description of the first difference."""
    if tol == 0:
        d = snap_diffs(snap(ref), snap(got))
        return f"not bit-identical at {d[:4]}" if d else None
    la, lb = leaves(ref), leaves(got)
    if len(la) != len(lb):
        return f"structure differs: {len(la)} vs {len(lb)} leaves"
    for (pa, a), (pb, b) in zip(la, lb):
        if isinstance(a, str) or isinstance(b, str):
            if a != b:
                return f"leaf {pa or '<top>'}: {str(a)[:60]} != {str(b)[:60]}"
            continue
        if a.shape != b.shape:
            return f"leaf {pa or '<top>'}: shape {a.shape} != {b.shape}"
        if a.size == 0:
            continue
        na, nb = np.isnan(a), np.isnan(b)
        if (na != nb).any():
            return f"leaf {pa or '<top>'}: NaN pattern differs"
        fin = ~na & np.isfinite(a) & np.isfinite(b)
        if (a[~na & ~fin] != b[~na & ~fin]).any():
            return f"leaf {pa or '<top>'}: infinities differ"
        if not fin.any():
            continue
        mag = max(float(np.abs(a[fin]).max()), float(np.abs(b[fin]).max()), scale or 0.0)
        err = float(np.abs(a[fin] - b[fin]).max())
        if err > tol * mag + 1e-300:
            return (f"leaf {pa or '<top>'}: max abs difference {err:.3e} > {tol:g} * {mag:.3e}")
    return None


def row_of(R, i):
    """Row i (or rows i, a slice) of a stacked result."""
    if isinstance(R, tuple):
        return tuple(row_of(x, i) for x in R)
    if isinstance(R, (pd.DataFrame, pd.Series)):
        return R.iloc[i]
    return R[i]


# ---------------------------------------------------------------------------------------
# 3. argument forms
NA = object()
KINDS = ['ndarray', 'fortran', 'strided', 'list', 'tuple', 'pandas']


def _totuple(x):
    return tuple(_totuple(v) for v in x) if isinstance(x, list) else x


def conv(v, kind, cols=None, index=None):
    """Fresh object holding the numbers `v` in the given form (NA if not applicable).
    0-d input: ndarray -> np.float64, strided -> 0-d ndarray, list -> python float."""
    v = np.asarray(v, dtype=float)
    if v.ndim == 0:
        if kind == 'ndarray':
            return np.float64(v)
        if kind == 'strided':
            return np.array(float(v))
        if kind == 'list':
            return float(v)
        return NA
    if kind == 'ndarray':
        return np.array(v, dtype=np.float64, order='C')
    if kind == 'fortran':
        return np.array(v, dtype=np.float64, order='F') if v.ndim >= 2 else NA
    if kind == 'strided':
        big = np.full(v.shape[:-1] + (2 * v.shape[-1] + 1,), 7.25)
        view = big[..., 1::2]
        view[...] = v
        return view
    if kind == 'list':
        return v.tolist()
    if kind == 'tuple':
        return _totuple(v.tolist())
    if kind == 'pandas':
        if v.ndim == 1:
            if cols is not None and len(cols) == len(v):
                return pd.Series(np.array(v), index=list(cols))
            if cols is None:
                return pd.Series(np.array(v), index=index)
            return NA
        if v.ndim == 2 and cols is not None and len(cols) == v.shape[1]:
            return pd.DataFrame(np.array(v), index=index, columns=list(cols))
    return NA


class Ctx:
    """One prepared call: `watch` = everything the caller holds (arguments, constructor
    inputs), `call` = zero-argument closure, `exempt` = documented exceptions (path
    prefixes in `watch`), `recv` = closure returning the receiver (its state is part of
    the compared result, but may change)."""
    def __init__(self, watch, call, exempt=(), recv=None, info=None):
        self.watch, self.call, self.exempt, self.recv = watch, call, tuple(exempt), recv
        self.info = info or {}


class Case:
    def __init__(self, name, form, build, group=None, expect=None, tol=1e-12, scale=None,
                 schema=None, seeded='none', expect_exc=None, heavy=False, repeat=True,
                 group_kind='forms', finding=None, env_blocked=None, variants=()):
        self.name, self.form, self.build = name, form, build
        self.group = group                # cases of one group are compared with its first case
        self.expect = expect              # projection of the reference result (default identity)
        self.tol, self.scale = tol, scale
        self.schema = schema              # f(result, ctx) -> list of problems
        self.seeded = seeded              # 'none' | 'int' | 'global' (documented global RNG use)
        self.expect_exc = expect_exc      # documented exception type
        self.heavy, self.repeat = heavy, repeat
        self.group_kind = group_kind      # kind reported when the group comparison fails
        self.finding = finding            # key of a recorded finding on the reference tree
        self.env_blocked = env_blocked    # (probe_name) the call cannot run in this environment
        self.variants = tuple(variants)   # (label, build): the SAME callable with nearby argument values


# ---------------------------------------------------------------------------------------
# 4. data set (one per seed and round), built through pyins itself
class Data:
    def __init__(self, seed, rnd=0):
        self.seed, self.rnd = seed, rnd
        py = random.Random(seed + 1900 + rnd)
        self.py = py
        self.rs = np.random.RandomState(seed + 1900 + rnd)      # local generator
        self.n = 6 + 9 * rnd                                    # rows of stacked inputs
        self.dt = py.choice([0.1, 0.05])
        self.total = py.choice([20, 24, 28]) * (1.0 if self.dt == 0.1 else 0.5)
        self.lla0 = [py.uniform(-70, 70), py.uniform(-170, 170), py.uniform(0, 2000)]
        self.vmean = [py.uniform(3, 9) * py.choice([-1, 1]), py.uniform(3, 9) * py.choice([-1, 1]),
                      py.uniform(-0.5, 0.5)]
        self.vamp = [py.uniform(0.5, 2), py.uniform(0.5, 2), py.uniform(0.1, 0.5)]
        self.period = py.uniform(10, 30)
        self.mstep = int(round(1.0 / self.dt))                  # measurements at 1 Hz
        self.i = py.randrange(1, self.n - 1)                    # row used for single forms
        self._c = {}
        n = self.n
        rs = self.rs
        self.lat = rs.uniform(-80, 80, n)
        self.lon = rs.uniform(-180, 180, n)
        self.alt = rs.uniform(-100, 5000, n)
        self.lla = np.column_stack([self.lat, self.lon, self.alt])
        self.lla2 = self.lla + np.column_stack([rs.uniform(-1e-3, 1e-3, (n, 2)),
                                                rs.uniform(-50, 50, n)])
        self.dr = rs.normal(0, 50, (n, 3))
        self.rph = np.column_stack([rs.uniform(-170, 170, n), rs.uniform(-80, 80, n),
                                    rs.uniform(-170, 170, n)])
        self.vec = rs.normal(0, 3, (n, 3))
        self.mats = rs.normal(0, 1, (n, 3, 3))
        self.mats2 = rs.normal(0, 1, (n, 3, 3))
        self.angles = np.concatenate([rs.uniform(-720, 720, n - 4), [180.0, -180.0, 540.0, 0.0]])
        self.angles3 = rs.uniform(-720, 720, (n, 3))
        self.tindex = pd.Index(np.arange(n) * 0.25, name='time')
        self._pristine = None

    def params(self):
        return dict(seed=self.seed, round=self.rnd, n=self.n, dt=self.dt, total_time=self.total,
                    lla0=self.lla0, velocity_mean=self.vmean, amplitude=self.vamp,
                    period=self.period)

    def _get(self, key, f):
        if key not in self._c:
            self._c[key] = f()
        return self._c[key]

    def _motion(self, st):
        return self._get(('motion', st), lambda: P().sim.generate_sine_velocity_motion(
            self.dt, self.total, list(self.lla0), list(self.vmean), list(self.vamp),
            self.period, sensor_type=st))

    def traj(self, st='increment'):
        return self._motion(st)[0].copy()

    def imu(self, st='increment'):
        return self._motion(st)[1].copy()

    def inc(self, st='increment'):
        return self._get(('inc', st), lambda: P().strapdown.compute_increments_from_imu(
            self._motion(st)[1].copy(), st)).copy()

    def traj_att(self):
        """True trajectory with non-trivial roll / pitch (same time index)."""
        def f():
            t = self.traj()
            tt = t.index.to_numpy()
            t['roll'] = 25 * np.sin(tt / 3 + 0.3)
            t['pitch'] = 12 * np.cos(tt / 4 + 1.0)
            return t
        return self._get('traj_att', f).copy()

    def traj_rate(self):
        t = self.traj_att()
        tt = t.index.to_numpy()
        for k, c in enumerate(DOC_RATE):
            t[c] = 0.05 * np.sin(tt / (2 + k) + k)
        return t

    def meas(self, kind):
        def f():
            sub = self.traj().iloc[self.mstep::self.mstep]
            fn = dict(pos=P().sim.generate_position_measurements,
                      vel=P().sim.generate_ned_velocity_measurements,
                      body=P().sim.generate_body_velocity_measurements)[kind]
            sd = dict(pos=1.0, vel=0.1, body=0.1)[kind]
            return fn(sub, sd, rng=self.seed + 31 + len(kind))
        return self._get(('meas', kind), f).copy()

    def pva_error(self):
        return self._get('pva_error', lambda: P().sim.generate_pva_error(
            3.0, 0.3, 0.2, 0.8, rng=self.seed + 41)).copy()

    def pva0(self):
        return self._get('pva0', lambda: P().sim.perturb_pva(
            self.traj().iloc[0], self.pva_error())).copy()

    def computed(self, with_altitude=True):
        def f():
            it = P().strapdown.Integrator(self.pva0(), with_altitude)
            it.integrate(self.inc())
            return it.trajectory.copy()
        return self._get(('computed', with_altitude), f).copy()

    def pva(self, k=None, rate=False, own=False):
        """A Pva Series: row k of the attitude-rich trajectory."""
        t = self.traj_rate() if rate else self.traj_att()
        k = (3 + self.i) if k is None else k
        s = t.iloc[k]
        if own:
            s = pd.Series(np.array(s.to_numpy()), index=list(s.index), name=s.name)
        return s

    def est_model(self, which, sm):
        em = P().inertial_sensor.EstimationModel
        if which == 'gyro':
            return em(bias_sd=1e-5, noise=1e-6, bias_walk=1e-8,
                      scale_misal_sd=(np.full((3, 3), 1e-3) if sm else None))
        return em(bias_sd=[1e-2, 2e-2, 1e-2], noise=[1e-3, 1e-3, 2e-3], bias_walk=None,
                  scale_misal_sd=([[1e-3, 0, 0], [0, 1e-3, 0], [0, 1e-4, 1e-3]] if sm else None))

    def fingerprint(self):
        return snap({k: v for k, v in vars(self).items()
                     if isinstance(v, (np.ndarray, pd.Index, list))})


# ---------------------------------------------------------------------------------------
# 5. schema helpers (documented columns / index only)
def sch_table(x, cols, index=None, index_name=NA, nrows=None, what='result'):
    pr = []
    if not isinstance(x, pd.DataFrame):
        return [f"{what}: expected DataFrame, got {type(x).__name__}"]
    if cols is not None and list(x.columns) != list(cols):
        pr.append(f"{what}: columns {list(x.columns)} != documented {list(cols)}")
    if index is not None and not (len(x.index) == len(index) and
                                  np.array_equal(np.asarray(x.index), np.asarray(index))):
        pr.append(f"{what}: index differs from the documented one (len {len(x.index)} vs {len(index)})")
    if index_name is not NA and x.index.name != index_name:
        pr.append(f"{what}: index name {x.index.name!r} != documented {index_name!r}")
    if nrows is not None and len(x) != nrows:
        pr.append(f"{what}: {len(x)} rows, documented {nrows}")
    return pr


def sch_series(x, index, what='result'):
    if not isinstance(x, pd.Series):
        return [f"{what}: expected Series, got {type(x).__name__}"]
    if list(x.index) != list(index):
        return [f"{what}: index {list(x.index)} != documented {list(index)}"]
    return []


def sch_traj_imu(res, index=None, nrows=None):
    pr = []
    if not (isinstance(res, tuple) and len(res) >= 2):
        return [f"expected (trajectory, imu), got {type(res).__name__}"]
    pr += sch_table(res[0], DOC_TRAJECTORY, index, 'time', nrows, 'trajectory')
    pr += sch_table(res[1], DOC_IMU, index, 'time', nrows, 'imu')
    return pr


def states_of(model_kwargs):
    """Documented state names (bias_x.., sm_xy..) for EstimationModel constructor arguments."""
    xyz = 'xyz'
    def arr(v, shape):
        return np.zeros(shape) if v is None else np.resize(np.asarray(v, dtype=float), shape) \
            if np.ndim(v) == 0 else np.asarray(v, dtype=float)
    b = arr(model_kwargs.get('bias_sd'), (3,))
    s = arr(model_kwargs.get('scale_misal_sd'), (3, 3))
    out = [f"bias_{xyz[k]}" for k in range(3) if b[k] > 0]
    out += [f"sm_{xyz[i]}{xyz[j]}" for i in range(3) for j in range(3) if s[i, j] > 0]
    return out


# ---------------------------------------------------------------------------------------
# 6. generic builder for vectorised array functions
def vec_cases(name, fn, args, D, kinds=KINDS, single=True, stack1=True, tol=1e-12, scale=None,
              tag='', schema=None, seeded='none', single_kinds=None):
    """args: list of dict(label, base=(n, ...) ndarray, mode='row'|'const', cols, kinds).
    'row' arguments are stacked (one row per point); 'const' ones are passed as they are.
    Cases: every kind with the n-row stack (reference: ndarray), every kind with the single
    row D.i (expected = row D.i of the reference), a 1-row stack."""
    i = D.i
    grp = name + tag
    out = []

    def pieces(shape):
        for a in args:
            base = a['base']
            if a.get('mode', 'row') == 'row':
                v = base if shape == 'stack' else base[i] if shape == 'single' else base[i:i + 1]
                idx = D.tindex if shape == 'stack' else D.tindex[i:i + 1]
            else:
                v, idx = base, None
            yield a, v, idx

    def applicable(kind, shape):
        for a, v, idx in pieces(shape):
            if kind in a.get('kinds', KINDS) and conv(v, kind, a.get('cols'), idx) is not NA:
                return True
        return False

    def mk(kind, shape):
        def build(D_):
            objs = {}
            for a, v, idx in pieces(shape):
                o = NA
                if kind in a.get('kinds', KINDS):
                    o = conv(v, kind, a.get('cols'), idx)
                if o is NA:
                    o = conv(v, 'ndarray')
                objs[a['label']] = o
            vals = list(objs.values())
            return Ctx(objs, lambda: fn(*vals))
        return build

    shapes = ['stack'] + (['single'] if single else []) + (['stack1'] if stack1 else [])
    for shape in shapes:
        ks = kinds if shape != 'stack1' else ['ndarray', 'pandas']
        if shape == 'single' and single_kinds is not None:
            ks = single_kinds
        for kind in ks:
            if not applicable(kind, shape):
                continue
            expect = (None if shape == 'stack' else (lambda R: row_of(R, i)) if shape == 'single'
                      else (lambda R: row_of(R, slice(i, i + 1))))
            out.append(Case(name, f"{kind}/{shape}{tag}", mk(kind, shape), group=grp,
                            expect=expect, tol=tol, scale=scale, seeded=seeded,
                            schema=schema if (kind == 'pandas') else None))
    return out


def A(label, base, cols=None, mode='row', kinds=None):
    d = dict(label=label, base=base, cols=cols, mode=mode)
    if kinds is not None:
        d['kinds'] = kinds
    return d


BUILDERS = {}


def builder(*names):
    def deco(f):
        for nm in names:
            BUILDERS[nm] = f
        return f
    return deco


# ---------------------------------------------------------------------------------------
# 7. builders: earth, util, transform, kalman
@builder('earth.principal_radii', 'earth.gravity', 'earth.gravity_n', 'earth.curvature_matrix',
         'earth.rate_n', 'earth.gravitation_ecef')
def b_earth(D):
    e = P().earth
    out = []
    la = [A('lat', D.lat), A('alt', D.alt)]
    for nm in ('principal_radii', 'gravity', 'gravity_n', 'curvature_matrix'):
        out += vec_cases('earth.' + nm, getattr(e, nm), la, D)
    out += vec_cases('earth.rate_n', e.rate_n, [A('lat', D.lat)], D)
    out += vec_cases('earth.gravitation_ecef', e.gravitation_ecef, [A('lla', D.lla, DOC_LLA)], D)
    return out


@builder('util.mm_prod', 'util.mm_prod_symmetric', 'util.mv_prod', 'util.skew_matrix',
         'util.compute_rms', 'util.to_180_range')
def b_util(D):
    u = P().util
    out = []
    for (ma, mb) in (('row', 'row'), ('row', 'const'), ('const', 'row')):
        for at, bt in ((False, False), (True, False), (False, True), (True, True)):
            if (ma, mb) != ('row', 'row') and at != bt:
                continue
            a = A('a', D.mats if ma == 'row' else D.mats[0], mode=ma)
            b = A('b', D.mats2 if mb == 'row' else D.mats2[1], mode=mb)
            out += vec_cases('util.mm_prod', (lambda x, y, at=at, bt=bt: u.mm_prod(x, y, at, bt)),
                             [a, b], D, tag=f"|{ma[0]}{mb[0]}|at={int(at)},bt={int(bt)}",
                             single=(ma, mb) == ('row', 'row'), stack1=False)
    sym = np.einsum('nij,nkj->nik', D.mats2, D.mats2)
    for (ma, mb) in (('row', 'row'), ('row', 'const'), ('const', 'row')):
        out += vec_cases('util.mm_prod_symmetric', u.mm_prod_symmetric,
                         [A('a', D.mats if ma == 'row' else D.mats[0], mode=ma),
                          A('b', sym if mb == 'row' else sym[1], mode=mb)], D,
                         tag=f"|{ma[0]}{mb[0]}", single=(ma, mb) == ('row', 'row'), stack1=False)
    nd = ['ndarray', 'fortran', 'strided']          # `b : ndarray` in the docstring
    for ma in ('row', 'const'):
        for at in (False, True):
            out += vec_cases('util.mv_prod', (lambda x, y, at=at: u.mv_prod(x, y, at)),
                             [A('a', D.mats if ma == 'row' else D.mats[0], mode=ma),
                              A('b', D.vec, kinds=nd)], D, tag=f"|{ma[0]}|at={int(at)}",
                             single=(ma == 'row'), stack1=False)
    out += vec_cases('util.skew_matrix', u.skew_matrix, [A('vec', D.vec, DOC_VEL)], D)
    out += vec_cases('util.compute_rms', u.compute_rms, [A('data', D.vec, DOC_VEL)], D,
                     single=False, stack1=False)
    out += vec_cases('util.compute_rms', u.compute_rms, [A('data', D.vec[:, 0])], D,
                     single=False, stack1=False, tag='|1d')
    out += vec_cases('util.to_180_range', u.to_180_range, [A('angle', D.angles)], D)
    out += vec_cases('util.to_180_range', u.to_180_range, [A('angle', D.angles3, DOC_RPH)], D,
                     tag='|2d')
    return out


@builder('transform.lla_to_ecef', 'transform.perturb_lla', 'transform.compute_lla_difference',
         'transform.mat_en_from_ll', 'transform.mat_from_rph', 'transform.mat_to_rph',
         'transform.ecef_to_lla')
def b_transform_vec(D):
    t = P().transform
    out = []
    out += vec_cases('transform.lla_to_ecef', t.lla_to_ecef, [A('lla', D.lla, DOC_LLA)], D,
                     scale=R_EARTH)
    out += vec_cases('transform.perturb_lla', t.perturb_lla,
                     [A('lla', D.lla, DOC_LLA), A('dr_n', D.dr, DOC_NED)], D)
    out += vec_cases('transform.compute_lla_difference', t.compute_lla_difference,
                     [A('lla1', D.lla2, DOC_LLA), A('lla2', D.lla, DOC_LLA)], D, scale=1.0)
    out += vec_cases('transform.compute_lla_difference', t.compute_lla_difference,
                     [A('lla1', D.lla + [1e-4, -1e-4, 3.0], DOC_LLA),
                      A('lla2', D.lla[D.i], DOC_LLA, mode='const')], D, scale=1.0,
                     single=False, stack1=False, tag='|stack-vs-point')
    out += vec_cases('transform.mat_en_from_ll', t.mat_en_from_ll,
                     [A('lat', D.lat), A('lon', D.lon)], D)
    out += vec_cases('transform.mat_from_rph', t.mat_from_rph, [A('rph', D.rph, DOC_RPH)], D)
    rot = t.mat_from_rph(D.rph.copy())
    out += vec_cases('transform.mat_to_rph', t.mat_to_rph, [A('mat', rot)], D, tol=1e-9)
    ecef = t.lla_to_ecef(D.lla.copy())
    out += vec_cases('transform.ecef_to_lla', t.ecef_to_lla,
                     [A('r_e', ecef, kinds=['ndarray', 'fortran', 'strided'])], D, tol=1e-9)
    return out


@builder('transform.lla_to_ned')
def b_lla_to_ned(D):
    t = P().transform
    nm = 'transform.lla_to_ned'
    base = D.lla[:1] + np.column_stack([np.cumsum(D.rs.uniform(-1e-3, 1e-3, (D.n, 2)), axis=0),
                                        D.rs.uniform(-30, 30, D.n)])
    origin = base[0] + [1e-4, -2e-4, 5.0]
    i = D.i
    out = []

    def sch(res, ctx):
        return sch_table(res, DOC_NED, ctx.watch['lla'].index, NA, None)

    for kind in KINDS:
        def build(D_, kind=kind):
            lla = conv(base, kind, DOC_LLA, D.tindex)
            return Ctx(dict(lla=lla), lambda: t.lla_to_ned(lla))
        out.append(Case(nm, f"{kind}/stack|origin=None", build, group=nm + '|none',
                        scale=R_EARTH, schema=sch if kind == 'pandas' else None))
    for okind in ('ndarray', 'strided', 'list', 'tuple'):
        for kind in (('ndarray', 'pandas', 'list') if okind == 'ndarray' else ('ndarray',)):
            def build(D_, kind=kind, okind=okind):
                lla = conv(base, kind, DOC_LLA, D.tindex)
                o = conv(origin, okind)
                return Ctx(dict(lla=lla, lla_origin=o), lambda: t.lla_to_ned(lla, o))
            out.append(Case(nm, f"{kind}/stack|origin={okind}", build, group=nm + '|given',
                            scale=R_EARTH, schema=sch if kind == 'pandas' else None))
    for kind in ('ndarray', 'pandas'):
        def build(D_, kind=kind):
            lla = conv(base[i:i + 1], kind, DOC_LLA, D.tindex[i:i + 1])
            o = conv(origin, 'ndarray')
            return Ctx(dict(lla=lla, lla_origin=o), lambda: t.lla_to_ned(lla, o))
        out.append(Case(nm, f"{kind}/stack1|origin=ndarray", build, group=nm + '|given',
                        expect=lambda R: row_of(R, slice(i, i + 1)), scale=R_EARTH,
                        schema=sch if kind == 'pandas' else None))
    return out


@builder('transform.translate_trajectory')
def b_translate(D):
    t = P().transform
    nm = 'transform.translate_trajectory'
    lever = np.array([1.5, -0.7, 0.4])
    k = 3 + D.i
    out = []

    def sch(res, ctx):
        tr = ctx.watch['trajectory']
        if isinstance(tr, pd.Series):
            return sch_series(res, tr.index)
        return sch_table(res, list(tr.columns), tr.index)

    for rate in (False, True):
        grp = f"{nm}|rate={int(rate)}"
        src = (lambda: D.traj_rate()) if rate else (lambda: D.traj_att())
        for lk in ('ndarray', 'strided', 'list', 'tuple'):
            def build(D_, lk=lk, src=src):
                tr, lv = src().iloc[:40], conv(lever, lk)
                return Ctx(dict(trajectory=tr, translation_b=lv),
                           lambda: t.translate_trajectory(tr, lv))
            out.append(Case(nm, f"DataFrame,{lk}|rate={int(rate)}", build, group=grp, schema=sch))
        for own in (False, True):
            for lk in ('ndarray', 'list'):
                def build(D_, lk=lk, own=own, rate=rate):
                    pva, lv = D.pva(k, rate=rate, own=own), conv(lever, lk)
                    return Ctx(dict(trajectory=pva, translation_b=lv),
                               lambda: t.translate_trajectory(pva, lv))
                out.append(Case(nm, f"Series({'own' if own else 'row'}),{lk}|rate={int(rate)}",
                                build, group=grp, expect=lambda R: R.iloc[k], schema=sch))
    return out


@builder('transform.resample_state')
def b_resample(D):
    t = P().transform
    nm = 'transform.resample_state'
    tr0 = D.traj_att()
    t0, t1 = tr0.index[0], tr0.index[-1]
    times = np.concatenate([D.rs.uniform(t0, t1, 12), [t0, t1, t1 + 1.0, t0 - 0.5],
                            tr0.index[5:8].to_numpy()])
    D.rs.shuffle(times)
    want = np.sort(times)
    want = want[(want >= t0) & (want <= t1)]
    out = []
    for sub, cols in (('full', None), ('norph', DOC_LLA + DOC_VEL), ('rate', 'rate')):
        def sch(res, ctx):
            st = ctx.watch['state']
            return sch_table(res, list(st.columns), want)
        for kind in ('ndarray', 'strided', 'list', 'tuple', 'pandas', 'index'):
            def build(D_, kind=kind, cols=cols):
                st = D.traj_rate() if cols == 'rate' else D.traj_att() if cols is None \
                    else D.traj_att()[cols]
                tm = pd.Index(times.copy()) if kind == 'index' else conv(times, kind)
                return Ctx(dict(state=st, times=tm), lambda: t.resample_state(st, tm))
            out.append(Case(nm, f"DataFrame({sub}),times={kind}", build, group=f"{nm}|{sub}",
                            schema=sch))
    return out


@builder('transform.compute_state_difference')
def b_state_diff(D):
    t = P().transform
    nm = 'transform.compute_state_difference'
    out = []
    k = 3 + D.i

    def sch_full(res, ctx):
        first, second = ctx.watch['first'], ctx.watch['second']
        if isinstance(first, pd.Series):
            return sch_series(res, DOC_TRAJECTORY_ERROR)
        a, b = first.index, second.index
        common = a if len(a) <= len(b) else b
        return sch_table(res, DOC_TRAJECTORY_ERROR, common)

    def pair(kind):
        comp, true = D.computed(True), D.traj()
        if kind == 'same':
            return comp, true
        if kind == 'sparse2':
            return comp, true.iloc[::D.mstep]
        if kind == 'sparse1':
            return comp.iloc[::D.mstep], true
        raise KeyError(kind)

    for kind in ('same', 'sparse2', 'sparse1'):
        def build(D_, kind=kind):
            a, b = pair(kind)
            return Ctx(dict(first=a, second=b), lambda: t.compute_state_difference(a, b))
        out.append(Case(nm, f"DataFrame,DataFrame|{kind}", build, group=f"{nm}|{kind}",
                        schema=sch_full, scale=R_EARTH))
    # the same tables held in Fortran-ordered blocks
    def build_f(D_):
        a, b = pair('same')
        a = pd.DataFrame(np.asfortranarray(a.to_numpy()), index=a.index, columns=a.columns)
        b = pd.DataFrame(np.asfortranarray(b.to_numpy()), index=b.index, columns=b.columns)
        return Ctx(dict(first=a, second=b), lambda: t.compute_state_difference(a, b))
    out.append(Case(nm, "DataFrame(F),DataFrame(F)|same", build_f, group=f"{nm}|same",
                    schema=sch_full, scale=R_EARTH))
    # Series vs row of the table result (angles via Slerp in the table path: 1e-9)
    def build_s(D_):
        a, b = pair('same')
        a, b = a.iloc[k], b.iloc[k]
        return Ctx(dict(first=a, second=b), lambda: t.compute_state_difference(a, b))
    out.append(Case(nm, "Series,Series|same", build_s, group=f"{nm}|same",
                    expect=lambda R: R.iloc[k], schema=sch_full, scale=R_EARTH))
    # partial column sets
    for cols, doc in ((DOC_LLA, DOC_NED), (DOC_VEL, DOC_VEL), (DOC_LLA + DOC_RPH, DOC_NED + DOC_RPH)):
        def build(D_, cols=cols):
            a, b = pair('same')
            a, b = a[cols], b[cols]
            return Ctx(dict(first=a, second=b), lambda: t.compute_state_difference(a, b))
        out.append(Case(nm, f"DataFrame,DataFrame|cols={'+'.join(cols)}", build,
                        schema=lambda res, ctx, doc=doc: sch_table(res, doc, ctx.watch['first'].index)))
    return out


@builder('transform.smooth_rotations', 'transform.smooth_state')
def b_smooth(D):
    t = P().transform
    from scipy.spatial.transform import Rotation
    out = []

    def build_r(D_, k=5.0):
        rph = D.traj_att()[DOC_RPH].to_numpy()[:120]
        rot = Rotation.from_euler('xyz', rph, True)
        return Ctx(dict(rotations=rot, rph=rph),
                   lambda: t.smooth_rotations(rot, D.dt, k * D.dt))
    # nearby smoothing times (same rounded window length, different cut-off; other lengths)
    out.append(Case('transform.smooth_rotations', 'Rotation', build_r,
                    variants=[(f"smoothing_time={k}*dt", (lambda D_, k=k: build_r(D_, k)))
                              for k in (5.2, 4.8, 5.45, 7.0)]))
    for sub in ('full', 'norph'):
        def build(D_, sub=sub, k=6.0):
            st = D.traj_att() if sub == 'full' else D.traj_att()[DOC_LLA + DOC_VEL]
            return Ctx(dict(state=st), lambda: t.smooth_state(st, k * D.dt))
        out.append(Case('transform.smooth_state', f"DataFrame({sub})", build,
                        schema=lambda res, ctx: sch_table(res, list(ctx.watch['state'].columns)),
                        variants=[(f"smoothing_time={k}*dt", (lambda D_, sub=sub, k=k: build(D_, sub, k)))
                                  for k in (6.24, 5.8, 6.45, 4.0)]))
    return out


@builder('kalman.compute_process_matrices', 'kalman.correct')
def b_kalman(D):
    k = P().kalman
    rs = np.random.RandomState(D.seed + 1950 + D.rnd)
    n, m = 6, 3
    F = rs.normal(0, 0.3, (n, n))
    G = rs.normal(0, 0.1, (n, n))
    Q = G @ G.T
    L = rs.normal(0, 1, (n, n))
    Pm = L @ L.T + np.eye(n)
    x = rs.normal(0, 1, n)
    H = rs.normal(0, 1, (m, n))
    z = rs.normal(0, 1, m)
    Rm = np.diag(rs.uniform(0.5, 2, m))
    out = []
    nd = ['ndarray', 'fortran', 'strided']
    for kind in nd:
        for dtk in ('float', 'np.float64'):
            def build(D_, kind=kind, dtk=dtk):
                f, q = conv(F, kind), conv(Q, kind)
                dt = 0.37 if dtk == 'float' else np.float64(0.37)
                return Ctx(dict(F=f, Q=q, dt=dt), lambda: k.compute_process_matrices(f, q, dt))
            out.append(Case('kalman.compute_process_matrices', f"{kind},dt={dtk}", build,
                            group='kalman.compute_process_matrices'))
    for kind in nd:
        def build(D_, kind=kind):
            a = dict(x=conv(x, kind if kind != 'fortran' else 'ndarray'), P=conv(Pm, kind),
                     z=conv(z, kind if kind != 'fortran' else 'ndarray'), H=conv(H, kind),
                     R=conv(Rm, kind))
            return Ctx(a, lambda: k.correct(a['x'], a['P'], a['z'], a['H'], a['R']))
        out.append(Case('kalman.correct', kind, build, group='kalman.correct'))
    return out


# ---------------------------------------------------------------------------------------
# 8. builders: error_model, inertial_sensor, measurements
def _frame_forms(df):
    """The same table in C-ordered and Fortran-ordered blocks."""
    yield 'DataFrame', df
    yield 'DataFrame(F)', pd.DataFrame(np.asfortranarray(df.to_numpy()), index=df.index,
                                       columns=df.columns)


@builder('error_model.InsErrorModel.__init__', 'error_model.InsErrorModel.n_states',
         'error_model.InsErrorModel.system_matrices', 'error_model.InsErrorModel.transform_to_output',
         'error_model.InsErrorModel.transform_to_internal', 'error_model.InsErrorModel.correct_pva',
         'error_model.InsErrorModel.position_error_jacobian',
         'error_model.InsErrorModel.ned_velocity_error_jacobian',
         'error_model.InsErrorModel.body_velocity_error_jacobian')
def b_ins_error_model(D):
    EM = P().error_model.InsErrorModel
    pre = 'error_model.InsErrorModel.'
    k = 3 + D.i
    lever = np.array([0.8, -1.2, 0.5])
    out = []
    for wa in (True, False):
        w = f"|alt={int(wa)}"
        out.append(Case(pre + '__init__', f"with_altitude={wa}",
                        lambda D_, wa=wa: Ctx({}, lambda: EM(wa)),
                        schema=lambda res, ctx, wa=wa: [] if res.states == (DOC_STATES_3D if wa else DOC_STATES_2D)
                        else [f"states {res.states}"]))

        def build_n(D_, wa=wa):
            m = EM(wa)
            return Ctx({}, lambda: m.n_states, recv=lambda: m)
        out.append(Case(pre + 'n_states', f"property{w}", build_n,
                        schema=lambda res, ctx, wa=wa: [] if res == (9 if wa else 7) else [f"n_states={res}"]))
        # trajectory-or-pva methods
        for meth in ('system_matrices', 'transform_to_output'):
            grp = pre + meth + w
            for rate in (False, True):
                for fname in ('DataFrame', 'DataFrame(F)'):
                    def build(D_, meth=meth, rate=rate, fname=fname, wa=wa):
                        tr = (D.traj_rate() if rate else D.traj_att()).iloc[:30]
                        tr = dict(_frame_forms(tr))[fname]
                        m = EM(wa)
                        return Ctx(dict(trajectory=tr), lambda: getattr(m, meth)(tr), recv=lambda: m)
                    out.append(Case(pre + meth, f"{fname}{'+rate' if rate else ''}{w}", build, group=grp))
            for own in (False, True):
                for rate in (False, True):
                    def build(D_, meth=meth, own=own, rate=rate, wa=wa):
                        pva = D.pva(k, rate=rate, own=own)
                        m = EM(wa)
                        return Ctx(dict(trajectory=pva), lambda: getattr(m, meth)(pva), recv=lambda: m)
                    out.append(Case(pre + meth, f"Series({'own' if own else 'row'}){'+rate' if rate else ''}{w}",
                                    build, group=grp, expect=lambda R: row_of(R, k)))
        # pva-only methods
        def pva_cases(meth, extra_forms, call, wa=wa, w=w):
            grp = pre + meth + w
            for own in (False, True):
                for rate in (False, True):
                    for ef in extra_forms:
                        def build(D_, own=own, rate=rate, ef=ef, wa=wa):
                            pva = D.pva(k, rate=rate, own=own)
                            m = EM(wa)
                            watch, fn = call(m, pva, ef)
                            watch = dict(watch, pva=pva)
                            return Ctx(watch, fn, recv=lambda: m)
                        out.append(Case(pre + meth,
                                        f"Series({'own' if own else 'row'}){'+rate' if rate else ''},{ef}{w}",
                                        build, group=grp + f"|rate={int(rate)}|{ef.split(':')[0]}"))
        pva_cases('transform_to_internal', ['-'], lambda m, pva, ef: ({}, lambda: m.transform_to_internal(pva)))
        pva_cases('body_velocity_error_jacobian', ['-'],
                  lambda m, pva, ef: ({}, lambda: m.body_velocity_error_jacobian(pva)))

        def lever_call(meth):
            def call(m, pva, ef):
                lv = None if ef == 'none:None' else conv(lever, ef.split(':')[1])
                return dict(imu_to_antenna_b=lv), lambda: getattr(m, meth)(pva, lv)
            return call
        lev_forms = ['none:None', 'lever:ndarray', 'lever:strided', 'lever:list', 'lever:tuple']
        pva_cases('position_error_jacobian', lev_forms, lever_call('position_error_jacobian'))
        pva_cases('ned_velocity_error_jacobian', lev_forms, lever_call('ned_velocity_error_jacobian'))
        # correct_pva (pva with exactly the nine Pva elements; x : ndarray)
        xs = np.concatenate([D.rs.normal(0, 2, 3), D.rs.normal(0, 0.2, 3), D.rs.normal(0, 2e-3, 3)])
        xs = xs if wa else xs[[0, 1, 3, 4, 6, 7, 8]]
        for own in (False, True):
            for xk in ('ndarray', 'strided'):
                def build(D_, own=own, xk=xk, xs=xs, wa=wa):
                    pva, x, m = D.pva(k, own=own), conv(xs, xk), EM(wa)
                    return Ctx(dict(pva=pva, x=x), lambda: m.correct_pva(pva, x), recv=lambda: m)
                out.append(Case(pre + 'correct_pva', f"Series({'own' if own else 'row'}),x={xk}{w}", build,
                                group=pre + 'correct_pva' + w,
                                schema=lambda res, ctx: sch_series(res, DOC_TRAJECTORY)))
    return out


@builder('error_model.propagate_errors')
def b_propagate(D):
    em = P().error_model
    nm = 'error_model.propagate_errors'
    ge, ae = np.array([2e-6, -1e-6, 3e-6]), np.array([2e-3, 1e-3, -3e-3])
    out = []

    def sch(wa):
        def f(res, ctx):
            tr = ctx.watch['trajectory']
            if not (isinstance(res, tuple) and len(res) == 2):
                return [f"expected (trajectory_error, model_error), got {type(res).__name__}"]
            return (sch_table(res[0], DOC_TRAJECTORY_ERROR, tr.index, NA, None, 'trajectory_error') +
                    sch_table(res[1], DOC_STATES_3D if wa else DOC_STATES_2D, tr.index, NA, None,
                              'model_error'))
        return f

    for wa in (True, False):
        w = f"|alt={int(wa)}"
        def build0(D_, wa=wa):
            tr = D.traj_att().iloc[:80]
            return Ctx(dict(trajectory=tr), lambda: em.propagate_errors(tr, with_altitude=wa))
        out.append(Case(nm, f"defaults{w}", build0, schema=sch(wa)))
        for kind in ('ndarray', 'strided', 'list', 'tuple', 'pandas', 'stacked-ndarray',
                     'stacked-fortran', 'stacked-DataFrame'):
            def build(D_, kind=kind, wa=wa):
                tr = D.traj_att().iloc[:80]
                pe = D.pva_error()
                if kind.startswith('stacked'):
                    g, a = np.tile(ge, (len(tr), 1)), np.tile(ae, (len(tr), 1))
                    if kind == 'stacked-fortran':
                        g, a = np.asfortranarray(g), np.asfortranarray(a)
                    if kind == 'stacked-DataFrame':
                        g, a = pd.DataFrame(g, index=tr.index), pd.DataFrame(a, index=tr.index)
                else:
                    g, a = conv(ge, kind), conv(ae, kind)
                return Ctx(dict(trajectory=tr, pva_error=pe, gyro_error=g, accel_error=a),
                           lambda: em.propagate_errors(tr, pe, g, a, wa))
            out.append(Case(nm, f"errors={kind}{w}", build, group=nm + w, schema=sch(wa)))
    return out


def _est_kwargs():
    """Constructor argument sets for EstimationModel: (tag, kwargs as plain numbers)."""
    return [
        ('none', dict()),
        ('bias+noise', dict(bias_sd=0.01, noise=0.001)),
        ('full', dict(bias_sd=[1e-2, 2e-2, 3e-2], noise=[1e-3, 2e-3, 1e-3], bias_walk=[1e-5, 0.0, 2e-5],
                      scale_misal_sd=[[1e-3, 2e-4, 0.0], [0.0, 1e-3, 3e-4], [1e-4, 0.0, 1e-3]])),
        ('partial', dict(bias_sd=[1e-2, 0.0, 3e-2], noise=[0.0, 2e-3, 1e-3],
                         scale_misal_sd=[[0.0, 0.0, 0.0], [0.0, 1e-3, 0.0], [0.0, 0.0, 1e-3]])),
    ]


def _est_args(kw, kind):
    """kwargs in a given form: scalars stay python floats for 'list' and become arrays of three
    equal numbers for the array kinds (documented: float = same for each sensor)."""
    out = {}
    for k, v in kw.items():
        if np.ndim(v) == 0:
            out[k] = float(v) if kind in ('list', 'tuple') else np.float64(v) if kind == 'strided' \
                else np.resize(np.float64(v), (3, 3) if k == 'scale_misal_sd' else (3,))
        else:
            o = conv(np.asarray(v, dtype=float), kind)
            out[k] = conv(np.asarray(v, dtype=float), 'ndarray') if o is NA else o
    return out


@builder('inertial_sensor.EstimationModel.__init__', 'inertial_sensor.EstimationModel.output_matrix',
         'inertial_sensor.EstimationModel.reset_estimates', 'inertial_sensor.EstimationModel.update_estimates',
         'inertial_sensor.EstimationModel.correct_increments', 'inertial_sensor.EstimationModel.get_estimates')
def b_estimation_model(D):
    EM = P().inertial_sensor.EstimationModel
    pre = 'inertial_sensor.EstimationModel.'
    out = []
    i = D.i
    readings = D.vec
    for tag, kw in _est_kwargs():
        states = states_of(kw)
        sch_states = (lambda res, ctx, states=states: [] if res.states == states
                      else [f"states {res.states} != documented {states}"])
        for kind in ('ndarray', 'fortran', 'strided', 'list', 'tuple'):
            if not kw and kind != 'ndarray':
                continue
            def build(D_, kw=kw, kind=kind):
                a = _est_args(kw, kind)
                return Ctx(a, lambda: EM(**a))
            out.append(Case(pre + '__init__', f"{tag}:{kind}", build, group=pre + '__init__|' + tag,
                            schema=sch_states))

        def fresh(kind='ndarray', kw=kw):
            a = _est_args(kw, kind)
            return a, EM(**a)

        def polluted(m, seed=7):
            x = np.random.RandomState(D.seed + seed).normal(0, 1e-3, m.n_states)
            m.update_estimates(x)
            return m
        # output_matrix
        rk = ['ndarray', 'fortran', 'strided', 'list', 'tuple', 'pandas']
        if states and any(s.startswith('sm_') for s in states):
            def fn_out(r, kw=kw):
                a, m = fresh(kw=kw)
                return m.output_matrix(r)
            out += vec_cases(pre + 'output_matrix', fn_out, [A('readings', readings, DOC_GYRO)], D,
                             kinds=rk, tag='|' + tag)
        else:
            def build(D_, kw=kw):
                a, m = fresh(kw=kw)
                return Ctx(a, lambda: m.output_matrix(), recv=lambda: m)
            out.append(Case(pre + 'output_matrix', f"readings=None|{tag}", build))
        if not states:
            continue
        # update_estimates / reset_estimates / get_estimates
        xs = np.random.RandomState(D.seed + 3).normal(0, 1e-3, len(states))
        for xk in ('ndarray', 'strided', 'list', 'tuple', 'pandas'):
            def build(D_, xk=xk, kw=kw, xs=xs, states=states):
                a, m = fresh('list', kw)
                x = pd.Series(xs.copy(), index=states) if xk == 'pandas' else conv(xs, xk)
                return Ctx(dict(a, x=x), lambda: m.update_estimates(x), recv=lambda: m)
            out.append(Case(pre + 'update_estimates', f"x={xk}|{tag}", build,
                            group=pre + 'update_estimates|' + tag))

        def build_reset(D_, kw=kw):
            a, m = fresh('ndarray', kw)
            polluted(m)
            return Ctx(a, lambda: m.reset_estimates(), recv=lambda: m)
        out.append(Case(pre + 'reset_estimates', tag, build_reset))

        def build_get(D_, kw=kw):
            a, m = fresh('ndarray', kw)
            polluted(m)
            return Ctx(a, lambda: m.get_estimates(), recv=lambda: m)
        out.append(Case(pre + 'get_estimates', tag, build_get,
                        schema=lambda res, ctx, states=states: sch_series(res, states)))
        # correct_increments: table (dt in several forms) and single row
        grp = pre + 'correct_increments|' + tag
        for cols in (DOC_THETA, DOC_DV):
            for dk in ('Series', 'ndarray', 'list'):
                if cols is DOC_DV and dk != 'Series':
                    continue
                def build(D_, cols=cols, dk=dk, kw=kw):
                    a, m = fresh('ndarray', kw)
                    polluted(m)
                    inc = D.inc().iloc[:50]
                    dt = inc['dt'] if dk == 'Series' else inc['dt'].to_numpy().copy() if dk == 'ndarray' \
                        else inc['dt'].tolist()
                    tab = inc[cols]
                    return Ctx(dict(a, dt=dt, increments=tab), lambda: m.correct_increments(dt, tab),
                               recv=lambda: m)
                out.append(Case(pre + 'correct_increments', f"DataFrame({cols[0][:-2]}),dt={dk}|{tag}", build,
                                group=grp + cols[0],
                                schema=lambda res, ctx: sch_table(res, list(ctx.watch['increments'].columns),
                                                                  ctx.watch['increments'].index)))
            def build_s(D_, cols=cols, kw=kw):
                a, m = fresh('ndarray', kw)
                polluted(m)
                row = D.inc().iloc[3 + i]
                dt, ser = float(row['dt']), row[cols]
                return Ctx(dict(a, dt=dt, increments=ser), lambda: m.correct_increments(dt, ser),
                           recv=lambda: m)
            out.append(Case(pre + 'correct_increments', f"Series({cols[0][:-2]}),dt=float|{tag}", build_s,
                            group=grp + cols[0], expect=lambda R: R.iloc[3 + i],
                            schema=lambda res, ctx: sch_series(res, list(ctx.watch['increments'].index))))
    return out


def _par_states(transform, bias, bias_walk):
    xyz = 'xyz'
    bw = np.resize(np.asarray(0.0 if bias_walk is None else bias_walk, dtype=float), 3)
    b = np.zeros(3) if bias is None else np.asarray(bias, dtype=float)
    T = np.eye(3) if transform is None else np.asarray(transform, dtype=float)
    out = [f"bias_{xyz[k]}" for k in range(3) if b[k] != 0 or bw[k] != 0]
    out += [f"sm_{xyz[i]}{xyz[j]}" for i in range(3) for j in range(3) if T[i, j] != (1 if i == j else 0)]
    return out


@builder('inertial_sensor.Parameters.__init__', 'inertial_sensor.Parameters.from_EstimationModel',
         'inertial_sensor.Parameters.apply', 'inertial_sensor.apply_imu_parameters')
def b_parameters(D):
    isn = P().inertial_sensor
    PA = isn.Parameters
    pre = 'inertial_sensor.Parameters.'
    T = np.array([[1.001, 2e-4, 0.0], [0.0, 0.999, -3e-4], [1e-4, 0.0, 1.0]])
    b = np.array([1e-3, -2e-3, 0.0])
    noise = np.array([1e-4, 2e-4, 1e-4])
    walk = np.array([1e-5, 0.0, 0.0])
    seed = D.seed + 61
    out = []

    def pargs(kind, scalar_noise=False):
        c = (lambda v: conv(v, kind) if conv(v, kind) is not NA else conv(v, 'ndarray'))
        return dict(transform=c(T), bias=c(b), noise=(1e-4 if scalar_noise else c(noise)), bias_walk=c(walk))

    for kind in ('ndarray', 'fortran', 'strided', 'list', 'tuple'):
        def build(D_, kind=kind):
            a = pargs(kind)
            return Ctx(a, lambda: PA(rng=seed, **a))
        out.append(Case(pre + '__init__', kind, build, group=pre + '__init__', seeded='int'))
    out.append(Case(pre + '__init__', 'defaults,rng=int', lambda D_: Ctx({}, lambda: PA(rng=seed)), seeded='int'))
    out.append(Case(pre + '__init__', 'defaults,rng=None', lambda D_: Ctx({}, lambda: PA().bias),
                    seeded='none'))                   # construction alone must not draw numbers
    # apply
    for st in ('rate', 'increment'):
        for cols in (DOC_GYRO, DOC_ACCEL):
            for kind, fname in (('ndarray', 'DataFrame'), ('list', 'DataFrame'), ('ndarray', 'DataFrame(F)')):
                def build(D_, st=st, cols=cols, kind=kind, fname=fname):
                    a = pargs(kind)
                    p = PA(rng=seed, **a)
                    rd = dict(_frame_forms(D.imu(st)[cols]))[fname]
                    return Ctx(dict(a, readings=rd), lambda: p.apply(rd, st), recv=lambda: p)

                def sch(res, ctx):
                    rd = ctx.watch['readings']
                    pr = sch_table(res, list(rd.columns), rd.index)
                    df = ctx.recv().data_frame
                    pr += sch_table(df, _par_states(T, b, walk), rd.index, NA, None, 'data_frame')
                    return pr
                out.append(Case(pre + 'apply', f"{fname}({cols[0][:-2]}),{st},params={kind}", build,
                                group=f"{pre}apply|{st}|{cols[0]}", schema=sch, seeded='int'))

    # documented attribute data_frame: one column per non-zero parameter, named like EstimationModel.states
    psets = {
        'walk-only': dict(bias_walk=np.array([0.0, 2e-5, 0.0])),
        'walk-only(scalar)': dict(bias_walk=1e-5),
        'noise-only': dict(noise=np.array([1e-4, 0.0, 2e-4])),
        'scale-only': dict(transform=np.diag([1.001, 1.0, 0.998])),
        'misalignment-only': dict(transform=np.array([[1.0, 1e-4, 0.0], [0.0, 1.0, 0.0], [-2e-4, 0.0, 1.0]])),
        'bias-only': dict(bias=np.array([0.0, 1e-3, 0.0])),
        'bias+walk-on-other-axes': dict(bias=np.array([1e-3, 0.0, 0.0]), bias_walk=np.array([0.0, 0.0, 3e-5]),
                                        transform=np.array([[1.0, 0.0, 2e-4], [0.0, 1.002, 0.0], [0.0, 0.0, 1.0]])),
        'nothing': dict(),
    }
    for pname, kw in psets.items():
        for st in ('rate', 'increment'):
            def build(D_, kw=kw, st=st):
                a = {k: np.array(v, dtype=float) if not np.isscalar(v) else v for k, v in kw.items()}
                p = PA(rng=seed, **a)
                rd = D.imu(st)[DOC_ACCEL]
                return Ctx(dict(a, readings=rd), lambda: p.apply(rd, st), recv=lambda: p)

            def sch(res, ctx, kw=kw):
                rd = ctx.watch['readings']
                pr = sch_table(res, list(rd.columns), rd.index)
                pr += sch_table(ctx.recv().data_frame,
                                _par_states(kw.get('transform'), kw.get('bias'), kw.get('bias_walk')),
                                rd.index, NA, None, 'data_frame')
                return pr
            out.append(Case(pre + 'apply', f"DataFrame(accel),{st},params:{pname}", build, schema=sch,
                            seeded='int'))

    def build_glob(D_):
        p = PA(bias=b.copy(), noise=noise.copy(), bias_walk=walk.copy())
        rd = D.imu('rate')[DOC_GYRO]
        return Ctx(dict(readings=rd), lambda: p.apply(rd, 'rate'), recv=lambda: p)
    out.append(Case(pre + 'apply', 'DataFrame,rng=None (documented global generator)', build_glob,
                    seeded='global', repeat=False))
    # from_EstimationModel
    for tag, kw in _est_kwargs()[1:]:
        def build(D_, kw=kw):
            m = isn.EstimationModel(**_est_args(kw, 'list'))
            return Ctx(dict(model=m), lambda: PA.from_EstimationModel(m, rng=seed))
        out.append(Case(pre + 'from_EstimationModel', f"{tag},rng=int", build, seeded='int'))

        def build2(D_, kw=kw):
            m = isn.EstimationModel(**_est_args(kw, 'list'))
            rd = D.imu('rate')[DOC_GYRO]

            def call():
                p = PA.from_EstimationModel(m, rng=seed)
                return p.apply(rd, 'rate'), p.data_frame
            return Ctx(dict(model=m, readings=rd), call)
        out.append(Case(pre + 'from_EstimationModel', f"{tag},rng=int,then apply", build2, seeded='int'))

    def build3(D_):
        m = isn.EstimationModel(**_est_args(_est_kwargs()[2][1], 'list'))
        return Ctx(dict(model=m), lambda: PA.from_EstimationModel(m).bias)
    out.append(Case(pre + 'from_EstimationModel', 'full,rng=None (documented global generator)', build3,
                    seeded='global', repeat=False))
    # apply_imu_parameters
    nm = 'inertial_sensor.apply_imu_parameters'
    for st in ('rate', 'increment'):
        for fname in ('DataFrame', 'DataFrame(F)'):
            def build(D_, st=st, fname=fname):
                gp = PA(rng=seed, **pargs('ndarray'))
                ap = PA(rng=seed + 1, **pargs('list', True))
                imu = dict(_frame_forms(D.imu(st)))[fname]
                return Ctx(dict(imu=imu, gyro_parameters=gp, accel_parameters=ap),
                           lambda: isn.apply_imu_parameters(imu, st, gp, ap),
                           exempt=('gyro_parameters.data_frame', 'accel_parameters.data_frame'),
                           recv=lambda: (gp, ap))
            def sch_imu(res, ctx):
                ix = ctx.watch['imu'].index
                pr = sch_table(res, DOC_IMU, ix)
                for who in ('gyro_parameters', 'accel_parameters'):
                    pr += sch_table(ctx.watch[who].data_frame, _par_states(T, b, walk), ix, NA, None,
                                    who + '.data_frame')
                return pr
            out.append(Case(nm, f"{fname},{st},Parameters(rng=int)", build, group=f"{nm}|{st}", seeded='int',
                            schema=sch_imu))

    def build_w(D_):
        gp = PA(rng=seed, bias_walk=np.array([0.0, 1e-5, 0.0]))
        ap = PA(rng=seed + 1, bias=np.array([0.0, 0.0, 1e-3]), bias_walk=np.array([2e-5, 0.0, 0.0]))
        imu = D.imu('rate')
        return Ctx(dict(imu=imu, gyro_parameters=gp, accel_parameters=ap),
                   lambda: isn.apply_imu_parameters(imu, 'rate', gp, ap),
                   exempt=('gyro_parameters.data_frame', 'accel_parameters.data_frame'), recv=lambda: (gp, ap))

    def sch_w(res, ctx):
        ix = ctx.watch['imu'].index
        pr = sch_table(res, DOC_IMU, ix)
        pr += sch_table(ctx.watch['gyro_parameters'].data_frame, ['bias_y'], ix, NA, None, 'gyro data_frame')
        pr += sch_table(ctx.watch['accel_parameters'].data_frame, ['bias_x', 'bias_z'], ix, NA, None,
                        'accel data_frame')
        return pr
    out.append(Case(nm, 'DataFrame,rate,Parameters(walk-only axes)', build_w, seeded='int', schema=sch_w))

    def build_d(D_):
        imu = D.imu('rate')
        return Ctx(dict(imu=imu), lambda: isn.apply_imu_parameters(imu, 'rate'))
    out.append(Case(nm, 'DataFrame,rate,default parameters (documented global generator)', build_d,
                    seeded='global', repeat=False,
                    schema=lambda res, ctx: sch_table(res, DOC_IMU, ctx.watch['imu'].index)))
    return out


@builder('measurements.Measurement.__init__', 'measurements.Measurement.compute_matrices',
         'measurements.Position.__init__', 'measurements.Position.compute_matrices',
         'measurements.NedVelocity.__init__', 'measurements.NedVelocity.compute_matrices',
         'measurements.BodyVelocity.__init__', 'measurements.BodyVelocity.compute_matrices')
def b_measurements(D):
    ms = P().measurements
    EM = P().error_model.InsErrorModel
    lever = np.array([0.9, -0.4, 1.1])
    out = []

    def data_of(cls):
        return D.meas(dict(Position='pos', NedVelocity='vel', BodyVelocity='body', Measurement='pos')[cls])

    def cols_of(cls):
        return dict(Position=DOC_LLA, NedVelocity=DOC_VEL, BodyVelocity=DOC_BODY_VEL, Measurement=DOC_LLA)[cls]

    def make(cls, data, lk):
        C = getattr(ms, cls)
        if cls == 'Measurement':
            return {}, C(data)
        if cls == 'BodyVelocity':
            return {}, C(data, 0.2)
        lv = None if lk == 'None' else conv(lever, lk)
        return dict(imu_to_antenna_b=lv), C(data, 1.5, lv)

    for cls in ('Measurement', 'Position', 'NedVelocity', 'BodyVelocity'):
        pre = f"measurements.{cls}."
        lks = ['-'] if cls in ('Measurement', 'BodyVelocity') else ['None', 'ndarray', 'strided', 'list', 'tuple']
        for lk in lks:
            for extra_cols in (False, True):
                def build(D_, cls=cls, lk=lk, extra_cols=extra_cols):
                    data = data_of(cls)
                    if extra_cols:
                        data['quality'] = 1.0
                    w, _ = make(cls, data, lk)

                    def call():
                        return make(cls, data, lk)[1]
                    return Ctx(dict(w, data=data), call)
                out.append(Case(pre + '__init__', f"lever={lk}{',extra column' if extra_cols else ''}", build,
                                group=pre + '__init__' + ('|x' if extra_cols else '') + ('|none' if lk == 'None' else ''),
                                schema=lambda res, ctx, cls=cls: sch_table(
                                    res.data, cols_of(cls) if cls != 'Measurement' else None,
                                    ctx.watch['data'].index, NA, None, 'data')))
        if cls == 'Measurement':
            def build_b(D_):
                data = data_of('Measurement')
                m = ms.Measurement(data)
                pva, em = D.pva(), EM(True)
                return Ctx(dict(data=data, pva=pva, error_model=em),
                           lambda: m.compute_matrices(float(data.index[2]), pva, em), recv=lambda: m)
            out.append(Case(pre + 'compute_matrices', 'abstract (documented NotImplementedError)', build_b,
                            expect_exc=NotImplementedError))
            continue
        for wa in (True, False):
            for lk in lks:
                for rate in (True, False):
                    for hit in (True, False):
                        if not hit and (lk not in ('-', 'None') or not rate):
                            continue
                        def build(D_, cls=cls, wa=wa, lk=lk, rate=rate, hit=hit):
                            data = data_of(cls)
                            w, m = make(cls, data, lk)
                            tm = float(data.index[2]) + (0.0 if hit else 0.5 * D.dt)
                            k = int(round(tm / D.dt))
                            pva, em = D.pva(k, rate=rate), EM(wa)
                            return Ctx(dict(w, data=data, time=tm, pva=pva, error_model=em),
                                       lambda: m.compute_matrices(tm, pva, em), recv=lambda: m)

                        def sch(res, ctx, hit=hit):
                            if not hit:
                                return [] if res is None else ["measurement not available at `time` must give None"]
                            return [] if isinstance(res, tuple) and len(res) == 3 else ["expected (z, H, R)"]
                        out.append(Case(pre + 'compute_matrices',
                                        f"lever={lk},alt={int(wa)},{'pva+rate' if rate else 'pva'},"
                                        f"{'available' if hit else 'no epoch'}", build,
                                        group=f"{pre}compute_matrices|{int(wa)}|{int(rate)}|{int(hit)}|{lk == 'None'}",
                                        schema=sch))
    return out


# ---------------------------------------------------------------------------------------
# 9. builders: sim, strapdown
@builder('sim.generate_imu', 'sim.generate_sine_velocity_motion')
def b_sim_motion(D):
    sim = P().sim
    out = []
    nm = 'sim.generate_imu'
    for st in ('rate', 'increment'):
        for opt in ('lla+vel', 'lla', 'lla0+vel'):
            kinds = ['ndarray', 'fortran', 'strided', 'list', 'tuple', 'pandas']
            for kind in kinds:
                for tk in (('ndarray', 'index', 'list', 'tuple') if kind == 'ndarray' else
                           ('list',) if kind == 'list' else ('tuple',) if kind == 'tuple' else ('ndarray',)):
                    def build(D_, st=st, opt=opt, kind=kind, tk=tk):
                        tr = D.traj_att().iloc[:60]
                        tm = tr.index.to_numpy().copy()
                        c = lambda v, cols: conv(v, kind, cols, tr.index) if conv(v, kind, cols, tr.index) \
                            is not NA else conv(v, 'ndarray')
                        time_ = tm if tk == 'ndarray' else pd.Index(tm) if tk == 'index' else \
                            tm.tolist() if tk == 'list' else tuple(tm.tolist())
                        lla = c(tr[DOC_LLA].to_numpy(), DOC_LLA) if opt != 'lla0+vel' \
                            else c(tr[DOC_LLA].to_numpy()[0], DOC_LLA)
                        rph = c(tr[DOC_RPH].to_numpy(), DOC_RPH)
                        vel = None if opt == 'lla' else c(tr[DOC_VEL].to_numpy(), DOC_VEL)
                        return Ctx(dict(time=time_, lla=lla, rph=rph, velocity_n=vel),
                                   lambda: sim.generate_imu(time_, lla, rph, vel, st), info=dict(n=len(tm)))
                    out.append(Case(nm, f"{kind},time={tk},{opt},{st}", build, group=f"{nm}|{opt}|{st}",
                                    schema=lambda res, ctx: sch_traj_imu(res, np.asarray(ctx.watch['time']),
                                                                         ctx.info['n']),
                                    tol=1e-9, scale=1.0))
    nm = 'sim.generate_sine_velocity_motion'
    for st in ('rate', 'increment'):
        for kind in ('list', 'tuple', 'ndarray', 'strided', 'pandas'):
            for amp in ('vector', 'scalar'):
                if amp == 'scalar' and kind not in ('list', 'ndarray'):
                    continue
                def build(D_, st=st, kind=kind, amp=amp):
                    c = lambda v, cols=None: conv(np.asarray(v, dtype=float), kind, cols)
                    a = dict(lla0=c(D.lla0, DOC_LLA), velocity_mean=c(D.vmean, DOC_VEL),
                             velocity_change_amplitude=(c(D.vamp, DOC_VEL) if amp == 'vector' else
                                                        c(0.75) if kind == 'ndarray' else 0.75),
                             velocity_change_phase_offset=c([10.0, 80.0, 30.0]))
                    n = len(np.arange(0, 12.0, D.dt))
                    return Ctx(a, lambda: sim.generate_sine_velocity_motion(
                        D.dt, 12.0, a['lla0'], a['velocity_mean'], a['velocity_change_amplitude'],
                        D.period, a['velocity_change_phase_offset'], st), info=dict(n=n))
                out.append(Case(nm, f"{kind},amplitude={amp},{st}", build, group=f"{nm}|{amp}|{st}",
                                schema=lambda res, ctx: sch_traj_imu(res, np.arange(0, 12.0, D.dt), ctx.info['n'])))

        def build_def(D_, st=st):
            a = dict(lla0=list(D.lla0), velocity_mean=list(D.vmean))
            return Ctx(a, lambda: sim.generate_sine_velocity_motion(D.dt, 8.0, a['lla0'], a['velocity_mean'],
                                                                    sensor_type=st))
        out.append(Case(nm, f"defaults,{st}", build_def, schema=lambda res, ctx: sch_traj_imu(res)))
    return out


@builder('sim.generate_position_measurements', 'sim.generate_ned_velocity_measurements',
         'sim.generate_body_velocity_measurements', 'sim.generate_pva_error', 'sim.perturb_pva')
def b_sim_meas(D):
    sim = P().sim
    out = []
    seed = D.seed + 71
    for fn, cols in (('generate_position_measurements', DOC_LLA), ('generate_ned_velocity_measurements', DOC_VEL),
                     ('generate_body_velocity_measurements', DOC_BODY_VEL)):
        nm = 'sim.' + fn
        for fname in ('DataFrame', 'DataFrame(F)', 'DataFrame(subset)', 'DataFrame+rate'):
            for sdk in (('float', 'int') if fname == 'DataFrame' else ('float',)):
                def build(D_, fn=fn, fname=fname, sdk=sdk):
                    tr = D.traj_rate() if fname == 'DataFrame+rate' else D.traj_att()
                    if fname == 'DataFrame(F)':
                        tr = dict(_frame_forms(tr))[fname]
                    if fname == 'DataFrame(subset)':
                        tr = tr.iloc[::D.mstep]
                    sd = 2.0 if sdk == 'float' else 2
                    return Ctx(dict(trajectory=tr, error_sd=sd),
                               lambda: getattr(sim, fn)(tr, sd, rng=seed))
                out.append(Case(nm, f"{fname},sd={sdk},rng=int", build, seeded='int',
                                group=f"{nm}|{fname == 'DataFrame(subset)'}",
                                schema=lambda res, ctx, cols=cols: sch_table(res, cols, ctx.watch['trajectory'].index)))

        def build_g(D_, fn=fn):
            tr = D.traj_att().iloc[:20]
            return Ctx(dict(trajectory=tr), lambda: getattr(sim, fn)(tr, 2.0))
        out.append(Case(nm, 'DataFrame,rng=None (documented global generator)', build_g, seeded='global',
                        repeat=False,
                        schema=lambda res, ctx, cols=cols: sch_table(res, cols, ctx.watch['trajectory'].index)))
    nm = 'sim.generate_pva_error'
    for sdk in ('float', 'int', 'np.float64'):
        def build(D_, sdk=sdk):
            c = dict(float=float, int=int)[sdk] if sdk != 'np.float64' else np.float64
            a = [c(3), c(2), c(1), c(4)]
            return Ctx(dict(args=a), lambda: sim.generate_pva_error(a[0], a[1], a[2], a[3], rng=seed))
        out.append(Case(nm, f"sd={sdk},rng=int", build, seeded='int', group=nm,
                        schema=lambda res, ctx: sch_series(res, DOC_TRAJECTORY_ERROR)))
    out.append(Case(nm, 'rng=None (documented global generator)',
                    lambda D_: Ctx({}, lambda: sim.generate_pva_error(1.0, 0.1, 0.1, 0.5)), seeded='global',
                    repeat=False, schema=lambda res, ctx: sch_series(res, DOC_TRAJECTORY_ERROR)))
    nm = 'sim.perturb_pva'
    for own in (False, True):
        for rate in (False, True):
            def build(D_, own=own, rate=rate):
                pva, pe = D.pva(rate=rate, own=own), D.pva_error()
                return Ctx(dict(pva=pva, pva_error=pe), lambda: sim.perturb_pva(pva, pe))
            out.append(Case(nm, f"Series({'own' if own else 'row'}){'+rate' if rate else ''}", build,
                            group=f"{nm}|{int(rate)}",
                            schema=lambda res, ctx: sch_series(res, list(ctx.watch['pva'].index))))
    return out


ENV_PROBES = {}


def env_probe(name):
    """Environment probes: a library call pyins relies on that this scipy/numpy rejects."""
    if name not in ENV_PROBES:
        if name == 'scipy-from_euler-single-axis-1d':
            from scipy.spatial.transform import Rotation
            try:
                Rotation.from_euler('x', np.zeros(4), True)
                ENV_PROBES[name] = None
            except Exception as e:
                ENV_PROBES[name] = f"{type(e).__name__}: {e}"
        else:
            ENV_PROBES[name] = None
    return ENV_PROBES[name]


@builder('sim.Turntable.__init__', 'sim.Turntable.rotate', 'sim.Turntable.rest', 'sim.Turntable.generate_imu')
def b_turntable(D):
    TT = P().sim.Turntable
    pre = 'sim.Turntable.'
    rph = np.array([0.5, -0.3, 20.0])
    out = []

    def make(kind, full=True):
        lla = conv(np.asarray(D.lla0), kind, DOC_LLA)
        a = dict(table_lla=lla)
        if full:
            a['table_rph'] = conv(rph, kind, DOC_RPH)
            return a, TT(lla, a['table_rph'], 0.01, 25, 30)
        return a, TT(lla)

    def script(tb):
        tb.rest(0.5)
        tb.rotate('inner', 90)
        tb.rotate('outer', -45.0, 10, 15, 'tilt')
        tb.rest(0.4, 'pause')

    for kind in ('list', 'tuple', 'ndarray', 'strided', 'pandas'):
        for full in (True, False):
            def build(D_, kind=kind, full=full):
                a, _ = make(kind, full)
                return Ctx(a, lambda: (TT(a['table_lla'], a['table_rph'], 0.01, 25, 30) if full
                                       else TT(a['table_lla'])))
            out.append(Case(pre + '__init__', f"{kind}{'' if full else ',defaults'}", build,
                            group=pre + '__init__|' + str(full)))

        def build_rot(D_, kind=kind):
            a, tb = make(kind)
            tb.rest(0.5)
            return Ctx(a, lambda: (tb.rotate('inner', 90), tb.rotate('outer', -30.0, 10, 15, 'tilt')),
                       recv=lambda: tb)
        out.append(Case(pre + 'rotate', kind, build_rot, group=pre + 'rotate'))

        def build_rest(D_, kind=kind):
            a, tb = make(kind)
            tb.rotate('outer', 20)
            return Ctx(a, lambda: (tb.rest(1.5), tb.rest(0.25, 'x')), recv=lambda: tb)
        out.append(Case(pre + 'rest', kind, build_rest, group=pre + 'rest'))
        for st in ('rate', 'increment'):
            def build_gen(D_, kind=kind, st=st):
                a, tb = make(kind)
                script(tb)
                return Ctx(a, lambda: tb.generate_imu(0.02, st), recv=lambda: tb)

            def sch(res, ctx):
                pr = sch_traj_imu(res)
                if isinstance(res, tuple) and len(res) == 3:
                    if not (isinstance(res[2], np.ndarray) and len(res[2]) == len(res[0])):
                        pr.append("labels: expected ndarray with one label per sample")
                else:
                    pr.append("expected (trajectory, imu, labels)")
                return pr
            out.append(Case(pre + 'generate_imu', f"{kind},{st}", build_gen, group=f"{pre}generate_imu|{st}",
                            schema=sch, tol=1e-9, scale=1.0, env_blocked='scipy-from_euler-single-axis-1d'))
    return out


@builder('strapdown.compute_increments_from_imu')
def b_increments(D):
    sd = P().strapdown
    nm = 'strapdown.compute_increments_from_imu'
    out = []
    for st in ('rate', 'increment'):
        for fname in ('DataFrame', 'DataFrame(F)', 'DataFrame(+column)', 'DataFrame(reordered)'):
            def build(D_, st=st, fname=fname):
                imu = D.imu(st)
                if fname == 'DataFrame(F)':
                    imu = dict(_frame_forms(imu))[fname]
                if fname == 'DataFrame(+column)':
                    imu['temperature'] = 20.0
                if fname == 'DataFrame(reordered)':
                    imu = imu[DOC_ACCEL + DOC_GYRO]
                return Ctx(dict(imu=imu), lambda: sd.compute_increments_from_imu(imu, st))
            out.append(Case(nm, f"{fname},{st}", build, group=f"{nm}|{st}",
                            schema=lambda res, ctx: sch_table(res, DOC_INCREMENTS, ctx.watch['imu'].index[1:],
                                                              NA, len(ctx.watch['imu']) - 1)))
    return out


@builder('strapdown.Integrator.__init__', 'strapdown.Integrator.integrate', 'strapdown.Integrator.predict',
         'strapdown.Integrator.get_time', 'strapdown.Integrator.get_pva', 'strapdown.Integrator.set_pva')
def b_integrator(D):
    IT = P().strapdown.Integrator
    pre = 'strapdown.Integrator.'
    out = []
    for wa in (True, False):
        w = f"|alt={int(wa)}"
        for own in (False, True):
            o = 'own' if own else 'row'

            def start(own=own, wa=wa, n0=20):
                pva = D.pva(0, own=own)           # VD != 0 on purpose (with_altitude=False zeroes a copy)
                it = IT(pva, wa)
                if n0:
                    it.integrate(D.inc().iloc[:n0])
                return pva, it

            def build_init(D_, own=own, wa=wa):
                pva = D.pva(0, own=own)
                return Ctx(dict(pva=pva), lambda: IT(pva, wa))
            out.append(Case(pre + '__init__', f"Series({o}){w}", build_init, group=pre + '__init__' + w,
                            schema=lambda res, ctx: sch_table(res.trajectory, DOC_TRAJECTORY, None, 'time', 1,
                                                              'trajectory')))
            for fname in ('DataFrame', 'DataFrame(F)', 'DataFrame(+column)'):
                def build_int(D_, fname=fname, start=start):
                    pva, it = start(n0=0)
                    inc = D.inc()
                    if fname == 'DataFrame(F)':
                        inc = dict(_frame_forms(inc))[fname]
                    if fname == 'DataFrame(+column)':
                        inc['flag'] = 1.0
                    a, b = inc.iloc[:70], inc.iloc[70:150]

                    def call():
                        r1 = it.integrate(a)
                        r2 = it.integrate(b)
                        return r1, r2, it.trajectory
                    return Ctx(dict(pva=pva, increments=inc, chunk1=a, chunk2=b), call, recv=lambda: it,
                               info=dict(t0=pva.name))

                def sch(res, ctx):
                    a, b = ctx.watch['chunk1'], ctx.watch['chunk2']
                    t0 = [ctx.info['t0']]
                    return (sch_table(res[0], DOC_TRAJECTORY, np.concatenate([t0, a.index]), 'time', None, 'chunk 1') +
                            sch_table(res[1], DOC_TRAJECTORY, np.concatenate([a.index[-1:], b.index]), 'time', None,
                                      'chunk 2') +
                            sch_table(res[2], DOC_TRAJECTORY, np.concatenate([t0, a.index, b.index]), 'time', None,
                                      'Integrator.trajectory'))
                out.append(Case(pre + 'integrate', f"{fname},pva=Series({o}){w}", build_int,
                                group=pre + 'integrate' + w, schema=sch))

            def build_pred(D_, start=start):
                pva, it = start()
                row = D.inc().iloc[20]
                return Ctx(dict(pva=pva, increment=row), lambda: it.predict(row), recv=lambda: it)
            out.append(Case(pre + 'predict', f"Series(row),pva=Series({o}){w}", build_pred,
                            group=pre + 'predict' + w, schema=lambda res, ctx: sch_series(res, DOC_TRAJECTORY)))

            def build_pred2(D_, start=start):
                pva, it = start()
                row = D.inc().iloc[20]
                row = pd.Series(np.array(row.to_numpy()), index=list(row.index), name=row.name)
                return Ctx(dict(pva=pva, increment=row), lambda: it.predict(row), recv=lambda: it)
            out.append(Case(pre + 'predict', f"Series(own),pva=Series({o}){w}", build_pred2,
                            group=pre + 'predict' + w, schema=lambda res, ctx: sch_series(res, DOC_TRAJECTORY)))

            def build_time(D_, start=start):
                pva, it = start()
                return Ctx(dict(pva=pva), lambda: it.get_time(), recv=lambda: it)
            out.append(Case(pre + 'get_time', f"pva=Series({o}){w}", build_time, group=pre + 'get_time' + w))

            def build_get(D_, start=start):
                pva, it = start()
                return Ctx(dict(pva=pva), lambda: it.get_pva(), recv=lambda: it)
            out.append(Case(pre + 'get_pva', f"pva=Series({o}){w}", build_get, group=pre + 'get_pva' + w,
                            schema=lambda res, ctx: sch_series(res, DOC_TRAJECTORY)))
            for own2 in (False, True):
                def build_set(D_, start=start, own2=own2):
                    pva, it = start()
                    new = D.pva(25, own=own2)

                    def call():
                        it.set_pva(new)
                        return it.get_pva(), it.integrate(D.inc().iloc[20:30])
                    return Ctx(dict(pva=pva, new_pva=new), call, recv=lambda: it)
                out.append(Case(pre + 'set_pva', f"Series({'own' if own2 else 'row'}),pva=Series({o}){w}",
                                build_set, group=pre + 'set_pva' + w))
    return out


# ---------------------------------------------------------------------------------------
# 10. builders: filters
FILTER_EXEMPT = ('gyro_model.bias', 'gyro_model.transform', 'accel_model.bias', 'accel_model.transform')


def _filter_configs(D):
    cfg = [
        dict(tag='3d,scale-misal,pos+vel+body', wa=True, sm=True, meas=('pos', 'vel', 'body'), models=True,
             variants=('plain', 'reused', 'polluted', 'lever-list', 'int-sd', 'fortran')),
        dict(tag='2d,bias-only,pos+vel', wa=False, sm=False, meas=('pos', 'vel'), models=True,
             variants=('plain', 'reused', 'polluted')),
        dict(tag='3d,default-models,no-measurements', wa=True, sm=False, meas=None, models=False,
             variants=('plain',)),
    ]
    if D.rnd > 0:
        cfg.append(dict(tag='2d,scale-misal,pos+body', wa=False, sm=True, meas=('pos', 'body'), models=True,
                        variants=('plain', 'reused', 'polluted', 'fortran')))
        cfg.append(dict(tag='3d,bias-only,empty-list', wa=True, sm=False, meas=(), models=True,
                        variants=('plain', 'reused')))
    return cfg


def _filter_inputs(D, c, variant):
    ms = P().measurements
    lever = np.array([0.6, -0.3, 0.9])
    lv = lever.tolist() if variant == 'lever-list' else lever.copy()
    watch = {}
    meas = None
    if c['meas'] is not None:
        meas = []
        for kind in c['meas']:
            data = D.meas(kind)
            watch['data_' + kind] = data
            if kind == 'pos':
                meas.append(ms.Position(data, 1.0, lv))
            elif kind == 'vel':
                meas.append(ms.NedVelocity(data, 0.1, lv))
            else:
                meas.append(ms.BodyVelocity(data, 0.1))
        watch['imu_to_antenna_b'] = lv
    gm = D.est_model('gyro', c['sm']) if c['models'] else None
    am = D.est_model('accel', c['sm']) if c['models'] else None
    if variant == 'polluted' and gm is not None:
        rs = np.random.RandomState(D.seed + 83)
        gm.update_estimates(rs.normal(0, 1e-4, gm.n_states))
        am.update_estimates(rs.normal(0, 1e-2, am.n_states))
    sds = (3, 1, 1, 2) if variant == 'int-sd' else (3.0, 1.0, 1.0, 2.0)
    inc = D.inc()
    if variant == 'fortran':
        inc = dict(_frame_forms(inc))['DataFrame(F)']
    watch.update(increments=inc, gyro_model=gm, accel_model=am, measurements=meas, sds=sds)
    return watch, meas, gm, am, sds, inc


def _filter_schema(kind, c):
    def f(res, ctx):
        if not isinstance(res, dict):
            return [f"expected Bunch, got {type(res).__name__}"]
        want = ['trajectory', 'trajectory_sd', 'gyro', 'gyro_sd', 'accel', 'accel_sd', 'innovations']
        miss = [k for k in want if k not in res]
        if miss:
            return [f"Bunch fields missing: {miss}"]
        gs = states_of(dict(bias_sd=1e-5, scale_misal_sd=np.full((3, 3), 1e-3) if c['sm'] else None)) \
            if c['models'] else []
        as_ = states_of(dict(bias_sd=[1e-2, 2e-2, 1e-2],
                             scale_misal_sd=[[1e-3, 0, 0], [0, 1e-3, 0], [0, 1e-4, 1e-3]] if c['sm'] else None)) \
            if c['models'] else []
        inc = ctx.watch['increments']
        pr = []
        if kind == 'feedback':
            t0 = ctx.watch['initial_pva'].name
            pr += sch_table(res['trajectory'], DOC_TRAJECTORY, np.concatenate([[t0], inc.index]), NA, None,
                            'trajectory')
        else:
            pr += sch_table(res['trajectory'], DOC_TRAJECTORY, None, NA, None, 'trajectory')
        pr += sch_table(res['trajectory_sd'], DOC_TRAJECTORY_ERROR, None, NA, None, 'trajectory_sd')
        n = len(res['trajectory_sd'])
        for k, st in (('gyro', gs), ('gyro_sd', gs), ('accel', as_), ('accel_sd', as_)):
            pr += sch_table(res[k], st, res['trajectory_sd'].index, NA, n, k)
        names = dict(pos='Position', vel='NedVelocity', body='BodyVelocity')
        wantk = [names[m] for m in (c['meas'] or ())]
        if list(res['innovations'].keys()) != wantk:
            pr.append(f"innovations keys {list(res['innovations'].keys())} != measurement class names {wantk}")
        for k, v in res['innovations'].items():
            if not isinstance(v, pd.DataFrame):
                pr.append(f"innovations[{k}] is {type(v).__name__}, documented DataFrame")
        return pr
    return f


@builder('filters.run_feedback_filter', 'filters.run_feedforward_filter')
def b_filters(D):
    fl = P().filters
    out = []
    for kind in ('feedback', 'feedforward'):
        nm = f"filters.run_{kind}_filter"
        for c in _filter_configs(D):
            for variant in c['variants']:
                def build(D_, c=c, variant=variant, kind=kind):
                    watch, meas, gm, am, sds, inc = _filter_inputs(D, c, variant)
                    if kind == 'feedback':
                        pva0 = D.pva0()
                        watch['initial_pva'] = pva0

                        def run():
                            return fl.run_feedback_filter(pva0, sds[0], sds[1], sds[2], sds[3], inc, gm, am, meas,
                                                          time_step=0.5, with_altitude=c['wa'])
                    else:
                        nominal, comp = D.traj(), D.computed(c['wa'])
                        if variant == 'fortran':
                            nominal = dict(_frame_forms(nominal))['DataFrame(F)']
                            comp = dict(_frame_forms(comp))['DataFrame(F)']
                        watch.update(trajectory_nominal=nominal, trajectory=comp)

                        def run():
                            return fl.run_feedforward_filter(nominal, comp, sds[0], sds[1], sds[2], sds[3], gm, am,
                                                             meas, inc if c['sm'] or variant == 'fortran' else None,
                                                             time_step=0.5, with_altitude=c['wa'])
                    if variant == 'reused':
                        def call():
                            run()                    # leaves estimates in gm / am
                            return run()
                    else:
                        call = run
                    return Ctx(watch, call, exempt=FILTER_EXEMPT)
                exact = variant in ('plain', 'reused', 'polluted')
                out.append(Case(nm, f"{c['tag']}|{variant}", build,
                                group=f"{nm}|{c['tag']}",
                                tol=0 if exact else 1e-7, group_kind='determinism' if exact else 'forms',
                                schema=_filter_schema(kind, c), heavy=True, repeat=(variant == 'plain')))
    return out


# ---------------------------------------------------------------------------------------
# 11. runner
def all_cases(D):
    cases, errors, seen = [], [], set()
    for nm, f in BUILDERS.items():
        if id(f) in seen:
            continue
        seen.add(id(f))
        try:
            cases += f(D)
        except Exception:
            errors.append(([k for k, g in BUILDERS.items() if g is f], traceback.format_exc()))
    return cases, errors


def _global_state():
    s = np.random.get_state()
    return (s[0], s[1].tobytes(), s[2], s[3], s[4]), random.getstate()


class Runner:
    def __init__(self, r=None, seed=0, n_rounds=1, verbose=False):
        self.r, self.seed, self.n_rounds, self.verbose = r, seed, n_rounds, verbose
        self.fails = []            # dict(callable, form, kind, what, replay)
        self.brokens = []          # (name, detail)
        self.findings = []         # recorded findings on the reference tree
        self.blocked = {}          # callable -> environment probe message
        self.global_rng_users = []
        self.exempt_seen = set()
        self.forms = {}            # callable -> [forms]
        self.kind_counts = dict(mutation=0, determinism=0, forms=0, schema=0)
        self.group_ref = {}
        self.first = {}            # (name, form) -> snapshot of the first result
        self.timing = {}

    def say(self, *a):
        if self.verbose:
            print(*a, flush=True)

    def fail(self, case_name, form, kind, what, D, extra=None):
        rep = dict(key=f"{case_name}|{kind}", callable=case_name, form=form, kind=kind, seed=self.seed,
                   round=D.rnd if D is not None else 0, n_rounds=self.n_rounds, what=what)
        if D is not None:
            rep['data'] = D.params()
        if extra:
            rep.update(extra)
        self.fails.append(dict(callable=case_name, form=form, kind=kind, what=what, replay=rep))
        self.say(f"FAIL [{kind}] {case_name} <{form}>: {what}")

    def broken(self, name, detail):
        self.brokens.append((name, detail))
        self.say(f"BROKEN {name}: {str(detail)[-600:]}")

    # -- one call with argument snapshots
    def one_call(self, case, D):
        ctx = case.build(D)
        w = dict(ctx.watch)
        w['<defaults>'] = _defaults_of(case.name)
        before = snap(w, True)
        refs = [(p, o, snap(o, True)) for p, o in collect_refs(w)]
        ex = ctx.exempt

        def exempt(p):
            hit = any(p == e or p.startswith(e + '.') or p.startswith(e + '[') or p.startswith(e + ' ')
                      for e in ex)
            if hit:
                self.exempt_seen.add(f"{case.name}: {p.split(' ')[0]}")
            return hit
        g0 = _global_state()
        exc = tb = res = None
        with warnings.catch_warnings():
            warnings.simplefilter('ignore')
            try:
                res = ctx.call()
            except Exception as e:          # noqa
                exc, tb = e, traceback.format_exc()
        g1 = _global_state()
        after = snap(w, True)
        mut = [p for p in snap_diffs(before, after) if not exempt(p)]
        for p, o, s in refs:
            if snap(o, True) != s and not exempt(p) and not any(m == p or m.startswith(p) for m in mut):
                mut.append(p + ' (original object modified in place)')
        sn = None
        if exc is None:
            sn = snap((res, ctx.recv() if ctx.recv else None))
        return dict(ctx=ctx, res=res, exc=exc, tb=tb, mut=mut, rng=(g0 != g1), snap=sn)

    def handle_exception(self, case, c, D):
        msg = f"{type(c['exc']).__name__}: {c['exc']}"
        if 'read-only' in msg or 'read only' in msg:
            self.fail(case.name, case.form, 'mutation',
                      f"attempted in-place write to caller's data ({msg})", D)
        elif case.group and case.group in self.group_ref and self.group_ref[case.group][0] != case.form:
            # the same input in the reference form is accepted: this documented form is not
            self.fail(case.name, case.form, 'forms',
                      f"documented argument form raises {msg} while form <{self.group_ref[case.group][0]}> "
                      f"of the same input succeeds", D)
        else:
            self.broken(f"{case.name} <{case.form}>", c['tb'])

    def ensure_ref(self, case, D, cases):
        if case.group and case.group not in self.group_ref:
            first = next(k for k in cases if k.group == case.group)
            if first is not case:
                self.check_case(first, D, cases)

    def check_case(self, case, D, cases, interleave=()):
        r = self.r
        self.forms.setdefault(case.name, [])
        if case.form not in self.forms[case.name]:
            self.forms[case.name].append(case.form)
        if r is not None:
            r.case((case.name, case.form, D.rnd), sample=dict(callable=case.name, form=case.form))
        try:
            c1 = self.one_call(case, D)
        except Exception:
            self.broken(f"{case.name} <{case.form}> (building the arguments)", traceback.format_exc())
            return
        # mutation is checked whatever the outcome of the call was
        self.kind_counts['mutation'] += 1
        if c1['mut']:
            self.fail(case.name, case.form, 'mutation',
                      f"argument(s) changed by the call: {c1['mut'][:6]}", D)
        blocked = case.env_blocked and env_probe(case.env_blocked)
        if blocked:
            self.blocked[case.name] = f"{case.env_blocked}: {blocked}"
            if c1['exc'] is None:
                self.broken(f"{case.name} <{case.form}>", "environment probe fails but the call succeeded")
            return
        if case.expect_exc is not None:
            if not isinstance(c1['exc'], case.expect_exc):
                self.broken(f"{case.name} <{case.form}>",
                            f"documented {case.expect_exc.__name__} not raised: {c1['exc']!r}")
            return
        if c1['exc'] is not None:
            self.handle_exception(case, c1, D)
            return
        # global generator
        if case.seeded == 'global':
            if c1['rng']:
                u = f"{case.name} <{case.form}>"
                if u not in self.global_rng_users:
                    self.global_rng_users.append(u)
        elif c1['rng']:
            self.fail(case.name, case.form, 'determinism',
                      "numpy/python GLOBAL random generator state changed by the call "
                      f"(seeded={case.seeded})", D)
        # b. determinism
        if case.repeat and case.seeded != 'global':
            self.kind_counts['determinism'] += 1
            for other in interleave:
                try:
                    with warnings.catch_warnings():
                        warnings.simplefilter('ignore')
                        other.build(D).call()
                except Exception:
                    pass
            try:
                c2 = self.one_call(case, D)
            except Exception:
                self.broken(f"{case.name} <{case.form}> (second call)", traceback.format_exc())
                return
            if c2['exc'] is not None:
                self.fail(case.name, case.form, 'determinism',
                          f"second call with equal inputs raised {type(c2['exc']).__name__}: {c2['exc']}", D)
            elif c2['snap'] != c1['snap']:
                d = snap_diffs(c1['snap'], c2['snap'])
                self.fail(case.name, case.form, 'determinism',
                          f"two calls with equal inputs differ bit-wise at {d[:5]} "
                          f"([0]=returned value, [1]=receiver state)", D)
            if c2['mut'] and not c1['mut']:
                self.fail(case.name, case.form, 'mutation',
                          f"argument(s) changed by the second call: {c2['mut'][:6]}", D)
            if not case.heavy:
                self.first[(case.name, case.form)] = (case, c1['snap'])
        # c. forms
        if case.group:
            if case.group not in self.group_ref:
                self.group_ref[case.group] = (case.form, c1['res'])
            else:
                self.kind_counts[case.group_kind] = self.kind_counts.get(case.group_kind, 0) + 1
                rform, ref = self.group_ref[case.group]
                try:
                    want = case.expect(ref) if case.expect else ref
                    d = values_differ(want, c1['res'], case.tol, case.scale)
                except Exception:
                    d = "comparison failed: " + traceback.format_exc()[-300:]
                if d:
                    self.fail(case.name, case.form, case.group_kind,
                              f"result differs from the result for form <{rform}>: {d}", D,
                              extra=dict(reference_form=rform))
        # d. schema
        if case.schema is not None:
            self.kind_counts['schema'] += 1
            try:
                pr = case.schema(c1['res'], c1['ctx'])
            except Exception:
                pr = ["schema check crashed: " + traceback.format_exc()[-400:]]
            if pr:
                self.fail(case.name, case.form, 'schema', '; '.join(pr[:4]), D)

    def third_pass(self, D):
        for (name, form), (case, s1) in list(self.first.items()):
            try:
                c3 = self.one_call(case, D)
            except Exception:
                continue
            if c3['exc'] is None and c3['snap'] != s1:
                d = snap_diffs(s1, c3['snap'])
                self.fail(name, form, 'determinism',
                          f"call repeated at the end of the run differs bit-wise from the first call at {d[:5]} "
                          "(state carried between calls)", D)
        self.first = {}

    def check_constants(self):
        u = P().util
        for k, lit in UTIL_CONSTANTS.items():
            self.kind_counts['schema'] += 1
            got = getattr(u, k, None)
            if got is None or list(got) != list(lit):
                self.fail(f"util.{k}", 'constant', 'schema',
                          f"pyins.util.{k} = {got!r} differs from the documented column list {lit}", None)

    def run_round(self, rnd):
        t0 = time.time()
        D = Data(self.seed, rnd)
        fp = D.fingerprint()
        cases, errors = all_cases(D)
        for names, tb in errors:
            self.broken(f"builder for {names[:3]}...", tb)
        self.group_ref = {}
        py = random.Random(self.seed + 1977 + rnd)
        cheap = [c for c in cases if not c.heavy and c.seeded != 'global' and not c.finding
                 and not c.env_blocked and c.expect_exc is None]
        for case in cases:
            t = time.time()
            inter = py.sample(cheap, 2) if (cheap and not case.heavy) else (py.sample(cheap, 3) if cheap else ())
            self.check_case(case, D, cases, inter)
            self.timing[case.name] = self.timing.get(case.name, 0.0) + time.time() - t
        self.third_pass(D)
        if D.fingerprint() != fp:
            self.broken('data-set integrity', 'base arrays of the harness data set were modified')
        self.say(f"round {rnd}: {len(cases)} cases, {time.time() - t0:.1f}s")
        return D, cases


# ---------------------------------------------------------------------------------------
# history independence: the SAME callable with DIFFERENT argument values in between, compared with
# fresh processes in which the calls were made in another order (module-level caches keyed too
# coarsely, counters, memoised designs ... make the result depend on what was called before)
HISTORY_ORDERS = ('rev', 'rot1', 'rot2')


def _history_plan(seed, rnd, only=None, heavy=False):
    """[(name, form, [(label, build, D)])]: per public callable one executable case and its variants:
    explicit nearby parameter values (Case.variants) and the same case on two other data sets
    (other numeric values, other sampling step, other shapes)."""
    Ds = [Data(seed, rnd), Data(seed + 7919, rnd), Data(seed, rnd + 1)]
    tabs = []
    for D in Ds:
        cases, _ = all_cases(D)
        tabs.append(cases)
    other = [{(c.name, c.form): c for c in t} for t in tabs[1:]]
    plan, seen = [], set()
    for c in tabs[0]:
        ok = c.repeat and c.seeded != 'global' and not c.env_blocked and c.expect_exc is None \
            and (heavy or not c.heavy or c.variants)
        if not ok:
            continue
        if only is not None:
            if (c.name, c.form) != tuple(only):
                continue
        elif c.name in seen and not c.variants:
            continue
        seen.add(c.name)
        items = [('same arguments', c.build, Ds[0])] + [(lab, b, Ds[0]) for lab, b in c.variants]
        for k, tab in enumerate(other):
            o = tab.get((c.name, c.form))
            if o is not None:
                items.append((f"data set {k + 2} (other values / step / shapes)", o.build, Ds[k + 1]))
        plan.append((c.name, c.form, items))
    return plan


def _perm(order, m):
    idx = list(range(m))
    if order == 'rev':
        return idx[::-1]
    if order.startswith('rot'):
        k = int(order[3:]) % max(m, 1)
        return idx[k:] + idx[:k]
    return idx


def _history_hashes(R, plan, order):
    """call every item of every plan entry in the given order; {name|form|label: digest}, sequence log"""
    import hashlib
    out = {}
    entries = plan[::-1] if order == 'rev' else plan
    for name, form, items in entries:
        for j in _perm(order, len(items)):
            label, build, D = items[j]
            shim = types.SimpleNamespace(name=name, build=build)
            try:
                c = R.one_call(shim, D)
                h = ('EXC:' + type(c['exc']).__name__) if c['exc'] is not None else \
                    hashlib.md5(repr(c['snap']).encode()).hexdigest()
            except Exception as e:
                h = 'BUILD-EXC:' + type(e).__name__
            out[f"{name}|{form}|{label}"] = h
    return out


def _spawn_history_workers(seed, rnd, only=None, heavy=False):
    import subprocess
    import sys
    import os
    import json
    procs = []
    for order in HISTORY_ORDERS:
        cmd = [sys.executable, '-W', 'ignore', os.path.abspath(__file__), '--history-worker',
               json.dumps(dict(seed=seed, rnd=rnd, order=order, only=only, heavy=heavy))]
        try:
            procs.append((order, subprocess.Popen(cmd, stdout=subprocess.PIPE, stderr=subprocess.PIPE, text=True)))
        except Exception:
            procs.append((order, None))
    return procs


def _history_worker_main(arg):
    import json
    import sys
    a = json.loads(arg)
    R = Runner(None, int(a['seed']), 1, verbose=False)
    with _SingleThreadBlas():
        plan = _history_plan(int(a['seed']), int(a['rnd']), a.get('only'), bool(a.get('heavy')))
        h = _history_hashes(R, plan, a['order'])
    sys.stdout.write("\nHISTORY-RESULT " + json.dumps(h) + "\n")


def history_check(R, seed, rnd, procs, only=None, heavy=False):
    """main-process side: two passes in natural order, then comparison with the fresh processes"""
    import json
    plan = _history_plan(seed, rnd, only, heavy)
    D0 = Data(seed, rnd)
    p1 = _history_hashes(R, plan, 'nat')
    p2 = _history_hashes(R, plan, 'nat')
    R.kind_counts['history'] = R.kind_counts.get('history', 0) + len(p1)
    others = {}
    for order, pr in procs:
        if pr is None:
            R.broken('history worker ' + order, 'could not be started')
            continue
        try:
            so, se = pr.communicate(timeout=900)
        except Exception:
            pr.kill()
            R.broken('history worker ' + order, 'timeout')
            continue
        line = [l for l in so.splitlines() if l.startswith('HISTORY-RESULT ')]
        if pr.returncode != 0 or not line:
            R.broken('history worker ' + order, (se or so)[-1500:])
            continue
        others[order] = json.loads(line[-1][len('HISTORY-RESULT '):])
    reported = set()
    for key, h1 in p1.items():
        name, form, label = key.split('|', 2)
        diffs = []
        if p2.get(key) != h1:
            diffs.append('a second pass in the same process')
        for order, hs in others.items():
            if key in hs and hs[key] != h1:
                diffs.append(f"a fresh process with call order '{order}'")
        if diffs and (name, form) not in reported:
            reported.add((name, form))
            if h1.startswith(('EXC:', 'BUILD-EXC:')) or any(
                    str(hs.get(key, '')).startswith(('EXC:', 'BUILD-EXC:')) for hs in others.values()):
                what = f"call <{label}> raises in one call history and not in another ({diffs})"
            else:
                what = (f"the result of the call <{label}> depends on the calls made before it (same callable with "
                        f"other argument values in between): bit-wise different from {diffs[:3]} — hidden state is "
                        f"carried from one public call to the next")
            R.fail(name, form, 'determinism', what, D0, extra=dict(history=True, item=label))
    return len(p1), sorted(others)



class _SingleThreadBlas:
    """Best effort: run the bundled OpenBLAS single-threaded while the checks run (the matrices
    are tiny; on a loaded machine the thread pool makes a filter run 15x slower).  Restored on exit."""
    def __enter__(self):
        self.saved = []
        try:
            import ctypes
            P()                                   # load pyins (numpy + scipy BLAS) before scanning
            import scipy.linalg                   # noqa
            libs = sorted({l.split()[-1] for l in open('/proc/self/maps') if 'openblas' in l})
            for p in libs:
                L = ctypes.CDLL(p)
                for pre in ('scipy_', ''):
                    for suf in ('', '64_', '_64_'):
                        g, s_ = pre + 'openblas_get_num_threads' + suf, pre + 'openblas_set_num_threads' + suf
                        if hasattr(L, g) and hasattr(L, s_):
                            self.saved.append((getattr(L, s_), int(getattr(L, g)())))
                            getattr(L, s_)(1)
                            break
                    else:
                        continue
                    break
        except Exception:
            pass
        return self

    def __exit__(self, *a):
        for setter, n in self.saved:
            try:
                setter(n)
            except Exception:
                pass


def run_dynamic(r, n_rounds=1):
    """Run the dynamic validation; returns the number of distinct failing (callable, kind)."""
    with _SingleThreadBlas():
        return _run_dynamic(r, n_rounds)


def _run_dynamic(r, n_rounds=1):
    t0 = time.time()
    g_start = _global_state()
    R = Runner(r, r.seed, n_rounds, verbose=bool(getattr(r, 'verbose', False)))
    api = enumerate_api()
    names = [n for n, _ in api]
    R.check_constants()
    ncases = 0
    params = []
    hist_heavy = n_rounds > 1
    hist_procs = _spawn_history_workers(r.seed, 0, heavy=hist_heavy)     # run in parallel with the rounds
    for rnd in range(max(1, n_rounds)):
        try:
            D, cases = R.run_round(rnd)
            ncases += len(cases)
            params.append(D.params())
        except Exception:
            R.broken(f"round {rnd}", traceback.format_exc())
    try:
        hist_n, hist_orders = history_check(R, r.seed, 0, hist_procs, heavy=hist_heavy)
    except Exception:
        hist_n, hist_orders = 0, []
        R.broken('history check', traceback.format_exc())
    # coverage: fail closed
    uncovered = []
    for n in names:
        if n not in BUILDERS:
            uncovered.append(n)
            r.broken('coverage', n, 'no argument builder')
        elif not R.forms.get(n):
            uncovered.append(n)
            r.broken('coverage', n, 'builder produced no executed case')
    seen_b = set()
    for nm, det in R.brokens:
        key = (nm.split(' <')[0], str(det).strip().splitlines()[-1][:120] if str(det).strip() else '')
        if key in seen_b:
            continue
        seen_b.add(key)
        if len(seen_b) <= 12:
            r.broken('dynamic', nm, det)
    # distinct failures
    distinct = {}
    for f in R.fails:
        distinct.setdefault((f['callable'], f['kind']), f)
    for f in list(distinct.values())[:5]:
        r.violation(f"C19 {f['kind']}: {f['callable']} <{f['form']}>: {f['what']}", f['replay'])
    kinds_used = {}
    for n, fs in R.forms.items():
        for f in fs:
            k = f.split('/')[0].split(',')[0].split('|')[0].split(':')[-1]
            kinds_used[k] = kinds_used.get(k, 0) + 1
    slow = sorted(R.timing.items(), key=lambda kv: -kv[1])[:5]
    r.coverage['dynamic'] = dict(
        public_callables=len(names), covered=len(names) - len(uncovered), uncovered=uncovered,
        extra_callables=[e for e in EXTRA if R.forms.get(e)],
        by_kind_of_member={k: sum(1 for _, kk in api if kk == k) for k in sorted(set(k for _, k in api))},
        rounds=max(1, n_rounds), cases=ncases, checks=R.kind_counts,
        forms_per_callable={n: len(R.forms.get(n, [])) for n in names + EXTRA},
        forms_min=min([len(R.forms.get(n, [])) for n in names] or [0]),
        forms_total=sum(len(v) for v in R.forms.values()),
        leading_form_token_distribution=dict(sorted(kinds_used.items(), key=lambda kv: -kv[1])[:25]),
        form_legend=("ndarray=C-contiguous float64 (0-d: np.float64); fortran=F-ordered; strided=non-contiguous "
                     "view of a larger array (0-d: 0-d ndarray); list/tuple=nested python (0-d: float); "
                     "pandas=Series/DataFrame; /stack=n rows, /single=one row, /stack1=1-row stack; "
                     "Series(row)=df.iloc[k], Series(own)=free-standing; DataFrame(F)=Fortran-ordered block"),
        data=params,
        global_rng_users=sorted(R.global_rng_users),
        global_rng_untouched_overall=None,
        documented_exemptions=sorted(R.exempt_seen),
        blocked_by_environment=R.blocked,
        history=dict(calls_compared=hist_n, fresh_process_orders=hist_orders,
                     rule="per public callable: same arguments, nearby parameter values, two other data sets; "
                          "natural order twice in this process vs. reversed / rotated orders in fresh processes"),
        failures=[dict(callable=f['callable'], form=f['form'], kind=f['kind'], what=f['what'][:300])
                  for f in distinct.values()],
        failures_total=len(R.fails), broken=len(R.brokens),
        slowest=[(k, round(v, 2)) for k, v in slow], wall_s=round(time.time() - t0, 1))
    r.coverage['dynamic']['global_rng_untouched_overall'] = (
        (_global_state() == g_start) if not R.global_rng_users else 'documented users ran')
    return len(distinct)


def replay_dynamic(obj):
    """Re-run one recorded failing case on the implementation; 1 if it still fails."""
    print("C19 dynamic replay:", {k: obj.get(k) for k in ('callable', 'form', 'kind', 'seed', 'round')})
    R = Runner(None, int(obj.get('seed', 0)), int(obj.get('n_rounds', 1)), verbose=True)
    if obj.get('form') == 'constant':
        R.check_constants()
    elif obj.get('history'):
        only = [obj['callable'], obj['form']]
        with _SingleThreadBlas():
            procs = _spawn_history_workers(R.seed, 0, only=only, heavy=True)
            history_check(R, R.seed, 0, procs, only=only, heavy=True)
    else:
        D = Data(R.seed, int(obj.get('round', 0)))
        cases, errors = all_cases(D)
        for names, tb in errors:
            print("builder error", names, tb)
        hit = [c for c in cases if c.name == obj['callable'] and c.form == obj['form']]
        if not hit:
            print("case not found (builders changed?)")
            return 1
        case = hit[0]
        cheap = [c for c in cases if not c.heavy and c.seeded != 'global' and not c.finding
                 and not c.env_blocked and c.expect_exc is None]
        R.ensure_ref(case, D, cases)
        if case.group and R.group_ref.get(case.group, (None,))[0] != case.form or not case.group:
            R.check_case(case, D, cases, random.Random(R.seed).sample(cheap, 2) if cheap else ())
        R.third_pass(D)
        for nm, det in R.brokens:
            print("BROKEN", nm, str(det)[-800:])
    same = [f for f in R.fails if f['callable'] == obj['callable'] and f['kind'] == obj['kind']]
    other = [f for f in R.fails if f not in same]
    for f in same:
        print(f"still fails [{f['kind']}] {f['callable']} <{f['form']}>: {f['what']}")
    for f in other:
        print(f"(other failure) [{f['kind']}] {f['callable']} <{f['form']}>: {f['what']}")
    if not same:
        print("no failure of the recorded kind on replay")
    return 1 if (same or (R.brokens and not R.fails)) else 0


if __name__ == '__main__':
    if len(sys.argv) >= 3 and sys.argv[1] == '--history-worker':
        sys.path.insert(0, common.REPO)
        _history_worker_main(sys.argv[2])
