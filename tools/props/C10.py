"""C10 — Feedforward filter terminates and consumes every schedule exactly once.

Proofs: Props/C10.v over the cursor/event model Model/FeedforwardSched.v (times in Q).

Tie between model and code: the schedule machinery of props/C09.py (seeded dyadic schedules,
watchdog, exact comparison of the model trace in Coq by vm_compute) applied to the real
`pyins.filters.run_feedforward_filter`: nominal trajectory = rows of one gentle simulated
trajectory at the chosen stamps, computed trajectory = strapdown integration of the increments
between exactly these stamps (equal index), with and without `increments`.  Observables compared
exactly: index of every result table (trajectory, trajectory_sd, gyro, gyro_sd, accel, accel_sd),
innovations[name].index per sensor (the row time times[i] <= epoch < times[i+1]) and the epochs at
which each sensor's compute_matrices returned a measurement.  The property's own statements are
asserted on the implementation's result: termination (watchdog), tables indexed by a strictly
increasing subset of the input times starting at the first one, no step (including the last one to
the end of the data) longer than max(time_step, local sampling gap), every stamp in [start, end)
used exactly once in time order, all outputs finite.
"""
from props import C09 as S

RULE = S.RULE.replace("IMU sampling", "trajectory sampling") + \
    "; regimes step < gap, step = gap, step > gap, step >= span; with / without `increments`"


def check(r):
    S.run_check(r, 'ff', 'Props/C10.v')


def falsify(r):
    S.run_falsify(r, 'ff')


def replay(obj):
    return S.run_replay(obj)
