"""Cross-run: each seeded change against the checks of the OTHER properties anchored in the files it touches.
Writes seeded/CROSS.json (id -> {check: outcome}).  python tools/seedcross.py [jobs]"""
import os
import re
import sys
import json
import glob
import subprocess
from concurrent.futures import ThreadPoolExecutor

VERIF = os.path.dirname(os.path.dirname(os.path.abspath(__file__)))
props = {}
for l in open(os.path.join(VERIF, 'properties.jsonl')):
    p = json.loads(l)
    props[p['id']] = set(p['anchors']['files'])
jobs = []
for d in sorted(glob.glob(os.path.join(VERIF, 'seeded', '*', 'patch.diff'))):
    sid = os.path.basename(os.path.dirname(d))
    own = sid.split('_')[0]
    files = set(re.findall(r'^\+\+\+ b/(\S+)', open(d).read(), re.M))
    for pid, anchors in props.items():
        if pid != own and files & anchors and os.path.exists(os.path.join(VERIF, 'tools', 'props', pid + '.py')):
            jobs.append((sid, pid))
out_path = os.path.join(VERIF, 'seeded', 'CROSS.json')
res = json.load(open(out_path)) if os.path.exists(out_path) else {}


def run(job):
    sid, pid = job
    if pid in res.get(sid, {}):
        return sid, pid, res[sid][pid]
    p = subprocess.run([sys.executable, os.path.join(VERIF, 'tools', 'seedtest.py'), 'run', sid, pid],
                       stdout=subprocess.PIPE, stderr=subprocess.STDOUT, text=True)
    m = re.search(r'exit (\d+)', p.stdout)
    rc = int(m.group(1)) if m else -1
    conc = any(l.strip().startswith('VIOLATION') and 'no-failing-input-found' not in l for l in p.stdout.splitlines())
    return sid, pid, ('caught, concrete replay' if rc and conc else 'caught, no-failing-input-found' if rc == 1
                      else 'not caught' if rc == 0 else 'error')


n = int(sys.argv[1]) if len(sys.argv) > 1 else 3
print(len(jobs), 'cross runs')
with ThreadPoolExecutor(n) as ex:
    for sid, pid, o in ex.map(run, jobs):
        res.setdefault(sid, {})[pid] = o
        json.dump(res, open(out_path, 'w'), indent=1, sort_keys=True)
        print(sid, pid, o, flush=True)
