"""Symbolic tracing of live pyins functions (translator front-end).

Elements of numpy ``object`` arrays are `Sym` values: hash-consed expression
DAG nodes with overloaded arithmetic and the ufunc-named methods numpy
dispatches to on object arrays (sin, cos, sqrt, deg2rad, ...).  Every
comparison on a symbolic value is answered from a decision vector and recorded,
so that a driver can enumerate all paths.  Anything that needs a concrete float
from a symbol raises TraceError: the translator fails closed.

IR: a node is a tuple (op, *args) with args either node ids, or literal
payloads for 'var' (name), 'const' (python float), 'call' (name, arg ids...).
"""
import math
import types
import numpy as _np

PI = math.pi
# binary64 constants that are read as exact reals (the source writes them as
# np.pi expressions); any other float is read as its shortest round-trip decimal.
PI_CONSTS = {
    PI: "PI",
    PI / 180: "(PI / 180)",
    1 / (PI / 180): "(180 / PI)",
    2 * PI: "(2 * PI)",
    PI / 2: "(PI / 2)",
}


class TraceError(Exception):
    pass


class Ctx:
    """Hash-consing table + decision recorder for one trace."""

    def __init__(self):
        self.nodes = []          # id -> tuple
        self.index = {}          # tuple -> id
        self.decisions = []      # forced decisions (list of bool)
        self.trace = []          # recorded (cond_node_id, bool)
        self.pos = 0

    def mk(self, *t):
        i = self.index.get(t)
        if i is None:
            i = len(self.nodes)
            self.nodes.append(t)
            self.index[t] = i
        return i

    def decide(self, cid):
        # the same condition on the same path gets the same answer
        for c, v in self.trace:
            if c == cid:
                return v
        if self.pos < len(self.decisions):
            v = self.decisions[self.pos]
        else:
            v = True
        self.pos += 1
        self.trace.append((cid, v))
        return v


CTX = None


def new_ctx():
    global CTX
    CTX = Ctx()
    return CTX


def _is_num(x):
    return isinstance(x, (int, float, _np.integer, _np.floating)) and not isinstance(x, bool)


def lift(x):
    if isinstance(x, Sym):
        return x
    if isinstance(x, (bool, _np.bool_)):
        raise TraceError("boolean used as number")
    if _is_num(x):
        return Sym(CTX.mk('const', float(x)))
    if isinstance(x, _np.ndarray) and x.ndim == 0:
        return lift(x.item())
    raise TraceError(f"cannot lift {type(x)} into a symbolic value")


class Cond:
    """Symbolic comparison; bool() asks the decision vector."""
    __slots__ = ('nid',)

    def __init__(self, nid):
        self.nid = nid

    def __bool__(self):
        return CTX.decide(self.nid)

    def __invert__(self):
        return Cond(CTX.mk('not', self.nid))

    def __and__(self, o):
        raise TraceError("symbolic & not supported")
    __or__ = __and__


class Sym:
    __slots__ = ('nid',)
    ndim = 0
    shape = ()

    def __init__(self, nid):
        self.nid = nid

    # -- helpers
    @property
    def node(self):
        return CTX.nodes[self.nid]

    def cval(self):
        n = self.node
        return n[1] if n[0] == 'const' else None

    @staticmethod
    def var(name):
        return Sym(CTX.mk('var', name))

    @staticmethod
    def call(name, *args):
        return Sym(CTX.mk('call', name, *[lift(a).nid for a in args]))

    # -- arithmetic with light, real-valid simplification
    def _bin(self, op, other, swap=False):
        try:
            o = lift(other)
        except TraceError:
            return NotImplemented
        a, b = (o, self) if swap else (self, o)
        ca, cb = a.cval(), b.cval()
        if ca is not None and cb is not None and op != 'div':
            # constants combine in binary64 exactly as Python would have done
            r = {'add': ca + cb, 'sub': ca - cb, 'mul': ca * cb}[op]
            return Sym(CTX.mk('const', r))
        if ca is not None and cb is not None and op == 'div' and cb != 0:
            return Sym(CTX.mk('const', ca / cb))
        if op == 'add':
            if ca == 0:
                return b
            if cb == 0:
                return a
        elif op == 'sub':
            if cb == 0:
                return a
            if ca == 0:
                return -b
        elif op == 'mul':
            if ca == 0 or cb == 0:
                return Sym(CTX.mk('const', 0.0))
            if ca == 1:
                return b
            if cb == 1:
                return a
            if ca == -1:
                return -b
            if cb == -1:
                return -a
        elif op == 'div':
            if ca == 0:
                return Sym(CTX.mk('const', 0.0))
            if cb == 1:
                return a
        return Sym(CTX.mk(op, a.nid, b.nid))

    def __add__(self, o): return self._bin('add', o)
    def __radd__(self, o): return self._bin('add', o, True)
    def __sub__(self, o): return self._bin('sub', o)
    def __rsub__(self, o): return self._bin('sub', o, True)
    def __mul__(self, o): return self._bin('mul', o)
    def __rmul__(self, o): return self._bin('mul', o, True)
    def __truediv__(self, o): return self._bin('div', o)
    def __rtruediv__(self, o): return self._bin('div', o, True)

    def __neg__(self):
        c = self.cval()
        if c is not None:
            return Sym(CTX.mk('const', -c))
        n = self.node
        if n[0] == 'neg':
            return Sym(n[1])
        return Sym(CTX.mk('neg', self.nid))

    def __pos__(self):
        return self

    def __abs__(self):
        c = self.cval()
        if c is not None:
            return Sym(CTX.mk('const', abs(c)))
        return Sym(CTX.mk('abs', self.nid))

    def __pow__(self, p):
        if isinstance(p, Sym):
            p = p.cval()
            if p is None:
                raise TraceError("symbolic exponent")
        if _is_num(p):
            p = float(p)
            c = self.cval()
            if c is not None:
                return Sym(CTX.mk('const', c ** p))
            if p == 0.5:
                return self.sqrt()
            if p == -0.5:
                return 1 / self.sqrt()
            if p == int(p) and 0 <= int(p) <= 8:
                n = int(p)
                if n == 0:
                    return Sym(CTX.mk('const', 1.0))
                r = self
                for _ in range(n - 1):
                    r = r * self
                return r
        raise TraceError(f"unsupported power {p!r}")

    def __rpow__(self, b):
        raise TraceError("symbolic exponent")

    def __mod__(self, m):
        if _is_num(m):
            return Sym(CTX.mk('pymod', self.nid, lift(m).nid))
        raise TraceError("symbolic modulus")

    # -- comparisons
    def _cmp(self, op, o):
        try:
            o = lift(o)
        except TraceError:
            return NotImplemented
        return Cond(CTX.mk(op, self.nid, o.nid))

    def __gt__(self, o): return self._cmp('gt', o)
    def __lt__(self, o): return self._cmp('lt', o)
    def __ge__(self, o): return self._cmp('ge', o)
    def __le__(self, o): return self._cmp('le', o)

    def __eq__(self, o):
        if isinstance(o, Sym):
            return self.nid == o.nid
        return NotImplemented

    def __ne__(self, o):
        r = self.__eq__(o)
        return r if r is NotImplemented else not r

    def __hash__(self):
        return hash(self.nid)

    def __bool__(self):
        raise TraceError("truth value of a symbolic number")

    def __float__(self):
        c = self.cval()
        if c is not None:
            return c
        raise TraceError("float() of a symbolic number")

    def __int__(self):
        raise TraceError("int() of a symbolic number")
    __index__ = __int__

    def __repr__(self):
        return f"S{self.nid}"

    # -- methods numpy dispatches object-array ufuncs to
    def _un(self, op, f=None):
        c = self.cval()
        if c is not None and f is not None:
            try:
                return Sym(CTX.mk('const', f(c)))
            except ValueError:
                pass
        return Sym(CTX.mk(op, self.nid))

    def sin(self): return self._un('sin', math.sin if self.cval() == 0 else None)
    def cos(self): return self._un('cos', math.cos if self.cval() == 0 else None)
    def tan(self): return self._un('tan', math.tan if self.cval() == 0 else None)
    def sqrt(self): return self._un('sqrt', math.sqrt if self.cval() in (0.0, 1.0) else None)
    def arcsin(self): return self._un('asin')
    def arccos(self): return self._un('acos')
    def arctan(self): return self._un('atan')
    def conjugate(self): return self
    def square(self): return self * self
    def absolute(self): return abs(self)
    fabs = absolute

    def arctan2(self, x):
        return Sym(CTX.mk('atan2', self.nid, lift(x).nid))

    def hypot(self, o):
        o = lift(o)
        return (self * self + o * o).sqrt()

    def deg2rad(self):
        return self * Sym(CTX.mk('const', PI / 180))
    radians = deg2rad

    def rad2deg(self):
        return self * Sym(CTX.mk('const', 1 / (PI / 180)))
    degrees = rad2deg

    def copy(self):
        return self

    def item(self):
        return self


# ---------------------------------------------------------------------------
# numpy proxy: constructors return object arrays filled with Sym constants

def _obj(a):
    """Convert any array-like of numbers/Sym into an object ndarray of Sym."""
    if isinstance(a, Sym):
        return a
    arr = _np.asarray(a, dtype=object) if not isinstance(a, _np.ndarray) else a
    if arr.dtype != object:
        arr = arr.astype(object)
    out = _np.empty(arr.shape, dtype=object)
    flat_in = arr.reshape(-1)
    flat_out = out.reshape(-1)
    for i in range(flat_in.size):
        flat_out[i] = lift(flat_in[i])
    return out


def _fill(shape, v):
    out = _np.empty(shape, dtype=object)
    z = lift(v)
    out.reshape(-1)[:] = [z] * out.size
    return out


class NpProxy(types.ModuleType):
    def __init__(self):
        super().__init__('numpy_symproxy')

    # constructors / combinators whose result the traced code may later assign symbolic values into: their
    # numeric result is turned into an object array of symbolic constants (same values, same shape)
    _SYMBOLIZE = ('tile', 'full', 'full_like', 'hstack', 'vstack', 'dstack', 'concatenate', 'stack',
                  'column_stack', 'copy', 'repeat', 'broadcast_to', 'block', 'append', 'insert', 'roll', 'flip',
                  'transpose', 'swapaxes', 'moveaxis', 'reshape', 'squeeze', 'expand_dims', 'ravel', 'triu', 'tril',
                  'outer', 'kron', 'where', 'matmul', 'multiply', 'add', 'subtract', 'divide', 'negative', 'einsum',
                  'tensordot', 'inner', 'trace', 'diagonal', 'cumsum', 'diff', 'mean')

    def __getattr__(self, name):
        f = getattr(_np, name)
        if name in self._SYMBOLIZE and callable(f):
            def wrapped(*a, **k):
                r = f(*a, **k)
                if isinstance(r, _np.ndarray) and r.dtype != object and r.dtype.kind in 'fiu' and CTX is not None:
                    return _obj(r)
                return r
            wrapped.__name__ = name
            return wrapped
        return f

    def square(self, a):
        a = _as_sym_array(a, False)
        return a * a

    def reciprocal(self, a):
        return 1.0 / _as_sym_array(a, False)

    def sqrt(self, a):
        a = _as_sym_array(a, False)
        return a ** 0.5 if isinstance(a, Sym) else _np.sqrt(a)

    def abs(self, a):
        a = _as_sym_array(a, False)
        return abs(a)

    # constructors
    # (every signature accepts numpy's remaining positional / keyword arguments: dtype, order, like, shape, k, ...)
    def zeros(self, shape, dtype=None, **kw): return _fill(shape, 0.0)
    def ones(self, shape, dtype=None, **kw): return _fill(shape, 1.0)
    def empty(self, shape, dtype=None, **kw): return _fill(shape, 0.0)

    def zeros_like(self, a, dtype=None, order='K', subok=True, shape=None, **kw):
        return _fill(_np.shape(a) if shape is None else shape, 0.0)

    def empty_like(self, a, dtype=None, order='K', subok=True, shape=None, **kw):
        return _fill(_np.shape(a) if shape is None else shape, 0.0)

    def ones_like(self, a, dtype=None, order='K', subok=True, shape=None, **kw):
        return _fill(_np.shape(a) if shape is None else shape, 1.0)

    def eye(self, N, M=None, k=0, dtype=None, **kw): return _obj(_np.eye(N, M, k))
    def identity(self, n, dtype=None, **kw): return _obj(_np.identity(n))

    def positive(self, a):
        return +_as_sym_array(a, False)

    def array(self, a, dtype=None, copy=True):
        return _as_sym_array(a, copy=True)

    def asarray(self, a, dtype=None):
        return _as_sym_array(a, copy=False)

    def ascontiguousarray(self, a, dtype=None):
        return _as_sym_array(a, copy=False)

    def atleast_2d(self, a):
        return _np.atleast_2d(_as_sym_array(a, copy=False))

    def atleast_1d(self, a):
        return _np.atleast_1d(_as_sym_array(a, copy=False))

    def cross(self, a, b, **kw):
        a = _as_sym_array(a, False)
        b = _as_sym_array(b, False)
        a, b = _np.broadcast_arrays(a, b)
        out = _np.empty(a.shape, dtype=object)
        out[..., 0] = a[..., 1] * b[..., 2] - a[..., 2] * b[..., 1]
        out[..., 1] = a[..., 2] * b[..., 0] - a[..., 0] * b[..., 2]
        out[..., 2] = a[..., 0] * b[..., 1] - a[..., 1] * b[..., 0]
        return out

    def dot(self, a, b, out=None):
        r = _np.dot(_as_sym_array(a, False), _as_sym_array(b, False))
        if out is not None:
            out[...] = r
            return out
        return r

    def hypot(self, a, b):
        a = _as_sym_array(a, False)
        b = _as_sym_array(b, False)
        return (a * a + b * b) ** 0.5

    def arctan2(self, y, x):
        f = _np.frompyfunc(lambda p, q: lift(p).arctan2(q), 2, 1)
        return f(_as_sym_array(y, False), _as_sym_array(x, False))

    def sum(self, a, axis=None, **kw):
        return _np.sum(_as_sym_array(a, False), axis=axis)

    def diag(self, v):
        v = _as_sym_array(v, False)
        if v.ndim == 1:
            out = _fill((len(v), len(v)), 0.0)
            for i in range(len(v)):
                out[i, i] = v[i]
            return out
        return _np.diag(v)

    class linalg:
        @staticmethod
        def inv(a):
            raise TraceError("np.linalg.inv must be stubbed by the tracing driver")

        @staticmethod
        def solve(a, b):
            raise TraceError("np.linalg.solve must be stubbed by the tracing driver")


def _as_sym_array(a, copy):
    if isinstance(a, Sym):
        return a
    if isinstance(a, _np.ndarray) and a.dtype == object:
        # make sure every element is a Sym (object arrays built by numpy may hold floats)
        flat = a.reshape(-1)
        if all(isinstance(x, Sym) for x in flat):
            return a.copy() if copy else a
        return _obj(a)
    try:
        import pandas as pd
        if isinstance(a, (pd.Series, pd.DataFrame, pd.Index)):
            return _as_sym_array(a.values, copy)
    except ImportError:
        pass
    if _is_num(a):
        return lift(a)
    return _obj(a)


np_proxy = NpProxy()


def symvec(prefix, n):
    return _obj([Sym.var(f"{prefix}{i}") for i in range(n)])


def symmat(prefix, n, m):
    return _obj([[Sym.var(f"{prefix}{i}{j}") for j in range(m)] for i in range(n)])


# ---------------------------------------------------------------------------
# path enumeration

def enumerate_paths(fn, max_paths=64):
    """Run fn() under every decision vector.  fn must build its own symbolic
    inputs (after the fresh context is installed) and return a dict
    name -> Sym.  Returns (ctx, [(conds, outputs)]) with conds a list of
    (cond_node_id, bool)."""
    ctx = new_ctx()
    paths = []
    stack = [[]]
    while stack:
        dec = stack.pop()
        ctx.decisions = dec
        ctx.trace = []
        ctx.pos = 0
        outs = fn()
        tr = list(ctx.trace)
        paths.append((tr, {k: lift(v).nid for k, v in outs.items()}))
        if len(paths) > max_paths:
            raise TraceError("too many paths")
        # schedule the unexplored siblings: flip each free (defaulted) decision
        for k in range(len(dec), len(tr)):
            if tr[k][1]:
                stack.append([v for _, v in tr[:k]] + [False])
    return ctx, paths


# ---------------------------------------------------------------------------
# IR evaluation on floats (irrun) -- independent of the Coq printer

def _pymod(a, m):
    return a % m


EVAL_CALLS = {}


def eval_nodes(ctx, env, roots, calls=None):
    calls = calls or EVAL_CALLS
    memo = {}

    def ev(i):
        stack = [i]
        while stack:
            j = stack[-1]
            if j in memo:
                stack.pop()
                continue
            n = ctx.nodes[j]
            op = n[0]
            if op == 'var':
                memo[j] = float(env[n[1]])
                stack.pop()
                continue
            if op == 'const':
                memo[j] = n[1]
                stack.pop()
                continue
            args = n[2:] if op == 'call' else n[1:]
            pend = [a for a in args if a not in memo]
            if pend:
                stack.extend(pend)
                continue
            v = [memo[a] for a in args]
            if op == 'add': r = v[0] + v[1]
            elif op == 'sub': r = v[0] - v[1]
            elif op == 'mul': r = v[0] * v[1]
            elif op == 'div': r = v[0] / v[1]
            elif op == 'neg': r = -v[0]
            elif op == 'abs': r = abs(v[0])
            elif op == 'sin': r = math.sin(v[0])
            elif op == 'cos': r = math.cos(v[0])
            elif op == 'tan': r = math.tan(v[0])
            elif op == 'sqrt': r = math.sqrt(v[0])
            elif op == 'asin': r = math.asin(v[0])
            elif op == 'acos': r = math.acos(v[0])
            elif op == 'atan': r = math.atan(v[0])
            elif op == 'atan2': r = math.atan2(v[0], v[1])
            elif op == 'pymod': r = _pymod(v[0], v[1])
            elif op == 'gt': r = v[0] > v[1]
            elif op == 'lt': r = v[0] < v[1]
            elif op == 'ge': r = v[0] >= v[1]
            elif op == 'le': r = v[0] <= v[1]
            elif op == 'not': r = not v[0]
            elif op == 'call': r = calls[n[1]](*v)
            else:
                raise TraceError(f"eval: unknown op {op}")
            memo[j] = r
            stack.pop()
        return memo[i]

    return [ev(r) for r in roots]


def eval_paths(ctx, paths, env, calls=None):
    """Pick the path whose conditions hold under env and evaluate its outputs."""
    for conds, outs in paths:
        ok = True
        for cid, want in conds:
            if bool(eval_nodes(ctx, env, [cid], calls)[0]) != want:
                ok = False
                break
        if ok:
            names = list(outs)
            vals = eval_nodes(ctx, env, [outs[k] for k in names], calls)
            return dict(zip(names, vals))
    raise TraceError("no path matches the concrete input")

# ---------------------------------------------------------------------------
# structural replay of an IR inside the current context (used to compare DAGs up to hash-consing)

def replay(src_ctx, roots, env):
    """Re-apply the operations of `src_ctx` (node ids `roots`) to the Sym values in env (var name -> Sym of the
    CURRENT context) with the same overloaded operators, so that structurally equal expressions get equal node ids."""
    memo = {}

    def ev(i):
        stack = [i]
        while stack:
            j = stack[-1]
            if j in memo:
                stack.pop()
                continue
            n = src_ctx.nodes[j]
            op = n[0]
            if op == 'var':
                memo[j] = lift(env[n[1]])
                stack.pop()
                continue
            if op == 'const':
                memo[j] = lift(n[1])
                stack.pop()
                continue
            args = n[2:] if op == 'call' else n[1:]
            pend = [a for a in args if a not in memo]
            if pend:
                stack.extend(pend)
                continue
            v = [memo[a] for a in args]
            if op == 'add': r = v[0] + v[1]
            elif op == 'sub': r = v[0] - v[1]
            elif op == 'mul': r = v[0] * v[1]
            elif op == 'div': r = v[0] / v[1]
            elif op == 'neg': r = -v[0]
            elif op == 'abs': r = abs(v[0])
            elif op in ('sin', 'cos', 'tan', 'sqrt'): r = getattr(v[0], op)()
            elif op == 'asin': r = v[0].arcsin()
            elif op == 'acos': r = v[0].arccos()
            elif op == 'atan': r = v[0].arctan()
            elif op == 'atan2': r = v[0].arctan2(v[1])
            elif op == 'pymod': r = v[0] % float(v[1])
            elif op == 'call': r = Sym.call(n[1], *v)
            else:
                raise TraceError(f"replay: unsupported op {op}")
            memo[j] = r
            stack.pop()
        return memo[i]

    return [ev(r) for r in roots]
