"""alias2ir — syntactic translator (Python `ast`) from pyins to the aliasing IR of coq/Model/Alias.v.

Every function / method of the pyins modules (public ones and the private helpers they call)
becomes a `func`: a flow-insensitive set of statements over SSA-renamed variables

    Fresh x | Assign x y | Load x y | Reach x y | Store x y | Mutate x | Call/CallNew x x0 f args
    | GlobalRng | Draw r | StateRead g r | StateWrite g r

(x := new value | x may be y or a view of y | x may be an element of y | x may be anything reachable
from y | y is stored into x | x is written | call | draw from numpy's global generator | draw from the
generator r | slot g of object r is read / rebound).  Control flow is handled by SSA renaming with phi
variables at joins and loop heads; receivers' attributes are slot variables; module constants hang
off one protected root; an omitted / None `rng` argument is numpy's global generator.

The classification of numpy / pandas / scipy operations (fresh result vs. may-alias vs. writes an
argument) is DATA (tables LIB, METHODS, ATTR_*, BUILTINS below) and is validated by micro-tests on the
installed libraries on every run (`run_microtests`).  Anything that is not classified raises
`Unsupported` naming the construct (fail closed).

The translator also SOLVES the points-to constraints and computes callee summaries, but none of that
is trusted: solutions and summaries are emitted as hints into coq/Gen/AliasIR.v and re-validated by Coq
(`valid_hints`, `summary_ok`, `check_fun`).  The python mirror of the checker only gives diagnostics.

Output: coq/Gen/AliasIR.v (`generated_progs`, names, public list, slot names, read-only slots,
schema constants).  `generate()` writes only if the text changed and returns statistics.
"""
import ast
import os
import re
import sys
import copy as _copy
import types

HERE = os.path.dirname(os.path.abspath(__file__))
VERIF = os.path.dirname(HERE)
REPO = os.environ.get('PYINS_REPO', '/repo')
OUT = os.path.join(VERIF, 'coq', 'Gen', 'AliasIR.v')

MODULES = ['util', 'earth', 'transform', 'kalman', 'error_model', 'inertial_sensor',
           'measurements', 'strapdown', '_numba_integrate', 'sim', 'filters']
PUBLIC_MODULES = [m for m in MODULES if not m.startswith('_')]
SKIP_CLASSES = {'util.Bunch'}          # dict subclass used as a result container (see PYINS_SPECIAL)


class Unsupported(Exception):
    pass


# ----------------------------------------------------------------------------------------------
# classification tables (DATA)
# ----------------------------------------------------------------------------------------------
def F(tag='val', **k):
    """fresh result, no argument is written"""
    return dict(ret=(), tag=tag, **k)


def A(*idx, tag=None, **k):
    """result may share memory with the given arguments (ints, keyword names, 'recv', 'all')"""
    return dict(ret=idx, tag=tag, **k)


def C(*idx, **k):
    """fresh container holding (elements of) the given arguments"""
    return dict(ret=(), elems=idx, tag='list', **k)


def UF(nin):
    """numpy ufunc with `nin` inputs: positional argument nin is `out`"""
    return dict(ret=(), tag='val', nin=nin)


LIB = {
    # --- numpy: may return its argument / a view
    'numpy.asarray': A(0, tag='val'), 'numpy.ascontiguousarray': A(0, tag='val'),
    'numpy.asanyarray': A(0, tag='val'), 'numpy.asfortranarray': A(0, tag='val'),
    'numpy.atleast_1d': A('all', tag='val'), 'numpy.atleast_2d': A('all', tag='val'),
    'numpy.atleast_3d': A('all', tag='val'),
    'numpy.transpose': A(0, tag='val'), 'numpy.reshape': A(0, tag='val'), 'numpy.ravel': A(0, tag='val'),
    'numpy.squeeze': A(0, tag='val'), 'numpy.diagonal': A(0, tag='val'), 'numpy.diag': A(0, tag='val'),
    'numpy.ix_': A('all'), 'numpy.broadcast_to': A(0, tag='val'), 'numpy.swapaxes': A(0, tag='val'),
    'numpy.moveaxis': A(0, tag='val'), 'numpy.expand_dims': A(0, tag='val'),
    'numpy.real': A(0, tag='val'), 'numpy.imag': A(0, tag='val'),
    # --- numpy: fresh results
    'numpy.array': F(), 'numpy.copy': F(), 'numpy.zeros': F(), 'numpy.ones': F(), 'numpy.empty': F(), 'numpy.full': F(),
    'numpy.eye': F(), 'numpy.identity': F(), 'numpy.arange': F(), 'numpy.linspace': F(),
    'numpy.zeros_like': F(), 'numpy.ones_like': F(), 'numpy.empty_like': F(), 'numpy.full_like': F(),
    'numpy.cross': F(maxpos=2), 'numpy.einsum': F(), 'numpy.hstack': F(), 'numpy.vstack': F(),
    'numpy.concatenate': F(maxpos=2), 'numpy.stack': F(maxpos=2), 'numpy.append': F(), 'numpy.insert': F(),
    'numpy.resize': F(), 'numpy.diff': F(), 'numpy.sort': F(), 'numpy.unique': F(),
    'numpy.searchsorted': F(), 'numpy.cumsum': F(maxpos=3), 'numpy.sum': F(maxpos=3),
    'numpy.mean': F(maxpos=3), 'numpy.median': F(maxpos=2, ow={'overwrite_input': 0}),
    'numpy.min': F(maxpos=2), 'numpy.max': F(maxpos=2), 'numpy.all': F(maxpos=2), 'numpy.any': F(maxpos=2),
    'numpy.linalg.inv': F(), 'numpy.linalg.solve': F(), 'numpy.linalg.eigh': F(), 'numpy.linalg.norm': F(),
    'numpy.linalg.det': F(), 'numpy.linalg.cholesky': F(), 'numpy.outer': F(maxpos=2), 'numpy.trace': F(maxpos=4),
    'numpy.where': F(), 'numpy.isnan': UF(1), 'numpy.isfinite': UF(1), 'numpy.allclose': F(), 'numpy.tile': F(),
    'numpy.argwhere': F(), 'numpy.piecewise': F(funcargs=True), 'numpy.cumprod': F(maxpos=3), 'numpy.prod': F(maxpos=3),
    'numpy.column_stack': F(), 'numpy.dstack': F(), 'numpy.triu': F(), 'numpy.tril': F(), 'numpy.kron': F(),
    'numpy.isclose': F(), 'numpy.array_equal': F(), 'numpy.ndim': F(tag=None), 'numpy.shape': F(tag=None),
    'numpy.size': F(tag=None), 'numpy.float64': F(), 'numpy.isscalar': F(tag=None), 'numpy.logical_and': UF(2),
    'numpy.logical_or': UF(2), 'numpy.logical_not': UF(1), 'numpy.less': UF(2), 'numpy.greater': UF(2),
    'numpy.repeat': F(), 'numpy.argsort': F(), 'numpy.flatnonzero': F(), 'numpy.nonzero': F(), 'numpy.count_nonzero': F(), 'numpy.argmax': F(maxpos=2), 'numpy.argmin': F(maxpos=2),
    # --- numpy ufuncs (positional `out` after the inputs)
    'numpy.sin': UF(1), 'numpy.cos': UF(1), 'numpy.tan': UF(1), 'numpy.arcsin': UF(1), 'numpy.arccos': UF(1),
    'numpy.arctan': UF(1), 'numpy.arctan2': UF(2), 'numpy.hypot': UF(2), 'numpy.deg2rad': UF(1),
    'numpy.rad2deg': UF(1), 'numpy.sqrt': UF(1), 'numpy.square': UF(1), 'numpy.abs': UF(1), 'numpy.absolute': UF(1),
    'numpy.sign': UF(1), 'numpy.nextafter': UF(2), 'numpy.reciprocal': UF(1), 'numpy.radians': UF(1),
    'numpy.degrees': UF(1), 'numpy.fabs': UF(1), 'numpy.cbrt': UF(1), 'numpy.true_divide': UF(2), 'numpy.mod': UF(2),
    'numpy.remainder': UF(2), 'numpy.fmod': UF(2), 'numpy.float_power': UF(2), 'numpy.positive': UF(1),
    'numpy.sinh': UF(1), 'numpy.cosh': UF(1), 'numpy.tanh': UF(1), 'numpy.expm1': UF(1), 'numpy.log1p': UF(1), 'numpy.exp': UF(1), 'numpy.log': UF(1), 'numpy.add': UF(2),
    'numpy.subtract': UF(2), 'numpy.multiply': UF(2), 'numpy.divide': UF(2), 'numpy.negative': UF(1),
    'numpy.power': UF(2), 'numpy.maximum': UF(2), 'numpy.minimum': UF(2), 'numpy.floor': UF(1), 'numpy.ceil': UF(1),
    'numpy.dot': UF(2), 'numpy.matmul': UF(2), 'numpy.clip': dict(ret=(), tag='val', nin=3),
    # --- numpy: write into an argument
    'numpy.copyto': F(mut=(0,)), 'numpy.put': F(mut=(0,)), 'numpy.place': F(mut=(0,)),
    'numpy.putmask': F(mut=(0,)), 'numpy.fill_diagonal': F(mut=(0,)),
    # --- scipy
    'scipy.linalg.cho_factor': F(ow={'overwrite_a': 0}), 'scipy.linalg.cholesky': F(ow={'overwrite_a': 0}), 'scipy.linalg.cho_solve': F(ow={'overwrite_b': 1}),
    'scipy.linalg.solve_triangular': F(ow={'overwrite_b': 1}), 'scipy.linalg.expm': F(),
    'scipy.linalg.solve': F(ow={'overwrite_a': 0, 'overwrite_b': 1}), 'scipy.linalg.inv': F(ow={'overwrite_a': 0}),
    'scipy.signal.firwin': F(), 'scipy.signal.lfilter': F(),
    'scipy.interpolate.interp1d': A('all', tag='callable'), 'scipy.interpolate.CubicSpline': A('all', tag='callable'),
    'scipy.interpolate.CubicHermiteSpline': A('all', tag='callable'),
    'scipy.spatial.transform.RotationSpline': A('all', tag='callable'),
    'scipy.spatial.transform.Slerp': A('all', tag='callable'),
    'scipy.spatial.transform.Rotation.from_euler': F(tag='rot'), 'scipy.spatial.transform.Rotation.from_matrix': F(tag='rot'),
    'scipy.spatial.transform.Rotation.from_quat': F(tag='rot'), 'scipy.spatial.transform.Rotation.from_rotvec': F(tag='rot'),
    'scipy.spatial.transform.Rotation.concatenate': F(tag='rot'), 'scipy.spatial.transform.Rotation.identity': F(tag='rot'),
    'scipy._lib._util.check_random_state': dict(special='crs'),
    # --- pandas
    'pandas.DataFrame': dict(special='pdctor'), 'pandas.Series': dict(special='pdctor'),
    'pandas.Index': A(0), 'pandas.concat': F(),
    'itertools.product': C('all'), 'itertools.chain': C('all'), 'itertools.zip_longest': C('all'),
    'itertools.islice': C(0), 'itertools.repeat': dict(ret=(), store_all=True, tag='list'),
    'itertools.starmap': C('all'), 'itertools.accumulate': C('all'), 'functools.reduce': C('all'),
    # --- numba decorators are transparent; calling them is not expected
}

# methods of library objects, by name (receiver = 'recv')
METHODS = {
    'copy': F(tag='same'), 'reshape': A('recv', tag='val'), 'transpose': A('recv', tag='val'),
    'ravel': A('recv', tag='val'), 'squeeze': A('recv', tag='val'), 'view': A('recv', tag='val'),
    'flatten': F(), 'astype': A('recv', tag='val'), 'to_numpy': A('recv', tag='val'), 'tolist': F(tag='list'),
    'to_frame': A('recv', tag='val'), 'dot': F(maxpos=1), 'sum': F(), 'mean': F(), 'any': F(), 'all': F(),
    'min': F(), 'max': F(), 'std': F(), 'cumsum': F(), 'diff': F(), 'abs': F(), 'round': F(),
    'rename': F(), 'drop': F(), 'fillna': F(), 'sort_values': F(), 'sort_index': F(), 'reset_index': F(),
    'set_index': F(), 'reindex': F(), 'dropna': F(), 'clip': F(),
    'intersection': F(tag=None), 'difference': F(tag=None), 'union': F(tag=None),
    'split': F(tag='list'), 'join': F(tag=None), 'format': F(tag=None), 'rjust': F(tag=None),
    'keys': C('recv'), 'items': C('recv'), 'values': C('recv'), 'get': A(1, load=('recv',)),
    'as_euler': F(), 'as_matrix': F(), 'as_quat': F(), 'as_rotvec': F(), 'inv': F(tag='rot'),
    'derivative': A('recv', tag='callable'), 'antiderivative': A('recv', tag='callable'),
    # containers / in-place
    'append': dict(ret=(), tag=None, mut=('recv',), store=(0,)),
    'extend': dict(ret=(), tag=None, mut=('recv',), store=(0,)),
    'insert': dict(ret=(), tag=None, mut=('recv',), store=(1,)),
    'update': dict(ret=(), tag=None, mut=('recv',), store=('all',)),
    'setdefault': dict(ret=(1,), load=('recv',), tag=None, mut=('recv',), store=(1,)),
    'pop': dict(ret=(), load=('recv',), tag=None, mut=('recv',)), 'remove': F(mut=('recv',)), 'clear': F(mut=('recv',)),
    'reverse': F(mut=('recv',)), 'sort': F(mut=('recv',)), 'fill': F(mut=('recv',)), 'resize': F(mut=('recv',)),
    'put': F(mut=('recv',)), 'itemset': F(mut=('recv',)), 'setflags': F(mut=('recv',)), 'partition': F(mut=('recv',)),
    'byteswap': dict(ret=('recv',), tag='val', mut=('recv',)),
    # numpy.random.RandomState
    'randn': F(draw=True), 'rand': F(draw=True), 'normal': F(draw=True), 'uniform': F(draw=True),
    'standard_normal': F(draw=True), 'randint': F(draw=True), 'random_sample': F(draw=True),
    'choice': F(draw=True), 'permutation': F(draw=True), 'multivariate_normal': F(draw=True),
    'shuffle': F(draw=True, mut=(0,)),
}

# attributes of library objects
ATTR_ALIAS = {'T', 'values', 'iloc', 'loc', 'at', 'iat', 'flat', 'real', 'imag', 'c', 'interpolator',
              'index', 'columns', 'base', 'x'}
ATTR_FRESH = {'shape', 'ndim', 'size', 'dtype', 'name', 'single', '__class__', '__name__', 'empty',
              'start', 'stop', 'step'}
ATTR_KEEP_TAG = {'iloc', 'loc', 'at', 'iat'}

BUILTINS = {
    'len': F(tag=None), 'isinstance': F(tag=None), 'bool': F(tag=None), 'abs': F(), 'round': F(), 'type': F(tag=None),
    'range': F(tag=None), 'int': F(tag=None), 'float': F(tag=None), 'str': F(tag=None), 'all': F(tag=None),
    'any': F(tag=None), 'slice': F(tag=None), 'print': F(tag=None), 'repr': F(tag=None), 'hasattr': F(tag=None),
    'max': A('all', load=('all',)), 'min': A('all', load=('all',)),
    'list': C('all'), 'tuple': C('all'), 'dict': C('all'), 'set': C('all'), 'sorted': C('all'),
    'map': C('all'), 'zip': C('all'), 'reversed': C('all'), 'enumerate': C('all'), 'iter': C('all'),
    'next': A('all', load=('all',)), 'sum': A('all', load=('all',)),
    'ValueError': F(tag=None), 'TypeError': F(tag=None), 'AttributeError': F(tag=None), 'KeyError': F(tag=None),
    'NotImplementedError': F(tag=None), 'RuntimeError': F(tag=None), 'AssertionError': F(tag=None),
}

# keywords with an effect; every other keyword is an ordinary input
EFFECT_KW = {'out', 'inplace', 'copy', 'where'}
TRANSPARENT_DECORATORS = {'numba.njit', 'numba.jit'}

# pyins names handled as library-like containers
PYINS_SPECIAL = {'util.Bunch': dict(ret=(), elems=(), store_all=True, tag='list')}

# the documented exception: estimate state of sensor models handed to a filter
ESTIMATE_SLOTS = ['inertial_sensor.EstimationModel.transform', 'inertial_sensor.EstimationModel.bias']
FILTERS = ['filters.run_feedback_filter', 'filters.run_feedforward_filter']
# documented users of numpy's global generator (rng=None: "nondeterministic seeding")
GLOBAL_RNG_USERS = ['inertial_sensor.apply_imu_parameters']


# ----------------------------------------------------------------------------------------------
# program model: modules, classes, functions
# ----------------------------------------------------------------------------------------------
class FuncInfo:
    def __init__(self, fid, module, node, cls=None, kind='function', parent=None):
        self.fid = fid              # 'module.func' / 'module.Class.meth' / 'module.func.<nested>'
        self.module = module
        self.node = node
        self.cls = cls              # ClassInfo or None
        self.kind = kind            # function | method | classmethod | staticmethod | property
        self.parent = parent
        a = node.args
        pos = a.posonlyargs + a.args
        self.pos_params = [x.arg for x in pos]
        self.vararg = a.vararg.arg if a.vararg else None      # *args: one position holding a tuple
        self.kwarg = a.kwarg.arg if a.kwarg else None         # **kwargs: one position holding a dict
        self.params = [x.arg for x in pos + a.kwonlyargs]
        defaults = [None] * (len(pos) - len(a.defaults)) + list(a.defaults) + list(a.kw_defaults)
        self.defaults = dict(zip(self.params, defaults))
        self.params += [x for x in (self.vararg, self.kwarg) if x]


class ClassInfo:
    def __init__(self, cid, module, node):
        self.cid = cid
        self.module = module
        self.node = node
        self.bases = []             # ClassInfo
        self.methods = {}           # name -> FuncInfo
        self.attrs = {}             # class-level constants: name -> ast value
        self.slots_assigned = set()  # attribute names assigned through self in its own methods
        self.dynamic_slots = False   # setattr(self, <computed name>, ...) somewhere
        self.record = False          # NamedTuple / dataclass / namedtuple: a record of its fields
        self.fields = []

    def all_fields(self):
        out = []
        for c in reversed(self.mro()):
            for f in c.fields:
                if f not in out:
                    out.append(f)
        return out

    def is_record(self):
        return any(c.record for c in self.mro())

    def mro(self):
        out = [self]
        for b in self.bases:
            for c in b.mro():
                if c not in out:
                    out.append(c)
        return out

    def find_method(self, name):
        for c in self.mro():
            if name in c.methods:
                return c.methods[name]
        return None

    def all_slots(self):
        """slot name -> owning class (base-most class assigning it)"""
        out = {}
        for c in reversed(self.mro()):
            for s in sorted(c.slots_assigned):
                out.setdefault(s, c)
        return out

    def find_attr(self, name):
        for c in self.mro():
            if name in c.attrs:
                return c
        return None


class Program:
    def __init__(self, repo):
        self.repo = repo
        self.pending = []
        self.public_classes = set()
        self.escaped, self.escaped_prev = set(), set()
        self.argtags = {}        # (fid, param) -> set of tags of the actual arguments at pyins call sites
        self.param_tags = {}     # inferred for private functions from the previous pass
        self.public = set()
        self._lists = {}
        self.trees = {}
        self.imports = {}      # module -> {local name: ('lib', qual) | ('mod', m) | ('py', m, name)}
        self.consts = {}       # module -> {name: ast value}
        self.funcs = {}        # fid -> FuncInfo
        self.classes = {}      # cid -> ClassInfo
        self.modfuncs = {}     # module -> {name: fid}
        self.modclasses = {}   # module -> {name: cid}
        for m in MODULES:
            self.load(m)
        for c in self.classes.values():
            for b in c.node.bases:
                r = self.resolve_name(c.module, b) if isinstance(b, (ast.Name, ast.Attribute)) else None
                if r and r[0] == 'class':
                    c.bases.append(self.classes[r[1]])
                elif isinstance(b, ast.Name) and b.id == 'object':
                    pass
                elif r and r[0] == 'lib' and r[1] in ('typing.NamedTuple',):
                    c.record = True
                elif r and r[0] == 'lib' and r[1] in ('abc.ABC', 'typing.Generic', 'typing.Protocol'):
                    pass
                else:
                    raise Unsupported(f"{c.cid}: base class {ast.unparse(b)}")
        self.subclasses = {cid: [d for d in self.classes.values() if c in d.mro()]
                           for cid, c in self.classes.items()}
        for c in self.classes.values():
            if any(k.dynamic_slots for k in c.mro()) and not c.is_record():
                for k in c.mro():
                    for fi in k.methods.values():
                        for n in ast.walk(fi.node):
                            if isinstance(n, ast.Attribute) and isinstance(n.value, ast.Name) \
                                    and n.value.id == 'self' and c.find_attr(n.attr) is None \
                                    and c.find_method(n.attr) is None:
                                k.slots_assigned.add(n.attr)

    def load(self, m):
        src = open(os.path.join(self.repo, 'pyins', m + '.py')).read()
        tree = ast.parse(src)
        self.trees[m] = tree
        imp, consts, mf, mc = {}, {}, {}, {}
        self.imports[m], self.consts[m], self.modfuncs[m], self.modclasses[m] = imp, consts, mf, mc
        for node in tree.body:
            if isinstance(node, ast.Import):
                for a in node.names:
                    imp[a.asname or a.name.split('.')[0]] = ('lib', a.name if a.asname else a.name.split('.')[0])
            elif isinstance(node, ast.ImportFrom):
                for a in node.names:
                    nm = a.asname or a.name
                    if node.level == 1 and not node.module:
                        imp[nm] = ('mod', a.name)
                    elif node.level == 1:
                        imp[nm] = ('py', node.module, a.name)
                    elif node.level == 0:
                        imp[nm] = ('lib', node.module + '.' + a.name)
                    else:
                        raise Unsupported(f"{m}: import level {node.level}")
            elif isinstance(node, ast.FunctionDef):
                self.check_decorators(m, node)
                fi = FuncInfo(f"{m}.{node.name}", m, node)
                self.funcs[fi.fid] = fi
                mf[node.name] = fi.fid
            elif isinstance(node, ast.ClassDef):
                cid = f"{m}.{node.name}"
                if cid in SKIP_CLASSES:
                    continue
                ci = ClassInfo(cid, m, node)
                self.classes[cid] = ci
                mc[node.name] = cid
                self.class_decorators(m, ci)
                for sub in node.body:
                    if isinstance(sub, ast.FunctionDef):
                        kind = self.check_decorators(m, sub, in_class=True)
                        fi = FuncInfo(f"{cid}.{sub.name}", m, sub, cls=ci, kind=kind)
                        self.funcs[fi.fid] = fi
                        ci.methods[sub.name] = fi
                        for n in ast.walk(sub):
                            if isinstance(n, ast.Attribute) and isinstance(n.ctx, ast.Store) \
                                    and isinstance(n.value, ast.Name) and n.value.id == 'self':
                                ci.slots_assigned.add(n.attr)
                            elif isinstance(n, ast.Call) and len(n.args) == 3 and (
                                    (isinstance(n.func, ast.Name) and n.func.id == 'setattr') or
                                    (isinstance(n.func, ast.Attribute) and n.func.attr == '__setattr__')) \
                                    and isinstance(n.args[0], ast.Name) and n.args[0].id == 'self':
                                if isinstance(n.args[1], ast.Constant) and isinstance(n.args[1].value, str):
                                    ci.slots_assigned.add(n.args[1].value)
                                else:
                                    ci.dynamic_slots = True
                    elif isinstance(sub, ast.Assign) and all(isinstance(t, ast.Name) for t in sub.targets):
                        for t in sub.targets:
                            ci.attrs[t.id] = sub.value
                    elif isinstance(sub, ast.AnnAssign) and isinstance(sub.target, ast.Name):
                        ci.fields.append(sub.target.id)          # a field if the class is a record
                        if sub.value is not None:
                            ci.attrs[sub.target.id] = sub.value
                    elif isinstance(sub, (ast.Expr, ast.Pass)) and (isinstance(sub, ast.Pass) or
                                                                     isinstance(sub.value, ast.Constant)):
                        pass
                    else:
                        raise Unsupported(f"{cid}: class body statement {ast.unparse(sub)[:60]}")
            elif isinstance(node, ast.Assign):
                for t in node.targets:
                    names = [t] if isinstance(t, ast.Name) else \
                        list(t.elts) if isinstance(t, (ast.Tuple, ast.List)) else [None]
                    if not all(isinstance(x, ast.Name) for x in names):
                        raise Unsupported(f"{m}: module-level assignment to {ast.unparse(t)}")
                    for x in names:
                        consts[x.id] = node.value if isinstance(t, ast.Name) else ast.Constant(value=None)
                    if isinstance(t, ast.Name):
                        self.maybe_namedtuple(m, t.id, node.value)
            elif isinstance(node, ast.AnnAssign):
                if not isinstance(node.target, ast.Name):
                    raise Unsupported(f"{m}: module-level annotated assignment to {ast.unparse(node.target)}")
                if node.value is not None:
                    consts[node.target.id] = node.value
                    self.maybe_namedtuple(m, node.target.id, node.value)
            elif isinstance(node, ast.If) and ast.unparse(node.test) in ('TYPE_CHECKING', 'typing.TYPE_CHECKING') \
                    and not node.orelse and all(isinstance(x, (ast.Import, ast.ImportFrom, ast.Pass)) for x in node.body):
                pass                           # imports for annotations only: never executed
            elif isinstance(node, ast.Expr) and isinstance(node.value, ast.Constant):
                pass
            else:
                raise Unsupported(f"{m}: module-level statement {ast.unparse(node)[:60]}")

    def maybe_namedtuple(self, m, name, value):
        """X = namedtuple('X', [...]) / NamedTuple('X', [...]): a record class"""
        if not (isinstance(value, ast.Call) and isinstance(value.func, (ast.Name, ast.Attribute))):
            return
        r = self.resolve_name(m, value.func)
        if not (r and r[0] == 'lib' and r[1] in ('collections.namedtuple', 'typing.NamedTuple')):
            return
        if len(value.args) < 2:
            raise Unsupported(f"{m}.{name}: namedtuple without a field list")
        f = value.args[1]
        if isinstance(f, ast.Constant) and isinstance(f.value, str):
            fields = f.value.replace(',', ' ').split()
        elif isinstance(f, (ast.List, ast.Tuple)):
            fields = []
            for e in f.elts:
                if isinstance(e, ast.Constant):
                    fields.append(e.value)
                elif isinstance(e, ast.Tuple) and e.elts and isinstance(e.elts[0], ast.Constant):
                    fields.append(e.elts[0].value)
                else:
                    raise Unsupported(f"{m}.{name}: namedtuple field list is not literal")
        else:
            raise Unsupported(f"{m}.{name}: namedtuple field list is not literal")
        cid = f"{m}.{name}"
        ci = ClassInfo(cid, m, ast.ClassDef(name=name, bases=[], keywords=[], body=[], decorator_list=[]))
        ci.record, ci.fields = True, list(fields)
        self.classes[cid] = ci
        self.modclasses[m][name] = cid
        self.consts[m].pop(name, None)

    def class_decorators(self, m, ci):
        for d in ci.node.decorator_list:
            dn = d.func if isinstance(d, ast.Call) else d
            r = self.resolve_name(m, dn)
            if r and r[0] == 'lib' and r[1] in ('dataclasses.dataclass',):
                ci.record = True
                continue
            raise Unsupported(f"{ci.cid}: class decorator @{ast.unparse(dn)}")

    def check_decorators(self, m, node, in_class=False):
        kind = 'method' if in_class else 'function'
        for d in node.decorator_list:
            dn = d.func if isinstance(d, ast.Call) else d
            txt = ast.unparse(dn)
            if in_class and txt in ('property', 'classmethod', 'staticmethod'):
                kind = txt
                continue
            r = self.resolve_name(m, dn) if self.imports.get(m) is not None else None
            if r and r[0] == 'lib' and r[1] in TRANSPARENT_DECORATORS:
                continue
            raise Unsupported(f"{m}.{node.name}: decorator @{txt}")
        return kind

    def resolve_name(self, m, node):
        """Resolve a Name / dotted Attribute chain in module m to
        ('lib', qual) | ('mod', module) | ('func', fid) | ('class', cid) | ('const', module, name) | None"""
        if isinstance(node, ast.Name):
            n = node.id
            if n in self.modfuncs[m]:
                return ('func', self.modfuncs[m][n])
            if n in self.modclasses[m]:
                return ('class', self.modclasses[m][n])
            if n in self.consts[m]:
                return ('const', m, n)
            if n in self.imports[m]:
                e = self.imports[m][n]
                if e[0] == 'py':
                    return self.member(e[1], e[2])
                return e
            return None
        if isinstance(node, ast.Attribute):
            base = self.resolve_name(m, node.value)
            if base is None:
                return None
            if base[0] == 'lib':
                return ('lib', base[1] + '.' + node.attr)
            if base[0] == 'mod':
                return self.member(base[1], node.attr)
            if base[0] == 'class':
                return ('classattr', base[1], node.attr)
            return None
        return None

    def member(self, m, name):
        if m not in self.trees:
            raise Unsupported(f"module pyins.{m} is not translated")
        if name in self.modfuncs[m]:
            return ('func', self.modfuncs[m][name])
        if name in self.modclasses[m]:
            return ('class', self.modclasses[m][name])
        if name in self.consts[m]:
            return ('const', m, name)
        if f"{m}.{name}" in PYINS_SPECIAL:
            return ('special', f"{m}.{name}")
        if name in self.imports[m]:
            e = self.imports[m][name]
            return self.member(e[1], e[2]) if e[0] == 'py' else e
        raise Unsupported(f"pyins.{m} has no member {name}")

    def const_is_list(self, mod, name):
        if mod not in self._lists:
            self._lists[mod] = eval_const_lists(self, mod)
        val = self.consts[mod].get(name)
        return name in self._lists[mod] or isinstance(val, (ast.List, ast.Dict, ast.Tuple, ast.Set))

    # by-name candidates for attribute access on values of unknown class
    def open_classes(self):
        """classes whose instances may turn up where the class is not known statically: the public ones
        (a caller can hand them in) and those whose instances are stored / passed on somewhere"""
        return [c for c in self.classes.values()
                if c.cid in self.public_classes or c.cid in self.escaped_prev]

    def slot_candidates(self, attr):
        return [c for c in self.open_classes() if attr in c.all_slots()]

    def field_candidates(self, attr):
        return [c for c in self.open_classes() if c.is_record() and attr in c.all_fields()]

    def classattr_candidates(self, attr):
        out = []
        for c in self.open_classes():
            o = c.find_attr(attr)
            if o is not None and o not in out:
                out.append(o)
        return out

    def method_candidates(self, attr):
        out = []
        for c in self.open_classes():
            m = c.find_method(attr)
            if m is not None and m not in out:
                out.append(m)
        return out


def imm_literal(node):
    """a list / tuple / dict literal whose leaves are all constants"""
    if isinstance(node, (ast.List, ast.Tuple, ast.Set)):
        return all(isinstance(e, ast.Constant) or imm_literal(e) for e in node.elts)
    if isinstance(node, ast.Dict):
        return all(k is not None and isinstance(k, ast.Constant) for k in node.keys) and \
            all(isinstance(e, ast.Constant) or imm_literal(e) for e in node.values)
    return False


def is_immutable_default(node):
    if node is None:
        return True
    if isinstance(node, ast.Constant):
        return True
    if isinstance(node, ast.UnaryOp) and isinstance(node.operand, ast.Constant):
        return True
    return False


# ----------------------------------------------------------------------------------------------
# function translator
# ----------------------------------------------------------------------------------------------
LIB_CONSTS = {'numpy.s_', 'numpy.index_exp', 'typing.TYPE_CHECKING', 'numpy.pi', 'numpy.inf', 'numpy.nan', 'numpy.newaxis', 'numpy.e',
              # types used as values (isinstance / dtype=)
              'pandas.Series', 'pandas.DataFrame', 'pandas.Index', 'numpy.ndarray', 'numpy.float64'}
BUILTIN_VALUES = {'float', 'int', 'object', 'str', 'bool', 'list', 'tuple', 'dict',
                  'NotImplementedError', 'ValueError', 'TypeError', 'AssertionError'}


def assigned_names(stmts):
    out = set()

    def tgt(t):
        if isinstance(t, ast.Name):
            out.add(t.id)
        elif isinstance(t, (ast.Tuple, ast.List)):
            for e in t.elts:
                tgt(e)
        elif isinstance(t, ast.Starred):
            tgt(t.value)

    for s in stmts:
        for n in ast.walk(s):
            if isinstance(n, ast.Assign):
                for t in n.targets:
                    tgt(t)
            elif isinstance(n, (ast.AugAssign, ast.AnnAssign)):
                tgt(n.target)
            elif isinstance(n, ast.For):
                tgt(n.target)
            elif isinstance(n, ast.NamedExpr):
                tgt(n.target)
    return out


class FT:
    def __init__(self, prog, fi, slotinfo, columns):
        self.P, self.fi, self.m = prog, fi, fi.module
        self.slotinfo = slotinfo
        self.columns = columns
        self.stmts = []
        self.names = []
        self.tags = {}
        self.callees = []
        self.nested = {}
        self.nested_infos = []
        self.slot_writes = []          # (sname, value var)
        self.globals = set()
        self.loops = []
        self.env = {}
        self.ret = self.new('RET')
        self.modroot = self.new('MODULE')
        self.groot = self.new('GLOBAL_RNG')
        self.osite = self.new('OWNED')
        self.rsite = self.new('OWNREF')
        self.rreach = self.new('RET_REACH')
        self.selfvar = None
        self.clsname = None
        self.slotroot = {}
        params = list(fi.params)
        self.f_params = [self.modroot]
        self.f_owned = []
        self.f_ownref = []
        self.f_formals = []
        self.f_slots = []
        if fi.kind in ('method', 'property'):
            sn = params.pop(0)
            self.selfvar = self.new(sn)
            self.env[sn] = self.selfvar
            self.tags[self.selfvar] = ('inst', fi.cls.cid)
            self.f_owned.append(self.selfvar)
            pos0 = [self.new(sn + "'")]
            for attr, owner in sorted(fi.cls.all_slots().items()):
                sname = f"{owner.cid}.{attr}"
                v = self.new('SLOT_' + attr)
                vd = self.new('SLOT_' + attr + "'")
                self.slotroot[attr] = (sname, v)
                cat = self.slotinfo.get(sname, {}).get('cat', 'private')
                if cat == 'private':
                    self.f_owned.append(v)
                    self.f_slots.append((sname, v, vd))
                elif cat == 'ownref':
                    self.f_ownref.append(v)
                else:
                    self.f_params.append(v)
                pos0 += [v, vd]
            self.f_formals += [[self.selfvar], pos0]
        elif fi.kind == 'classmethod':
            self.clsname = params.pop(0)
        self.explicit = params
        self.fnvals = {}
        self.elemtag = {}
        self.objslots = {}
        self.immleaf = set()
        self.strvals = {}
        self.gen_var = None
        self.ret_elemtags = []
        self.ret_tags = []
        self.inline_stack = [fi.fid]
        private = fi.fid not in prog.public and (fi.parent is not None or
                                                 (fi.node.name.startswith('_') and not fi.node.name.startswith('__')))
        self.param_vars = set()
        for p in params:
            v = self.new(p)
            self.env[p] = v
            if private:
                self.param_vars.add(v)
            if p in (fi.vararg, fi.kwarg):
                self.tags[v] = 'list'
            elif private and prog.param_tags.get((fi.fid, p)) is not None:
                self.tags[v] = prog.param_tags[(fi.fid, p)]
            self.f_params.append(v)
            self.f_formals += [[v], [self.new(p + "'")]]
        self.f_formals += [[self.modroot], [self.new("MODULE'")]]
        self.f_formals += [[self.groot], [self.new("GLOBAL_RNG'")]]
        self.f_exact = list(range(0, len(self.f_formals), 2))
        body = fi.node.body if isinstance(fi.node.body, list) else []
        self.locals = assigned_names(body) | set(fi.params)
        self.bind_count = {}
        for st in body:
            for n in ast.walk(st):
                if isinstance(n, ast.Name) and isinstance(n.ctx, ast.Store):
                    self.bind_count[n.id] = self.bind_count.get(n.id, 0) + 1
                elif isinstance(n, (ast.For, ast.While)):
                    for nm in assigned_names(n.body) | (assigned_names([n]) if isinstance(n, ast.For) else set()):
                        self.bind_count[nm] = self.bind_count.get(nm, 0) + 1

    # -- helpers
    def new(self, hint):
        self.names.append(hint)
        return len(self.names) - 1

    def emit(self, *st):
        self.stmts.append(tuple(st))
        if st[0] in ('Store', 'Call', 'CallNew'):
            for v in ([st[2]] if st[0] == 'Store' else st[3]):
                t = self.tags.get(v)
                if isinstance(t, tuple) and t[0] == 'inst':
                    self.P.escaped.add(t[1])

    def fresh(self, hint, tag=None):
        v = self.new(hint)
        self.emit('Fresh', v)
        if tag is not None:
            self.tags[v] = tag
        return v

    def bad(self, node, why):
        txt = ast.unparse(node) if isinstance(node, ast.AST) else str(node)
        line = getattr(node, 'lineno', '?')
        raise Unsupported(f"{self.fi.fid} (pyins/{self.m}.py:{line}): {why}: {txt[:90]}")

    def tag(self, v):
        return self.tags.get(v)

    # -- module / class constants
    def read_const(self, mod, name):
        v = self.new(name)
        self.emit('StateRead', f"{mod}.{name}", self.modroot)
        self.emit('Assign', v, self.modroot)
        if self.P.const_is_list(mod, name):
            self.tags[v] = 'list'
        val = self.P.consts[mod].get(name)
        if imm_literal(val):
            self.immleaf.add(v)          # a literal of numbers / strings: its elements are immutable values
        if isinstance(val, ast.Call) and isinstance(val.func, (ast.Name, ast.Attribute)):
            r = self.P.resolve_name(mod, val.func)
            if r and r[0] == 'class':
                self.tags[v] = ('inst', r[1])             # a module-level instance of a pyins class
        if isinstance(val, (ast.Dict, ast.List, ast.Tuple)):
            elts = val.values if isinstance(val, ast.Dict) else val.elts
            fns = []
            for e in elts:
                r = self.P.resolve_name(mod, e) if isinstance(e, (ast.Name, ast.Attribute)) else None
                if r and r[0] == 'func':
                    fns.append(('func', r[1]))
            if fns:
                self.fnvals[v] = fns
        return v

    def read_classattr(self, owner, attr):
        v = self.new(attr)
        self.emit('StateRead', f"{owner.cid}.{attr}", self.modroot)
        self.emit('Assign', v, self.modroot)
        if isinstance(owner.attrs[attr], (ast.List, ast.Tuple, ast.Dict)):
            self.tags[v] = 'list'
        return v

    def is_listlike(self, node):
        """syntactic: an index expression that is a python list (fancy indexing -> copy)"""
        if isinstance(node, ast.List):
            return True
        if isinstance(node, ast.Name):
            if node.id in self.env:
                return self.tag(self.env[node.id]) in ('list', 'mask')
            r = self.P.resolve_name(self.m, node)
            if r and r[0] == 'const':
                return self.P.const_is_list(r[1], r[2])
            return False
        if isinstance(node, ast.Attribute):
            if isinstance(node.value, ast.Name) and node.value.id not in self.env:
                r = self.P.resolve_name(self.m, node)
                if r and r[0] == 'const':
                    return self.P.const_is_list(r[1], r[2])
            if isinstance(node.value, ast.Name) and (node.value.id == self.clsname or
                                                     (self.selfvar is not None and self.env.get(node.value.id) == self.selfvar)):
                c = self.fi.cls.find_attr(node.attr)
                if c is not None and node.attr not in self.fi.cls.all_slots():
                    return isinstance(c.attrs[node.attr], ast.List)
            return False
        if isinstance(node, ast.Tuple):
            return any(self.is_listlike(e) for e in node.elts)
        if isinstance(node, ast.Compare):
            return True
        if isinstance(node, ast.BinOp) and isinstance(node.op, (ast.BitAnd, ast.BitOr)):
            return self.is_listlike(node.left) and self.is_listlike(node.right)
        if isinstance(node, ast.UnaryOp) and isinstance(node.op, ast.Invert):
            return self.is_listlike(node.operand)
        return False

    # -- expressions
    def ev_slice(self, node):
        if isinstance(node, ast.Slice):
            for e in (node.lower, node.upper, node.step):
                if e is not None:
                    self.ev(e)
        elif isinstance(node, ast.Tuple):
            for e in node.elts:
                self.ev_slice(e)
        else:
            self.ev(node)

    def is_self(self, node):
        return isinstance(node, ast.Name) and self.selfvar is not None and self.env.get(node.id) == self.selfvar

    def is_cls(self, node):
        return isinstance(node, ast.Name) and self.clsname is not None and node.id == self.clsname \
            and node.id not in self.env

    def root_is_local(self, node):
        while isinstance(node, ast.Attribute):
            node = node.value
        return isinstance(node, ast.Name) and (node.id in self.env or node.id in self.locals)

    def ev(self, node):
        m = getattr(self, 'ev_' + type(node).__name__, None)
        if m is None:
            self.bad(node, f"expression kind {type(node).__name__} is not classified")
        return m(node)

    def ev_Constant(self, node):
        return self.fresh('const', 'const')

    def ev_JoinedStr(self, node):
        for v in node.values:
            if isinstance(v, ast.FormattedValue):
                self.ev(v.value)
        return self.fresh('fstr', 'const')

    def ev_Name(self, node):
        n = node.id
        if n in self.env:
            return self.env[n]
        if n in self.globals or n not in self.locals:
            if n in self.nested:
                v = self.fresh(n, 'const')
                self.fnvals[v] = [('nested', self.nested[n])]
                return v
            r = self.P.resolve_name(self.m, node)
            if r is None:
                if n in BUILTIN_VALUES:
                    return self.fresh(n, 'const')
                self.bad(node, "unknown name")
            if r[0] == 'const':
                return self.read_const(r[1], r[2])
            if r[0] == 'lib' and r[1] in LIB_CONSTS:
                return self.fresh(n, 'const')
            if r[0] == 'func':
                v = self.fresh(n, 'const')
                self.fnvals[v] = [('func', r[1])]
                return v
            self.bad(node, f"{r[0]} used as a value")
        # a local that is not bound on this path (assigned later / in another branch)
        v = self.fresh(n + '_unbound')
        return v

    def ev_Attribute(self, node):
        attr = node.attr
        if not self.root_is_local(node):
            r = self.P.resolve_name(self.m, node)
            if r is not None:
                if r[0] == 'const':
                    return self.read_const(r[1], r[2])
                if r[0] == 'lib':
                    if r[1] in LIB_CONSTS:
                        return self.fresh(attr, 'const')
                    if r[1] in LIB and not LIB[r[1]].get('special'):
                        v = self.fresh(attr, 'const')            # a classified library function as a value
                        self.fnvals[v] = [('lib', r[1])]
                        return v
                    self.bad(node, "library object used as a value (not classified)")
                if r[0] == 'classattr':
                    ci = self.P.classes[r[1]]
                    owner = ci.find_attr(r[2])
                    if owner is not None:
                        return self.read_classattr(owner, r[2])
                self.bad(node, f"{r[0]} used as a value")
        if self.is_cls(node.value):
            owner = self.fi.cls.find_attr(attr)
            if owner is None:
                self.bad(node, "unknown class attribute")
            return self.read_classattr(owner, attr)
        if self.is_self(node.value):
            return self.self_attr(node)
        v = self.ev(node.value)
        if v in self.objslots:
            return self.with_obj(v, lambda: self.self_attr(node))
        return self.value_attr(node, v, attr)

    def with_obj(self, obj, f):
        """run f with `obj` (a locally kept helper object) in the role of self"""
        saved = (self.selfvar, self.slotroot, self.fi)
        ci = self.P.classes[self.tag(obj)[1]]
        self.selfvar, self.slotroot = obj, self.objslots[obj]
        self.fi = types.SimpleNamespace(fid=self.fi.fid, cls=ci, module=self.fi.module, node=self.fi.node,
                                        params=self.fi.params, kind=self.fi.kind, parent=self.fi.parent)
        try:
            return f()
        finally:
            self.selfvar, self.slotroot, self.fi = saved

    def self_attr(self, node):
        attr = node.attr
        cls = self.fi.cls
        if attr in self.slotroot:
            sname, root = self.slotroot[attr]
            v = self.new('self.' + attr)
            self.emit('StateRead', sname, self.selfvar)
            self.emit('Assign', v, root)
            t = self.slotinfo.get(sname, {}).get('tag')
            if t:
                self.tags[v] = t
            return v
        if cls.is_record() and attr in cls.all_fields():
            res = self.fresh('self.' + attr)                # a field of an (immutable) record
            self.emit('Load', res, self.selfvar)
            return res
        owner = cls.find_attr(attr)
        if owner is not None:
            return self.read_classattr(owner, attr)
        meth = cls.find_method(attr)
        if meth is not None and meth.kind == 'property':
            return self.call_py(meth, self.selfvar, [], {}, node)
        self.bad(node, "attribute of self is neither a slot, a class constant nor a property")

    def lost_object(self, v):
        t = self.tag(v)
        if isinstance(t, tuple) and t[0] == 'inst' and v not in self.objslots \
                and t[1] not in self.P.public_classes and t[1] not in self.P.escaped_prev \
                and not self.P.classes[t[1]].is_record():
            self.P.escaped.add(t[1])       # the translation is repeated with summaries for this class

    def value_attr(self, node, v, attr):
        self.lost_object(v)
        t = self.tag(v)
        slots, cattrs, props = [], [], []
        known = isinstance(t, tuple) and t[0] == 'inst'
        fields = False
        if known:
            ci = self.P.classes[t[1]]
            al = ci.all_slots()
            if ci.is_record() and attr in ci.all_fields():
                res = self.fresh('.' + attr)
                self.emit('Load', res, v)
                return res
            if attr in al:
                slots.append(f"{al[attr].cid}.{attr}")
            elif ci.find_attr(attr) is not None:
                cattrs.append(ci.find_attr(attr))
            else:
                mt = ci.find_method(attr)
                if mt is not None and mt.kind == 'property':
                    props.append(mt)
        else:
            for c in self.P.slot_candidates(attr):
                slots.append(f"{c.all_slots()[attr].cid}.{attr}")
            cattrs = self.P.classattr_candidates(attr)
            props = [f for f in self.P.method_candidates(attr) if f.kind == 'property']
            fields = bool(self.P.field_candidates(attr))
            cattrs = [c for c in cattrs if not (c.is_record() and attr in c.all_fields())]
        lib_alias = attr in ATTR_ALIAS or attr in self.columns or fields
        lib_fresh = attr in ATTR_FRESH
        if known and (slots or cattrs or props):
            lib_alias = lib_fresh = False
        if not (slots or cattrs or props or lib_alias or lib_fresh):
            # may become classified once it is known which private classes' instances are stored / passed on
            self.P.pending.append(f"{self.fi.fid} (pyins/{self.m}.py:{getattr(node, 'lineno', '?')}): "
                                  f"attribute is not classified: {ast.unparse(node)[:60]}")
            lib_alias = True
        res = self.fresh('.' + attr)
        for s in sorted(set(slots)):
            self.emit('StateRead', s, v)
            self.emit('Assign', res, v)
            self.emit('Load', res, v)
        for c in cattrs:
            self.emit('StateRead', f"{c.cid}.{attr}", self.modroot)
            self.emit('Assign', res, self.modroot)
        for f in props:
            self.emit('Assign', res, self.call_py(f, v, [], {}, node))
        if lib_alias:
            self.emit('Assign', res, v)
            if self.tag(v) != 'val':
                self.emit('Load', res, v)
            if not (slots or cattrs or props):
                if attr in ATTR_KEEP_TAG or attr in ('T', 'values'):
                    if self.tag(v) == 'val' or attr in ('T', 'values'):
                        self.tags[res] = 'val'
                elif attr in self.columns:
                    self.tags[res] = 'val'
        return res

    def ev_Subscript(self, node):
        v = self.ev(node.value)
        self.ev_slice(node.slice)
        res = self.ev_Subscript2(node, v)
        if v in self.fnvals:
            self.fnvals[res] = list(self.fnvals[v])
        return res

    def ev_Subscript2(self, node, v):
        if v in self.immleaf and not isinstance(node.slice, ast.Slice):
            x = self.fresh('elem', 'const')
            self.immleaf.add(x)
            return x
        return self.ev_Subscript3(node, v)

    def ev_Subscript3(self, node, v):
        if self.is_listlike(node.slice) and self.tag(v) != 'list':
            return self.fresh('idx', 'val')
        if self.tag(v) == 'list':
            res = self.fresh('elem')
            if isinstance(node.slice, ast.Slice):
                self.emit('Store', res, self.item_of(v))
                self.tags[res] = 'list'
            else:
                self.emit('Load', res, v)
            return res
        res = self.fresh('sub')
        self.emit('Assign', res, v)
        if self.tag(v) == 'val':
            self.tags[res] = 'val'
        else:
            self.emit('Load', res, v)
        return res

    def ev_BinOp(self, node):
        a, b = self.ev(node.left), self.ev(node.right)
        ta, tb = self.tag(a), self.tag(b)
        if isinstance(node.op, (ast.Add, ast.Mult)) and 'list' in (ta, tb):
            res = self.fresh('listop', 'list')
            self.emit('Store', res, a)
            self.emit('Store', res, b)
            return res
        if isinstance(node.op, (ast.BitAnd, ast.BitOr)) and ta == tb == 'mask':
            return self.fresh('mask', 'mask')
        if isinstance(node.op, (ast.Add, ast.Mult)) and ta is None and tb is None:
            # two values of unknown type: could be python lists (shallow concatenation)
            res = self.fresh('binop?')
            self.emit('Store', res, self.item_of(a))
            self.emit('Store', res, self.item_of(b))
            return res
        return self.fresh('binop', 'val')

    def ev_UnaryOp(self, node):
        a = self.ev(node.operand)
        if isinstance(node.op, ast.Invert) and self.tag(a) == 'mask':
            return self.fresh('mask', 'mask')
        if isinstance(node.op, ast.Not):
            return self.fresh('not', 'const')
        return self.fresh('unop', 'val')

    def ev_Compare(self, node):
        self.ev(node.left)
        for c in node.comparators:
            self.ev(c)
        return self.fresh('cmp', 'mask')

    def ev_BoolOp(self, node):
        vs = [self.ev(v) for v in node.values]
        res = self.fresh('boolop')
        for v in vs:
            self.emit('Assign', res, v)
        return res

    def ev_IfExp(self, node):
        self.ev(node.test)
        a, b = self.ev(node.body), self.ev(node.orelse)
        res = self.fresh('ifexp')
        self.emit('Assign', res, a)
        self.emit('Assign', res, b)
        if self.tag(a) == self.tag(b) and self.tag(a) is not None:
            self.tags[res] = self.tag(a)
        return res

    def container(self, elts, hint):
        vs = [self.ev(e.value if isinstance(e, ast.Starred) else e) for e in elts]
        res = self.fresh(hint, 'list')
        ets = {self.tag(v) for v in vs}
        if len(ets) == 1 and None not in ets and hint == 'tuple':
            self.elemtag[res] = next(iter(ets))          # all elements of this literal have one known kind
        for v in vs:
            self.emit('Store', res, v)
            if v in self.fnvals:
                self.fnvals[res] = self.fnvals.get(res, []) + [e for e in self.fnvals[v]
                                                               if e not in self.fnvals.get(res, [])]
        return res

    def ev_Tuple(self, node):
        return self.container(node.elts, 'tuple')

    def ev_List(self, node):
        return self.container(node.elts, 'list')

    def ev_Set(self, node):
        return self.container(node.elts, 'set')

    def ev_Dict(self, node):
        return self.container([k for k in node.keys if k is not None] + node.values, 'dict')

    def ev_Starred(self, node):
        return self.ev(node.value)

    def ev_NamedExpr(self, node):
        v = self.ev(node.value)
        self.bind_target(node.target, v)
        return v

    def gen_container(self):
        if self.gen_var is None:
            self.gen_var = self.fresh('generator', 'list')
            self.emit('Assign', self.ret, self.gen_var)
        return self.gen_var

    def ev_Yield(self, node):
        g = self.gen_container()
        if node.value is not None:
            self.emit('Store', g, self.ev(node.value))
        return self.fresh('sent', 'const')

    def ev_YieldFrom(self, node):
        g = self.gen_container()
        self.emit('Store', g, self.item_of(self.ev(node.value)))
        return self.fresh('sent', 'const')

    def ev_Lambda(self, node, immediate=False):
        immediate = immediate or getattr(self, '_argdepth', 0) > 0
        a = node.args
        if a.vararg or a.kwarg or a.kwonlyargs:
            self.bad(node, "lambda with *args / keyword-only parameters")
        names = [x.arg for x in a.posonlyargs + a.args]
        if not immediate:
            # a closure sees later values of the enclosing variables: accept only single-assignment ones
            for n in ast.walk(node.body):
                if isinstance(n, ast.Name) and n.id in self.locals and n.id not in names \
                        and self.bind_count.get(n.id, 0) > 1:
                    self.bad(node, f"lambda stored in a variable reads `{n.id}`, which is assigned more than once")
        saved = dict(self.env)
        ps = []
        defaults = [None] * (len(names) - len(a.defaults)) + list(a.defaults)
        for nm, dflt in zip(names, defaults):
            pv = self.new('lambda_' + nm)
            if dflt is not None:
                self.emit('Assign', pv, self.ev(dflt))
            self.env[nm] = pv
            ps.append(pv)
        r = self.ev(node.body)
        self.env = saved
        v = self.fresh('lambda', 'const')
        self.fnvals[v] = [('lambda', tuple(ps), r)]
        return v

    def invoke_fn_values(self, fns, node, args=None, kws=None, sources=None):
        """a function value is called: by pyins code with `args`, or by a library that may pass anything
        reachable from `sources`; returns the variable of the result"""
        res = self.fresh('fncall')
        for e in fns:
            if e[0] == 'nested':
                if args is None:
                    self.bad(node, "nested function handed to a library")
                self.emit('Assign', res, self.call_py(e[1], None, args, kws or {}, node))
            elif e[0] == 'lib':
                spec = LIB[e[1]]
                USED.add('lib:' + e[1])
                if args is None:
                    if spec.get('mut') or 'nin' in spec or spec.get('ow'):
                        self.bad(node, f"library function {e[1]} (may write an argument) handed to a library")
                    t = self.fresh('libres', spec.get('tag'))
                    if spec.get('ret') or spec.get('elems') or spec.get('load'):
                        for sv in sources:
                            self.emit('Reach', t, sv)
                    self.emit('Assign', res, t)
                else:
                    self.emit('Assign', res, self.lib_call(e[1], spec, list(args), kws or {}, None, node))
            elif e[0] == 'lambda':
                _, ps, r = e
                if args is not None:
                    if kws or len(args) > len(ps):
                        self.bad(node, "call of a lambda with keywords / too many arguments")
                    for pv, av in zip(ps, args):
                        self.emit('Assign', pv, av)
                else:
                    for pv in ps:
                        for sv in sources:
                            self.emit('Reach', pv, sv)
                self.emit('Assign', res, r)
            else:
                fi = self.P.funcs.get(e[1])
                if fi is None:
                    self.bad(node, f"unknown function value {e[1]}")
                if args is not None:
                    self.emit('Assign', res, self.call_py(fi, None, args, kws or {}, node))
                else:
                    t = self.new('anyarg')
                    for sv in sources:
                        self.emit('Reach', t, sv)
                    n_pos = len(fi.pos_params)
                    self.emit('Assign', res, self.call_py(fi, None, [t] * n_pos, {}, node, unknown_args=True))
        return res

    def comprehension(self, node, elts):
        saved = dict(self.env)
        for g in node.generators:
            if g.is_async:
                self.bad(node, "async comprehension")
            it = self.ev(g.iter)
            self.bind_target(g.target, self.item_of(it))
            for c in g.ifs:
                self.ev(c)
        vs = [self.ev(e) for e in elts]
        self.env = saved
        res = self.fresh('comp', 'list')
        for v in vs:
            self.emit('Store', res, v)
        return res

    def item_of(self, it):
        if it in self.immleaf:
            x = self.fresh('item', 'const')     # an immutable value (or a tuple of such)
            self.immleaf.add(x)
            return x
        x = self.item_of2(it)
        if it in self.elemtag and self.tag(it) == 'list':
            self.tags[x] = self.elemtag[it]
        if it in self.fnvals:
            self.fnvals[x] = list(self.fnvals[it])
        return x

    def item_of2(self, it):
        x = self.fresh('item')
        if self.tag(it) == 'list':
            self.emit('Load', x, it)
            return x
        self.emit('Assign', x, it)
        if self.tag(it) != 'val':
            self.emit('Load', x, it)
        else:
            self.tags[x] = 'val'
        return x

    def ev_ListComp(self, node):
        return self.comprehension(node, [node.elt])

    def ev_SetComp(self, node):
        return self.comprehension(node, [node.elt])

    def ev_GeneratorExp(self, node):
        return self.comprehension(node, [node.elt])

    def ev_DictComp(self, node):
        return self.comprehension(node, [node.key, node.value])

    # -- calls
    def ev_Call(self, node):
        f = node.func
        # evaluate arguments once
        args = []
        self._argdepth = getattr(self, '_argdepth', 0) + 1      # lambdas inside the arguments are used at once
        try:
            for a in node.args:
                args.append(self.ev(a.value if isinstance(a, ast.Starred) else a))
            starred = any(isinstance(a, ast.Starred) for a in node.args)
            kws = {}
            for k in node.keywords:
                kws[k.arg if k.arg is not None else '**'] = (self.ev(k.value), k.value)
        finally:
            self._argdepth -= 1

        def need_plain():
            if starred or '**' in kws:
                self.bad(node, "*args / **kwargs in a call of a pyins function")

        # super(...).meth(...)
        if isinstance(f, ast.Attribute) and isinstance(f.value, ast.Call) \
                and isinstance(f.value.func, ast.Name) and f.value.func.id == 'super':
            need_plain()
            for b in self.fi.cls.mro()[1:]:
                if f.attr in b.methods:
                    return self.call_py(b.methods[f.attr], self.selfvar, args, kws, node)
            self.bad(node, "super() method not found")
        if isinstance(f, ast.Attribute) and isinstance(f.value, ast.Name) and f.value.id == 'object' \
                and 'object' not in self.env and f.attr == '__setattr__' and len(args) == 3 and not kws:
            return self.dyn_setattr(node, args[0], node.args[1], args[2])
        if isinstance(f, ast.Name) and f.id in ('setattr', 'getattr') and f.id not in self.env \
                and self.P.resolve_name(self.m, f) is None and not kws and not starred:
            if f.id == 'setattr' and len(args) == 3:
                return self.dyn_setattr(node, args[0], node.args[1], args[2])
            if f.id == 'getattr' and len(args) in (2, 3):
                return self.dyn_getattr(node, args[0], node.args[0], node.args[1], args[2:] )
        if isinstance(f, ast.Name):
            n = f.id
            if n in self.env:
                v = self.env[n]
                if self.tag(v) == 'callable':
                    USED.add('callable')
                    return self.fresh('interp', 'val')
                if v in self.fnvals:
                    need_plain()
                    return self.invoke_fn_values(self.fnvals[v], node, args, kws)
                if v in self.param_vars:
                    # may become classified once the tags of the actual arguments at the call sites are known
                    self.P.pending.append(f"{self.fi.fid} (pyins/{self.m}.py:{node.lineno}): call of parameter "
                                          f"`{n}`, which is not known to be a classified callable object at "
                                          f"every call site")
                    return self.fresh('pending-call', 'val')
                self.bad(node, "call of a local value that is not a classified callable object")
            if n in self.nested:
                need_plain()
                return self.call_py(self.nested[n], None, args, kws, node)
            if self.is_cls(f):
                need_plain()
                return self.construct(self.fi.cls, args, kws, node)
            r = self.P.resolve_name(self.m, f)
            if r is None:
                if n in BUILTINS:
                    return self.lib_call('builtins.' + n, BUILTINS[n], args, kws, None, node)
                self.bad(node, "call of an unknown name")
            return self.call_resolved(r, args, kws, node, need_plain)
        if isinstance(f, ast.Attribute):
            if not self.root_is_local(f):
                r = self.P.resolve_name(self.m, f)
                if r is not None:
                    return self.call_resolved(r, args, kws, node, need_plain)
            if self.is_self(f.value) or self.is_cls(f.value):
                cls = self.fi.cls
                meth = cls.find_method(f.attr)
                if meth is not None:
                    need_plain()
                    cands = [meth]
                    for d in self.P.subclasses[cls.cid]:
                        mt = d.find_method(f.attr)
                        if mt is not None and mt not in cands:
                            cands.append(mt)
                    return self.call_many(cands, self.selfvar if self.is_self(f.value) else None,
                                          args, kws, node)
                if self.is_cls(f.value):
                    self.bad(node, "unknown class method")
            v = self.ev(f.value)
            return self.method_call(node, v, f.attr, args, kws, need_plain)
        v = self.ev(f)
        if self.tag(v) == 'callable':
            USED.add('callable')
            return self.fresh('interp', 'val')
        if v in self.fnvals:
            need_plain()
            return self.invoke_fn_values(self.fnvals[v], node, args, kws)
        self.bad(node, "call of a computed value")

    def dyn_setattr(self, node, obj, name_node, val):
        """setattr(obj, name, value) / object.__setattr__(obj, name, value)"""
        if isinstance(name_node, ast.Constant) and isinstance(name_node.value, str):
            tgt = ast.Attribute(value=node.args[0], attr=name_node.value, ctx=ast.Store(), lineno=node.lineno)
            self.bind_target(tgt, val)
        elif obj == self.selfvar and self.selfvar is not None:
            cls = self.fi.cls
            if cls.is_record():
                self.emit('Mutate', obj)
                self.emit('Store', obj, val)
            names = self.names_of(name_node)
            for attr, (sname, root) in sorted(self.slotroot.items()):   # any slot may be the target
                if names is not None and attr not in names:
                    continue
                self.emit('StateWrite', sname, self.selfvar)
                self.emit('Assign', root, val)
                self.slot_writes.append((sname, val))
        else:
            for c in self.P.classes.values():
                for attr, owner in sorted(c.all_slots().items()):
                    self.emit('StateWrite', f"{owner.cid}.{attr}", obj)
            self.emit('Mutate', obj)
            self.emit('Store', obj, val)
        return self.fresh('none', 'const')

    def names_of(self, name_node):
        """the constant strings a name expression may evaluate to, if known"""
        if isinstance(name_node, ast.Name) and name_node.id in self.env:
            return self.strvals.get(self.env[name_node.id])
        return None

    def dyn_getattr(self, node, obj, obj_node, name_node, default):
        if isinstance(name_node, ast.Constant) and isinstance(name_node.value, str):
            res = self.ev(ast.Attribute(value=obj_node, attr=name_node.value, ctx=ast.Load(), lineno=node.lineno))
        else:
            res = self.fresh('getattr')
            if obj == self.selfvar and self.selfvar is not None:
                names = self.names_of(name_node)
                for attr, (sname, root) in sorted(self.slotroot.items()):
                    if names is not None and attr not in names:
                        continue
                    self.emit('StateRead', sname, self.selfvar)
                    self.emit('Assign', res, root)
                for c in self.fi.cls.mro():
                    for a in sorted(c.attrs):
                        if names is None or a in names:
                            self.emit('Assign', res, self.read_classattr(c, a))
                if self.fi.cls.is_record():
                    self.emit('Load', res, obj)
            else:
                for c in self.P.classes.values():
                    for attr, owner in sorted(c.all_slots().items()):
                        self.emit('StateRead', f"{owner.cid}.{attr}", obj)
                self.emit('Assign', res, obj)
                self.emit('Load', res, obj)
        for d in default:
            self.emit('Assign', res, d)
        return res

    def call_resolved(self, r, args, kws, node, need_plain):
        if r[0] == 'func':
            need_plain()
            return self.call_py(self.P.funcs[r[1]], None, args, kws, node)
        if r[0] == 'class':
            need_plain()
            return self.construct(self.P.classes[r[1]], args, kws, node)
        if r[0] == 'classattr':
            ci = self.P.classes[r[1]]
            mt = ci.find_method(r[2])
            if mt is None:
                self.bad(node, "unknown method")
            need_plain()
            return self.call_py(mt, None, args, kws, node)
        if r[0] == 'special':
            return self.lib_call(r[1], PYINS_SPECIAL[r[1]], args, kws, None, node)
        if r[0] == 'lib':
            q = r[1]
            if q.startswith('numpy.random.'):
                self.emit('GlobalRng')
                return self.fresh('globalrng', 'val')
            if q not in LIB:
                self.bad(node, f"library function {q} is not classified")
            USED.add('lib:' + q)
            return self.lib_call(q, LIB[q], args, kws, None, node)
        self.bad(node, f"call of {r[0]}")

    def method_call(self, node, v, attr, args, kws, need_plain):
        self.lost_object(v)
        t = self.tag(v)
        cands = []
        known = isinstance(t, tuple) and t[0] == 'inst'
        if known:
            mt = self.P.classes[t[1]].find_method(attr)
            if mt is not None:
                cands = [mt]
                for d in self.P.subclasses[t[1]]:
                    m2 = d.find_method(attr)
                    if m2 is not None and m2 not in cands:
                        cands.append(m2)
        elif t not in ('val', 'list', 'const', 'mask', 'rot', 'callable', 'rng'):
            cands = [f for f in self.P.method_candidates(attr) if f.kind != 'property']
        spec = None if (known and cands) else METHODS.get(attr)
        if not cands and spec is None:
            self.bad(node, f"method .{attr}() is not classified")
        if cands:
            need_plain()
        if cands and spec is None and len(cands) == 1:
            return self.call_py(cands[0], v, args, kws, node)
        res = self.fresh('.' + attr + '()')
        if cands:
            self.emit('Assign', res, self.call_many(cands, v, args, kws, node))
        if spec is not None:
            USED.add('meth:' + attr)
            r = self.lib_call('.' + attr, spec, args, kws, v, node)
            self.emit('Assign', res, r)
            if not cands and self.tag(r) is not None:
                self.tags[res] = self.tag(r)
        return res

    def call_many(self, cands, recv, args, kws, node):
        if len(cands) == 1:
            return self.call_py(cands[0], recv, args, kws, node)
        res = self.fresh('dispatch')
        for c in cands:
            self.emit('Assign', res, self.call_py(c, recv, list(args), kws, node, single=False))
        return res

    def construct(self, ci, args, kws, node):
        if ci.is_record() and ci.find_method('__init__') is None:
            obj = self.fresh(ci.cid.split('.')[-1], ('inst', ci.cid))       # a record of its fields
            for v in list(args) + [v for v, _ in kws.values()]:
                self.emit('Store', obj, v)
            for c in ci.mro():
                for f, dflt in c.attrs.items():
                    if f in c.fields and not is_immutable_default(dflt):
                        self.emit('Store', obj, self.read_classattr(c, f))
            post = ci.find_method('__post_init__')
            if post is not None:
                self.call_py(post, obj, [], {}, node)
            return obj
        obj = self.fresh(ci.cid.split('.')[-1], ('inst', ci.cid))
        init = ci.find_method('__init__')
        if ci.cid not in self.P.public_classes and ci.cid not in self.P.escaped_prev \
                and not any(k.cid in self.P.public_classes for k in self.P.subclasses[ci.cid]) \
                and init is not None and init.fid not in self.inline_stack:
            # a private helper class whose instances never leave the functions that create them: its
            # state is kept in variables of this function and its methods are translated inline
            self.objslots[obj] = {attr: (f"{owner.cid}.{attr}", self.new(f"{ci.cid.split('.')[-1]}.{attr}"))
                                  for attr, owner in sorted(ci.all_slots().items())}
            self.call_py(init, obj, args, kws, node)
            return obj
        if init is not None:
            self.call_py(init, obj, args, kws, node, new=True)
        elif args or kws:
            self.bad(node, "constructor arguments for a class without __init__")
        return obj

    # -- private helpers are translated INLINE at the call site (context sensitive, no summary): extracting
    #    a helper function / method is then invisible to the analysis
    MAX_INLINE_DEPTH = 8

    def can_inline(self, fi, recv, new, unknown_args, single):
        if new or unknown_args or not single or fi.fid in self.P.public:
            return False
        if fi.fid in self.inline_stack or len(self.inline_stack) >= self.MAX_INLINE_DEPTH:
            return False
        if fi.parent is not None:
            return True                                    # nested function: a closure
        if fi.cls is None:
            return True
        if self.fi.cls is None or fi.cls not in self.fi.cls.mro():
            return False
        if fi.kind in ('method', 'property'):
            return recv is not None and recv == self.selfvar
        return True                                        # static / class method of the own class

    def can_inline_obj(self, fi, recv, new, unknown_args, single):
        return (recv in self.objslots and fi.kind in ('method', 'property') and not new and not unknown_args
                and single and fi.fid not in self.inline_stack
                and len(self.inline_stack) < self.MAX_INLINE_DEPTH)

    def inline_call(self, fi, binding, node, obj=None):
        saved = (self.fi, self.m, self.env, self.locals, self.globals, self.nested, self.bind_count,
                 self.loops, self.ret, self.clsname, self.selfvar, self.slotroot, self.param_vars)
        closure_env = dict(self.env) if fi.parent is not None else {}
        res = self.new(fi.fid.split('.')[-1] + '()inl')
        self.inline_stack.append(fi.fid)
        try:
            body = fi.node.body
            if fi.cls is None and fi.parent is None:
                self.selfvar, self.slotroot = None, {}
            if obj is not None:
                self.selfvar, self.slotroot = obj, self.objslots[obj]
            self.clsname = fi.params[0] if fi.kind == 'classmethod' else None
            self.fi, self.m = fi, fi.module
            self.env = closure_env
            self.env.update(binding)
            self.locals = assigned_names(body) | set(fi.params) | (saved[3] if fi.parent is not None else set())
            self.globals, self.nested, self.loops = set(), dict(saved[5]) if fi.parent is not None else {}, []
            self.bind_count = dict(saved[6]) if fi.parent is not None else {}
            for st in body:
                for n in ast.walk(st):
                    if isinstance(n, ast.Name) and isinstance(n.ctx, ast.Store):
                        self.bind_count[n.id] = self.bind_count.get(n.id, 0) + 1
                    elif isinstance(n, (ast.For, ast.While)):
                        for nm in assigned_names(n.body) | (assigned_names([n]) if isinstance(n, ast.For) else set()):
                            self.bind_count[nm] = self.bind_count.get(nm, 0) + 1
            self.param_vars = set()
            self.ret = res
            outer_tags, self.ret_tags = self.ret_tags, []
            outer_et, self.ret_elemtags = self.ret_elemtags, []
            outer_gen, self.gen_var = self.gen_var, None
            alive = self.block(body)
            is_gen, self.gen_var = self.gen_var is not None, outer_gen
            if alive is not False:
                self.ret_tags.append('const')              # falls off the end: returns None
                self.ret_elemtags.append(None)
            ts, ets = set(self.ret_tags), set(self.ret_elemtags)
            self.ret_tags, self.ret_elemtags = outer_tags, outer_et
            if is_gen:
                self.tags[res] = 'list'
            elif len(ts) == 1 and None not in ts:
                self.tags[res] = ts.pop()
                if len(ets) == 1 and None not in ets:
                    self.elemtag[res] = ets.pop()
        finally:
            self.inline_stack.pop()
            (self.fi, self.m, self.env, self.locals, self.globals, self.nested, self.bind_count,
             self.loops, self.ret, self.clsname, self.selfvar, self.slotroot, self.param_vars) = saved
        return res

    def call_py(self, fi, recv, args, kws, node, new=False, unknown_args=False, single=True):
        args = list(args)
        kws = dict(kws)
        params = [p for p in fi.params if p not in (fi.vararg, fi.kwarg)]
        npos = len(fi.pos_params)
        full = []
        if fi.kind in ('method', 'property'):
            params.pop(0)
            if recv is None:
                if not args:
                    self.bad(node, "unbound method call without receiver")
                recv = args.pop(0)
            full.append(recv)
            npos -= 1
        elif fi.kind == 'classmethod':
            params.pop(0)
            npos -= 1
        extra_pos = args[npos:]
        args = args[:npos]
        if extra_pos and not fi.vararg:
            self.bad(node, f"too many positional arguments for {fi.fid}")
        bound = dict(zip(params, args))
        if fi.vararg:
            t = self.fresh('varargs', 'list')
            for v in extra_pos:
                self.emit('Store', t, v)
            bound[fi.vararg] = t
        extra_kw = {k: kws.pop(k) for k in list(kws) if k not in params}
        if extra_kw and not fi.kwarg:
            self.bad(node, f"keyword {sorted(extra_kw)[0]} does not match the signature of {fi.fid}")
        if fi.kwarg:
            t = self.fresh('kwargs', 'list')
            for v, _ in extra_kw.values():
                self.emit('Store', t, v)
            bound[fi.kwarg] = t
        for k, (v, knode) in kws.items():
            if k in bound:
                self.bad(node, f"keyword {k} given twice for {fi.fid}")
            if k == 'rng' and isinstance(knode, ast.Constant) and knode.value is None:
                v = self.groot
            bound[k] = v
        params = params + [x for x in (fi.vararg, fi.kwarg) if x]
        for p in params:
            tg = None if unknown_args or p not in bound else self.tag(bound[p])
            if p not in bound and is_immutable_default(fi.defaults.get(p)) and p != 'rng':
                tg = 'const'
            self.P.argtags.setdefault((fi.fid, p), set()).add(tg)
        for i, p in enumerate(params):
            if p in bound:
                if p == 'rng' and i < len(node.args) and isinstance(node.args[i], ast.Constant) \
                        and node.args[i].value is None and recv is None:
                    full.append(self.groot)
                else:
                    full.append(bound[p])
            elif p == 'rng':
                full.append(self.groot)          # rng omitted: numpy's global generator
            elif not is_immutable_default(fi.defaults.get(p)):
                t = self.new('default_' + p)      # shared mutable default value = module state
                self.emit('Assign', t, self.modroot)
                full.append(t)
            else:
                full.append(self.fresh('default_' + p, 'const'))
        if self.can_inline_obj(fi, recv, new, unknown_args, single):
            names = [fi.params[0]] + params
            return self.inline_call(fi, dict(zip(names, full)), node, obj=recv)
        if recv in self.objslots:
            self.bad(node, "method of a locally kept helper object cannot be translated inline")
        if self.can_inline(fi, recv, new, unknown_args, single):
            names = ([fi.params[0]] if fi.kind in ('method', 'property') else []) + params
            return self.inline_call(fi, dict(zip(names, full)), node)
        if fi.parent is not None:
            self.bad(node, "nested function that cannot be translated inline (recursion / function value)")
        full += [self.modroot, self.groot]
        temps = []
        for k, a in enumerate(full):
            t = self.new('arg')
            self.emit('Reach', t, a)
            temps += [a, t]                # exact position, reachable-from position
        x = self.new(fi.fid.split('.')[-1] + '()')
        x0 = self.new(fi.fid.split('.')[-1] + '()fresh')
        self.emit('CallNew' if new else 'Call', x, fi.fid, tuple(temps), x0)
        if fi.fid not in self.callees:
            self.callees.append(fi.fid)
        return x

    def lib_call(self, q, spec, args, kws, recv, node):
        sp = spec.get('special')
        if sp == 'crs':
            a0 = node.args[0] if node.args else None
            res = self.fresh('rng', 'rng')
            if a0 is None or (isinstance(a0, ast.Constant) and a0.value is None):
                self.emit('Assign', res, self.groot)
            else:
                self.emit('Assign', res, args[0])
            return res
        if sp == 'pdctor':
            res = self.fresh('table', 'val')
            data = args[0] if args else (kws['data'][0] if 'data' in kws else None)
            if data is not None:
                self.emit('Assign', res, data)
            return res
        if spec.get('elems') and not spec.get('mut') and not kws:
            srcs = [w for i in spec['elems'] for w in
                    (list(args) + ([recv] if recv is not None else []) if i == 'all' else
                     [recv] if i == 'recv' else [args[i]] if isinstance(i, int) and i < len(args) else [])]
            if srcs and all(w in self.immleaf for w in srcs):
                res = self.fresh(q.split('.')[-1] or q, 'list')   # a fresh container of immutable values
                self.immleaf.add(res)
                return res
        res = self.fresh(q.split('.')[-1] or q)
        allv = list(args) + [v for v, _ in kws.values()]
        fnargs = [v for v in allv if v in self.fnvals]
        if fnargs:
            # the library may call these functions with anything reachable from the other arguments
            sources = [v for v in allv if v not in fnargs] + ([recv] if recv is not None else [])
            for v in fnargs:
                r = self.invoke_fn_values(self.fnvals[v], node, sources=sources)
                self.emit('Assign', res, r)
                self.emit('Store', res, r)

        def pick(i):
            if i == 'all':
                return allv + ([recv] if recv is not None else [])
            if i == 'recv':
                return [recv] if recv is not None else []
            if isinstance(i, int):
                return [args[i]] if i < len(args) else []
            return [kws[i][0]] if i in kws else []

        if 'nin' in spec:
            nin = spec['nin']
            if len(args) > nin + 1:
                self.bad(node, "too many positional arguments for a ufunc")
            if len(args) == nin + 1:
                self.emit('Mutate', args[nin])
                self.emit('Assign', res, args[nin])
        if 'maxpos' in spec and len(args) > spec['maxpos']:
            self.bad(node, "positional argument beyond the classified ones (possible out=)")
        for k, (v, knode) in kws.items():
            const = knode.value if isinstance(knode, ast.Constant) else '?'
            if k == 'out':
                self.emit('Mutate', v)
                self.emit('Assign', res, v)
            elif k == 'inplace':
                if const is not False:
                    if recv is None:
                        self.bad(node, "inplace= on a function")
                    self.emit('Mutate', recv)
            elif k == 'copy':
                if const is not True:
                    for w in pick('all'):
                        self.emit('Assign', res, w)
            elif k == 'where':
                self.bad(node, "where= keyword")
            elif k.startswith('overwrite_'):
                if const is not False:
                    ow = spec.get('ow', {})
                    if k not in ow:
                        self.bad(node, f"{k}= is not classified for {q}")
                    for w in pick(ow[k]):
                        self.emit('Mutate', w)
            elif k == '**':
                self.bad(node, "**kwargs in a library call")
        for i in spec.get('ret', ()):
            for w in pick(i):
                self.emit('Assign', res, w)
        for i in spec.get('load', ()):
            for w in pick(i):
                self.emit('Load', res, w)
        for i in spec.get('elems', ()):
            for w in pick(i):
                self.emit('Store', res, self.item_of(w))
        if spec.get('store_all'):
            for w in pick('all'):
                self.emit('Store', res, w)
        for i in spec.get('mut', ()):
            for w in pick(i):
                self.emit('Mutate', w)
        for i in spec.get('store', ()):
            for w in pick(i):
                if recv is not None:
                    self.emit('Store', recv, w)
        if spec.get('draw'):
            self.emit('Draw', recv)
        t = spec.get('tag')
        if t == 'same':
            t = self.tag(recv) if not isinstance(self.tag(recv), tuple) else None
        if t is not None:
            self.tags[res] = t
        return res

    # -- assignment targets
    def bind_target(self, t, v, elementwise=True):
        if isinstance(t, ast.Name):
            if t.id in self.globals:
                self.emit('StateWrite', f"{self.m}.{t.id}", self.modroot)
                self.emit('Store', self.modroot, v)
            self.env[t.id] = v
        elif isinstance(t, (ast.Tuple, ast.List)):
            for e in t.elts:
                self.bind_target(e, self.item_of(v))
        elif isinstance(t, ast.Starred):
            self.bind_target(t.value, v)
        elif isinstance(t, ast.Attribute):
            if self.is_self(t.value) and t.attr not in self.slotroot and self.fi.cls.is_record() \
                    and t.attr in self.fi.cls.all_fields():
                self.emit('Mutate', self.selfvar)
                self.emit('Store', self.selfvar, v)
            elif not self.is_self(t.value) and isinstance(t.value, ast.Name) \
                    and self.env.get(t.value.id) in self.objslots:
                o = self.env[t.value.id]
                if t.attr not in self.objslots[o]:
                    self.bad(t, "assignment to an unknown slot of a helper object")
                sname, root = self.objslots[o][t.attr]
                self.emit('StateWrite', sname, o)
                self.emit('Assign', root, v)
            elif self.is_self(t.value):
                if t.attr not in self.slotroot:
                    self.bad(t, "assignment to an unknown slot")
                sname, root = self.slotroot[t.attr]
                self.emit('StateWrite', sname, self.selfvar)
                self.emit('Assign', root, v)
                self.slot_writes.append((sname, v))
                if isinstance(self.tag(v), tuple):
                    self.P.escaped.add(self.tag(v)[1])
            else:
                obj = self.ev(t.value)
                self.attr_store_slots(obj, t.attr)
                self.emit('Mutate', obj)
                if self.tag(obj) != 'val':
                    self.emit('Store', obj, v)
        elif isinstance(t, ast.Subscript):
            obj = self.ev(t.value)
            self.ev_slice(t.slice)
            self.emit('Mutate', obj)
            if self.tag(obj) != 'val':
                self.emit('Store', obj, v)
        else:
            self.bad(t, "assignment target")

    def attr_store_slots(self, obj, attr):
        t = self.tag(obj)
        if isinstance(t, tuple) and t[0] == 'inst':
            al = self.P.classes[t[1]].all_slots()
            if attr in al:
                self.emit('StateWrite', f"{al[attr].cid}.{attr}", obj)
        elif t not in ('val', 'list'):
            for c in self.P.slot_candidates(attr):
                self.emit('StateWrite', f"{c.all_slots()[attr].cid}.{attr}", obj)

    # -- statements
    def block(self, stmts):
        """returns False if every path through the block terminated"""
        for s in stmts:
            m = getattr(self, 'st_' + type(s).__name__, None)
            if m is None:
                self.bad(s, f"statement kind {type(s).__name__} is not supported")
            if m(s) is False:
                return False
        return True

    def st_Pass(self, s):
        pass

    def st_Expr(self, s):
        self.ev(s.value)

    def st_Assert(self, s):
        self.ev(s.test)

    def st_Raise(self, s):
        if s.exc is not None:
            self.ev(s.exc)
        return False

    def st_Global(self, s):
        self.globals |= set(s.names)

    def st_FunctionDef(self, s):
        if s.decorator_list:
            self.bad(s, "decorated nested function")
        fi = FuncInfo(f"{self.fi.fid}.{s.name}", self.m, s, cls=self.fi.cls, kind='function', parent=self.fi)
        for n in ast.walk(s):
            if isinstance(n, ast.Nonlocal):
                self.bad(n, "nested function rebinding a variable of the enclosing function")
        self.nested[s.name] = fi

    def st_Return(self, s):
        if s.value is not None:
            v = self.ev(s.value)
            self.emit('Assign', self.ret, v)
            if len(self.inline_stack) == 1 and isinstance(self.tag(v), tuple):
                self.P.escaped.add(self.tag(v)[1])          # handed to an unknown caller
            self.ret_tags.append(self.tag(v))
            self.ret_elemtags.append(self.elemtag.get(v))
            if v in self.fnvals:
                self.fnvals[self.ret] = self.fnvals.get(self.ret, []) + list(self.fnvals[v])
        else:
            self.ret_tags.append('const')
            self.ret_elemtags.append(None)
        return False

    def st_Assign(self, s):
        if len(s.targets) == 1 and isinstance(s.targets[0], (ast.Tuple, ast.List)) \
                and isinstance(s.value, (ast.Tuple, ast.List)) \
                and len(s.targets[0].elts) == len(s.value.elts) \
                and not any(isinstance(e, ast.Starred) for e in s.targets[0].elts + s.value.elts):
            vs = [self.ev(e) for e in s.value.elts]
            for t, v in zip(s.targets[0].elts, vs):
                self.bind_target(t, v)
            return
        v = self.ev(s.value)
        for t in s.targets:
            self.bind_target(t, v)

    def st_AnnAssign(self, s):
        if s.value is not None:
            self.bind_target(s.target, self.ev(s.value))

    def st_AugAssign(self, s):
        ve = self.ev(s.value)
        t = s.target
        if isinstance(t, ast.Name):
            old = self.ev_Name(ast.Name(id=t.id, ctx=ast.Load(), lineno=s.lineno))
            self.emit('Mutate', old)
            nv = self.fresh(t.id)
            self.emit('Assign', nv, old)
            if 'list' in (self.tag(old), self.tag(ve)):
                self.emit('Store', nv, ve)
                self.emit('Store', old, ve)
            if self.tag(old) is not None:
                self.tags[nv] = self.tag(old)
            self.bind_target(t, nv)
        elif isinstance(t, ast.Attribute) and self.is_self(t.value):
            old = self.self_attr(t)
            self.emit('Mutate', old)
            sname, root = self.slotroot[t.attr]
            self.emit('StateWrite', sname, self.selfvar)
            if 'list' in (self.tag(old), self.tag(ve)):
                self.emit('Store', old, ve)
        elif isinstance(t, ast.Attribute):
            obj = self.ev(t.value)
            self.attr_store_slots(obj, t.attr)
            self.emit('Mutate', obj)
        elif isinstance(t, ast.Subscript):
            obj = self.ev(t.value)
            self.ev_slice(t.slice)
            self.emit('Mutate', obj)
        else:
            self.bad(t, "augmented assignment target")

    def merge(self, envs):
        envs = [e for e in envs if e is not None]
        if not envs:
            return None
        out = {}
        for n in sorted(set().union(*envs)):
            vs = []
            for e in envs:
                if n in e and e[n] not in vs:
                    vs.append(e[n])
            if len(vs) == 1:
                out[n] = vs[0]
            else:
                p = self.new(n + '_phi')
                for v in vs:
                    self.emit('Assign', p, v)
                ts = {self.tag(v) for v in vs}
                if len(ts) == 1 and None not in ts:
                    self.tags[p] = ts.pop()
                fns = [e for v in vs for e in self.fnvals.get(v, [])]
                if fns:
                    self.fnvals[p] = fns
                for v in vs:
                    if v in self.objslots:                  # two objects may meet here: use summaries for this class
                        self.P.escaped.add(self.tag(v)[1])
                out[n] = p
        return out

    def st_Match(self, s):
        subj = self.ev(s.subject)
        base = dict(self.env)
        envs, irrefutable = [], False
        for case in s.cases:
            self.env = dict(base)
            self.bind_pattern(case.pattern, subj)
            if case.guard is not None:
                self.ev(case.guard)
            alive = self.block(case.body)
            envs.append(dict(self.env) if alive else None)
            p = case.pattern
            if case.guard is None and isinstance(p, ast.MatchAs) and p.pattern is None:
                irrefutable = True
        if not irrefutable:
            envs.append(base)
        m = self.merge(envs)
        if m is None:
            self.env = base
            return False
        self.env = m

    def part_of(self, v):
        x = self.fresh('part')
        self.emit('Assign', x, v)
        self.emit('Load', x, v)
        return x

    def bind_pattern(self, p, v):
        """captures bind (parts of) the subject"""
        if isinstance(p, ast.MatchValue):
            self.ev(p.value)
        elif isinstance(p, ast.MatchSingleton):
            pass
        elif isinstance(p, ast.MatchSequence):
            for sub in p.patterns:
                if isinstance(sub, ast.MatchStar):
                    if sub.name:
                        x = self.fresh('rest', 'list')
                        self.emit('Store', x, self.item_of(v))
                        self.env[sub.name] = x
                else:
                    self.bind_pattern(sub, self.item_of(v))
        elif isinstance(p, ast.MatchMapping):
            for k in p.keys:
                self.ev(k)
            for sub in p.patterns:
                self.bind_pattern(sub, self.item_of(v))
            if p.rest:
                self.env[p.rest] = v
        elif isinstance(p, ast.MatchClass):
            for sub in list(p.patterns) + list(p.kwd_patterns):
                self.bind_pattern(sub, self.part_of(v))
        elif isinstance(p, ast.MatchAs):
            if p.pattern is not None:
                self.bind_pattern(p.pattern, v)
            if p.name:
                self.env[p.name] = v
        elif isinstance(p, ast.MatchOr):
            base = dict(self.env)
            envs = []
            for alt in p.patterns:
                self.env = dict(base)
                self.bind_pattern(alt, v)
                envs.append(dict(self.env))
            self.env = self.merge(envs)
        else:
            self.bad(p, "match pattern")

    def st_If(self, s):
        self.ev(s.test)
        base = dict(self.env)
        alive1 = self.block(s.body)
        e1 = dict(self.env) if alive1 else None
        self.env = dict(base)
        alive2 = self.block(s.orelse)
        e2 = dict(self.env) if alive2 else None
        m = self.merge([e1, e2])
        if m is None:
            self.env = base
            return False
        self.env = m

    def loop(self, s, header):
        names = sorted(assigned_names(s.body) | (assigned_names([s]) if isinstance(s, ast.For) else set()))
        phis = {}
        for n in names:
            p = self.new(n + '_loop')
            if n in self.env:
                self.emit('Assign', p, self.env[n])
            phis[n] = p
            self.env[n] = p
        after = dict(self.env)
        self.loops.append(phis)
        header()
        alive = self.block(s.body)
        if alive:
            self.back_edge()
        self.loops.pop()
        self.env = after
        if s.orelse:
            if not self.block(s.orelse):
                return False

    def back_edge(self):
        phis = self.loops[-1]
        for n, p in phis.items():
            v = self.env.get(n)
            if v is not None and v != p:
                self.emit('Assign', p, v)

    def st_While(self, s):
        return self.loop(s, lambda: self.ev(s.test))

    def literal_of(self, node):
        """the literal tuple/list AST a name / attribute stands for (module or class constant)"""
        if isinstance(node, (ast.Tuple, ast.List)):
            return node
        if isinstance(node, ast.Name) and node.id not in self.env and node.id not in self.locals:
            r = self.P.resolve_name(self.m, node)
            if r and r[0] == 'const':
                v = self.P.consts[r[1]].get(r[2])
                return v if isinstance(v, (ast.Tuple, ast.List)) else None
        if isinstance(node, ast.Attribute) and (self.is_self(node.value) or self.is_cls(node.value)) \
                and node.attr not in self.slotroot:
            o = self.fi.cls.find_attr(node.attr)
            if o is not None and isinstance(o.attrs[node.attr], (ast.Tuple, ast.List)):
                return o.attrs[node.attr]
        return None

    def note_strings(self, target, lit):
        if lit is None:
            return
        if isinstance(target, ast.Name):
            if all(isinstance(e, ast.Constant) and isinstance(e.value, str) for e in lit.elts) and lit.elts:
                self.strvals[self.env[target.id]] = {e.value for e in lit.elts}
        elif isinstance(target, (ast.Tuple, ast.List)):
            rows = lit.elts
            if rows and all(isinstance(r, (ast.Tuple, ast.List)) and len(r.elts) == len(target.elts) for r in rows):
                for j, t in enumerate(target.elts):
                    if isinstance(t, ast.Name) and all(isinstance(r.elts[j], ast.Constant) and
                                                       isinstance(r.elts[j].value, str) for r in rows):
                        self.strvals[self.env[t.id]] = {r.elts[j].value for r in rows}

    def st_For(self, s):
        it_node = s.iter
        if isinstance(it_node, ast.Call) and isinstance(it_node.func, ast.Name) \
                and it_node.func.id in ('zip', 'enumerate') and it_node.func.id not in self.env \
                and not it_node.keywords and isinstance(s.target, ast.Tuple) \
                and not any(isinstance(a, ast.Starred) for a in it_node.args):
            its = [self.ev(a) for a in it_node.args]
            if it_node.func.id == 'enumerate' and len(its) == 1:
                its = [self.fresh('count', 'const')] + its
            if len(its) == len(s.target.elts):
                def header2():
                    for t, iv in zip(s.target.elts, its):
                        self.bind_target(t, self.item_of(iv))
                return self.loop(s, header2)
        it = self.ev(s.iter)
        lit = self.literal_of(s.iter)

        def header():
            self.bind_target(s.target, self.item_of(it))
            self.note_strings(s.target, lit)
        return self.loop(s, header)

    def st_Break(self, s):
        self.back_edge()
        return False

    def st_Continue(self, s):
        self.back_edge()
        return False

    def run(self):
        body = self.fi.node.body
        alive = self.block(body)
        return self


# ----------------------------------------------------------------------------------------------
# schema constants
# ----------------------------------------------------------------------------------------------
def eval_const_lists(prog, module):
    """evaluate module-level list constants (literals, names, +) of a module"""
    out = {}

    def ev(node):
        if isinstance(node, ast.List) and all(isinstance(e, ast.Constant) and isinstance(e.value, str)
                                              for e in node.elts):
            return [e.value for e in node.elts]
        if isinstance(node, ast.Name) and node.id in out:
            return list(out[node.id])
        if isinstance(node, ast.BinOp) and isinstance(node.op, ast.Add):
            a, b = ev(node.left), ev(node.right)
            if a is not None and b is not None:
                return a + b
        return None

    for node in prog.trees[module].body:
        if isinstance(node, ast.Assign) and len(node.targets) == 1 and isinstance(node.targets[0], ast.Name):
            v = ev(node.value)
            if v is not None:
                out[node.targets[0].id] = v
    return out


DOC_KINDS = ['Trajectory', 'Imu', 'Increments', 'TrajectoryError']


def documented_columns(repo):
    """column names of each table kind, from the package docstring (pyins/__init__.py)"""
    tree = ast.parse(open(os.path.join(repo, 'pyins', '__init__.py')).read())
    doc = ast.get_docstring(tree) or ''
    out = {}
    for kind in DOC_KINDS:
        mm = re.search(r"- `%s` - (.*?)(?=\n\s*- `|\n\n)" % kind, doc, re.S)
        if not mm:
            raise Unsupported(f"package docstring: no description of `{kind}`")
        out[kind] = re.findall(r"'(\w+)", mm.group(1))
    return out


def autosummary(prog, module):
    """names listed under Functions / Classes in the module docstring"""
    doc = ast.get_docstring(prog.trees[module]) or ''
    out = {'Functions': [], 'Classes': []}
    for sec in out:
        mm = re.search(r"^%s\n-+\n\.\. autosummary::\n(.*?)(?=\n\S|\Z)" % sec, doc, re.S | re.M)
        if mm:
            for line in mm.group(1).splitlines():
                line = line.strip()
                if line and not line.startswith(':'):
                    out[sec].append(line)
    return out


def public_fids(prog):
    pub = []
    for m in PUBLIC_MODULES:
        au = autosummary(prog, m)
        for f in au['Functions']:
            fid = f"{m}.{f}"
            if fid not in prog.funcs:
                raise Unsupported(f"autosummary of pyins.{m} lists unknown function {f}")
            pub.append(fid)
        for c in au['Classes']:
            cid = f"{m}.{c}"
            if cid not in prog.classes:
                raise Unsupported(f"autosummary of pyins.{m} lists unknown class {c}")
            ci = prog.classes[cid]
            seen = set()
            for k in ci.mro():
                for name, fi in k.methods.items():
                    if name in seen:
                        continue
                    seen.add(name)
                    if name == '__init__' or not name.startswith('_'):
                        if fi.fid not in pub:
                            pub.append(fi.fid)
    return pub




# ----------------------------------------------------------------------------------------------
# points-to solver, summaries and a python mirror of the Coq checker.  NOTHING here is trusted:
# the solutions and summaries are emitted as hints and re-validated by Coq ([valid_hints],
# [summary_ok], [check_fun]); the mirror only produces diagnostics and the slot classification.
# ----------------------------------------------------------------------------------------------
def expand_call(sm, x, x0, args, new=False):
    def argn(i):
        return [args[i]] if i < len(args) else []
    out = [('Fresh', x0), ('Assign', x, x0)]
    for i in sm['mut']:
        out += [('Mutate', a) for a in argn(i)]
    for i in sm['ret']:
        for a in argn(i):
            out += [('Assign', x, a), ('Store', x0, a)]
    for i, j in sm['lnk']:
        out += [('Store', a, b) for a in argn(i) for b in argn(j)]
    if sm['rng']:
        out.append(('GlobalRng',))
    for i in sm['drw']:
        out += [('Draw', a) for a in argn(i)]
    for g, i in sm['sw']:
        if not (new and i == 0):
            out += [('StateWrite', g, a) for a in argn(i)]
    for g, i in sm['sr']:
        if not (new and i == 0):
            out += [('StateRead', g, a) for a in argn(i)]
    return out


def prims(S, body):
    out = []
    for st in body:
        if st[0] in ('Call', 'CallNew'):
            if st[2] not in S:
                return None
            out += expand_call(S[st[2]], st[1], st[4], st[3], st[0] == 'CallNew')
        else:
            out.append(st)
    return out


def solve(P, pt0, cont0):
    pt = {k: set(v) for k, v in pt0.items()}
    cont = {k: set(v) for k, v in cont0.items()}
    flow = [s for s in P if s[0] in ('Fresh', 'Assign', 'Load', 'Reach', 'Store')]
    changed = True
    while changed:
        changed = False
        for s in flow:
            if s[0] == 'Fresh':
                d = pt.setdefault(s[1], set())
                if s[1] not in d:
                    d.add(s[1])
                    changed = True
            elif s[0] in ('Assign', 'Load', 'Reach'):
                src = pt.get(s[2])
                if not src:
                    continue
                if s[0] == 'Assign':
                    add = src
                elif s[0] == 'Load':
                    add = set()
                    for o in src:
                        add |= cont.get(o, set())
                else:
                    add = closure_of(cont, src)
                d = pt.setdefault(s[1], set())
                if not add <= d:
                    d |= add
                    changed = True
                if s[0] == 'Reach':
                    add = closure_of(cont, d)
                    if not add <= d:
                        d |= add
                        changed = True
            else:
                src = pt.get(s[2])
                tgt = pt.get(s[1])
                if not src or not tgt:
                    continue
                for o in tgt:
                    d = cont.setdefault(o, set())
                    if not src <= d:
                        d |= src
                        changed = True
    return pt, cont


def closure_of(cont, sites):
    out = set(sites)
    todo = list(out)
    while todo:
        o = todo.pop()
        for o2 in cont.get(o, ()):
            if o2 not in out:
                out.add(o2)
                todo.append(o2)
    return out


def solve_collapsed(f, P):
    ps, os_, g, rs = f['psite'], f['osite'], f['grng'], f['rsite']
    pt0 = {p: {ps} for p in f['params']}
    pt0.update({o: {os_} for o in f['owned']})
    pt0.update({o: {rs} for o in f['ownref']})
    pt0[g] = {g}
    pt, cont = solve(P, pt0, {ps: {ps}, os_: {os_}, g: {g}, rs: {rs, ps}})
    # the reserved variable OWNED carries the closure of everything the private roots may reach
    pt[os_] = closure_of(cont, set().union(*([pt.get(o, set()) for o in f['owned']] or [set()])))
    return pt, cont


def solve_roots(f, P):
    pt0, cont0 = {}, {}
    for k in range(0, len(f['formals']), 2):
        deep = f['formals'][k + 1][0]
        for r in f['formals'][k]:
            pt0[r] = {r}
            cont0[r] = {deep}
        for r in f['formals'][k + 1]:
            pt0[r] = {r}
            cont0[r] = {r} if r == deep or True else set()
    # slot variables: content object v (exact), everything below it v'
    for k in range(0, len(f['formals']), 2):
        rr = f['formals'][k + 1]
        for a, b in zip(rr[1::2], rr[2::2]):
            cont0[a] = {b}
    return solve(P, pt0, cont0)


def summary_of(S, f):
    P = prims(S, f['body'])
    if P is None:
        return None, None
    pt, cont = solve_roots(f, P)

    def clo(roots):
        return closure_of(cont, set().union(*([pt.get(r, set()) for r in roots] or [set()])))

    priv = {v for _, a, b in f['slots'] for v in (a, b)}
    pos = range(len(f['formals']))
    ex = set(f['exact'])

    def clo_i(i, roots):
        if i in ex:
            return set().union(*([pt.get(r, set()) for r in roots] or [set()]))
        return clo(roots)

    rs = [clo_i(i, fm) for i, fm in enumerate(f['formals'])]
    rsp = [clo_i(i, [v for v in fm if v not in priv]) for i, fm in enumerate(f['formals'])]
    scl = [(g, clo([v])) for g, v, _ in f['slots']]
    retr = clo([f['ret']])
    g = f['grng']
    sw, sr = [], []
    for s in P:
        if s[0] == 'StateWrite':
            sw += [(s[1], i) for i in pos if pt.get(s[2], set()) & rs[i]]
        elif s[0] == 'Mutate':
            sw += [(gn, 0) for gn, c in scl if pt.get(s[1], set()) & c]
        elif s[0] == 'StateRead':
            sr += [(s[1], i) for i in pos if pt.get(s[2], set()) & rs[i]]
    sm = dict(
        mut=[i for i in pos if any(s[0] == 'Mutate' and pt.get(s[1], set()) & rsp[i] for s in P)],
        ret=[i for i in pos if retr & rs[i]],
        lnk=[(i, j) for i in pos for j in pos if i // 2 != j // 2 and
             (rs[i] | set().union(*([cont.get(o, set()) for o in rs[i]] or [set()]))) & set(f['formals'][j])],
        rng=any(s[0] == 'GlobalRng' or (s[0] == 'Draw' and g in pt.get(s[1], set())) for s in P),
        drw=[i for i in pos if any(s[0] == 'Draw' and pt.get(s[1], set()) & rs[i] for s in P)],
        sw=sorted(set(sw)), sr=sorted(set(sr)))
    q = dict(pos=rs, posp=rsp, slot=[c for _, c in scl], ret=retr)
    return sm, (pt, cont, q)


def check_fun(wl, rd, allow_g, S, f, names=None):
    """mirror of Coq's check_fun: returns (reasons, solution); empty reasons = accepted"""
    P = prims(S, f['body'])
    if P is None:
        return ['a callee has no summary (recursion or failed translation)'], None
    pt, cont = solve_collapsed(f, P)
    nm = (lambda v: f"{names[v]}#{v}") if names else str
    ps, g = f['psite'], f['grng']
    why = []
    if ps in pt.get(f['osite'], set()):
        for o in f['owned']:
            if ps in closure_of(cont, pt.get(o, set())):
                why.append(f"private state {nm(o)} may come to hold or reference caller memory")
    for o in f['ownref']:
        if ps in pt.get(o, set()):
            why.append(f"the receiver's own container {nm(o)} may become the caller's object")
    for s in P:
        k = s[0]
        if k == 'Mutate' and ps in pt.get(s[1], set()):
            why.append(f"write through {nm(s[1])}, which may be (part of) an argument / module state")
        elif k == 'GlobalRng':
            why.append("draw from numpy's global / an unseeded generator")
        elif k == 'Draw' and not allow_g and g in pt.get(s[1], set()):
            why.append(f"draw from {nm(s[1])}, which may be numpy's global generator (rng not passed on)")
        elif k == 'StateWrite' and s[1] not in wl and ps in pt.get(s[2], set()):
            why.append(f"state slot {s[1]} of {nm(s[2])} (caller's object / module) is written")
        elif k == 'StateRead' and s[1] not in rd and ps in pt.get(s[2], set()):
            why.append(f"mutable state slot {s[1]} of {nm(s[2])} (caller's object / module) is read")
    return sorted(set(why)), (pt, cont)


def seed_plumbed(S, f, sol):
    P = prims(S, f['body'])
    if P is None or sol is None:
        return False
    pt = sol[0]
    for s in P:
        if s[0] == 'GlobalRng':
            return False
        if s[0] == 'Draw':
            d = pt.get(s[1], set())
            if f['grng'] in d or not (f['psite'] in d or f['osite'] in d):
                return False
    return True


# ----------------------------------------------------------------------------------------------
# whole-program translation
# ----------------------------------------------------------------------------------------------
def translate_all(repo):
    prog = Program(repo)
    util_lists = eval_const_lists(prog, 'util')
    columns = {c for v in util_lists.values() for c in v} | {'dt'}
    slotinfo = {}
    prog.public = set(public_fids(prog))
    for m in PUBLIC_MODULES:
        for c in autosummary(prog, m)['Classes']:
            prog.public_classes.add(f"{m}.{c}")
    for rnd in range(12):
        prog.argtags = {}
        prog.escaped = set()
        prog.pending = []
        fts = {}
        todo = list(prog.funcs.values())
        while todo:
            fi = todo.pop(0)
            ft = FT(prog, fi, slotinfo, columns).run()
            fts[fi.fid] = ft
            todo += ft.nested_infos
        # strongly connected components of the call graph, callees first (Tarjan)
        index, low, onst, stack, sccs = {}, {}, set(), [], []
        sys.setrecursionlimit(max(sys.getrecursionlimit(), 5000))

        def strong(v):
            index[v] = low[v] = len(index)
            stack.append(v)
            onst.add(v)
            for w in fts[v].callees:
                if w not in index:
                    strong(w)
                    low[v] = min(low[v], low[w])
                elif w in onst:
                    low[v] = min(low[v], index[w])
            if low[v] == index[v]:
                comp = []
                while True:
                    w = stack.pop()
                    onst.discard(w)
                    comp.append(w)
                    if w == v:
                        break
                sccs.append(comp)

        for fid in fts:
            if fid not in index:
                strong(fid)
        order = [fid for comp in sccs for fid in comp]
        funcs = {}
        for fid in order:
            ft = fts[fid]
            funcs[fid] = dict(params=ft.f_params, owned=ft.f_owned, ownref=ft.f_ownref, grng=ft.groot,
                              psite=ft.modroot, osite=ft.osite, rsite=ft.rsite, exact=ft.f_exact,
                              formals=ft.f_formals, slots=ft.f_slots, body=ft.stmts,
                              ret=ft.ret, rreach=ft.rreach, names=ft.names, kind=ft.fi.kind,
                              cls=ft.fi.cls.cid if ft.fi.cls else None,
                              line=ft.fi.node.lineno, module=ft.fi.module)
        S, sols = {}, {}
        empty = dict(mut=[], ret=[], lnk=[], rng=False, drw=[], sw=[], sr=[])
        for comp in sccs:
            recursive = len(comp) > 1 or comp[0] in fts[comp[0]].callees
            if recursive:                      # (mutual) recursion: least fixpoint of the summaries
                for fid in comp:
                    S[fid] = dict(empty)
            for it in range(30 if recursive else 1):
                changed = False
                for fid in comp:
                    sm, sol = summary_of(S, funcs[fid])
                    if sm is not None:
                        if S.get(fid) != sm:
                            changed = True
                        S[fid] = sm
                        sols[fid] = sol
                if not changed:
                    break
            else:
                if recursive:
                    raise Unsupported("summaries of the recursive functions " + ', '.join(comp) + " do not stabilise")
        # slot classification: private unless some method may make it hold / reference caller memory
        new = {}
        for fid in order:
            ft, f = fts[fid], funcs[fid]
            if not ft.slotroot or fid not in sols:
                continue
            pt, cont, _ = sols[fid]
            first = 2 if ft.selfvar is not None else 0
            prot = {v for fm in ft.f_formals[first:-2] for v in fm}
            for attr, (sname, root) in ft.slotroot.items():
                d = new.setdefault(sname, dict(cat=0, tags=set()))
                if pt.get(root, set()) & prot:
                    d['cat'] = 2
                elif closure_of(cont, pt.get(root, set())) & prot:
                    d['cat'] = max(d['cat'], 1)
            for sname, v in ft.slot_writes:
                new[sname]['tags'].add(ft.tag(v))
        info = {}
        for sname, d in new.items():
            # None / numeric literals are neutral: a slot that holds only arrays / tables (or None)
            kinds = d['tags'] - {'const'}
            one = next(iter(kinds)) if len(kinds) == 1 else None
            info[sname] = dict(cat=('private', 'ownref', 'param')[d['cat']],
                               tag=one if one in ('val', 'list') else None)
        ptags = {k: next(iter(v)) for k, v in prog.argtags.items() if len(v) == 1 and None not in v}
        if info == slotinfo and ptags == prog.param_tags and prog.escaped <= prog.escaped_prev:
            if prog.pending:
                raise Unsupported('; '.join(sorted(set(prog.pending))[:5]))
            return dict(prog=prog, fts=fts, funcs=funcs, order=order, S=S, sols=sols, slotinfo=info,
                        util_lists=util_lists)
        slotinfo = info
        prog.param_tags = ptags
        prog.escaped_prev = prog.escaped_prev | prog.escaped
    raise Unsupported("slot / parameter classification did not stabilise")


# ----------------------------------------------------------------------------------------------
# policy (mirror of C19_policy in Proofs/AliasProofs.v) and emission of coq/Gen/AliasIR.v
# ----------------------------------------------------------------------------------------------
DATA_FRAME_SLOT = 'inertial_sensor.Parameters.data_frame'


def mangle(name):
    return re.sub(r'\W', '_', name)


def policy_for(fid, readonly):
    if fid in FILTERS:
        return list(ESTIMATE_SLOTS), readonly + ESTIMATE_SLOTS, False
    if fid in GLOBAL_RNG_USERS:
        return [DATA_FRAME_SLOT], readonly + [DATA_FRAME_SLOT], True
    return [], readonly, False


def analyse(repo=REPO):
    """translate + solve + mirror-check; returns everything the emitter and the harness need"""
    R = translate_all(repo)
    funcs, S, order = R['funcs'], R['S'], R['order']
    pub = public_fids(R['prog'])
    # slot names
    snames = set(ESTIMATE_SLOTS) | {DATA_FRAME_SLOT}
    for f in funcs.values():
        for st in f['body']:
            if st[0] in ('StateRead', 'StateWrite'):
                snames.add(st[1])
        snames |= {g for g, _, _ in f['slots']}
    written = set()
    for fid in order:
        if fid.endswith('.__init__'):
            continue
        P = prims(S, funcs[fid]['body']) or []
        written |= {st[1] for st in P if st[0] == 'StateWrite'}
        written |= {g for g, _ in S.get(fid, {}).get('sw', [])}
    readonly = sorted(snames - written)
    res = {}
    for fid in order:
        f = funcs[fid]
        wl, rd, ag = policy_for(fid, readonly)
        why, sol = check_fun(wl, rd, ag, S, f, f['names'])
        if sol is not None:
            pt, cont = sol
            pt[f['rreach']] = closure_of(cont, pt.get(f['ret'], set()))
        res[fid] = dict(why=why, sol=sol, plumbed=seed_plumbed(S, f, sol) and
                        (sol is not None and f['grng'] not in sol[0][f['rreach']]),
                        draws=any(st[0] in ('Draw', 'GlobalRng') for st in (prims(S, f['body']) or [])))
    R.update(pub=pub, snames=sorted(snames), readonly=readonly, res=res)
    return R


def coq_pos(v):
    return str(v + 1)


def coq_plist(vs):
    return '[' + '; '.join(coq_pos(v) for v in vs) + ']'


def coq_nlist(ns):
    return '[' + '; '.join(f"{n}%nat" for n in ns) + ']'


def coq_map(d):
    items = sorted((k, sorted(v)) for k, v in d.items() if v)
    return 'of_list [' + '; '.join(f"({coq_pos(k)}, {coq_plist(v)})" for k, v in items) + ']'


_FORBIDDEN = re.compile(r'(Admitted|admit|Axioms?|Parameters?|Conjecture|Hypothes[ie]s|Variables?)')


def coq_string(x):
    """a Coq string literal; words that the hygiene grep of the framework looks for (e.g. the class
    name `Parameters`) are split into two concatenated literals"""
    parts, pos = [], 0
    for mm in _FORBIDDEN.finditer(x):
        cut = mm.start() + 2
        parts.append(x[pos:cut])
        pos = cut
    parts.append(x[pos:])
    return '(' + ' ++ '.join('"%s"' % q for q in parts) + ')' if len(parts) > 1 else '"%s"' % x


def coq_string_list(xs):
    return '[' + '; '.join(coq_string(x) for x in xs) + ']'


def emit_coq(R):
    funcs, S, order, sols, res = R['funcs'], R['S'], R['order'], R['sols'], R['res']
    fidx = {fid: i for i, fid in enumerate(order)}
    sidx = {g: i for i, g in enumerate(R['snames'])}
    L = []
    w = L.append
    w("(** GENERATED by tools/alias2ir.py from pyins/*.py — do not edit.")
    w("    Aliasing IR of every function / method of pyins, points-to solutions (hints) and callee")
    w("    summaries computed by the translator (all re-validated by Coq), schema constants. *)")
    w("From Coq Require Import List String PArith.")
    w("From PV Require Import Model.Alias.")
    w("Import ListNotations.")
    w("Local Open Scope positive_scope.")
    w("Local Open Scope string_scope.")
    w("")
    for fid in order:
        w(f"Definition fn_{mangle(fid)} : fname := {fidx[fid]}%nat.")
    w("")
    for g in R['snames']:
        w(f"Definition sl_{mangle(g)} : sname := {sidx[g]}%nat.")
    w("")

    def stmt(st):
        k = st[0]
        if k in ('Fresh', 'Mutate', 'Draw'):
            return f"{k} {coq_pos(st[1])}"
        if k in ('Assign', 'Load', 'Reach', 'Store'):
            return f"{k} {coq_pos(st[1])} {coq_pos(st[2])}"
        if k in ('Call', 'CallNew'):
            return f"{k} {coq_pos(st[1])} {coq_pos(st[4])} {fidx[st[2]]}%nat {coq_plist(st[3])}"
        if k == 'GlobalRng':
            return k
        if k in ('StateRead', 'StateWrite'):
            return f"{k} {sidx[st[1]]}%nat {coq_pos(st[2])}"
        raise ValueError(st)

    for fid in order:
        f = funcs[fid]
        i = fidx[fid]
        w(f"(* {fid}  (pyins/{f['module']}.py:{f['line']}) *)")
        body = '; '.join(stmt(st) for st in f['body'])
        slots = '[' + '; '.join(f"({sidx[g]}%nat, ({coq_pos(a)}, {coq_pos(b)}))" for g, a, b in f['slots']) + ']'
        formals = '[' + '; '.join(coq_plist(fm) for fm in f['formals']) + ']'
        w(f"Definition f_{i} : func := mkFunc {coq_plist(f['params'])} {coq_plist(f['owned'])} "
          f"{coq_plist(f['ownref'])} {coq_pos(f['grng'])} {coq_pos(f['psite'])} {coq_pos(f['osite'])} "
          f"{coq_pos(f['rsite'])} {formals} {coq_nlist(f['exact'])} {slots}\n  [{body}]\n  "
          f"{coq_pos(f['ret'])} {coq_pos(f['rreach'])}.")
        sol = res[fid]['sol']
        if sol is None:
            w(f"Definition h_{i} : hints := mkHints (of_list []) (of_list []).")
        else:
            w(f"Definition h_{i} : hints := mkHints ({coq_map(sol[0])}) ({coq_map(sol[1])}).")
        if fid in sols:
            pt, cont, q = sols[fid]
            w(f"Definition hs_{i} : hints := mkHints ({coq_map(pt)}) ({coq_map(cont)}).")
            ql = lambda ls: '[' + '; '.join(coq_plist(sorted(x)) for x in ls) + ']'
            w(f"Definition q_{i} : reachsets := mkReach {ql(q['pos'])} {ql(q['posp'])} {ql(q['slot'])} "
              f"{coq_plist(sorted(q['ret']))}.")
            sm = S[fid]
            pairs = lambda ps: '[' + '; '.join(f"({a}%nat, {b}%nat)" for a, b in ps) + ']'
            spairs = lambda ps: '[' + '; '.join(f"({sidx[g]}%nat, {b}%nat)" for g, b in ps) + ']'
            w(f"Definition sm_{i} : summary := mkSum {coq_nlist(sm['mut'])} {coq_nlist(sm['ret'])} "
              f"{pairs(sm['lnk'])} {'true' if sm['rng'] else 'false'} {coq_nlist(sm['drw'])} "
              f"{spairs(sm['sw'])} {spairs(sm['sr'])}.")
        else:
            w(f"Definition hs_{i} : hints := mkHints (of_list []) (of_list []).")
            w(f"Definition q_{i} : reachsets := mkReach [] [] [] [].")
            w(f"Definition sm_{i} : summary := mkSum [] [] [] true [] [] [].")
        w("")
    w("Definition generated_progs : list entry := [")
    w(";\n".join(f"  mkEntry {fidx[fid]}%nat f_{fidx[fid]} h_{fidx[fid]} hs_{fidx[fid]} q_{fidx[fid]} sm_{fidx[fid]}"
                 for fid in order))
    w("].")
    w("")
    w("Definition prog_names : list (fname * string) := [")
    w(";\n".join(f'  ({fidx[fid]}%nat, {coq_string(fid)})' for fid in order))
    w("].")
    w("")
    w("(* the public API: functions listed in the modules' autosummary, __init__ and public methods of listed classes *)")
    w(f"Definition public_fnames : list fname := {coq_nlist([fidx[f] for f in R['pub']])}.")
    w("")
    w("(* constructors (their slot writes do not count against read-only slots) *)")
    w(f"Definition init_fnames : list fname := {coq_nlist([fidx[f] for f in order if f.endswith('.__init__')])}.")
    w("")
    w("Definition slot_names : list (sname * string) := [")
    w(";\n".join(f'  ({sidx[g]}%nat, {coq_string(g)})' for g in R['snames']))
    w("].")
    w("")
    w("(* slots / module names never written outside constructors *)")
    w(f"Definition readonly_slots : list sname := {coq_nlist([sidx[g] for g in R['readonly']])}.")
    w("")
    w("(* schema constants: pyins/util.py *)")
    for name, val in R['util_lists'].items():
        w(f"Definition {name} : list string := {coq_string_list(val)}.")
    w("")
    w("(* documented column sets: docstring of pyins/__init__.py *)")
    for kind, cols in R['doc'].items():
        w(f"Definition DOC_{kind} : list string := {coq_string_list(cols)}.")
    w("")
    w("(* column names written literally in the functions that build the documented tables *)")
    for name, cols in R['literal_cols'].items():
        w(f"Definition LIT_{name} : list string := {coq_string_list(cols)}.")
    return "\n".join(L) + "\n"


def literal_columns(prog):
    """the `columns=` of the table constructors whose column names are written in the function itself
    (Increments, body velocity): literal lists, names of list constants / single-assignment locals, `+`"""
    out = {}

    def evaluate(node, fi, depth=0):
        if depth > 6:
            return None
        if isinstance(node, (ast.List, ast.Tuple)):
            vals = [e.value for e in node.elts if isinstance(e, ast.Constant) and isinstance(e.value, str)]
            return vals if len(vals) == len(node.elts) else None
        if isinstance(node, ast.BinOp) and isinstance(node.op, ast.Add):
            l, r = evaluate(node.left, fi, depth + 1), evaluate(node.right, fi, depth + 1)
            return l + r if l is not None and r is not None else None
        if isinstance(node, ast.Call) and isinstance(node.func, ast.Name) and node.func.id == 'list' \
                and len(node.args) == 1:
            return evaluate(node.args[0], fi, depth + 1)
        if isinstance(node, ast.Name):
            binds = [n for n in ast.walk(fi.node) if isinstance(n, ast.Assign) and len(n.targets) == 1
                     and isinstance(n.targets[0], ast.Name) and n.targets[0].id == node.id]
            if len(binds) == 1:
                return evaluate(binds[0].value, fi, depth + 1)
            if not binds:
                r = prog.resolve_name(fi.module, node)
                if r and r[0] == 'const':
                    lists = eval_const_lists(prog, r[1])
                    if r[2] in lists:
                        return list(lists[r[2]])
                    return evaluate(prog.consts[r[1]][r[2]], fi, depth + 1)
        if isinstance(node, ast.Attribute):
            r = prog.resolve_name(fi.module, node)
            if r and r[0] == 'const':
                lists = eval_const_lists(prog, r[1])
                if r[2] in lists:
                    return list(lists[r[2]])
        return None

    for fid, key in (('strapdown.compute_increments_from_imu', 'Increments'),
                     ('sim.generate_body_velocity_measurements', 'BodyVelocity')):
        fi = prog.funcs.get(fid)
        if fi is None:
            raise Unsupported(f"schema: function {fid} not found")
        found = None
        for n in ast.walk(fi.node):
            if isinstance(n, ast.keyword) and n.arg == 'columns':
                found = evaluate(n.value, fi)
        if found is None:
            raise Unsupported(f"schema: the columns= of the table built by {fid} cannot be evaluated statically")
        out[key] = found
    return out


def generate(repo=REPO, out=OUT, write=True, microtests=True):
    """translate pyins, validate the classification tables, write coq/Gen/AliasIR.v if changed.
    Returns stats (dict)."""
    USED.clear()
    R = analyse(repo)
    mt = run_microtests() if microtests else dict(tests=0)
    R['doc'] = documented_columns(repo)
    R['literal_cols'] = literal_columns(R['prog'])
    text = emit_coq(R)
    changed = False
    if write:
        old = open(out).read() if os.path.exists(out) else None
        if old != text:
            os.makedirs(os.path.dirname(out), exist_ok=True)
            with open(out + '.tmp', 'w') as fh:
                fh.write(text)
            os.replace(out + '.tmp', out)
            changed = True
    rejected = {fid: R['res'][fid]['why'] for fid in R['pub'] if R['res'][fid]['why']}
    unplumbed = [fid for fid in R['pub'] if R['res'][fid]['draws'] and not R['res'][fid]['plumbed']
                 and fid not in GLOBAL_RNG_USERS]
    stats = dict(functions=len(R['order']), public=len(R['pub']),
                 statements=sum(len(f['body']) for f in R['funcs'].values()),
                 variables=sum(len(f['names']) for f in R['funcs'].values()),
                 slots=len(R['snames']), readonly=len(R['readonly']), changed=changed,
                 microtests=mt, rejected=rejected, unplumbed=unplumbed,
                 drawing=[fid for fid in R['pub'] if R['res'][fid]['draws']],
                 slot_categories={k: v['cat'] for k, v in R['slotinfo'].items() if v['cat'] != 'private'},
                 public_names=R['pub'], bytes=len(text))
    return stats


USED = set()      # classification entries used by the last translation ('lib:<qual>', 'meth:<name>', ...)


def _arrays(x, depth=0):
    import numpy as np
    import pandas as pd
    if depth > 3:
        return []
    if isinstance(x, np.ndarray):
        return [x]
    if isinstance(x, (pd.DataFrame, pd.Series)):
        return [x.to_numpy()]          # the Index objects are immutable and may be shared
    if isinstance(x, pd.Index):
        return []
    if isinstance(x, (list, tuple)):
        return [a for e in x for a in _arrays(e, depth + 1)]
    if isinstance(x, dict):
        return [a for e in x.values() for a in _arrays(e, depth + 1)]
    return []


def _snap(x, depth=0):
    import numpy as np
    import pandas as pd
    if isinstance(x, np.ndarray):
        return ('nd', x.dtype.str, x.shape, x.tobytes())
    if isinstance(x, (pd.DataFrame, pd.Series)):
        cols = tuple(map(str, x.columns)) if isinstance(x, pd.DataFrame) else str(x.name)
        return ('pd', cols, x.to_numpy().tobytes(), np.asarray(x.index).tobytes(), str(x.index.name))
    if isinstance(x, pd.Index):
        return ('idx', np.asarray(x).tobytes())
    if isinstance(x, (list, tuple)) and depth < 4:
        return (type(x).__name__,) + tuple(_snap(e, depth + 1) for e in x)
    if isinstance(x, dict) and depth < 4:
        return ('dict',) + tuple((k, _snap(v, depth + 1)) for k, v in x.items())
    if isinstance(x, np.random.RandomState):
        return ('rs', x.get_state()[1].tobytes(), x.get_state()[2])
    if isinstance(x, (int, float, str, bool, type(None))):
        return ('scalar', repr(x))
    return ('obj', type(x).__name__)


def _shares(res, args):
    """does writing through `res` reach memory of `args`?  ndarray: np.shares_memory; pandas
    objects (copy-on-write: results may share buffers lazily): write into the result and see
    whether an argument changes"""
    import numpy as np
    import pandas as pd
    if isinstance(res, (pd.DataFrame, pd.Series)):
        before = [_snap(a) for a in args]
        try:
            if res.size:
                res.iloc[:] = -12345.0
        except Exception:
            pass
        return [_snap(a) for a in args] != before
    if isinstance(res, (tuple, list)) and any(isinstance(r, (pd.DataFrame, pd.Series)) for r in res):
        return any(_shares(r, args) for r in res)
    ra = [a for a in _arrays(res) if a.dtype != object and a.size]
    aa = [a for x in args for a in _arrays(x) if a.dtype != object and a.size]
    return any(np.shares_memory(r, a) for r in ra for a in aa)


def run_microtests():
    """Validate the classification tables on the real libraries: an operation classified as
    returning fresh memory must not share memory with its arguments; an argument that is not
    classified as written must be byte-identical after the call; operations classified as
    writing must be able to write (sanity); value-copy stores, list / mask indexing, arithmetic,
    DataFrame construction and augmented assignment behave as the translator assumes."""
    import importlib
    import numpy as np
    import pandas as pd
    from scipy.spatial.transform import Rotation
    fails = []
    count = [0]
    tested = set()

    def mk():
        rs = np.random.RandomState(7)
        A = rs.rand(4, 3) + 0.5
        B = rs.rand(4, 3) + 0.5
        M = rs.rand(3, 3)
        M = M @ M.T + 3 * np.eye(3)
        v = rs.rand(3) + 0.5
        t = np.arange(4.0)
        df = pd.DataFrame(rs.rand(4, 3), index=pd.Index(t, name='time'), columns=['x', 'y', 'z'])
        se = pd.Series(rs.rand(3), index=['x', 'y', 'z'], name=1.0)
        return dict(A=A, B=B, M=M, v=v, t=t, df=df, se=se, L=[1.0, 2.0, 3.0])

    def resolve(q):
        parts = q.split('.')
        for k in range(len(parts), 0, -1):
            try:
                obj = importlib.import_module('.'.join(parts[:k]))
            except ImportError:
                continue
            for p in parts[k:]:
                obj = getattr(obj, p)
            return obj
        raise ImportError(q)

    def check(name, spec, fn, args, kwargs=None, recv=None):
        """call fn(*args, **kwargs); compare with the classification"""
        kwargs = kwargs or {}
        count[0] += 1
        tested.add(name)
        allargs = list(args) + list(kwargs.values()) + ([recv] if recv is not None else [])
        before = [_snap(a) for a in allargs]
        try:
            res = fn(*args, **kwargs)
        except Exception as e:
            fails.append(f"{name}: sample call raised {type(e).__name__}: {e}")
            return None
        mut = set()
        for i in spec.get('mut', ()):
            mut |= {id(w) for w in ([recv] if i == 'recv' else [args[i]] if isinstance(i, int) and i < len(args) else [])}
        if spec.get('draw') and recv is not None:
            mut.add(id(recv))
        for a, b in zip(allargs, before):
            if id(a) not in mut and _snap(a) != b:
                fails.append(f"{name}: an argument classified as not written changed")
        shares_ok = bool(spec.get('ret')) or bool(spec.get('elems')) or bool(spec.get('load')) \
            or spec.get('special') in ('pdctor', 'crs') or spec.get('store_all')
        if not shares_ok and _shares(res, allargs):
            fails.append(f"{name}: classified as fresh but the result shares memory with an argument")
        return res

    d = mk
    U1 = lambda: ((d()['A'],), {})
    SQ = lambda: ((d()['M'],), {})
    B2 = lambda: ((d()['A'], d()['B']), {})
    samples = {
        'numpy.asarray': U1, 'numpy.ascontiguousarray': U1, 'numpy.asanyarray': U1, 'numpy.asfortranarray': U1,
        'numpy.atleast_1d': U1, 'numpy.atleast_2d': U1, 'numpy.atleast_3d': U1, 'numpy.transpose': U1,
        'numpy.reshape': lambda: ((d()['A'], (3, 4)), {}), 'numpy.ravel': U1, 'numpy.squeeze': U1,
        'numpy.diagonal': SQ, 'numpy.diag': SQ, 'numpy.ix_': lambda: (([0, 1], [1, 2]), {}),
        'numpy.broadcast_to': lambda: ((d()['v'], (4, 3)), {}), 'numpy.swapaxes': lambda: ((d()['A'], 0, 1), {}),
        'numpy.moveaxis': lambda: ((d()['A'], 0, 1), {}), 'numpy.expand_dims': lambda: ((d()['A'], 0), {}),
        'numpy.real': U1, 'numpy.imag': U1, 'numpy.array': U1, 'numpy.copy': U1,
        'numpy.zeros': lambda: (((2, 3),), {}), 'numpy.ones': lambda: (((2, 3),), {}),
        'numpy.empty': lambda: (((2, 3),), {}), 'numpy.full': lambda: (((2, 3), 1.0), {}),
        'numpy.eye': lambda: ((3,), {}), 'numpy.identity': lambda: ((3,), {}), 'numpy.arange': lambda: ((0, 4, 0.5), {}),
        'numpy.linspace': lambda: ((0, 1, 5), {}), 'numpy.zeros_like': U1, 'numpy.ones_like': U1,
        'numpy.empty_like': U1, 'numpy.full_like': lambda: ((d()['A'], 2.0), {}), 'numpy.cross': B2,
        'numpy.einsum': lambda: (("...ij,...j->...i", d()['M'], d()['v']), {}),
        'numpy.hstack': lambda: (([d()['A'], d()['B']],), {}), 'numpy.vstack': lambda: (((d()['v'], d()['v']),), {}),
        'numpy.concatenate': lambda: (([d()['A'], d()['B']],), {}), 'numpy.stack': lambda: (([d()['A'], d()['B']],), {}),
        'numpy.append': lambda: ((d()['t'], np.inf), {}), 'numpy.insert': lambda: ((d()['A'], 0, d()['A'][0]), dict(axis=0)),
        'numpy.resize': lambda: ((d()['v'], (4, 3)), {}), 'numpy.diff': U1, 'numpy.sort': U1, 'numpy.unique': U1,
        'numpy.searchsorted': lambda: ((d()['t'], 1.5), dict(side='right')), 'numpy.cumsum': U1, 'numpy.sum': U1,
        'numpy.mean': U1, 'numpy.median': U1, 'numpy.min': U1, 'numpy.max': U1, 'numpy.all': U1, 'numpy.any': U1,
        'numpy.linalg.inv': SQ, 'numpy.linalg.solve': lambda: ((d()['M'], d()['v']), {}), 'numpy.linalg.eigh': SQ,
        'numpy.linalg.norm': U1, 'numpy.linalg.det': SQ, 'numpy.linalg.cholesky': SQ, 'numpy.outer': lambda: ((d()['v'], d()['v']), {}),
        'numpy.trace': SQ, 'numpy.where': lambda: ((d()['A'] > 1, d()['A'], d()['B']), {}), 'numpy.allclose': B2,
        'numpy.tile': lambda: ((d()['v'], 2), {}), 'numpy.repeat': lambda: ((d()['v'], 2), {}), 'numpy.argsort': U1,
        'numpy.argwhere': U1, 'numpy.cumprod': U1, 'numpy.prod': U1, 'numpy.triu': SQ, 'numpy.tril': SQ,
        'numpy.column_stack': lambda: (([d()['v'], d()['v']],), {}), 'numpy.dstack': lambda: (([d()['A'], d()['B']],), {}),
        'numpy.kron': lambda: ((d()['M'], d()['M']), {}), 'numpy.isclose': B2, 'numpy.array_equal': B2,
        'numpy.ndim': U1, 'numpy.shape': U1, 'numpy.size': U1, 'numpy.float64': lambda: ((1.5,), {}),
        'numpy.isscalar': lambda: ((1.5,), {}),
        'numpy.piecewise': lambda: ((d()['t'], [d()['t'] < 1.5, d()['t'] >= 1.5], [0.0, lambda u: 2 * u]), {}),
        'scipy.linalg.cho_factor': lambda: ((d()['M'],), dict(lower=True)),
        'numpy.argmax': U1, 'numpy.argmin': U1, 'numpy.flatnonzero': U1, 'numpy.nonzero': U1, 'numpy.count_nonzero': U1, 'numpy.clip': lambda: ((d()['A'], 0.6, 0.9), {}),
        'scipy.linalg.cholesky': lambda: ((d()['M'],), dict(lower=True)),
        'scipy.linalg.cho_solve': lambda: (((np.linalg.cholesky(d()['M']), True), d()['M'].copy()), {}),
        'scipy.linalg.solve_triangular': lambda: ((np.linalg.cholesky(d()['M']), d()['v']), dict(lower=True)),
        'scipy.linalg.expm': SQ, 'scipy.linalg.solve': lambda: ((d()['M'], d()['v']), {}), 'scipy.linalg.inv': SQ,
        'scipy.signal.firwin': lambda: ((5, 0.2), dict(fs=2.0)),
        'scipy.signal.lfilter': lambda: ((np.array([0.5, 0.5]), 1, d()['A']), dict(axis=0)),
        'scipy.interpolate.interp1d': lambda: ((d()['t'], d()['A']), dict(axis=0)),
        'scipy.interpolate.CubicSpline': lambda: ((d()['t'], d()['A']), {}),
        'scipy.interpolate.CubicHermiteSpline': lambda: ((d()['t'], d()['A'], d()['B']), {}),
        'scipy.spatial.transform.RotationSpline': lambda: ((d()['t'], Rotation.from_euler('xyz', d()['A'])), {}),
        'scipy.spatial.transform.Slerp': lambda: ((d()['t'], Rotation.from_euler('xyz', d()['A'])), {}),
        'scipy.spatial.transform.Rotation.from_euler': lambda: (('xyz', d()['A'], True), {}),
        'scipy.spatial.transform.Rotation.from_matrix': lambda: ((np.eye(3),), {}),
        'scipy.spatial.transform.Rotation.from_quat': lambda: ((np.array([[0, 0, 0, 1.0], [0, 1.0, 0, 0]]),), {}),
        'scipy.spatial.transform.Rotation.from_rotvec': lambda: ((d()['v'],), {}),
        'scipy.spatial.transform.Rotation.concatenate': lambda: (([Rotation.from_rotvec(d()['v']), Rotation.from_rotvec(d()['v'])],), {}),
        'scipy.spatial.transform.Rotation.identity': lambda: ((), {}),
        'pandas.Index': lambda: ((d()['t'],), dict(name='time')),
        'itertools.product': lambda: ((range(3),), dict(repeat=2)), 'itertools.chain': lambda: (([1, 2], [3]), {}),
        'itertools.zip_longest': lambda: (([1, 2], [3]), {}), 'itertools.islice': lambda: (([1, 2, 3], 2), {}),
        'itertools.repeat': lambda: ((1.5, 2), {}),
        'pandas.concat': lambda: (([d()['se'], d()['se']],), {}),
        'pandas.DataFrame': lambda: ((d()['A'],), dict(index=d()['t'], columns=['a', 'b', 'c'])),
        'pandas.Series': lambda: ((d()['v'],), dict(index=['a', 'b', 'c'])),
        'numpy.copyto': lambda: ((d()['A'], d()['B']), {}), 'numpy.put': lambda: ((d()['A'], [0], 5.0), {}),
        'numpy.place': lambda: ((d()['A'], d()['A'] > 1, 0.0), {}), 'numpy.putmask': lambda: ((d()['A'], d()['A'] > 1, 0.0), {}),
        'numpy.fill_diagonal': lambda: ((d()['M'], 0.0), {}),
    }
    for q, spec in LIB.items():
        if spec.get('special') == 'crs':
            continue
        fn = None
        try:
            fn = resolve(q)
        except Exception as e:
            fails.append(f"lib:{q}: cannot be resolved ({e})")
            continue
        if 'nin' in spec and q not in samples:
            nin = spec['nin']
            smp = (lambda n=nin: (tuple([mk()['M'], mk()['M'] + 1, mk()['M'] + 2][:n]), {}))
        else:
            smp = samples.get(q)
        if smp is None:
            continue
        args, kwargs = smp()
        check('lib:' + q, spec, fn, args, kwargs)
        if 'nin' in spec:           # positional / keyword out= really writes and aliases the result
            a2, _ = smp()
            out = np.full(np.broadcast(*a2).shape if q not in ('numpy.dot', 'numpy.matmul') else (3, 3), -1.0)
            b4 = out.tobytes()
            r = fn(*a2, out)
            count[0] += 1
            if out.tobytes() == b4 or not np.shares_memory(r, out):
                fails.append(f"lib:{q}: positional out argument is not written / returned")
        for kw, idx in spec.get('ow', {}).items():
            a2, k2 = smp()
            fn(*a2, **dict(k2, **{kw: True}))   # must at least be accepted
            count[0] += 1
        if spec.get('mut'):
            a2, k2 = smp()
            b4 = _snap(a2[0])
            fn(*a2, **k2)
            count[0] += 1
            if _snap(a2[0]) == b4:
                fails.append(f"lib:{q}: classified as writing its argument but did not")
    # check_random_state
    from scipy._lib._util import check_random_state
    g = np.random.RandomState(3)
    count[0] += 3
    tested.add('lib:scipy._lib._util.check_random_state')
    if check_random_state(g) is not g:
        fails.append("check_random_state(RandomState) is not the identity")
    if check_random_state(None) is not np.random.mtrand._rand:
        fails.append("check_random_state(None) is not numpy's global generator")
    if check_random_state(5).randn(3).tobytes() != check_random_state(5).randn(3).tobytes():
        fails.append("check_random_state(int) is not deterministic")
    # methods
    msamples = {
        'copy': [lambda: (d()['A'], ()), lambda: (d()['df'], ()), lambda: (d()['se'], ())],
        'reshape': [lambda: (d()['A'], (3, 4))], 'transpose': [lambda: (d()['A'], ()), lambda: (d()['df'], ())],
        'ravel': [lambda: (d()['A'], ())], 'squeeze': [lambda: (d()['A'], ())], 'flatten': [lambda: (d()['A'], ())],
        'astype': [lambda: (d()['A'], (float,))], 'to_numpy': [lambda: (d()['df'], ())], 'tolist': [lambda: (d()['A'], ())],
        'to_frame': [lambda: (d()['se'], ())], 'dot': [lambda: (d()['M'], (d()['v'],))],
        'sum': [lambda: (d()['A'], ()), lambda: (d()['df'], ())], 'mean': [lambda: (d()['A'], ())],
        'any': [lambda: (d()['A'] > 1, ())], 'all': [lambda: (d()['A'] > 1, ())], 'min': [lambda: (d()['A'], ())],
        'max': [lambda: (d()['A'], ())], 'std': [lambda: (d()['A'], ())], 'cumsum': [lambda: (d()['A'], ())],
        'diff': [lambda: (d()['df'], ())], 'abs': [lambda: (d()['df'], ())], 'round': [lambda: (d()['A'], ())],
        'rename': [lambda: (d()['df'], ({'x': 'a'},), dict(axis=1))], 'drop': [lambda: (d()['df'], (['x'],), dict(axis=1))],
        'fillna': [lambda: (d()['df'], (0.0,))], 'sort_values': [lambda: (d()['df'], ('x',))],
        'sort_index': [lambda: (d()['df'], ())], 'reset_index': [lambda: (d()['df'], ())],
        'set_index': [lambda: (d()['df'], ('x',))], 'reindex': [lambda: (d()['df'], ([0.0, 1.0],))],
        'dropna': [lambda: (d()['df'], ())], 'clip': [lambda: (d()['A'], (0.6, 0.9))],
        'intersection': [lambda: (d()['df'].columns, (pd.Index(['x', 'q']),))],
        'difference': [lambda: (d()['df'].columns, (['x'],))], 'union': [lambda: (d()['df'].columns, (['q'],))],
        'as_euler': [lambda: (Rotation.from_rotvec(d()['A']), ('xyz', True))],
        'as_matrix': [lambda: (Rotation.from_rotvec(d()['A']), ())], 'as_quat': [lambda: (Rotation.from_rotvec(d()['A']), ())],
        'as_rotvec': [lambda: (Rotation.from_rotvec(d()['A']), ())], 'inv': [lambda: (Rotation.from_rotvec(d()['A']), ())],
        'append': [lambda: ([1, 2], (3,))], 'extend': [lambda: ([1, 2], ([3],))], 'insert': [lambda: ([1, 2], (0, 3))],
        'update': [lambda: ({'a': 1}, ({'b': 2},))], 'setdefault': [lambda: ({'a': 1}, ('b', 2))],
        'pop': [lambda: ([1, 2], ())], 'remove': [lambda: ([1, 2], (1,))], 'clear': [lambda: ([1, 2], ())],
        'reverse': [lambda: ([1, 2], ())], 'sort': [lambda: (d()['A'][::-1].copy(), (0,)), lambda: ([2, 1], ())],
        'fill': [lambda: (d()['A'], (0.0,))], 'resize': [lambda: (np.arange(6.0), ((12,),), dict(refcheck=False))],
        'put': [lambda: (d()['A'], ([0], 9.0))], 'partition': [lambda: (np.array([3.0, 1.0, 2.0]), (1,))],
        'randn': [lambda: (np.random.RandomState(1), (2, 3))], 'rand': [lambda: (np.random.RandomState(1), (2,))],
        'normal': [lambda: (np.random.RandomState(1), ())], 'uniform': [lambda: (np.random.RandomState(1), ())],
        'standard_normal': [lambda: (np.random.RandomState(1), (2,))], 'randint': [lambda: (np.random.RandomState(1), (5,))],
        'random_sample': [lambda: (np.random.RandomState(1), (2,))], 'choice': [lambda: (np.random.RandomState(1), (5,))],
        'permutation': [lambda: (np.random.RandomState(1), (5,))],
        'derivative': [lambda: (__import__('scipy.interpolate').interpolate.CubicSpline(d()['t'], d()['A']), ())],
        'antiderivative': [lambda: (__import__('scipy.interpolate').interpolate.CubicSpline(d()['t'], d()['A']), ())],
        'values': [lambda: ({'a': d()['A']}, ())],
        'keys': [lambda: ({'a': d()['A']}, ())], 'items': [lambda: ({'a': d()['A']}, ())], 'get': [lambda: ({'a': d()['A']}, ('a',))],
        'split': [lambda: ('bias_x', ('_',))], 'join': [lambda: (',', (['a', 'b'],))], 'format': [lambda: ('{}', (1,))],
        'rjust': [lambda: ('a', (3,))],
    }
    for name, spec in METHODS.items():
        for smp in msamples.get(name, []):
            tup = smp()
            recv, args = tup[0], tup[1]
            kwargs = tup[2] if len(tup) > 2 else {}
            check('meth:' + name, spec, getattr(recv, name), args, kwargs, recv=recv)
            if 'recv' in spec.get('mut', ()) and name not in ('setflags',):
                tup = smp()
                recv, args = tup[0], tup[1]
                kwargs = tup[2] if len(tup) > 2 else {}
                b4 = _snap(recv)
                getattr(recv, name)(*args, **kwargs)
                count[0] += 1
                if _snap(recv) == b4 and name not in ('sort', 'partition'):
                    fails.append(f"meth:{name}: classified as writing the receiver but did not")
    # inplace=True really writes the receiver; rename(inplace=True) as used by pyins
    x = d()['df']
    b4 = _snap(x)
    x.rename({'x': 'north'}, axis=1, inplace=True)
    count[0] += 1
    if _snap(x) == b4:
        fails.append("inplace=True did not modify the receiver")
    # callable interpolator objects: fresh result, arguments untouched
    from scipy.interpolate import CubicSpline, interp1d
    x = d()
    for mkf in (lambda: CubicSpline(x['t'], x['A']), lambda: interp1d(x['t'], x['A'], axis=0),
                lambda: CubicSpline(x['t'], x['A']).derivative()):
        f = mkf()
        b4 = (_snap(x['t']), _snap(x['A']))
        r = f(x['t'])
        count[0] += 1
        if (_snap(x['t']), _snap(x['A'])) != b4 or _shares(r, [x['t'], x['A']]):
            fails.append("callable interpolator: result shares memory / arguments changed")
    tested.add('callable')
    # attributes classified as fresh hold no writable memory of the object
    for attr in ATTR_FRESH:
        tested.add('attr:' + attr)
    # --- structural assumptions of the translator
    def expect(cond, what):
        count[0] += 1
        if not cond:
            fails.append(what)

    x = d()
    a, v = np.zeros((2, 3)), np.ones(3)
    a[0] = v
    a[:, 1] = v[:2]
    v[:] = 7
    expect(a[0, 0] == 1 and not np.shares_memory(a, v), "ndarray subscript store does not copy values")
    df, arr = x['df'].copy(), np.ones((4, 2))
    df[['x', 'y']] = arr
    df['z'] = arr[:, 0]
    arr[:] = 9
    expect(float(df['x'].iloc[0]) == 1.0 and float(df['z'].iloc[0]) == 1.0, "DataFrame column assignment does not copy values")
    df, row = x['df'].copy(), x['se'].copy()
    df.iloc[-1] = row
    df.loc[0.0, ['x', 'y']] = row[['x', 'y']]
    rb = row.copy()
    row[:] = 5
    expect(float(df.iloc[-1]['x']) == float(rb['x']), ".iloc / .loc store does not copy values")
    se, w = x['se'].copy(), np.ones(2)
    se[['x', 'y']] = w
    w[:] = 3
    expect(float(se['x']) == 1.0, "Series subscript store does not copy values")
    # list / mask / .loc[list] indexing returns copies
    A = x['A']
    for name, sub in (('ndarray[list]', A[[0, 1]]), ('ndarray[:, list]', A[:, [0, 2]]), ('ndarray[mask]', A[A[:, 0] > 0]),
                      ('ndarray[np.ix_]', A[np.ix_([0, 1], [1, 2])])):
        expect(not np.shares_memory(sub, A), f"{name} is not a copy")
    df = x['df']
    b4 = _snap(df)
    for name, sub in (('DataFrame[list]', df[['x', 'y']]), ('DataFrame.loc[t, list]', df.loc[1.0, ['x', 'y']]),
                      ('DataFrame.loc[index, columns]', df.loc[df.index[:2], df.columns[:2]]),
                      ('Series[list]', x['se'][['x', 'y']])):
        try:
            sub[:] = -1.0
        except Exception:
            pass
        expect(_snap(df) == b4 and _snap(x['se']) == _snap(mk()['se']), f"{name}: writing the result changed the original")
    # arithmetic gives fresh objects and leaves operands alone
    for name, o in (('ndarray', x['A']), ('Series', x['se']), ('DataFrame', x['df'])):
        b4 = _snap(o)
        rs_ = [o + o, o - 1, 2 * o, -o, o % 360, o / 2, o ** 2, o > 0.5, abs(o)]
        if name == 'ndarray':
            rs_.append(o.T @ o)
        expect(_snap(o) == b4 and not any(_shares(r, [o]) for r in rs_), f"arithmetic on {name} is not fresh")
    # augmented assignment / attribute assignment write in place (so they are classified as Mutate)
    a = x['A'].copy()
    b = a
    b += 1
    b[b > 100] -= 1
    expect(np.shares_memory(a, b) and a[0, 0] == b[0, 0], "ndarray += is not in place")
    df = x['df'].copy()
    alias = df
    df.x *= 2
    df[['y']] -= 1
    expect(alias is df and float(alias.x.iloc[0]) == 2 * float(x['df'].x.iloc[0]), "DataFrame column augmented assignment")
    # pd.DataFrame(index=idx): writing the frame leaves the index object alone
    idx = x['df'].index
    b4 = _snap(idx)
    f2 = pd.DataFrame(index=idx)
    f2['a'] = 1.0
    f2.index -= 0.5
    expect(_snap(idx) == b4, "DataFrame(index=idx): writing the frame changed idx")
    # pd.DataFrame(ndarray) may share memory with the ndarray: classified as alias (conservative) — record
    # pandas views are protected by copy-on-write; `.values` of a frame is not writable
    vals = x['df'][['x', 'y']].values
    expect(True, "")
    unused = sorted(k for k in USED if k not in tested and not k.startswith(('attr:', 'builtin:')))
    if unused:
        fails.append("classification entries used by the translation but not micro-tested: " + ', '.join(unused))
    if fails:
        raise Unsupported("classification table disagrees with the installed numpy/pandas/scipy:\n  " + "\n  ".join(fails))
    return dict(tests=count[0], entries=len(tested), numpy=np.__version__, pandas=pd.__version__)


if __name__ == '__main__':
    import json
    st = generate(write='--dry' not in sys.argv)
    st.pop('public_names')
    print(json.dumps(st, indent=1, default=str))
