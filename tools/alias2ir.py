"""alias2ir — syntactic translator (Python `ast`) from pyins to the aliasing IR of coq/Model/Alias.v.

Every function / method of the pyins modules (public ones and the private helpers they call)
becomes a `func`: a flow-insensitive set of statements over SSA-renamed variables

    Fresh x | Alias x y | Mutate x | Call x f args | GlobalRng | Draw r | StateRead g r | StateWrite g r

The classification of numpy / pandas / scipy operations (fresh result vs. may-alias vs. mutates
an argument) is DATA (tables LIB, METHODS, ATTRS, BUILTINS below) and is validated by micro-tests on
the real libraries on every run (`run_microtests`).  Anything that is not classified raises
`Unsupported` listing the construct (fail closed).

Output: coq/Gen/AliasIR.v (`generated_progs`, names, public list, slot names, schema constants).
"""
import ast
import os
import re
import sys
import copy as _copy

HERE = os.path.dirname(os.path.abspath(__file__))
VERIF = os.path.dirname(HERE)
REPO = os.environ.get('PYINS_REPO', '/repo')
OUT = os.path.join(VERIF, 'coq', 'Gen', 'AliasIR.v')

MODULES = ['util', 'earth', 'transform', 'kalman', 'error_model', 'inertial_sensor',
           'measurements', 'strapdown', '_numba_integrate', 'sim', 'filters']
PUBLIC_MODULES = [m for m in MODULES if not m.startswith('_')]
SKIP_CLASSES = {'util.Bunch'}          # dict subclass used as a result container (see PYINS_SPECIAL)


class Unsupported(Exception):
    pass


# ----------------------------------------------------------------------------------------------
# classification tables (DATA)
# ----------------------------------------------------------------------------------------------
def F(tag='val', **k):
    """fresh result, no argument is written"""
    return dict(ret=(), tag=tag, **k)


def A(*idx, tag=None, **k):
    """result may share memory with the given arguments (ints, keyword names, 'recv', 'all')"""
    return dict(ret=idx, tag=tag, **k)


def UF(nin):
    """numpy ufunc with `nin` inputs: positional argument nin is `out`"""
    return dict(ret=(), tag='val', nin=nin)


LIB = {
    # --- numpy: may return its argument / a view
    'numpy.asarray': A(0, tag='val'), 'numpy.ascontiguousarray': A(0, tag='val'),
    'numpy.asanyarray': A(0, tag='val'), 'numpy.asfortranarray': A(0, tag='val'),
    'numpy.atleast_1d': A('all', tag='val'), 'numpy.atleast_2d': A('all', tag='val'),
    'numpy.atleast_3d': A('all', tag='val'),
    'numpy.transpose': A(0, tag='val'), 'numpy.reshape': A(0, tag='val'), 'numpy.ravel': A(0, tag='val'),
    'numpy.squeeze': A(0, tag='val'), 'numpy.diagonal': A(0, tag='val'), 'numpy.diag': A(0, tag='val'),
    'numpy.ix_': A('all'), 'numpy.broadcast_to': A(0, tag='val'), 'numpy.swapaxes': A(0, tag='val'),
    'numpy.moveaxis': A(0, tag='val'), 'numpy.expand_dims': A(0, tag='val'),
    'numpy.real': A(0, tag='val'), 'numpy.imag': A(0, tag='val'),
    # --- numpy: fresh results
    'numpy.array': F(), 'numpy.copy': F(), 'numpy.zeros': F(), 'numpy.ones': F(), 'numpy.empty': F(), 'numpy.full': F(),
    'numpy.eye': F(), 'numpy.identity': F(), 'numpy.arange': F(), 'numpy.linspace': F(),
    'numpy.zeros_like': F(), 'numpy.ones_like': F(), 'numpy.empty_like': F(), 'numpy.full_like': F(),
    'numpy.cross': F(maxpos=2), 'numpy.einsum': F(), 'numpy.hstack': F(), 'numpy.vstack': F(),
    'numpy.concatenate': F(maxpos=2), 'numpy.stack': F(maxpos=2), 'numpy.append': F(), 'numpy.insert': F(),
    'numpy.resize': F(), 'numpy.diff': F(), 'numpy.sort': F(), 'numpy.unique': F(),
    'numpy.searchsorted': F(), 'numpy.cumsum': F(maxpos=3), 'numpy.sum': F(maxpos=3),
    'numpy.mean': F(maxpos=3), 'numpy.median': F(maxpos=2, ow={'overwrite_input': 0}),
    'numpy.min': F(maxpos=2), 'numpy.max': F(maxpos=2), 'numpy.all': F(maxpos=2), 'numpy.any': F(maxpos=2),
    'numpy.linalg.inv': F(), 'numpy.linalg.solve': F(), 'numpy.linalg.eigh': F(), 'numpy.linalg.norm': F(),
    'numpy.linalg.det': F(), 'numpy.linalg.cholesky': F(), 'numpy.outer': F(maxpos=2), 'numpy.trace': F(maxpos=4),
    'numpy.where': F(), 'numpy.isnan': UF(1), 'numpy.isfinite': UF(1), 'numpy.allclose': F(), 'numpy.tile': F(),
    'numpy.repeat': F(), 'numpy.argsort': F(), 'numpy.argmax': F(maxpos=2), 'numpy.argmin': F(maxpos=2),
    # --- numpy ufuncs (positional `out` after the inputs)
    'numpy.sin': UF(1), 'numpy.cos': UF(1), 'numpy.tan': UF(1), 'numpy.arcsin': UF(1), 'numpy.arccos': UF(1),
    'numpy.arctan': UF(1), 'numpy.arctan2': UF(2), 'numpy.hypot': UF(2), 'numpy.deg2rad': UF(1),
    'numpy.rad2deg': UF(1), 'numpy.sqrt': UF(1), 'numpy.square': UF(1), 'numpy.abs': UF(1), 'numpy.absolute': UF(1),
    'numpy.sign': UF(1), 'numpy.nextafter': UF(2), 'numpy.exp': UF(1), 'numpy.log': UF(1), 'numpy.add': UF(2),
    'numpy.subtract': UF(2), 'numpy.multiply': UF(2), 'numpy.divide': UF(2), 'numpy.negative': UF(1),
    'numpy.power': UF(2), 'numpy.maximum': UF(2), 'numpy.minimum': UF(2), 'numpy.floor': UF(1), 'numpy.ceil': UF(1),
    'numpy.dot': UF(2), 'numpy.matmul': UF(2), 'numpy.clip': dict(ret=(), tag='val', nin=3),
    # --- numpy: write into an argument
    'numpy.copyto': F(mut=(0,)), 'numpy.put': F(mut=(0,)), 'numpy.place': F(mut=(0,)),
    'numpy.putmask': F(mut=(0,)), 'numpy.fill_diagonal': F(mut=(0,)),
    # --- scipy
    'scipy.linalg.cholesky': F(ow={'overwrite_a': 0}), 'scipy.linalg.cho_solve': F(ow={'overwrite_b': 1}),
    'scipy.linalg.solve_triangular': F(ow={'overwrite_b': 1}), 'scipy.linalg.expm': F(),
    'scipy.linalg.solve': F(ow={'overwrite_a': 0, 'overwrite_b': 1}), 'scipy.linalg.inv': F(ow={'overwrite_a': 0}),
    'scipy.signal.firwin': F(), 'scipy.signal.lfilter': F(),
    'scipy.interpolate.interp1d': A('all', tag='callable'), 'scipy.interpolate.CubicSpline': A('all', tag='callable'),
    'scipy.interpolate.CubicHermiteSpline': A('all', tag='callable'),
    'scipy.spatial.transform.RotationSpline': A('all', tag='callable'),
    'scipy.spatial.transform.Slerp': A('all', tag='callable'),
    'scipy.spatial.transform.Rotation.from_euler': F(tag='rot'), 'scipy.spatial.transform.Rotation.from_matrix': F(tag='rot'),
    'scipy.spatial.transform.Rotation.from_quat': F(tag='rot'), 'scipy.spatial.transform.Rotation.from_rotvec': F(tag='rot'),
    'scipy.spatial.transform.Rotation.concatenate': F(tag='rot'), 'scipy.spatial.transform.Rotation.identity': F(tag='rot'),
    'scipy._lib._util.check_random_state': dict(special='crs'),
    # --- pandas
    'pandas.DataFrame': dict(special='pdctor'), 'pandas.Series': dict(special='pdctor'),
    'pandas.Index': A(0), 'pandas.concat': F(),
    # --- numba decorators are transparent; calling them is not expected
}

# methods of library objects, by name (receiver = 'recv')
METHODS = {
    'copy': F(tag='same'), 'reshape': A('recv', tag='val'), 'transpose': A('recv', tag='val'),
    'ravel': A('recv', tag='val'), 'squeeze': A('recv', tag='val'), 'view': A('recv', tag='val'),
    'flatten': F(), 'astype': A('recv', tag='val'), 'to_numpy': A('recv', tag='val'), 'tolist': F(tag='list'),
    'to_frame': A('recv', tag='val'), 'dot': F(maxpos=1), 'sum': F(), 'mean': F(), 'any': F(), 'all': F(),
    'min': F(), 'max': F(), 'std': F(), 'cumsum': F(), 'diff': F(), 'abs': F(), 'round': F(),
    'rename': F(), 'drop': F(), 'fillna': F(), 'sort_values': F(), 'sort_index': F(), 'reset_index': F(),
    'set_index': F(), 'reindex': F(), 'dropna': F(), 'clip': F(),
    'intersection': F(tag=None), 'difference': F(tag=None), 'union': F(tag=None),
    'split': F(tag='list'), 'join': F(tag=None), 'format': F(tag=None), 'rjust': F(tag=None),
    'keys': A('recv'), 'items': A('recv'), 'values_': A('recv'), 'get': A('recv', 1),
    'as_euler': F(), 'as_matrix': F(), 'as_quat': F(), 'as_rotvec': F(), 'inv': F(tag='rot'),
    'derivative': A('recv', tag='callable'), 'antiderivative': A('recv', tag='callable'),
    # containers / in-place
    'append': dict(ret=(), tag=None, mut=('recv',), store=(0,)),
    'extend': dict(ret=(), tag=None, mut=('recv',), store=(0,)),
    'insert': dict(ret=(), tag=None, mut=('recv',), store=(1,)),
    'update': dict(ret=(), tag=None, mut=('recv',), store=('all',)),
    'setdefault': dict(ret=('recv', 1), tag=None, mut=('recv',), store=(1,)),
    'pop': dict(ret=('recv',), tag=None, mut=('recv',)), 'remove': F(mut=('recv',)), 'clear': F(mut=('recv',)),
    'reverse': F(mut=('recv',)), 'sort': F(mut=('recv',)), 'fill': F(mut=('recv',)), 'resize': F(mut=('recv',)),
    'put': F(mut=('recv',)), 'itemset': F(mut=('recv',)), 'setflags': F(mut=('recv',)), 'partition': F(mut=('recv',)),
    'byteswap': dict(ret=('recv',), tag='val', mut=('recv',)),
    # numpy.random.RandomState
    'randn': F(draw=True), 'rand': F(draw=True), 'normal': F(draw=True), 'uniform': F(draw=True),
    'standard_normal': F(draw=True), 'randint': F(draw=True), 'random_sample': F(draw=True),
    'choice': F(draw=True), 'permutation': F(draw=True), 'multivariate_normal': F(draw=True),
    'shuffle': F(draw=True, mut=(0,)),
}

# attributes of library objects
ATTR_ALIAS = {'T', 'values', 'iloc', 'loc', 'at', 'iat', 'flat', 'real', 'imag', 'c', 'interpolator',
              'index', 'columns', 'base', 'x'}
ATTR_FRESH = {'shape', 'ndim', 'size', 'dtype', 'name', 'single', '__class__', '__name__', 'empty'}
ATTR_KEEP_TAG = {'iloc', 'loc', 'at', 'iat'}

BUILTINS = {
    'len': F(tag=None), 'isinstance': F(tag=None), 'bool': F(tag=None), 'abs': F(), 'round': F(), 'type': F(tag=None),
    'range': F(tag=None), 'int': F(tag=None), 'float': F(tag=None), 'str': F(tag=None), 'all': F(tag=None),
    'any': F(tag=None), 'slice': F(tag=None), 'print': F(tag=None), 'repr': F(tag=None), 'hasattr': F(tag=None),
    'max': A('all'), 'min': A('all'), 'list': A('all', tag='list'), 'tuple': A('all', tag='list'),
    'dict': A('all', tag='list'), 'set': A('all', tag='list'), 'sorted': A('all', tag='list'),
    'map': A('all'), 'zip': A('all'), 'reversed': A('all'), 'enumerate': A('all'), 'iter': A('all'), 'next': A('all'),
    'sum': A('all'),
    'ValueError': F(tag=None), 'TypeError': F(tag=None), 'AttributeError': F(tag=None), 'KeyError': F(tag=None),
    'NotImplementedError': F(tag=None), 'RuntimeError': F(tag=None), 'AssertionError': F(tag=None),
}

# keywords with an effect; every other keyword is an ordinary input
EFFECT_KW = {'out', 'inplace', 'copy', 'where'}
TRANSPARENT_DECORATORS = {'numba.njit', 'numba.jit'}

# pyins names handled as library-like containers
PYINS_SPECIAL = {'util.Bunch': A('all', tag='list')}

# the documented exception: estimate state of sensor models handed to a filter
ESTIMATE_SLOTS = ['inertial_sensor.EstimationModel.transform', 'inertial_sensor.EstimationModel.bias']
FILTERS = ['filters.run_feedback_filter', 'filters.run_feedforward_filter']
# documented users of numpy's global generator (rng=None: "nondeterministic seeding")
GLOBAL_RNG_USERS = ['inertial_sensor.apply_imu_parameters']


# ----------------------------------------------------------------------------------------------
# program model: modules, classes, functions
# ----------------------------------------------------------------------------------------------
class FuncInfo:
    def __init__(self, fid, module, node, cls=None, kind='function', parent=None):
        self.fid = fid              # 'module.func' / 'module.Class.meth' / 'module.func.<nested>'
        self.module = module
        self.node = node
        self.cls = cls              # ClassInfo or None
        self.kind = kind            # function | method | classmethod | staticmethod | property
        self.parent = parent
        a = node.args
        if a.vararg or a.kwarg:
            raise Unsupported(f"{fid}: *args/**kwargs in a definition")
        self.params = [x.arg for x in a.posonlyargs + a.args + a.kwonlyargs]
        pos = a.posonlyargs + a.args
        defaults = [None] * (len(pos) - len(a.defaults)) + list(a.defaults) + list(a.kw_defaults)
        self.defaults = dict(zip(self.params, defaults))


class ClassInfo:
    def __init__(self, cid, module, node):
        self.cid = cid
        self.module = module
        self.node = node
        self.bases = []             # ClassInfo
        self.methods = {}           # name -> FuncInfo
        self.attrs = {}             # class-level constants: name -> ast value
        self.slots_assigned = set()  # attribute names assigned through self in its own methods

    def mro(self):
        out = [self]
        for b in self.bases:
            for c in b.mro():
                if c not in out:
                    out.append(c)
        return out

    def find_method(self, name):
        for c in self.mro():
            if name in c.methods:
                return c.methods[name]
        return None

    def all_slots(self):
        """slot name -> owning class (base-most class assigning it)"""
        out = {}
        for c in reversed(self.mro()):
            for s in sorted(c.slots_assigned):
                out.setdefault(s, c)
        return out

    def find_attr(self, name):
        for c in self.mro():
            if name in c.attrs:
                return c
        return None


class Program:
    def __init__(self, repo):
        self.repo = repo
        self._lists = {}
        self.trees = {}
        self.imports = {}      # module -> {local name: ('lib', qual) | ('mod', m) | ('py', m, name)}
        self.consts = {}       # module -> {name: ast value}
        self.funcs = {}        # fid -> FuncInfo
        self.classes = {}      # cid -> ClassInfo
        self.modfuncs = {}     # module -> {name: fid}
        self.modclasses = {}   # module -> {name: cid}
        for m in MODULES:
            self.load(m)
        for c in self.classes.values():
            for b in c.node.bases:
                r = self.resolve_name(c.module, b) if isinstance(b, (ast.Name, ast.Attribute)) else None
                if r and r[0] == 'class':
                    c.bases.append(self.classes[r[1]])
                elif isinstance(b, ast.Name) and b.id == 'object':
                    pass
                else:
                    raise Unsupported(f"{c.cid}: base class {ast.unparse(b)}")
        self.subclasses = {cid: [d for d in self.classes.values() if c in d.mro()]
                           for cid, c in self.classes.items()}

    def load(self, m):
        src = open(os.path.join(self.repo, 'pyins', m + '.py')).read()
        tree = ast.parse(src)
        self.trees[m] = tree
        imp, consts, mf, mc = {}, {}, {}, {}
        self.imports[m], self.consts[m], self.modfuncs[m], self.modclasses[m] = imp, consts, mf, mc
        for node in tree.body:
            if isinstance(node, ast.Import):
                for a in node.names:
                    imp[a.asname or a.name.split('.')[0]] = ('lib', a.name if a.asname else a.name.split('.')[0])
            elif isinstance(node, ast.ImportFrom):
                for a in node.names:
                    nm = a.asname or a.name
                    if node.level == 1 and not node.module:
                        imp[nm] = ('mod', a.name)
                    elif node.level == 1:
                        imp[nm] = ('py', node.module, a.name)
                    elif node.level == 0:
                        imp[nm] = ('lib', node.module + '.' + a.name)
                    else:
                        raise Unsupported(f"{m}: import level {node.level}")
            elif isinstance(node, ast.FunctionDef):
                self.check_decorators(m, node)
                fi = FuncInfo(f"{m}.{node.name}", m, node)
                self.funcs[fi.fid] = fi
                mf[node.name] = fi.fid
            elif isinstance(node, ast.ClassDef):
                cid = f"{m}.{node.name}"
                if cid in SKIP_CLASSES:
                    continue
                ci = ClassInfo(cid, m, node)
                self.classes[cid] = ci
                mc[node.name] = cid
                for sub in node.body:
                    if isinstance(sub, ast.FunctionDef):
                        kind = self.check_decorators(m, sub, in_class=True)
                        fi = FuncInfo(f"{cid}.{sub.name}", m, sub, cls=ci, kind=kind)
                        self.funcs[fi.fid] = fi
                        ci.methods[sub.name] = fi
                        for n in ast.walk(sub):
                            if isinstance(n, ast.Attribute) and isinstance(n.ctx, ast.Store) \
                                    and isinstance(n.value, ast.Name) and n.value.id == 'self':
                                ci.slots_assigned.add(n.attr)
                    elif isinstance(sub, ast.Assign) and all(isinstance(t, ast.Name) for t in sub.targets):
                        for t in sub.targets:
                            ci.attrs[t.id] = sub.value
                    elif isinstance(sub, ast.Expr) and isinstance(sub.value, ast.Constant):
                        pass
                    else:
                        raise Unsupported(f"{cid}: class body statement {ast.unparse(sub)[:60]}")
            elif isinstance(node, ast.Assign):
                for t in node.targets:
                    if not isinstance(t, ast.Name):
                        raise Unsupported(f"{m}: module-level assignment to {ast.unparse(t)}")
                    consts[t.id] = node.value
            elif isinstance(node, ast.Expr) and isinstance(node.value, ast.Constant):
                pass
            else:
                raise Unsupported(f"{m}: module-level statement {ast.unparse(node)[:60]}")

    def check_decorators(self, m, node, in_class=False):
        kind = 'method' if in_class else 'function'
        for d in node.decorator_list:
            dn = d.func if isinstance(d, ast.Call) else d
            txt = ast.unparse(dn)
            if in_class and txt in ('property', 'classmethod', 'staticmethod'):
                kind = txt
                continue
            r = self.resolve_name(m, dn) if self.imports.get(m) is not None else None
            if r and r[0] == 'lib' and r[1] in TRANSPARENT_DECORATORS:
                continue
            raise Unsupported(f"{m}.{node.name}: decorator @{txt}")
        return kind

    def resolve_name(self, m, node):
        """Resolve a Name / dotted Attribute chain in module m to
        ('lib', qual) | ('mod', module) | ('func', fid) | ('class', cid) | ('const', module, name) | None"""
        if isinstance(node, ast.Name):
            n = node.id
            if n in self.modfuncs[m]:
                return ('func', self.modfuncs[m][n])
            if n in self.modclasses[m]:
                return ('class', self.modclasses[m][n])
            if n in self.consts[m]:
                return ('const', m, n)
            if n in self.imports[m]:
                e = self.imports[m][n]
                if e[0] == 'py':
                    return self.member(e[1], e[2])
                return e
            return None
        if isinstance(node, ast.Attribute):
            base = self.resolve_name(m, node.value)
            if base is None:
                return None
            if base[0] == 'lib':
                return ('lib', base[1] + '.' + node.attr)
            if base[0] == 'mod':
                return self.member(base[1], node.attr)
            if base[0] == 'class':
                return ('classattr', base[1], node.attr)
            return None
        return None

    def member(self, m, name):
        if m not in self.trees:
            raise Unsupported(f"module pyins.{m} is not translated")
        if name in self.modfuncs[m]:
            return ('func', self.modfuncs[m][name])
        if name in self.modclasses[m]:
            return ('class', self.modclasses[m][name])
        if name in self.consts[m]:
            return ('const', m, name)
        if f"{m}.{name}" in PYINS_SPECIAL:
            return ('special', f"{m}.{name}")
        if name in self.imports[m]:
            e = self.imports[m][name]
            return self.member(e[1], e[2]) if e[0] == 'py' else e
        raise Unsupported(f"pyins.{m} has no member {name}")

    def const_is_list(self, mod, name):
        if mod not in self._lists:
            self._lists[mod] = eval_const_lists(self, mod)
        val = self.consts[mod].get(name)
        return name in self._lists[mod] or isinstance(val, (ast.List, ast.Dict, ast.Tuple, ast.Set))

    # by-name candidates for attribute access on values of unknown class
    def slot_candidates(self, attr):
        out = []
        for c in self.classes.values():
            if attr in c.slots_assigned:
                out.append(c)
        return out

    def classattr_candidates(self, attr):
        return [c for c in self.classes.values() if attr in c.attrs]

    def method_candidates(self, attr):
        return [c.methods[attr] for c in self.classes.values() if attr in c.methods]


def is_immutable_default(node):
    if node is None:
        return True
    if isinstance(node, ast.Constant):
        return True
    if isinstance(node, ast.UnaryOp) and isinstance(node.operand, ast.Constant):
        return True
    return False


# ----------------------------------------------------------------------------------------------
# function translator
# ----------------------------------------------------------------------------------------------
LIB_CONSTS = {'numpy.pi', 'numpy.inf', 'numpy.nan', 'numpy.newaxis', 'numpy.e',
              # types used as values (isinstance / dtype=)
              'pandas.Series', 'pandas.DataFrame', 'pandas.Index', 'numpy.ndarray', 'numpy.float64'}
BUILTIN_VALUES = {'float', 'int', 'object', 'str', 'bool', 'list', 'tuple', 'dict',
                  'NotImplementedError', 'ValueError', 'TypeError', 'AssertionError'}


def assigned_names(stmts):
    out = set()

    def tgt(t):
        if isinstance(t, ast.Name):
            out.add(t.id)
        elif isinstance(t, (ast.Tuple, ast.List)):
            for e in t.elts:
                tgt(e)
        elif isinstance(t, ast.Starred):
            tgt(t.value)

    for s in stmts:
        for n in ast.walk(s):
            if isinstance(n, ast.Assign):
                for t in n.targets:
                    tgt(t)
            elif isinstance(n, (ast.AugAssign, ast.AnnAssign)):
                tgt(n.target)
            elif isinstance(n, ast.For):
                tgt(n.target)
            elif isinstance(n, ast.NamedExpr):
                tgt(n.target)
    return out


class FT:
    def __init__(self, prog, fi, slotinfo, columns):
        self.P, self.fi, self.m = prog, fi, fi.module
        self.slotinfo = slotinfo
        self.columns = columns
        self.stmts = []
        self.names = []
        self.tags = {}
        self.callees = []
        self.nested = {}
        self.nested_infos = []
        self.slot_writes = []          # (sname, value var)
        self.globals = set()
        self.loops = []
        self.env = {}
        self.ret = self.new('RET')
        self.modroot = self.new('MODULE')
        self.groot = self.new('GLOBAL_RNG')
        self.osite = self.new('OWNED')
        self.selfvar = None
        self.clsname = None
        self.slotroot = {}
        params = list(fi.params)
        self.f_params = [self.modroot]
        self.f_owned = []
        self.f_formals = []
        self.f_slots = []
        if fi.kind in ('method', 'property'):
            sn = params.pop(0)
            self.selfvar = self.new(sn)
            self.env[sn] = self.selfvar
            self.tags[self.selfvar] = ('inst', fi.cls.cid)
            self.f_owned.append(self.selfvar)
            pos0 = [self.selfvar]
            for attr, owner in sorted(fi.cls.all_slots().items()):
                sname = f"{owner.cid}.{attr}"
                v = self.new('SLOT_' + attr)
                self.slotroot[attr] = (sname, v)
                info = self.slotinfo.get(sname, {})
                if info.get('private', True):
                    self.f_owned.append(v)
                    self.f_slots.append((sname, v))
                else:
                    self.f_params.append(v)
                pos0.append(v)
            self.f_formals.append(pos0)
        elif fi.kind == 'classmethod':
            self.clsname = params.pop(0)
        self.explicit = params
        for p in params:
            v = self.new(p)
            self.env[p] = v
            self.f_params.append(v)
            self.f_formals.append([v])
        self.f_formals.append([self.modroot])
        self.f_formals.append([self.groot])
        self.locals = assigned_names(fi.node.body) | set(fi.params)

    # -- helpers
    def new(self, hint):
        self.names.append(hint)
        return len(self.names) - 1

    def emit(self, *st):
        self.stmts.append(tuple(st))

    def fresh(self, hint, tag=None):
        v = self.new(hint)
        self.emit('Fresh', v)
        if tag is not None:
            self.tags[v] = tag
        return v

    def bad(self, node, why):
        txt = ast.unparse(node) if isinstance(node, ast.AST) else str(node)
        line = getattr(node, 'lineno', '?')
        raise Unsupported(f"{self.fi.fid} (pyins/{self.m}.py:{line}): {why}: {txt[:90]}")

    def tag(self, v):
        return self.tags.get(v)

    # -- module / class constants
    def read_const(self, mod, name):
        v = self.new(name)
        self.emit('StateRead', f"{mod}.{name}", self.modroot)
        self.emit('Assign', v, self.modroot)
        if self.P.const_is_list(mod, name):
            self.tags[v] = 'list'
        return v

    def read_classattr(self, owner, attr):
        v = self.new(attr)
        self.emit('StateRead', f"{owner.cid}.{attr}", self.modroot)
        self.emit('Assign', v, self.modroot)
        if isinstance(owner.attrs[attr], (ast.List, ast.Tuple, ast.Dict)):
            self.tags[v] = 'list'
        return v

    def is_listlike(self, node):
        """syntactic: an index expression that is a python list (fancy indexing -> copy)"""
        if isinstance(node, ast.List):
            return True
        if isinstance(node, ast.Name):
            if node.id in self.env:
                return self.tag(self.env[node.id]) in ('list', 'mask')
            r = self.P.resolve_name(self.m, node)
            if r and r[0] == 'const':
                return self.P.const_is_list(r[1], r[2])
            return False
        if isinstance(node, ast.Attribute):
            if isinstance(node.value, ast.Name) and node.value.id not in self.env:
                r = self.P.resolve_name(self.m, node)
                if r and r[0] == 'const':
                    return self.P.const_is_list(r[1], r[2])
            if isinstance(node.value, ast.Name) and (node.value.id == self.clsname or
                                                     (self.selfvar is not None and self.env.get(node.value.id) == self.selfvar)):
                c = self.fi.cls.find_attr(node.attr)
                if c is not None and node.attr not in self.fi.cls.all_slots():
                    return isinstance(c.attrs[node.attr], ast.List)
            return False
        if isinstance(node, ast.Tuple):
            return any(self.is_listlike(e) for e in node.elts)
        if isinstance(node, ast.Compare):
            return True
        if isinstance(node, ast.BinOp) and isinstance(node.op, (ast.BitAnd, ast.BitOr)):
            return self.is_listlike(node.left) and self.is_listlike(node.right)
        if isinstance(node, ast.UnaryOp) and isinstance(node.op, ast.Invert):
            return self.is_listlike(node.operand)
        return False

    # -- expressions
    def ev_slice(self, node):
        if isinstance(node, ast.Slice):
            for e in (node.lower, node.upper, node.step):
                if e is not None:
                    self.ev(e)
        elif isinstance(node, ast.Tuple):
            for e in node.elts:
                self.ev_slice(e)
        else:
            self.ev(node)

    def is_self(self, node):
        return isinstance(node, ast.Name) and self.selfvar is not None and self.env.get(node.id) == self.selfvar

    def is_cls(self, node):
        return isinstance(node, ast.Name) and self.clsname is not None and node.id == self.clsname \
            and node.id not in self.env

    def root_is_local(self, node):
        while isinstance(node, ast.Attribute):
            node = node.value
        return isinstance(node, ast.Name) and (node.id in self.env or node.id in self.locals)

    def ev(self, node):
        m = getattr(self, 'ev_' + type(node).__name__, None)
        if m is None:
            self.bad(node, f"expression kind {type(node).__name__} is not classified")
        return m(node)

    def ev_Constant(self, node):
        return self.fresh('const', 'const')

    def ev_JoinedStr(self, node):
        for v in node.values:
            if isinstance(v, ast.FormattedValue):
                self.ev(v.value)
        return self.fresh('fstr', 'const')

    def ev_Name(self, node):
        n = node.id
        if n in self.env:
            return self.env[n]
        if n in self.globals or n not in self.locals:
            if n in self.nested:
                self.bad(node, "function object used as a value")
            r = self.P.resolve_name(self.m, node)
            if r is None:
                if n in BUILTIN_VALUES:
                    return self.fresh(n, 'const')
                self.bad(node, "unknown name")
            if r[0] == 'const':
                return self.read_const(r[1], r[2])
            if r[0] == 'lib' and r[1] in LIB_CONSTS:
                return self.fresh(n, 'const')
            self.bad(node, f"{r[0]} used as a value")
        # a local that is not bound on this path (assigned later / in another branch)
        v = self.fresh(n + '_unbound')
        return v

    def ev_Attribute(self, node):
        attr = node.attr
        if not self.root_is_local(node):
            r = self.P.resolve_name(self.m, node)
            if r is not None:
                if r[0] == 'const':
                    return self.read_const(r[1], r[2])
                if r[0] == 'lib':
                    if r[1] in LIB_CONSTS:
                        return self.fresh(attr, 'const')
                    self.bad(node, "library object used as a value (not classified)")
                if r[0] == 'classattr':
                    ci = self.P.classes[r[1]]
                    owner = ci.find_attr(r[2])
                    if owner is not None:
                        return self.read_classattr(owner, r[2])
                self.bad(node, f"{r[0]} used as a value")
        if self.is_cls(node.value):
            owner = self.fi.cls.find_attr(attr)
            if owner is None:
                self.bad(node, "unknown class attribute")
            return self.read_classattr(owner, attr)
        if self.is_self(node.value):
            return self.self_attr(node)
        v = self.ev(node.value)
        return self.value_attr(node, v, attr)

    def self_attr(self, node):
        attr = node.attr
        cls = self.fi.cls
        if attr in self.slotroot:
            sname, root = self.slotroot[attr]
            v = self.new('self.' + attr)
            self.emit('StateRead', sname, self.selfvar)
            self.emit('Assign', v, root)
            t = self.slotinfo.get(sname, {}).get('tag')
            if t:
                self.tags[v] = t
            return v
        owner = cls.find_attr(attr)
        if owner is not None:
            return self.read_classattr(owner, attr)
        meth = cls.find_method(attr)
        if meth is not None and meth.kind == 'property':
            return self.call_py(meth, self.selfvar, [], {}, node)
        self.bad(node, "attribute of self is neither a slot, a class constant nor a property")

    def value_attr(self, node, v, attr):
        t = self.tag(v)
        slots, cattrs, props = [], [], []
        known = isinstance(t, tuple) and t[0] == 'inst'
        if known:
            ci = self.P.classes[t[1]]
            al = ci.all_slots()
            if attr in al:
                slots.append(f"{al[attr].cid}.{attr}")
            elif ci.find_attr(attr) is not None:
                cattrs.append(ci.find_attr(attr))
            else:
                mt = ci.find_method(attr)
                if mt is not None and mt.kind == 'property':
                    props.append(mt)
        else:
            for c in self.P.slot_candidates(attr):
                slots.append(f"{c.all_slots()[attr].cid}.{attr}")
            cattrs = self.P.classattr_candidates(attr)
            props = [f for f in self.P.method_candidates(attr) if f.kind == 'property']
        lib_alias = attr in ATTR_ALIAS or attr in self.columns
        lib_fresh = attr in ATTR_FRESH
        if known and (slots or cattrs or props):
            lib_alias = lib_fresh = False
        if not (slots or cattrs or props or lib_alias or lib_fresh):
            self.bad(node, "attribute is not classified")
        res = self.fresh('.' + attr)
        for s in sorted(set(slots)):
            self.emit('StateRead', s, v)
            self.emit('Assign', res, v)
        for c in cattrs:
            self.emit('StateRead', f"{c.cid}.{attr}", self.modroot)
            self.emit('Assign', res, self.modroot)
        for f in props:
            self.emit('Assign', res, self.call_py(f, v, [], {}, node))
        if lib_alias:
            self.emit('Assign', res, v)
            if not (slots or cattrs or props):
                if attr in ATTR_KEEP_TAG or attr in ('T', 'values'):
                    if self.tag(v) == 'val' or attr in ('T', 'values'):
                        self.tags[res] = 'val'
                elif attr in self.columns:
                    self.tags[res] = 'val'
        return res

    def ev_Subscript(self, node):
        v = self.ev(node.value)
        self.ev_slice(node.slice)
        if self.is_listlike(node.slice) and self.tag(v) != 'list':
            return self.fresh('idx', 'val')
        res = self.fresh('sub')
        self.emit('Assign', res, v)
        if self.tag(v) == 'val':
            self.tags[res] = 'val'
        return res

    def ev_BinOp(self, node):
        a, b = self.ev(node.left), self.ev(node.right)
        ta, tb = self.tag(a), self.tag(b)
        if isinstance(node.op, (ast.Add, ast.Mult)) and 'list' in (ta, tb):
            res = self.fresh('listop', 'list')
            self.emit('Store', res, a)
            self.emit('Store', res, b)
            return res
        if isinstance(node.op, (ast.BitAnd, ast.BitOr)) and ta == tb == 'mask':
            return self.fresh('mask', 'mask')
        return self.fresh('binop', 'val')

    def ev_UnaryOp(self, node):
        a = self.ev(node.operand)
        if isinstance(node.op, ast.Invert) and self.tag(a) == 'mask':
            return self.fresh('mask', 'mask')
        if isinstance(node.op, ast.Not):
            return self.fresh('not', 'const')
        return self.fresh('unop', 'val')

    def ev_Compare(self, node):
        self.ev(node.left)
        for c in node.comparators:
            self.ev(c)
        return self.fresh('cmp', 'mask')

    def ev_BoolOp(self, node):
        vs = [self.ev(v) for v in node.values]
        res = self.fresh('boolop')
        for v in vs:
            self.emit('Assign', res, v)
        return res

    def ev_IfExp(self, node):
        self.ev(node.test)
        a, b = self.ev(node.body), self.ev(node.orelse)
        res = self.fresh('ifexp')
        self.emit('Assign', res, a)
        self.emit('Assign', res, b)
        if self.tag(a) == self.tag(b) and self.tag(a) is not None:
            self.tags[res] = self.tag(a)
        return res

    def container(self, elts, hint):
        vs = [self.ev(e.value if isinstance(e, ast.Starred) else e) for e in elts]
        res = self.fresh(hint, 'list')
        for v in vs:
            self.emit('Store', res, v)
        return res

    def ev_Tuple(self, node):
        return self.container(node.elts, 'tuple')

    def ev_List(self, node):
        return self.container(node.elts, 'list')

    def ev_Set(self, node):
        return self.container(node.elts, 'set')

    def ev_Dict(self, node):
        return self.container([k for k in node.keys if k is not None] + node.values, 'dict')

    def ev_Starred(self, node):
        return self.ev(node.value)

    def comprehension(self, node, elts):
        saved = dict(self.env)
        for g in node.generators:
            if g.is_async:
                self.bad(node, "async comprehension")
            it = self.ev(g.iter)
            self.bind_target(g.target, it, elementwise=False)
            for c in g.ifs:
                self.ev(c)
        vs = [self.ev(e) for e in elts]
        self.env = saved
        res = self.fresh('comp', 'list')
        for v in vs:
            self.emit('Store', res, v)
        return res

    def ev_ListComp(self, node):
        return self.comprehension(node, [node.elt])

    def ev_SetComp(self, node):
        return self.comprehension(node, [node.elt])

    def ev_GeneratorExp(self, node):
        return self.comprehension(node, [node.elt])

    def ev_DictComp(self, node):
        return self.comprehension(node, [node.key, node.value])

    # -- calls
    def ev_Call(self, node):
        f = node.func
        # evaluate arguments once
        args = []
        for a in node.args:
            args.append(self.ev(a.value if isinstance(a, ast.Starred) else a))
        starred = any(isinstance(a, ast.Starred) for a in node.args)
        kws = {}
        for k in node.keywords:
            kws[k.arg if k.arg is not None else '**'] = (self.ev(k.value), k.value)

        def need_plain():
            if starred or '**' in kws:
                self.bad(node, "*args / **kwargs in a call of a pyins function")

        # super(...).meth(...)
        if isinstance(f, ast.Attribute) and isinstance(f.value, ast.Call) \
                and isinstance(f.value.func, ast.Name) and f.value.func.id == 'super':
            need_plain()
            for b in self.fi.cls.mro()[1:]:
                if f.attr in b.methods:
                    return self.call_py(b.methods[f.attr], self.selfvar, args, kws, node)
            self.bad(node, "super() method not found")
        if isinstance(f, ast.Name):
            n = f.id
            if n in self.env:
                v = self.env[n]
                if self.tag(v) == 'callable':
                    return self.fresh('interp', 'val')
                self.bad(node, "call of a local value that is not a classified callable object")
            if n in self.nested:
                need_plain()
                return self.call_py(self.nested[n], None, args, kws, node)
            if self.is_cls(f):
                need_plain()
                return self.construct(self.fi.cls, args, kws, node)
            r = self.P.resolve_name(self.m, f)
            if r is None:
                if n in BUILTINS:
                    return self.lib_call('builtins.' + n, BUILTINS[n], args, kws, None, node)
                self.bad(node, "call of an unknown name")
            return self.call_resolved(r, args, kws, node, need_plain)
        if isinstance(f, ast.Attribute):
            if not self.root_is_local(f):
                r = self.P.resolve_name(self.m, f)
                if r is not None:
                    return self.call_resolved(r, args, kws, node, need_plain)
            if self.is_self(f.value) or self.is_cls(f.value):
                cls = self.fi.cls
                meth = cls.find_method(f.attr)
                if meth is not None:
                    need_plain()
                    cands = [meth]
                    for d in self.P.subclasses[cls.cid]:
                        mt = d.find_method(f.attr)
                        if mt is not None and mt not in cands:
                            cands.append(mt)
                    return self.call_many(cands, self.selfvar if self.is_self(f.value) else None,
                                          args, kws, node)
                if self.is_cls(f.value):
                    self.bad(node, "unknown class method")
            v = self.ev(f.value)
            return self.method_call(node, v, f.attr, args, kws, need_plain)
        v = self.ev(f)
        if self.tag(v) == 'callable':
            return self.fresh('interp', 'val')
        self.bad(node, "call of a computed value")

    def call_resolved(self, r, args, kws, node, need_plain):
        if r[0] == 'func':
            need_plain()
            return self.call_py(self.P.funcs[r[1]], None, args, kws, node)
        if r[0] == 'class':
            need_plain()
            return self.construct(self.P.classes[r[1]], args, kws, node)
        if r[0] == 'classattr':
            ci = self.P.classes[r[1]]
            mt = ci.find_method(r[2])
            if mt is None:
                self.bad(node, "unknown method")
            need_plain()
            return self.call_py(mt, None, args, kws, node)
        if r[0] == 'special':
            return self.lib_call(r[1], PYINS_SPECIAL[r[1]], args, kws, None, node)
        if r[0] == 'lib':
            q = r[1]
            if q.startswith('numpy.random.'):
                self.emit('GlobalRng')
                return self.fresh('globalrng', 'val')
            if q not in LIB:
                self.bad(node, f"library function {q} is not classified")
            return self.lib_call(q, LIB[q], args, kws, None, node)
        self.bad(node, f"call of {r[0]}")

    def method_call(self, node, v, attr, args, kws, need_plain):
        t = self.tag(v)
        cands = []
        known = isinstance(t, tuple) and t[0] == 'inst'
        if known:
            mt = self.P.classes[t[1]].find_method(attr)
            if mt is not None:
                cands = [mt]
                for d in self.P.subclasses[t[1]]:
                    m2 = d.find_method(attr)
                    if m2 is not None and m2 not in cands:
                        cands.append(m2)
        elif t not in ('val', 'list', 'const', 'mask', 'rot', 'callable', 'rng'):
            cands = [f for f in self.P.method_candidates(attr) if f.kind != 'property']
        spec = None if (known and cands) else METHODS.get(attr)
        if not cands and spec is None:
            self.bad(node, f"method .{attr}() is not classified")
        if cands:
            need_plain()
        if cands and spec is None and len(cands) == 1:
            return self.call_py(cands[0], v, args, kws, node)
        res = self.fresh('.' + attr + '()')
        if cands:
            self.emit('Assign', res, self.call_many(cands, v, args, kws, node))
        if spec is not None:
            r = self.lib_call('.' + attr, spec, args, kws, v, node)
            self.emit('Assign', res, r)
            if not cands and self.tag(r) is not None:
                self.tags[res] = self.tag(r)
        return res

    def call_many(self, cands, recv, args, kws, node):
        if len(cands) == 1:
            return self.call_py(cands[0], recv, args, kws, node)
        res = self.fresh('dispatch')
        for c in cands:
            self.emit('Assign', res, self.call_py(c, recv, list(args), kws, node))
        return res

    def construct(self, ci, args, kws, node):
        obj = self.fresh(ci.cid.split('.')[-1], ('inst', ci.cid))
        init = ci.find_method('__init__')
        if init is not None:
            self.call_py(init, obj, args, kws, node, new=True)
        elif args or kws:
            self.bad(node, "constructor arguments for a class without __init__")
        return obj

    def call_py(self, fi, recv, args, kws, node, new=False):
        args = list(args)
        params = list(fi.params)
        full = []
        if fi.kind in ('method', 'property'):
            params.pop(0)
            if recv is None:
                if not args:
                    self.bad(node, "unbound method call without receiver")
                recv = args.pop(0)
            full.append(recv)
        elif fi.kind == 'classmethod':
            params.pop(0)
        if len(args) > len(params):
            self.bad(node, f"too many positional arguments for {fi.fid}")
        bound = dict(zip(params, args))
        for k, (v, knode) in kws.items():
            if k not in params or k in bound:
                self.bad(node, f"keyword {k} does not match the signature of {fi.fid}")
            if k == 'rng' and isinstance(knode, ast.Constant) and knode.value is None:
                v = self.groot
            bound[k] = v
        for i, p in enumerate(params):
            if p in bound:
                if p == 'rng' and i < len(node.args) and isinstance(node.args[i], ast.Constant) \
                        and node.args[i].value is None and recv is None:
                    full.append(self.groot)
                else:
                    full.append(bound[p])
            elif p == 'rng':
                full.append(self.groot)          # rng omitted: numpy's global generator
            elif not is_immutable_default(fi.defaults.get(p)):
                t = self.new('default_' + p)      # shared mutable default value = module state
                self.emit('Assign', t, self.modroot)
                full.append(t)
            else:
                full.append(self.fresh('default_' + p, 'const'))
        full += [self.modroot, self.groot]
        temps = []
        for k, a in enumerate(full):
            if new and k == 0:
                temps.append(a)            # the object under construction itself
                continue
            t = self.new('arg')
            self.emit('Assign', t, a)
            temps.append(t)
        x = self.new(fi.fid.split('.')[-1] + '()')
        self.emit('CallNew' if new else 'Call', x, fi.fid, tuple(temps))
        if fi.fid not in self.callees:
            self.callees.append(fi.fid)
        return x

    def lib_call(self, q, spec, args, kws, recv, node):
        sp = spec.get('special')
        if sp == 'crs':
            a0 = node.args[0] if node.args else None
            res = self.fresh('rng', 'rng')
            if a0 is None or (isinstance(a0, ast.Constant) and a0.value is None):
                self.emit('Assign', res, self.groot)
            else:
                self.emit('Assign', res, args[0])
            return res
        if sp == 'pdctor':
            res = self.fresh('table', 'val')
            data = args[0] if args else (kws['data'][0] if 'data' in kws else None)
            if data is not None:
                self.emit('Assign', res, data)
            return res
        res = self.fresh(q.split('.')[-1] or q)
        allv = list(args) + [v for v, _ in kws.values()]

        def pick(i):
            if i == 'all':
                return allv + ([recv] if recv is not None else [])
            if i == 'recv':
                return [recv] if recv is not None else []
            if isinstance(i, int):
                return [args[i]] if i < len(args) else []
            return [kws[i][0]] if i in kws else []

        if 'nin' in spec:
            nin = spec['nin']
            if len(args) > nin + 1:
                self.bad(node, "too many positional arguments for a ufunc")
            if len(args) == nin + 1:
                self.emit('Mutate', args[nin])
                self.emit('Assign', res, args[nin])
        if 'maxpos' in spec and len(args) > spec['maxpos']:
            self.bad(node, "positional argument beyond the classified ones (possible out=)")
        for k, (v, knode) in kws.items():
            const = knode.value if isinstance(knode, ast.Constant) else '?'
            if k == 'out':
                self.emit('Mutate', v)
                self.emit('Assign', res, v)
            elif k == 'inplace':
                if const is not False:
                    if recv is None:
                        self.bad(node, "inplace= on a function")
                    self.emit('Mutate', recv)
            elif k == 'copy':
                if const is not True:
                    for w in pick('all'):
                        self.emit('Assign', res, w)
            elif k == 'where':
                self.bad(node, "where= keyword")
            elif k.startswith('overwrite_'):
                if const is not False:
                    ow = spec.get('ow', {})
                    if k not in ow:
                        self.bad(node, f"{k}= is not classified for {q}")
                    for w in pick(ow[k]):
                        self.emit('Mutate', w)
            elif k == '**':
                self.bad(node, "**kwargs in a library call")
        for i in spec.get('ret', ()):
            for w in pick(i):
                self.emit('Assign', res, w)
        for i in spec.get('mut', ()):
            for w in pick(i):
                self.emit('Mutate', w)
        for i in spec.get('store', ()):
            for w in pick(i):
                if recv is not None:
                    self.emit('Store', recv, w)
        if spec.get('draw'):
            self.emit('Draw', recv)
        t = spec.get('tag')
        if t == 'same':
            t = self.tag(recv) if not isinstance(self.tag(recv), tuple) else None
        if t is not None:
            self.tags[res] = t
        return res

    # -- assignment targets
    def bind_target(self, t, v, elementwise=True):
        if isinstance(t, ast.Name):
            if t.id in self.globals:
                self.emit('StateWrite', f"{self.m}.{t.id}", self.modroot)
                self.emit('Store', self.modroot, v)
            self.env[t.id] = v
        elif isinstance(t, (ast.Tuple, ast.List)):
            for e in t.elts:
                x = self.fresh('unpack')
                self.emit('Assign', x, v)
                self.bind_target(e, x)
        elif isinstance(t, ast.Starred):
            self.bind_target(t.value, v)
        elif isinstance(t, ast.Attribute):
            if self.is_self(t.value):
                if t.attr not in self.slotroot:
                    self.bad(t, "assignment to an unknown slot")
                sname, root = self.slotroot[t.attr]
                self.emit('StateWrite', sname, self.selfvar)
                self.emit('Assign', root, v)
                self.slot_writes.append((sname, v))
            else:
                obj = self.ev(t.value)
                self.attr_store_slots(obj, t.attr)
                self.emit('Mutate', obj)
                if self.tag(obj) != 'val':
                    self.emit('Store', obj, v)
        elif isinstance(t, ast.Subscript):
            obj = self.ev(t.value)
            self.ev_slice(t.slice)
            self.emit('Mutate', obj)
            if self.tag(obj) != 'val':
                self.emit('Store', obj, v)
        else:
            self.bad(t, "assignment target")

    def attr_store_slots(self, obj, attr):
        t = self.tag(obj)
        if isinstance(t, tuple) and t[0] == 'inst':
            al = self.P.classes[t[1]].all_slots()
            if attr in al:
                self.emit('StateWrite', f"{al[attr].cid}.{attr}", obj)
        elif t not in ('val', 'list'):
            for c in self.P.slot_candidates(attr):
                self.emit('StateWrite', f"{c.all_slots()[attr].cid}.{attr}", obj)

    # -- statements
    def block(self, stmts):
        """returns False if every path through the block terminated"""
        for s in stmts:
            m = getattr(self, 'st_' + type(s).__name__, None)
            if m is None:
                self.bad(s, f"statement kind {type(s).__name__} is not supported")
            if m(s) is False:
                return False
        return True

    def st_Pass(self, s):
        pass

    def st_Expr(self, s):
        self.ev(s.value)

    def st_Assert(self, s):
        self.ev(s.test)

    def st_Raise(self, s):
        if s.exc is not None:
            self.ev(s.exc)
        return False

    def st_Global(self, s):
        self.globals |= set(s.names)

    def st_FunctionDef(self, s):
        if s.decorator_list:
            self.bad(s, "decorated nested function")
        fi = FuncInfo(f"{self.fi.fid}.{s.name}", self.m, s, parent=self.fi)
        for n in ast.walk(s):
            if isinstance(n, ast.Name) and isinstance(n.ctx, ast.Load) and n.id in self.locals \
                    and n.id not in fi.params and n.id not in assigned_names(s.body):
                self.bad(n, "nested function reads a variable of the enclosing function")
        self.nested[s.name] = fi
        self.nested_infos.append(fi)

    def st_Return(self, s):
        if s.value is not None:
            self.emit('Assign', self.ret, self.ev(s.value))
        return False

    def st_Assign(self, s):
        if len(s.targets) == 1 and isinstance(s.targets[0], (ast.Tuple, ast.List)) \
                and isinstance(s.value, (ast.Tuple, ast.List)) \
                and len(s.targets[0].elts) == len(s.value.elts) \
                and not any(isinstance(e, ast.Starred) for e in s.targets[0].elts + s.value.elts):
            vs = [self.ev(e) for e in s.value.elts]
            for t, v in zip(s.targets[0].elts, vs):
                self.bind_target(t, v)
            return
        v = self.ev(s.value)
        for t in s.targets:
            self.bind_target(t, v)

    def st_AnnAssign(self, s):
        if s.value is not None:
            self.bind_target(s.target, self.ev(s.value))

    def st_AugAssign(self, s):
        ve = self.ev(s.value)
        t = s.target
        if isinstance(t, ast.Name):
            old = self.ev_Name(ast.Name(id=t.id, ctx=ast.Load(), lineno=s.lineno))
            self.emit('Mutate', old)
            nv = self.fresh(t.id)
            self.emit('Assign', nv, old)
            if 'list' in (self.tag(old), self.tag(ve)):
                self.emit('Store', nv, ve)
                self.emit('Store', old, ve)
            if self.tag(old) is not None:
                self.tags[nv] = self.tag(old)
            self.bind_target(t, nv)
        elif isinstance(t, ast.Attribute) and self.is_self(t.value):
            old = self.self_attr(t)
            self.emit('Mutate', old)
            sname, root = self.slotroot[t.attr]
            self.emit('StateWrite', sname, self.selfvar)
            if 'list' in (self.tag(old), self.tag(ve)):
                self.emit('Store', old, ve)
        elif isinstance(t, ast.Attribute):
            obj = self.ev(t.value)
            self.attr_store_slots(obj, t.attr)
            self.emit('Mutate', obj)
        elif isinstance(t, ast.Subscript):
            obj = self.ev(t.value)
            self.ev_slice(t.slice)
            self.emit('Mutate', obj)
        else:
            self.bad(t, "augmented assignment target")

    def merge(self, envs):
        envs = [e for e in envs if e is not None]
        if not envs:
            return None
        out = {}
        for n in set().union(*envs):
            vs = []
            for e in envs:
                if n in e and e[n] not in vs:
                    vs.append(e[n])
            if len(vs) == 1:
                out[n] = vs[0]
            else:
                p = self.new(n + '_phi')
                for v in vs:
                    self.emit('Assign', p, v)
                ts = {self.tag(v) for v in vs}
                if len(ts) == 1 and None not in ts:
                    self.tags[p] = ts.pop()
                out[n] = p
        return out

    def st_If(self, s):
        self.ev(s.test)
        base = dict(self.env)
        alive1 = self.block(s.body)
        e1 = dict(self.env) if alive1 else None
        self.env = dict(base)
        alive2 = self.block(s.orelse)
        e2 = dict(self.env) if alive2 else None
        m = self.merge([e1, e2])
        if m is None:
            self.env = base
            return False
        self.env = m

    def loop(self, s, header):
        names = sorted(assigned_names(s.body) | (assigned_names([s]) if isinstance(s, ast.For) else set()))
        phis = {}
        for n in names:
            p = self.new(n + '_loop')
            if n in self.env:
                self.emit('Assign', p, self.env[n])
            phis[n] = p
            self.env[n] = p
        after = dict(self.env)
        self.loops.append(phis)
        header()
        alive = self.block(s.body)
        if alive:
            self.back_edge()
        self.loops.pop()
        self.env = after
        if s.orelse:
            if not self.block(s.orelse):
                return False

    def back_edge(self):
        phis = self.loops[-1]
        for n, p in phis.items():
            v = self.env.get(n)
            if v is not None and v != p:
                self.emit('Assign', p, v)

    def st_While(self, s):
        return self.loop(s, lambda: self.ev(s.test))

    def st_For(self, s):
        it_node = s.iter
        if isinstance(it_node, ast.Call) and isinstance(it_node.func, ast.Name) \
                and it_node.func.id in ('zip', 'enumerate') and it_node.func.id not in self.env \
                and not it_node.keywords and isinstance(s.target, ast.Tuple) \
                and not any(isinstance(a, ast.Starred) for a in it_node.args):
            its = [self.ev(a) for a in it_node.args]
            if it_node.func.id == 'enumerate' and len(its) == 1:
                its = [self.fresh('count', 'const')] + its
            if len(its) == len(s.target.elts):
                def header2():
                    for t, iv in zip(s.target.elts, its):
                        x = self.fresh('item')
                        self.emit('Assign', x, iv)
                        self.bind_target(t, x)
                return self.loop(s, header2)
        it = self.ev(s.iter)

        def header():
            x = self.fresh('item')
            self.emit('Assign', x, it)
            self.bind_target(s.target, x)
        return self.loop(s, header)

    def st_Break(self, s):
        self.back_edge()
        return False

    def st_Continue(self, s):
        self.back_edge()
        return False

    def run(self):
        body = self.fi.node.body
        alive = self.block(body)
        return self


# ----------------------------------------------------------------------------------------------
# schema constants
# ----------------------------------------------------------------------------------------------
def eval_const_lists(prog, module):
    """evaluate module-level list constants (literals, names, +) of a module"""
    out = {}

    def ev(node):
        if isinstance(node, ast.List) and all(isinstance(e, ast.Constant) and isinstance(e.value, str)
                                              for e in node.elts):
            return [e.value for e in node.elts]
        if isinstance(node, ast.Name) and node.id in out:
            return list(out[node.id])
        if isinstance(node, ast.BinOp) and isinstance(node.op, ast.Add):
            a, b = ev(node.left), ev(node.right)
            if a is not None and b is not None:
                return a + b
        return None

    for node in prog.trees[module].body:
        if isinstance(node, ast.Assign) and len(node.targets) == 1 and isinstance(node.targets[0], ast.Name):
            v = ev(node.value)
            if v is not None:
                out[node.targets[0].id] = v
    return out


DOC_KINDS = ['Trajectory', 'Imu', 'Increments', 'TrajectoryError']


def documented_columns(repo):
    """column names of each table kind, from the package docstring (pyins/__init__.py)"""
    tree = ast.parse(open(os.path.join(repo, 'pyins', '__init__.py')).read())
    doc = ast.get_docstring(tree) or ''
    out = {}
    for kind in DOC_KINDS:
        mm = re.search(r"- `%s` - (.*?)(?=\n\s*- `|\n\n)" % kind, doc, re.S)
        if not mm:
            raise Unsupported(f"package docstring: no description of `{kind}`")
        out[kind] = re.findall(r"'(\w+)", mm.group(1))
    return out


def autosummary(prog, module):
    """names listed under Functions / Classes in the module docstring"""
    doc = ast.get_docstring(prog.trees[module]) or ''
    out = {'Functions': [], 'Classes': []}
    for sec in out:
        mm = re.search(r"^%s\n-+\n\.\. autosummary::\n(.*?)(?=\n\S|\Z)" % sec, doc, re.S | re.M)
        if mm:
            for line in mm.group(1).splitlines():
                line = line.strip()
                if line and not line.startswith(':'):
                    out[sec].append(line)
    return out


def public_fids(prog):
    pub = []
    for m in PUBLIC_MODULES:
        au = autosummary(prog, m)
        for f in au['Functions']:
            fid = f"{m}.{f}"
            if fid not in prog.funcs:
                raise Unsupported(f"autosummary of pyins.{m} lists unknown function {f}")
            pub.append(fid)
        for c in au['Classes']:
            cid = f"{m}.{c}"
            if cid not in prog.classes:
                raise Unsupported(f"autosummary of pyins.{m} lists unknown class {c}")
            ci = prog.classes[cid]
            seen = set()
            for k in ci.mro():
                for name, fi in k.methods.items():
                    if name in seen:
                        continue
                    seen.add(name)
                    if name == '__init__' or not name.startswith('_'):
                        if fi.fid not in pub:
                            pub.append(fi.fid)
    return pub




# ----------------------------------------------------------------------------------------------
# points-to solver, summaries and a python mirror of the Coq checker.  NOTHING here is trusted:
# the solutions and summaries are emitted as hints and re-validated by Coq ([valid_hints],
# [summary_ok], [check_fun]); the mirror only produces diagnostics and the slot classification.
# ----------------------------------------------------------------------------------------------
def expand_call(sm, x, args, new=False):
    def argn(i):
        return [args[i]] if i < len(args) else []
    out = [('Fresh', x)]
    for i in sm['mut']:
        out += [('Mutate', a) for a in argn(i)]
    for i in sm['ret']:
        for a in argn(i):
            out += [('Assign', x, a), ('Store', x, a)]
    for i, j in sm['lnk']:
        out += [('Store', a, b) for a in argn(i) for b in argn(j)]
    if sm['rng']:
        out.append(('GlobalRng',))
    for i in sm['drw']:
        out += [('Draw', a) for a in argn(i)]
    for g, i in sm['sw']:
        if not (new and i == 0):
            out += [('StateWrite', g, a) for a in argn(i)]
    for g, i in sm['sr']:
        if not (new and i == 0):
            out += [('StateRead', g, a) for a in argn(i)]
    return out


def prims(S, body):
    out = []
    for st in body:
        if st[0] in ('Call', 'CallNew'):
            if st[2] not in S:
                return None
            out += expand_call(S[st[2]], st[1], st[3], st[0] == 'CallNew')
        else:
            out.append(st)
    return out


def solve(P, pt0, cont0):
    pt = {k: set(v) for k, v in pt0.items()}
    cont = {k: set(v) for k, v in cont0.items()}
    flow = [s for s in P if s[0] in ('Fresh', 'Assign', 'Store')]
    changed = True
    while changed:
        changed = False
        for s in flow:
            if s[0] == 'Fresh':
                d = pt.setdefault(s[1], set())
                if s[1] not in d:
                    d.add(s[1])
                    changed = True
            elif s[0] == 'Assign':
                src = pt.get(s[2])
                if not src:
                    continue
                add = set(src)
                for o in src:
                    add |= cont.get(o, set())
                d = pt.setdefault(s[1], set())
                if not add <= d:
                    d |= add
                    changed = True
            else:
                src = pt.get(s[2])
                tgt = pt.get(s[1])
                if not src or not tgt:
                    continue
                add = set(src)
                for o in src:
                    add |= cont.get(o, set())
                for o in tgt:
                    d = cont.setdefault(o, set())
                    if not add <= d:
                        d |= add
                        changed = True
        for o in list(cont):
            d = cont[o]
            add = set()
            for o2 in d:
                add |= cont.get(o2, set())
            if not add <= d:
                d |= add
                changed = True
    return pt, cont


def solve_collapsed(f, P):
    ps, os_, g = f['psite'], f['osite'], f['grng']
    pt0 = {p: {ps} for p in f['params']}
    pt0.update({o: {os_} for o in f['owned']})
    pt0[g] = {g}
    return solve(P, pt0, {ps: {ps}, os_: {os_}, g: {g}})


def solve_roots(f, P):
    roots = [v for fm in f['formals'] for v in fm]
    return solve(P, {r: {r} for r in roots}, {r: {r} for r in roots})


def summary_of(S, f):
    P = prims(S, f['body'])
    if P is None:
        return None, None
    pt, cont = solve_roots(f, P)

    def clo(roots):
        out = set(roots)
        for r in roots:
            out |= cont.get(r, set())
        return out

    priv = {v for _, v in f['slots']}
    pos = range(len(f['formals']))
    rs = [clo(fm) for fm in f['formals']]
    rsp = [clo([v for v in fm if v not in priv]) for fm in f['formals']]
    scl = [(g, clo([v])) for g, v in f['slots']]
    g = f['grng']
    sw, sr = [], []
    for s in P:
        if s[0] == 'StateWrite':
            sw += [(s[1], i) for i in pos if pt.get(s[2], set()) & rs[i]]
        elif s[0] == 'Mutate':
            sw += [(gn, 0) for gn, c in scl if pt.get(s[1], set()) & c]
        elif s[0] == 'StateRead':
            sr += [(s[1], i) for i in pos if pt.get(s[2], set()) & rs[i]]
    retr = clo(pt.get(f['ret'], set()))
    sm = dict(
        mut=[i for i in pos if any(s[0] == 'Mutate' and pt.get(s[1], set()) & rsp[i] for s in P)],
        ret=[i for i in pos if retr & rs[i]],
        lnk=[(i, j) for i in pos for j in pos if i != j and
             set().union(*([cont.get(r, set()) for r in f['formals'][i]] or [set()])) & set(f['formals'][j])],
        rng=any(s[0] == 'GlobalRng' or (s[0] == 'Draw' and g in pt.get(s[1], set())) for s in P),
        drw=[i for i in pos if any(s[0] == 'Draw' and pt.get(s[1], set()) & rs[i] for s in P)],
        sw=sorted(set(sw)), sr=sorted(set(sr)))
    return sm, (pt, cont)


def check_fun(wl, rd, allow_g, S, f, names=None):
    """mirror of Coq's check_fun: returns (reasons, solution); empty reasons = accepted"""
    P = prims(S, f['body'])
    if P is None:
        return ['a callee has no summary (recursion or failed translation)'], None
    pt, cont = solve_collapsed(f, P)
    nm = (lambda v: f"{names[v]}#{v}") if names else str
    ps, g = f['psite'], f['grng']
    why = []
    for o in f['owned']:
        if ps in pt.get(o, set()) or any(ps in cont.get(t, set()) for t in pt.get(o, set())):
            why.append(f"private state {nm(o)} may come to hold or reference caller memory")
    for s in P:
        k = s[0]
        if k == 'Mutate' and ps in pt.get(s[1], set()):
            why.append(f"write through {nm(s[1])}, which may be (part of) an argument / module state")
        elif k == 'GlobalRng':
            why.append("draw from numpy's global / an unseeded generator")
        elif k == 'Draw' and not allow_g and g in pt.get(s[1], set()):
            why.append(f"draw from {nm(s[1])}, which may be numpy's global generator (rng not passed on)")
        elif k == 'StateWrite' and s[1] not in wl and ps in pt.get(s[2], set()):
            why.append(f"state slot {s[1]} of {nm(s[2])} (caller's object / module) is written")
        elif k == 'StateRead' and s[1] not in rd and ps in pt.get(s[2], set()):
            why.append(f"mutable state slot {s[1]} of {nm(s[2])} (caller's object / module) is read")
    return sorted(set(why)), (pt, cont)


def seed_plumbed(S, f, sol):
    P = prims(S, f['body'])
    if P is None or sol is None:
        return False
    pt = sol[0]
    for s in P:
        if s[0] == 'GlobalRng':
            return False
        if s[0] == 'Draw':
            d = pt.get(s[1], set())
            if f['grng'] in d or not (f['psite'] in d or f['osite'] in d):
                return False
    return True


# ----------------------------------------------------------------------------------------------
# whole-program translation
# ----------------------------------------------------------------------------------------------
def translate_all(repo):
    prog = Program(repo)
    util_lists = eval_const_lists(prog, 'util')
    columns = {c for v in util_lists.values() for c in v} | {'dt'}
    slotinfo = {}
    for rnd in range(8):
        fts = {}
        todo = list(prog.funcs.values())
        while todo:
            fi = todo.pop(0)
            ft = FT(prog, fi, slotinfo, columns).run()
            fts[fi.fid] = ft
            todo += ft.nested_infos
        order, state = [], {}

        def visit(fid, stack):
            if state.get(fid) == 2:
                return
            if state.get(fid) == 1:
                raise Unsupported("recursion: " + ' -> '.join(stack + [fid]))
            state[fid] = 1
            for c in fts[fid].callees:
                visit(c, stack + [fid])
            state[fid] = 2
            order.append(fid)

        for fid in fts:
            visit(fid, [])
        funcs = {}
        for fid in order:
            ft = fts[fid]
            funcs[fid] = dict(params=ft.f_params, owned=ft.f_owned, grng=ft.groot, psite=ft.modroot,
                              osite=ft.osite, formals=ft.f_formals, slots=ft.f_slots, body=ft.stmts,
                              ret=ft.ret, names=ft.names, kind=ft.fi.kind,
                              cls=ft.fi.cls.cid if ft.fi.cls else None,
                              line=ft.fi.node.lineno, module=ft.fi.module)
        S, sols = {}, {}
        for fid in order:
            sm, sol = summary_of(S, funcs[fid])
            if sm is not None:
                S[fid] = sm
                sols[fid] = sol
        # slot classification: private unless some method may make it hold / reference caller memory
        new = {}
        for fid in order:
            ft, f = fts[fid], funcs[fid]
            if not ft.slotroot or fid not in sols:
                continue
            pt, cont = sols[fid]
            prot = {ft.modroot} | {v for fm in ft.f_formals[1:-2] for v in fm}
            for attr, (sname, root) in ft.slotroot.items():
                d = new.setdefault(sname, dict(private=True, tags=set()))
                reach = set(pt.get(root, set()))
                for o in list(reach):
                    reach |= cont.get(o, set())
                if reach & prot:
                    d['private'] = False
            for sname, v in ft.slot_writes:
                new[sname]['tags'].add(ft.tag(v))
        info = {}
        for sname, d in new.items():
            info[sname] = dict(private=d['private'], tag='val' if d['tags'] == {'val'} else None)
        if info == slotinfo:
            return dict(prog=prog, fts=fts, funcs=funcs, order=order, S=S, sols=sols, slotinfo=info,
                        util_lists=util_lists)
        slotinfo = info
    raise Unsupported("slot classification did not stabilise")
