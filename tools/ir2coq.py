"""IR (sym.Ctx + paths) -> Coq definitions over the reals.  1:1 on IR nodes.

For a traced function `fn` with ordered parameters P and outputs O:

* every shared, non-leaf node becomes a helper `fn__k` (k = position in the
  topological order of this function's DAG), parameterised by exactly the
  variables it depends on, unless it depends on a `fast` variable (those are
  inlined so that auto_derive sees them);
* each output becomes `Definition fn_<out> (P : R) : R`;
* with several paths, each path p gets `fn_<out>__p<i>` and the main definition
  is the decision tree over `Rgt_dec/Rlt_dec/...`.
* all helper and path names are added to the unfold hint database `fn_db`.
"""
from decimal import Decimal
from fractions import Fraction
import sym

UN = {'sin': 'sin', 'cos': 'cos', 'tan': 'tan', 'sqrt': 'sqrt', 'asin': 'asin',
      'acos': 'acos', 'atan': 'atan', 'abs': 'Rabs'}
BIN = {'add': '+', 'sub': '-', 'mul': '*', 'div': '/'}
CMP = {'gt': 'Rgt_dec', 'lt': 'Rlt_dec', 'ge': 'Rge_dec', 'le': 'Rle_dec'}


def const_to_coq(x):
    if x in sym.PI_CONSTS:
        return sym.PI_CONSTS[x]
    if -x in sym.PI_CONSTS:
        return f"(- {sym.PI_CONSTS[-x]})"
    if x != x or x in (float('inf'), float('-inf')):
        raise sym.TraceError("non-finite constant")
    fr = Fraction(Decimal(repr(float(x))))
    neg = fr < 0
    fr = abs(fr)
    s = str(fr.numerator) if fr.denominator == 1 else f"({fr.numerator} / {fr.denominator})"
    return f"(- {s})" if neg else s


class FnPrinter:
    def __init__(self, ctx, name, params, paths, fast=()):
        self.ctx = ctx
        self.name = name
        self.params = list(params)
        self.paths = paths
        self.fast = set(fast)
        self.deps = {}       # node -> frozenset of var names
        self.lines = []
        self.helper = {}     # node -> (coq name, [vars])
        self.unfold = []

    def args_of(self, i):
        n = self.ctx.nodes[i]
        if n[0] in ('var', 'const'):
            return ()
        if n[0] == 'call':
            return n[2:]
        return n[1:]

    def compute(self, roots):
        """topological order, refcounts, var deps of everything reachable."""
        order, seen = [], set()
        ref = {}
        for r in roots:
            ref[r] = ref.get(r, 0) + 1
            stack = [(r, False)]
            while stack:
                i, done = stack.pop()
                if done:
                    order.append(i)
                    continue
                if i in seen:
                    continue
                seen.add(i)
                stack.append((i, True))
                for a in self.args_of(i):
                    ref[a] = ref.get(a, 0) + 1
                    if a not in seen:
                        stack.append((a, False))
        for i in order:
            n = self.ctx.nodes[i]
            if n[0] == 'var':
                if n[1] not in self.params:
                    raise sym.TraceError(f"{self.name}: free variable {n[1]} is not a declared parameter")
                self.deps[i] = frozenset([n[1]])
            elif n[0] == 'const':
                self.deps[i] = frozenset()
            else:
                d = frozenset()
                for a in self.args_of(i):
                    d |= self.deps[a]
                self.deps[i] = d
        return order, ref

    def expr(self, i):
        if i in self.helper:
            nm, vs = self.helper[i]
            return f"({nm} {' '.join(vs)})" if vs else nm
        return self.raw(i)

    def raw(self, i):
        n = self.ctx.nodes[i]
        op = n[0]
        if op == 'var':
            return n[1]
        if op == 'const':
            return const_to_coq(n[1])
        if op in BIN:
            return f"({self.expr(n[1])} {BIN[op]} {self.expr(n[2])})"
        if op == 'neg':
            return f"(- {self.expr(n[1])})"
        if op in UN:
            return f"({UN[op]} {self.expr(n[1])})"
        if op == 'atan2':
            return f"(atan2 {self.expr(n[1])} {self.expr(n[2])})"
        if op == 'pymod':
            return f"(pymod {self.expr(n[1])} {self.expr(n[2])})"
        if op == 'call':
            return "(" + n[1] + "".join(" " + self.expr(a) for a in n[2:]) + ")"
        raise sym.TraceError(f"printer: unknown op {op}")

    def cond(self, cid):
        n = self.ctx.nodes[cid]
        if n[0] == 'not':
            c, flip = self.cond(n[1])
            return c, not flip
        return f"{CMP[n[0]]} {self.expr(n[1])} {self.expr(n[2])}", False

    def emit(self):
        roots = []
        for conds, outs in self.paths:
            roots += [c for c, _ in conds]
            roots += list(outs.values())
        order, ref = self.compute(roots)
        plist = self.params
        k = 0
        for i in order:
            n = self.ctx.nodes[i]
            if n[0] in ('var', 'const'):
                continue
            if n[0] in CMP or n[0] == 'not':
                continue
            if ref.get(i, 0) >= 2 and not (self.deps[i] & self.fast):
                vs = [p for p in plist if p in self.deps[i]]
                nm = f"{self.name}__{k}"
                k += 1
                body = self.raw(i)
                binder = f" ({' '.join(vs)} : R)" if vs else ""
                self.lines.append(f"Definition {nm}{binder} : R := {body}.")
                self.helper[i] = (nm, vs)
                self.unfold.append(nm)
        binder = f" ({' '.join(plist)} : R)" if plist else ""
        names = list(self.paths[0][1])
        if len(self.paths) == 1:
            for o in names:
                self.lines.append(
                    f"Definition {self.name}_{o}{binder} : R := {self.expr(self.paths[0][1][o])}.")
        else:
            for pi, (conds, outs) in enumerate(self.paths):
                for o in names:
                    nm = f"{self.name}_{o}__p{pi}"
                    self.lines.append(f"Definition {nm}{binder} : R := {self.expr(outs[o])}.")
            for o in names:
                tree = self.tree([(c, pi) for pi, (c, _) in enumerate(self.paths)], 0, o)
                self.lines.append(f"Definition {self.name}_{o}{binder} : R := {tree}.")
        db = f"{self.name}_db"
        out = list(self.lines)
        out.append(f"Create HintDb {db}.")
        if self.unfold:
            out.append(f"#[global] Hint Unfold {' '.join(self.unfold)} : {db}.")
        return "\n".join(out) + "\n"

    def tree(self, items, depth, o):
        # items: list of (conds, path index) agreeing on the first `depth` decisions
        if len(items) == 1 and len(items[0][0]) <= depth:
            pi = items[0][1]
            return f"{self.name}_{o}__p{pi} {' '.join(self.params)}"
        cid = items[0][0][depth][0]
        for c, _ in items:
            if len(c) <= depth or c[depth][0] != cid:
                raise sym.TraceError("paths do not form a decision tree")
        yes = [(c, pi) for c, pi in items if c[depth][1]]
        no = [(c, pi) for c, pi in items if not c[depth][1]]
        ctext, flip = self.cond(cid)
        if flip:
            yes, no = no, yes
        if not yes or not no:
            raise sym.TraceError("one-sided decision in path tree")
        return (f"(if {ctext} then {self.tree(yes, depth + 1, o)} "
                f"else {self.tree(no, depth + 1, o)})")


def print_function(ctx, name, params, paths, fast=()):
    return FnPrinter(ctx, name, params, paths, fast).emit()
