"""Translator driver: traces the live pyins functions of $PYINS_REPO and writes
coq/Gen/*.v; validates every traced IR against the real function (irrun).

Each entry of REGISTRY describes one traced function:
  module   - Gen file it goes to
  name     - Coq name prefix
  params   - ordered [(var name, (lo, hi))]: symbolic inputs and the range used
             to draw validation samples
  run(V,A) - calls the REAL pyins function.  V(name) yields the input (a Sym
             while tracing, a float while validating); A(list) builds an array
             of the right kind.  Returns dict out-name -> value.
  patch    - modules whose `np` / `Rotation` / callees are rebound while tracing
  fast     - variables the printer never folds into helper definitions
"""
import os
import sys
import math
import random
import hashlib
import contextlib

REPO = os.environ.get('PYINS_REPO', '/repo')
if REPO not in sys.path:
    sys.path.insert(0, REPO)
HERE = os.path.dirname(os.path.abspath(__file__))
if HERE not in sys.path:
    sys.path.insert(0, HERE)

import numpy as np
import pandas as pd
import sym
from sym import Sym, TraceError
import ir2coq

import warnings
warnings.filterwarnings('ignore')

import pyins
from pyins import (earth, transform, util, error_model, strapdown, sim, measurements,
                   _numba_integrate as ni, inertial_sensor, kalman, filters)

GEN_DIR = os.path.join(os.path.dirname(HERE), 'coq', 'Gen')

# ---------------------------------------------------------------------------
# scipy Rotation stub (written specification; validated numerically per run)


def _rx(a):
    c, s = a.cos(), a.sin()
    return [[1, 0, 0], [0, c, -s], [0, s, c]]


def _ry(a):
    c, s = a.cos(), a.sin()
    return [[c, 0, s], [0, 1, 0], [-s, 0, c]]


def _rz(a):
    c, s = a.cos(), a.sin()
    return [[c, -s, 0], [s, c, 0], [0, 0, 1]]


def _mm(a, b):
    return [[sum((sym.lift(a[i][k]) * sym.lift(b[k][j]) for k in range(3)),
                 sym.lift(0.0)) for j in range(3)] for i in range(3)]


class SymRotation:
    def __init__(self, mats, single):
        self.mats = mats      # list of 3x3 nested lists of Sym
        self.single = single

    @classmethod
    def from_euler(cls, seq, angles, degrees=False):
        ang = sym._as_sym_array(angles, False)
        if isinstance(ang, Sym):
            ang = np.array([ang], dtype=object)
        single = ang.ndim == 1
        ang = np.atleast_2d(ang)
        if ang.shape[1] != len(seq):
            raise TraceError("from_euler: wrong number of angles")
        mats = []
        for row in ang:
            a = [x.deg2rad() if degrees else x for x in row]
            if seq == 'xyz':      # extrinsic: R = Rz(a2) Ry(a1) Rx(a0)
                m = _mm(_rz(a[2]), _mm(_ry(a[1]), _rx(a[0])))
            elif seq == 'ZY':     # intrinsic: R = Rz(a0) Ry(a1)
                m = _mm(_rz(a[0]), _ry(a[1]))
            else:
                raise TraceError(f"from_euler: sequence {seq} not specified")
            mats.append(m)
        return cls(mats, single)

    @classmethod
    def from_rotvec(cls, v):
        v = sym._as_sym_array(v, False)
        single = v.ndim == 1
        v = np.atleast_2d(v)
        mats = []
        for row in v:
            mats.append([[Sym.call(f"rotvec_m{i}{j}", row[0], row[1], row[2])
                          for j in range(3)] for i in range(3)])
        return cls(mats, single)

    @classmethod
    def from_matrix(cls, m):
        m = sym._as_sym_array(m, False)
        single = m.ndim == 2
        if single:
            m = m[None]
        return cls([[[m[k, i, j] for j in range(3)] for i in range(3)]
                    for k in range(len(m))], single)

    def as_matrix(self):
        out = sym._obj([[[sym.lift(x) for x in r] for r in m] for m in self.mats])
        return out[0] if self.single else out

    def as_euler(self, seq, degrees=False):
        if seq != 'xyz' or not degrees:
            raise TraceError("as_euler: only ('xyz', degrees=True) is specified")
        rows = []
        for m in self.mats:
            flat = [sym.lift(m[i][j]) for i in range(3) for j in range(3)]
            rows.append([Sym.call(f"euler_{k}", *flat) for k in ('roll', 'pitch', 'heading')])
        out = sym._obj(rows)
        return out[0] if self.single else out


# concrete implementations of the call-node primitives for irrun
def _rotvec_entry(i, j):
    def f(x, y, z):
        n = math.sqrt(x * x + y * y + z * z)
        if n == 0:
            k1, k2 = 1.0, 0.5
        else:
            k1, k2 = math.sin(n) / n, (1 - math.cos(n)) / (x * x + y * y + z * z)
        v = (x, y, z)
        r = k2 * v[i] * v[j]
        if i == j:
            return r + math.cos(n)
        sgn = {(0, 1): -1, (0, 2): 1, (1, 0): 1, (1, 2): -1, (2, 0): -1, (2, 1): 1}[(i, j)]
        return r + sgn * k1 * v[3 - i - j]
    return f


for _i in range(3):
    for _j in range(3):
        sym.EVAL_CALLS[f"rotvec_m{_i}{_j}"] = _rotvec_entry(_i, _j)
R2D = 1 / (math.pi / 180)
sym.EVAL_CALLS['euler_roll'] = lambda *m: math.atan2(m[7], m[8]) * R2D
sym.EVAL_CALLS['euler_pitch'] = lambda *m: math.atan2(-m[6], math.sqrt(m[7] ** 2 + m[8] ** 2)) * R2D
sym.EVAL_CALLS['euler_heading'] = lambda *m: math.atan2(m[3], m[0]) * R2D


# ---------------------------------------------------------------------------

@contextlib.contextmanager
def patched(mods, extra=()):
    """Rebind np / Rotation in the given modules, plus (module, attr, value) extras."""
    saved = []
    try:
        for m in mods:
            for attr, val in (('np', sym.np_proxy), ('Rotation', SymRotation)):
                if hasattr(m, attr):
                    saved.append((m, attr, getattr(m, attr)))
                    setattr(m, attr, val)
        # numba-compiled module-level functions (the kernel and any private helper it calls) are traced through
        # their Python source: a compiled helper cannot take symbolic arguments
        for m in mods:
            for attr, val in list(vars(m).items()):
                if hasattr(val, 'py_func') and callable(getattr(val, 'py_func', None)):
                    saved.append((m, attr, val))
                    setattr(m, attr, val.py_func)
        for m, attr, val in extra:
            saved.append((m, attr, getattr(m, attr)))
            setattr(m, attr, val)
        yield
    finally:
        for m, attr, val in reversed(saved):
            setattr(m, attr, val)


ALL_MODS = [earth, transform, util, error_model, strapdown, sim, measurements, ni,
            inertial_sensor, kalman, filters]

REGISTRY = []


def traced(module, name, params, fast=(), extra=None, tol=1e-11, nval=60, domain=None):
    def deco(fn):
        REGISTRY.append(dict(module=module, name=name, params=params, run=fn, fast=fast,
                             extra=extra, tol=tol, nval=nval, domain=domain))
        return fn
    return deco


def mats(prefix):
    return [f"{prefix}{i}{j}" for i in range(3) for j in range(3)]


LAT = (-85.0, 85.0)
LON = (-180.0, 180.0)
ALT = (-500.0, 20000.0)
VEL = (-300.0, 300.0)
ANG = (-180.0, 180.0)
PITCH = (-85.0, 85.0)


def out_vec(name, v):
    return {f"{name}{i}": v[i] for i in range(len(v))}


def out_mat(name, m):
    return {f"{name}{i}{j}": m[i][j] for i in range(len(m)) for j in range(len(m[0]))}


# ----- earth.py -------------------------------------------------------------

@traced('Earth', 'gravity', [('lat', LAT), ('alt', ALT)])
def _(V, A):
    return {'g': earth.gravity(V('lat'), V('alt'))}


@traced('Earth', 'principal_radii', [('lat', LAT), ('alt', ALT)])
def _(V, A):
    rn, re, rp = earth.principal_radii(V('lat'), V('alt'))
    return {'rn': rn, 're': re, 'rp': rp}


@traced('Earth', 'gravity_n', [('lat', LAT), ('alt', ALT)])
def _(V, A):
    return out_vec('g', earth.gravity_n(V('lat'), V('alt')))


@traced('Earth', 'rate_n', [('lat', LAT)])
def _(V, A):
    return out_vec('w', earth.rate_n(V('lat')))


@traced('Earth', 'curvature_matrix', [('lat', LAT), ('alt', ALT)])
def _(V, A):
    return out_mat('F', earth.curvature_matrix(V('lat'), V('alt')))


@traced('Earth', 'gravitation_ecef', [('lat', LAT), ('lon', LON), ('alt', ALT)])
def _(V, A):
    return out_vec('g', earth.gravitation_ecef(A([V('lat'), V('lon'), V('alt')])))


# ----- _numba_integrate.py --------------------------------------------------

def _pyf(f):
    return getattr(f, 'py_func', f)


@traced('NumbaIntegrate', 'nb_gravity', [('lat', LAT), ('alt', ALT)])
def _(V, A):
    f = ni.gravity if isinstance(V('lat'), float) else _pyf(ni.gravity)
    return {'g': f(V('lat'), V('alt'))}


@traced('NumbaIntegrate', 'mat_from_rotvec',
        [('rv0', (-2.0, 2.0)), ('rv1', (-2.0, 2.0)), ('rv2', (-2.0, 2.0))])
def _(V, A):
    rv = A([V('rv0'), V('rv1'), V('rv2')])
    symbolic = not isinstance(V('rv0'), float)
    mat = sym.np_proxy.empty((3, 3)) if symbolic else np.empty((3, 3))
    (_pyf(ni.mat_from_rotvec) if symbolic else ni.mat_from_rotvec)(rv, mat)
    return out_mat('m', mat)


def _kernel(V, A, with_altitude, n=1):
    symbolic = not isinstance(V('dt'), float)
    E = sym.np_proxy.empty if symbolic else np.empty
    lla = E((n + 1, 3))
    vel = E((n + 1, 3))
    mat = E((n + 1, 3, 3))
    lla[0] = A([V('lat'), V('lon'), V('alt')])
    vel[0] = A([V('VN'), V('VE'), V('VD')])
    mat[0] = A([[V(f'C{i}{j}') for j in range(3)] for i in range(3)])
    theta = A([[V('th0'), V('th1'), V('th2')]] * n)
    dv = A([[V('dv0'), V('dv1'), V('dv2')]] * n)
    dt = A([V('dt')] * n)
    if symbolic:
        _pyf(ni.integrate)(dt, lla, vel, mat, theta, dv, 0, with_altitude)
    else:
        ni.integrate(dt, lla, vel, mat, theta, dv, 0, with_altitude)
    return lla, vel, mat


def _stub_mfr(rv, mat):
    for i in range(3):
        for j in range(3):
            mat[i, j] = Sym.call(f"mat_from_rotvec_m{i}{j}", rv[0], rv[1], rv[2])


def _stub_gravity(lat, alt):
    return Sym.call("nb_gravity_g", lat, alt)


KPARAMS = ([('dt', (0.001, 0.05)), ('lat', LAT), ('lon', LON), ('alt', ALT),
            ('VN', VEL), ('VE', VEL), ('VD', (-30.0, 30.0))] +
           [(c, (-1.0, 1.0)) for c in mats('C')] +
           [(f'th{i}', (-0.1, 0.1)) for i in range(3)] +
           [(f'dv{i}', (-1.0, 1.0)) for i in range(3)])
KEXTRA = [(ni, 'mat_from_rotvec', _stub_mfr), (ni, 'gravity', _stub_gravity)]


def _kernel_outs(lla, vel, mat, row=1):
    o = {}
    o.update({'lat': lla[row, 0], 'lon': lla[row, 1], 'alt': lla[row, 2]})
    o.update({'VN': vel[row, 0], 'VE': vel[row, 1], 'VD': vel[row, 2]})
    o.update(out_mat('C', mat[row]))
    return o


@traced('NumbaIntegrate', 'step3d', KPARAMS, fast=('dt', 'th0', 'th1', 'th2', 'dv0', 'dv1', 'dv2'),
        extra=KEXTRA)
def _(V, A):
    return _kernel_outs(*_kernel(V, A, True))


@traced('NumbaIntegrate', 'step2d', KPARAMS, fast=('dt', 'th0', 'th1', 'th2', 'dv0', 'dv1', 'dv2'),
        extra=KEXTRA)
def _(V, A):
    return _kernel_outs(*_kernel(V, A, False))


# ----- transform.py -----------------------------------------------------------

@traced('Transform', 'lla_to_ecef', [('lat', (-90.0, 90.0)), ('lon', LON), ('alt', (-10000.0, 4e7))])
def _(V, A):
    return out_vec('r', transform.lla_to_ecef(A([V('lat'), V('lon'), V('alt')])))


def _ecef_domain(env, rng):
    # draw ECEF points from geodetic ones so that both Olson branches are hit
    lat = rng.uniform(-90, 90)
    lon = rng.uniform(-180, 180)
    alt = rng.choice([rng.uniform(-1e4, 1e5), rng.uniform(1e5, 4e7)])
    x, y, z = transform.lla_to_ecef([lat, lon, alt])
    return {'x': float(x), 'y': float(y), 'z': float(z)}


@traced('Transform', 'ecef_to_lla', [('x', (-1e7, 1e7)), ('y', (-1e7, 1e7)), ('z', (-1e7, 1e7))],
        domain=_ecef_domain, tol=1e-9)
def _(V, A):
    return dict(zip(('lat', 'lon', 'alt'), transform.ecef_to_lla(A([V('x'), V('y'), V('z')]))))


@traced('Transform', 'perturb_lla', [('lat', LAT), ('lon', LON), ('alt', ALT),
                                     ('d0', (-1e3, 1e3)), ('d1', (-1e3, 1e3)), ('d2', (-1e3, 1e3))],
        fast=('d0', 'd1', 'd2'))
def _(V, A):
    return dict(zip(('lat', 'lon', 'alt'), transform.perturb_lla(
        A([V('lat'), V('lon'), V('alt')]), A([V('d0'), V('d1'), V('d2')]))))


@traced('Transform', 'compute_lla_difference',
        [('lat1', LAT), ('lon1', LON), ('alt1', ALT), ('lat2', LAT), ('lon2', LON), ('alt2', ALT)])
def _(V, A):
    return out_vec('d', transform.compute_lla_difference(
        A([V('lat1'), V('lon1'), V('alt1')]), A([V('lat2'), V('lon2'), V('alt2')])))


@traced('Transform', 'mat_en_from_ll', [('lat', (-90.0, 90.0)), ('lon', LON)])
def _(V, A):
    return out_mat('m', transform.mat_en_from_ll(V('lat'), V('lon')))


@traced('Transform', 'mat_en_from_ll_arr', [('lat', (-90.0, 90.0)), ('lon', LON)])
def _(V, A):
    return out_mat('m', transform.mat_en_from_ll(A([V('lat')]), A([V('lon')]))[0])


@traced('Transform', 'mat_from_rph', [('roll', ANG), ('pitch', (-90.0, 90.0)), ('heading', ANG)])
def _(V, A):
    return out_mat('m', transform.mat_from_rph(A([V('roll'), V('pitch'), V('heading')])))


@traced('Transform', 'mat_to_rph_of_rph', [('roll', (-179.0, 179.0)), ('pitch', PITCH), ('heading', (-179.0, 179.0))],
        tol=1e-9)
def _(V, A):
    m = transform.mat_from_rph(A([V('roll'), V('pitch'), V('heading')]))
    return dict(zip(('roll', 'pitch', 'heading'), transform.mat_to_rph(m)))


@traced('Transform', 'lla_to_ned', [('lat', LAT), ('lon', LON), ('alt', ALT),
                                    ('lat0', LAT), ('lon0', LON), ('alt0', ALT)], tol=1e-9)
def _(V, A):
    r = transform.lla_to_ned(A([[V('lat'), V('lon'), V('alt')]]), A([V('lat0'), V('lon0'), V('alt0')]))
    return out_vec('n', r[0])


# ----- util.py ----------------------------------------------------------------

@traced('Util', 'to_180_range', [('angle', (-2000.0, 2000.0))])
def _(V, A):
    return {'r': util.to_180_range(V('angle'))}


@traced('Util', 'to_180_range_arr', [('angle', (-2000.0, 2000.0))])
def _(V, A):
    return {'r': util.to_180_range(A([V('angle')]))[0]}


@traced('Util', 'skew_matrix', [('v0', VEL), ('v1', VEL), ('v2', VEL)])
def _(V, A):
    return out_mat('s', util.skew_matrix(A([V('v0'), V('v1'), V('v2')])))


# ---------------------------------------------------------------------------
# tracing / validation / emission

def trace_entry(e):
    def fn():
        V = lambda name: Sym.var(name)
        A = lambda x: sym._obj(x)
        return e['run'](V, A)
    with patched(ALL_MODS, e['extra'] or ()):
        ctx, paths = sym.enumerate_paths(fn)
    return ctx, paths


def concrete_entry(e, env):
    V = lambda name: float(env[name])
    A = lambda x: np.array(x, dtype=float)
    out = e['run'](V, A)
    return {k: float(v) for k, v in out.items()}


TRACES = {}


def calls_table():
    """call-node name -> python callable, for every traced function output."""
    tab = dict(sym.EVAL_CALLS)
    for (mod, name), (e, ctx, paths) in TRACES.items():
        pnames = [p for p, _ in e['params']]
        for o in paths[0][1]:
            def f(*args, _ctx=ctx, _paths=paths, _p=pnames, _o=o):
                return sym.eval_paths(_ctx, _paths, dict(zip(_p, args)), tab)[_o]
            tab[f"{name}_{o}"] = f
    return tab


def validate_entry(e, ctx, paths, rng, stats):
    tab = calls_table()
    worst = 0.0
    n = 0
    hit = set()
    for _ in range(e['nval']):
        env = {p: rng.uniform(*r) for p, r in e['params']}
        if e['domain'] is not None:
            env = e['domain'](env, rng)
        got = sym.eval_paths(ctx, paths, env, tab)
        want = concrete_entry(e, env)
        for k in want:
            scale = max(1.0, abs(want[k]))
            err = abs(got[k] - want[k]) / scale
            if not (err <= e['tol']):
                raise TraceError(
                    f"irrun mismatch {e['name']}.{k}: ir={got[k]!r} impl={want[k]!r} at {env}")
            worst = max(worst, err)
        n += 1
    stats.append(dict(function=e['name'], samples=n, paths=len(paths), nodes=len(ctx.nodes),
                      max_rel_err=worst))


HEADER = """(* GENERATED by /verif/tools/gen.py from the pyins sources (%s) -- do not edit. *)
From Coq Require Import Reals.
From PV Require Import Spec.LibSpecs.
Open Scope R_scope.

"""


def validate_printed(texts, only, rng, stats, nval=6):
    """Printer validation: parse the emitted Coq text back (tools/coqeval.py) and evaluate it on floats
    against the real function."""
    import coqeval
    alltext = []
    for mod, parts in texts.items():
        alltext.append("\n".join(parts))
    # definitions of Gen modules not regenerated in this call (cross-module calls)
    for f in sorted(os.listdir(GEN_DIR)) if os.path.isdir(GEN_DIR) else []:
        if f.endswith('.v') and f[:-2] not in texts and 'GENERATED by /verif/tools/gen.py' in open(os.path.join(GEN_DIR, f)).readline():
            alltext.append(open(os.path.join(GEN_DIR, f)).read())
    prims = dict(coqeval.BASE_PRIMS)
    prims.update(sym.EVAL_CALLS)
    defs = coqeval.load("\n".join(alltext), prims)
    ev = coqeval.Evaluator(defs, prims)
    for e in REGISTRY:
        if only and e['module'] not in only:
            continue
        pnames = [p for p, _ in e['params']]
        worst = 0.0
        for _ in range(nval):
            env = {p: rng.uniform(*r) for p, r in e['params']}
            if e['domain'] is not None:
                env = e['domain'](env, rng)
            want = concrete_entry(e, env)
            for k, w in want.items():
                got = ev.call(f"{e['name']}_{k}", [float(env[p]) for p in pnames])
                err = abs(got - w) / max(1.0, abs(w))
                if not (err <= max(e['tol'], 1e-11)):
                    raise TraceError(f"printed Coq text disagrees with the implementation: {e['name']}_{k} "
                                     f"text={got!r} impl={w!r} at {env}")
                worst = max(worst, err)
        stats.append(dict(function=e['name'] + ' [printed text]', samples=nval, paths=0, nodes=0,
                          max_rel_err=worst))


def generate(seed=0, validate=True, write=True, only=None):
    """Trace everything, validate, and (re)write coq/Gen/*.v if changed.
    Returns (stats, changed files)."""
    rng = random.Random(seed)
    stats = []
    texts = {}
    for e in REGISTRY:
        if only and e['module'] not in only:
            continue
        ctx, paths = trace_entry(e)
        TRACES[(e['module'], e['name'])] = (e, ctx, paths)
        if validate:
            validate_entry(e, ctx, paths, rng, stats)
        txt = ir2coq.print_function(ctx, e['name'], [p for p, _ in e['params']], paths, e['fast'])
        texts.setdefault(e['module'], []).append(
            f"(* ---- {e['name']}: {len(paths)} path(s) ---- *)\n" + txt)
    if validate:
        validate_printed(texts, only, rng, stats)
    changed = []
    if write:
        os.makedirs(GEN_DIR, exist_ok=True)
        for mod, parts in texts.items():
            body = HEADER % "PYINS_REPO" + "\n".join(parts)
            path = os.path.join(GEN_DIR, mod + '.v')
            old = open(path).read() if os.path.exists(path) else None
            if old != body:
                with open(path, 'w') as f:
                    f.write(body)
                changed.append(path)
    return stats, changed


def kernel_fold_check(seed=0, n=12):
    """Structural premise of C02/C13: the kernel loop is `fold_left step`: row j+1 depends only on row j,
    increment i, dt[i] and the flag.  Trace two increments symbolically and compare row 2 with the one-step
    IR applied twice (and check that row 2 mentions no row-0 variable except through row 1 — implied by
    equality on random inputs of a DAG that is a function of the declared variables only)."""
    rng = random.Random(seed + 77)
    out = []
    for with_alt, nm in ((True, 'step3d'), (False, 'step2d')):
        e1 = [e for e in REGISTRY if e['name'] == nm][0]
        ctx1, paths1 = trace_entry(e1)
        TRACES[(e1['module'], nm)] = (e1, ctx1, paths1)
        for e in REGISTRY:
            if e['name'] in ('nb_gravity', 'mat_from_rotvec') and (e['module'], e['name']) not in TRACES:
                c, p = trace_entry(e)
                TRACES[(e['module'], e['name'])] = (e, c, p)
        names2 = [p for p, _ in KPARAMS] + ['dtB'] + [f'thB{i}' for i in range(3)] + [f'dvB{i}' for i in range(3)]

        def fn2():
            V = lambda name: Sym.var(name)
            A = lambda x: sym._obj(x)
            E = sym.np_proxy.empty
            lla, vel, mat = E((3, 3)), E((3, 3)), E((3, 3, 3))
            lla[0] = A([V('lat'), V('lon'), V('alt')])
            vel[0] = A([V('VN'), V('VE'), V('VD')])
            mat[0] = A([[V(f'C{i}{j}') for j in range(3)] for i in range(3)])
            theta = A([[V('th0'), V('th1'), V('th2')], [V('thB0'), V('thB1'), V('thB2')]])
            dv = A([[V('dv0'), V('dv1'), V('dv2')], [V('dvB0'), V('dvB1'), V('dvB2')]])
            dt = A([V('dt'), V('dtB')])
            _pyf(ni.integrate)(dt, lla, vel, mat, theta, dv, 0, with_alt)
            outs = _kernel_outs(lla, vel, mat, row=2)
            # structural check (same context, hash-consed): row 2 must be the one-step DAG applied to row 1
            row1 = _kernel_outs(lla, vel, mat, row=1)
            env = dict(row1)
            env.update(dt=V('dtB'))
            env.update({f'th{i}': V(f'thB{i}') for i in range(3)})
            env.update({f'dv{i}': V(f'dvB{i}') for i in range(3)})
            names = list(paths1[0][1])
            rep = sym.replay(ctx1, [paths1[0][1][k] for k in names], env)
            for k, r_ in zip(names, rep):
                if sym.lift(outs[k]).nid != r_.nid:
                    raise TraceError(f"kernel is not a fold of its one-step map: the expression of {nm}.{k} at the "
                                     f"second increment is not the one-step expression applied to row 1 "
                                     f"(something other than row j, increment i, dt[i] and the flag is used)")
            return outs
        with patched(ALL_MODS, KEXTRA):
            ctx2, paths2 = sym.enumerate_paths(fn2)
        tab = calls_table()
        worst = 0.0
        for _ in range(n):
            env = {p: rng.uniform(*r) for p, r in KPARAMS}
            envB = {'dtB': rng.uniform(0.001, 0.05)}
            envB.update({f'thB{i}': rng.uniform(-0.1, 0.1) for i in range(3)})
            envB.update({f'dvB{i}': rng.uniform(-1, 1) for i in range(3)})
            two = sym.eval_paths(ctx2, paths2, dict(env, **envB), tab)
            one = sym.eval_paths(ctx1, paths1, env, tab)
            env2 = dict(one)
            env2.update(dt=envB['dtB'])
            env2.update({f'th{i}': envB[f'thB{i}'] for i in range(3)})
            env2.update({f'dv{i}': envB[f'dvB{i}'] for i in range(3)})
            comp = sym.eval_paths(ctx1, paths1, env2, tab)
            for k in comp:
                err = abs(comp[k] - two[k]) / max(1.0, abs(two[k]))
                worst = max(worst, err)
                if not err <= 1e-12:
                    raise TraceError(f"kernel is not a fold of its one-step map: {nm}.{k} two-step trace "
                                     f"{two[k]!r} vs step∘step {comp[k]!r}")
        out.append(dict(function=nm + ' (two-increment trace = step∘step)', samples=n, paths=len(paths2),
                        nodes=len(ctx2.nodes), max_rel_err=worst))

        # the same one-step map at a non-zero buffer offset: state in row 1 under an unrelated row 0
        gnames = [f'g{k}' for k in range(15)]

        def fn3():
            V = lambda name: Sym.var(name)
            A = lambda x: sym._obj(x)
            E = sym.np_proxy.empty
            lla, vel, mat = E((3, 3)), E((3, 3)), E((3, 3, 3))
            lla[0] = A([V('g0'), V('g1'), V('g2')])
            vel[0] = A([V('g3'), V('g4'), V('g5')])
            mat[0] = A([[V(f'g{6 + 3 * i + j}') for j in range(3)] for i in range(3)])
            lla[1] = A([V('lat'), V('lon'), V('alt')])
            vel[1] = A([V('VN'), V('VE'), V('VD')])
            mat[1] = A([[V(f'C{i}{j}') for j in range(3)] for i in range(3)])
            _pyf(ni.integrate)(A([V('dt')]), lla, vel, mat, A([[V('th0'), V('th1'), V('th2')]]),
                               A([[V('dv0'), V('dv1'), V('dv2')]]), 1, with_alt)
            return _kernel_outs(lla, vel, mat, row=2)
        with patched(ALL_MODS, KEXTRA):
            ctx3, paths3 = sym.enumerate_paths(fn3)
        worst3 = 0.0
        for _ in range(n):
            env = {p: rng.uniform(*r) for p, r in KPARAMS}
            genv = {g: rng.uniform(-50, 50) for g in gnames}
            off = sym.eval_paths(ctx3, paths3, dict(env, **genv), tab)
            one = sym.eval_paths(ctx1, paths1, env, tab)
            for k in one:
                err = abs(one[k] - off[k]) / max(1.0, abs(one[k]))
                worst3 = max(worst3, err)
                if not err <= 1e-12:
                    raise TraceError(f"kernel step at buffer offset 1 differs from the step at offset 0 "
                                     f"({nm}.{k}: {off[k]!r} vs {one[k]!r}): a row other than j is read")
        out.append(dict(function=nm + ' (step at buffer offset 1 = step at offset 0)', samples=n,
                        paths=len(paths3), nodes=len(ctx3.nodes), max_rel_err=worst3))
    return out


def _load_regs():
    """Import every tools/reg/*.py: each registers further traced functions with
    `@gen.traced(...)` (one file per area, so that they can be edited independently)."""
    import importlib
    d = os.path.join(HERE, 'reg')
    if os.path.isdir(d):
        for f in sorted(os.listdir(d)):
            if f.endswith('.py') and not f.startswith('_'):
                importlib.import_module('reg.' + f[:-3])


def main(argv):
    only = argv or None
    st, ch = generate(only=only)
    for s in st:
        print(s)
    print('changed:', ch)


if __name__ == '__main__':
    # always run as module `gen` so that reg/*.py see the same REGISTRY
    import gen
    gen.main(sys.argv[1:])
else:
    _load_regs()
