"""Independent evaluator of the Coq text that tools/ir2coq.py emits (printer validation).

The generated files consist of `Definition name (p1 p2 ... : R) : R := expr.` lines over a tiny expression
language: numerals, PI, variables, + - * /, unary minus, application by juxtaposition of a defined or
library function (sin cos tan sqrt asin acos atan Rabs atan2 pymod, LibSpecs primitives), and
`if Rxx_dec a b then e1 else e2`.  This module parses that text back and evaluates it on floats, so that the
text handed to Coq (not only the IR it was printed from) is compared with the running pyins function.
"""
import re
import math

TOK = re.compile(r'\s*(?:(\d+(?:\.\d+)?)|([A-Za-z_][A-Za-z_0-9\']*)|(:=|[-+*/()]))')


def tokenize(s):
    out, i = [], 0
    s = s.strip()
    while i < len(s):
        m = TOK.match(s, i)
        if not m:
            raise ValueError(f"coqeval: cannot tokenize at {s[i:i + 30]!r}")
        i = m.end()
        if m.group(1) is not None:
            out.append(('num', m.group(1)))
        elif m.group(2) is not None:
            out.append(('id', m.group(2)))
        else:
            out.append(('op', m.group(3)))
    return out


class Parser:
    def __init__(self, toks):
        self.t = toks
        self.i = 0

    def peek(self):
        return self.t[self.i] if self.i < len(self.t) else (None, None)

    def next(self):
        x = self.peek()
        self.i += 1
        return x

    def expect(self, kind, val=None):
        k, v = self.next()
        if k != kind or (val is not None and v != val):
            raise ValueError(f"coqeval: expected {val or kind}, got {v!r}")
        return v

    def expr(self):
        k, v = self.peek()
        if k == 'id' and v == 'if':
            self.next()
            dec = self.expect('id')
            a = self.atom()
            b = self.atom()
            self.expect('id', 'then')
            e1 = self.expr()
            self.expect('id', 'else')
            e2 = self.expr()
            return ('if', dec, a, b, e1, e2)
        return self.addsub()

    def addsub(self):
        l = self.muldiv()
        while self.peek() in (('op', '+'), ('op', '-')):
            op = self.next()[1]
            r = self.muldiv()
            l = (op, l, r)
        return l

    def muldiv(self):
        l = self.unary()
        while self.peek() in (('op', '*'), ('op', '/')):
            op = self.next()[1]
            r = self.unary()
            l = (op, l, r)
        return l

    def unary(self):
        if self.peek() == ('op', '-'):
            self.next()
            return ('neg', self.unary())
        return self.app()

    def app(self):
        k, v = self.peek()
        if k == 'id' and v not in ('then', 'else', 'if'):
            self.next()
            args = []
            while True:
                k2, v2 = self.peek()
                if k2 == 'num' or (k2 == 'id' and v2 not in ('then', 'else')) or (k2, v2) == ('op', '('):
                    args.append(self.atom())
                else:
                    break
            return ('app', v, args)
        return self.atom()

    def atom(self):
        k, v = self.next()
        if k == 'num':
            return ('num', float(v))
        if k == 'id':
            return ('app', v, [])
        if (k, v) == ('op', '('):
            e = self.expr()
            self.expect('op', ')')
            return e
        raise ValueError(f"coqeval: unexpected token {v!r}")


DEF = re.compile(r'^Definition\s+([A-Za-z_][\w\']*)\s*(?:\(([^:)]*):\s*R\))?\s*:\s*R\s*:=\s*(.*)\.\s*$')

DECS = {'Rgt_dec': lambda a, b: a > b, 'Rlt_dec': lambda a, b: a < b,
        'Rge_dec': lambda a, b: a >= b, 'Rle_dec': lambda a, b: a <= b}


def _atan2(y, x):
    return math.atan2(y, x)


def load(text, prims):
    """Parse all R-valued Definitions of a generated file. Returns dict name -> (params, ast)."""
    defs = {}
    for line in text.splitlines():
        m = DEF.match(line)
        if not m:
            if line.startswith('Definition'):
                raise ValueError(f"coqeval: unparsed definition line: {line[:80]}")
            continue
        name, params, body = m.group(1), (m.group(2) or '').split(), m.group(3)
        p = Parser(tokenize(body))
        ast = p.expr()
        if p.i != len(p.t):
            raise ValueError(f"coqeval: trailing tokens in {name}")
        defs[name] = (params, ast)
    return defs


class Evaluator:
    def __init__(self, defs, prims):
        self.defs = defs
        self.prims = prims

    def call(self, name, args):
        if name in self.defs:
            params, ast = self.defs[name]
            if len(params) != len(args):
                raise ValueError(f"coqeval: arity mismatch calling {name}")
            return self.ev(ast, dict(zip(params, args)))
        if name in self.prims:
            return self.prims[name](*args)
        raise ValueError(f"coqeval: unknown function {name}")

    def ev(self, a, env):
        k = a[0]
        if k == 'num':
            return a[1]
        if k == 'neg':
            return -self.ev(a[1], env)
        if k in '+-*/':
            x, y = self.ev(a[1], env), self.ev(a[2], env)
            return x + y if k == '+' else x - y if k == '-' else x * y if k == '*' else x / y
        if k == 'if':
            c = DECS[a[1]](self.ev(a[2], env), self.ev(a[3], env))
            return self.ev(a[4], env) if c else self.ev(a[5], env)
        if k == 'app':
            name, args = a[1], a[2]
            if not args:
                if name in env:
                    return env[name]
                if name == 'PI':
                    return math.pi
            return self.call(name, [self.ev(x, env) for x in args])
        raise ValueError(k)


BASE_PRIMS = {
    'sin': math.sin, 'cos': math.cos, 'tan': math.tan, 'sqrt': math.sqrt, 'asin': math.asin,
    'acos': math.acos, 'atan': math.atan, 'Rabs': abs, 'atan2': _atan2,
    'pymod': lambda x, m: x - m * math.floor(x / m),
}
