"""Line coverage of selected functions of the implementation during a correspondence run.

The correspondence check is differential testing, so the generator bounds it.  This module measures which
source lines of the modelled functions the generated cases actually executed (sys.monitoring LINE events on
exactly those code objects, so the cost is negligible) and reports the executable lines that were never
reached; the harness records the numbers in the evidence file and treats an unexpected unreached line as a
broken correspondence (the generator no longer exercises part of the code the model claims to cover).
"""
import sys
import dis
import inspect

TOOL = 4          # a free sys.monitoring tool id (0 debugger, 1 coverage, 2 profiler, 5 optimizer are reserved names)


def _code_of(f):
    f = getattr(f, 'py_func', f)
    f = getattr(f, '__func__', f)
    f = getattr(f, '__wrapped__', f)
    if isinstance(f, property):
        f = f.fget
    return f.__code__


def _lines_of(code):
    """executable lines of a code object including nested code objects (comprehensions, lambdas)"""
    out = set()
    for _, _, ln in code.co_lines():
        if ln is not None:
            out.add(ln)
    for c in code.co_consts:
        if hasattr(c, 'co_lines'):
            out |= _lines_of(c)
    return out


def _nested(code):
    yield code
    for c in code.co_consts:
        if hasattr(c, 'co_lines'):
            yield from _nested(c)


class LineCoverage:
    def __init__(self, functions):
        """functions: dict name -> function / method object of the implementation"""
        self.codes = {name: _code_of(f) for name, f in functions.items()}
        self.hit = {name: set() for name in functions}
        self._by_code = {}
        for name, c in self.codes.items():
            for cc in _nested(c):
                self._by_code[cc] = name
        self.active = False

    def __enter__(self):
        mon = sys.monitoring
        try:
            mon.use_tool_id(TOOL, 'pv-linecov')
        except ValueError:
            self.active = False
            return self
        self.active = True

        def on_line(code, line):
            name = self._by_code.get(code)
            if name is not None:
                self.hit[name].add(line)
            return None
        mon.register_callback(TOOL, mon.events.LINE, on_line)
        for cc in self._by_code:
            mon.set_local_events(TOOL, cc, mon.events.LINE)
        return self

    def __exit__(self, *a):
        if self.active:
            mon = sys.monitoring
            for cc in self._by_code:
                mon.set_local_events(TOOL, cc, 0)
            mon.register_callback(TOOL, mon.events.LINE, None)
            mon.free_tool_id(TOOL)
        self.active = False

    def merge(self, other_hits):
        """merge hit sets coming from worker processes: dict name -> iterable of lines"""
        for k, v in other_hits.items():
            self.hit.setdefault(k, set()).update(v)

    def report(self, allow=()):
        """Returns (summary dict, list of 'name:line: source' never executed and not allowed).
        allow: substrings of source lines that may stay unreached (e.g. 'raise ValueError', 'assert False')."""
        summ, missing = {}, []
        for name, code in self.codes.items():
            allc = _lines_of(code)
            first = code.co_firstlineno
            try:
                src, start = inspect.getsourcelines(code)
            except (OSError, TypeError):
                src, start = [], first
            miss = sorted(allc - self.hit[name] - {first})
            real = []
            for ln in miss:
                text = src[ln - start].strip() if 0 <= ln - start < len(src) else ''
                if text.startswith(('def ', '@', '"""', "'''")) or not text:
                    continue
                if any(a in text for a in allow):
                    continue
                real.append(ln)
                missing.append(f"{name}:{ln}: {text[:90]}")
            summ[name] = dict(executable=len(allc), executed=len(allc & self.hit[name]), unreached=real)
        return summ, missing
