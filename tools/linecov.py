"""Line coverage of selected functions of the implementation during a correspondence run.

The correspondence check is differential testing, so the generator bounds it.  This module measures which
source lines of the modelled functions the generated cases actually executed (sys.monitoring LINE events on
exactly those code objects, so the cost is negligible) and reports the executable lines that were never
reached; the harness records the numbers in the evidence file and treats an unexpected unreached line as a
broken correspondence (the generator no longer exercises part of the code the model claims to cover).
"""
import sys
import ast
import dis
import inspect
import textwrap

TOOL = 4          # a free sys.monitoring tool id (0 debugger, 1 coverage, 2 profiler, 5 optimizer are reserved names)


def _code_of(f):
    f = getattr(f, 'py_func', f)
    f = getattr(f, '__func__', f)
    f = getattr(f, '__wrapped__', f)
    if isinstance(f, property):
        f = f.fget
    return f.__code__


def _lines_of(code):
    """executable lines of a code object including nested code objects (comprehensions, lambdas)"""
    out = set()
    for _, _, ln in code.co_lines():
        if ln is not None:
            out.add(ln)
    for c in code.co_consts:
        if hasattr(c, 'co_lines'):
            out |= _lines_of(c)
    return out


def _nested(code):
    yield code
    for c in code.co_consts:
        if hasattr(c, 'co_lines'):
            yield from _nested(c)


class LineCoverage:
    def __init__(self, functions):
        """functions: dict name -> function / method object of the implementation"""
        self.codes = {name: _code_of(f) for name, f in functions.items()}
        self.hit = {name: set() for name in functions}
        self._by_code = {}
        for name, c in self.codes.items():
            for cc in _nested(c):
                self._by_code[cc] = name
        self.active = False

    def __enter__(self):
        mon = sys.monitoring
        try:
            mon.use_tool_id(TOOL, 'pv-linecov')
        except ValueError:
            self.active = False
            return self
        self.active = True

        def on_line(code, line):
            name = self._by_code.get(code)
            if name is not None:
                self.hit[name].add(line)
            return None
        mon.register_callback(TOOL, mon.events.LINE, on_line)
        for cc in self._by_code:
            mon.set_local_events(TOOL, cc, mon.events.LINE)
        return self

    def __exit__(self, *a):
        if self.active:
            mon = sys.monitoring
            for cc in self._by_code:
                mon.set_local_events(TOOL, cc, 0)
            mon.register_callback(TOOL, mon.events.LINE, None)
            mon.free_tool_id(TOOL)
        self.active = False

    def merge(self, other_hits):
        """merge hit sets coming from worker processes: dict name -> iterable of lines"""
        for k, v in other_hits.items():
            self.hit.setdefault(k, set()).update(v)

    def report(self, allow=()):
        """Returns (summary dict, list of 'name:line: source' never executed and not allowed).
        allow: lines that may stay unreached.  An entry is
          * a substring of the source line ('assert False', 'result += 360'), or
          * 'raise <Exc>' - additionally matches, structurally, every `raise <Exc>(...)` statement of the measured
            functions however its message is spelled (literal, f-string, module constant), or
          * a callable(info) -> bool with info = dict(name, line, text, stmt, parents) (ast nodes; stmt may be None).
        A `case _:` line whose body consists only of allowed statements is allowed with them (a refactoring of
        `else: assert False` into a match statement adds such a line)."""
        summ, missing = {}, []
        for name, code in self.codes.items():
            allc = _lines_of(code)
            first = code.co_firstlineno
            try:
                src, start = inspect.getsourcelines(code)
            except (OSError, TypeError):
                src, start = [], first
            stmts = _statements(src, start)

            def text_of(ln):
                return src[ln - start].strip() if 0 <= ln - start < len(src) else ''

            def allowed(ln):
                text = text_of(ln)
                st, parents = stmts.get(ln, (None, []))
                for a in allow:
                    if callable(a):
                        try:
                            if a(dict(name=name, line=ln, text=text, stmt=st, parents=parents)):
                                return True
                        except Exception:
                            pass
                        continue
                    if a in text:
                        return True
                    if a.startswith('raise ') and isinstance(st, ast.Raise) \
                            and _exc_name(st) == a.split()[1].split('(')[0]:
                        return True
                    if a.startswith('assert False') and isinstance(st, ast.Assert) \
                            and isinstance(st.test, ast.Constant) and st.test.value is False:
                        return True
                return False

            miss = sorted(allc - self.hit[name] - {first})
            real = []
            for ln in miss:
                text = text_of(ln)
                if text.startswith(('def ', '@', '"""', "'''")) or not text:
                    continue
                if allowed(ln):
                    continue
                st, _ = stmts.get(ln, (None, []))
                if isinstance(st, ast.match_case) and _wildcard(st) and st.body \
                        and all(allowed(b.lineno + start - 1) for b in st.body):
                    continue
                real.append(ln)
                missing.append(f"{name}:{ln}: {text[:90]}")
            summ[name] = dict(executable=len(allc), executed=len(allc & self.hit[name]), unreached=real)
        return summ, missing


def _exc_name(st):
    e = st.exc
    if isinstance(e, ast.Call):
        e = e.func
    if isinstance(e, ast.Attribute):
        return e.attr
    return getattr(e, 'id', None)


def _wildcard(case):
    p = case.pattern
    return isinstance(p, ast.MatchAs) and p.pattern is None and p.name is None and case.guard is None


def _statements(src, start):
    """absolute line -> (ast statement or match_case starting on that line, list of enclosing nodes)"""
    out = {}
    try:
        tree = ast.parse(textwrap.dedent(''.join(src)))
    except (SyntaxError, ValueError):
        return out
    off = start - 1

    def walk(node, parents):
        for ch in ast.iter_child_nodes(node):
            if isinstance(ch, ast.stmt):
                out.setdefault(ch.lineno + off, (ch, parents))
            elif isinstance(ch, ast.match_case):
                out.setdefault(ch.pattern.lineno + off, (ch, parents))
            walk(ch, parents + [ch])
    walk(tree, [])
    return out
