"""Writes seeded/RESULTS.md from seeded/*/meta.json (python3 tools/seedreport.py)."""
import os
import json
import glob

VERIF = os.path.dirname(os.path.dirname(os.path.abspath(__file__)))
rows = []
for f in sorted(glob.glob(os.path.join(VERIF, 'seeded', '*', 'meta.json'))):
    m = json.load(open(f))
    first = (m.get('needs_to_manifest') or '').strip().splitlines()
    title = next((l.strip('# ').strip() for l in first if l.strip()), '')[:110]
    for c, v in m['checks_run'].items():
        conc = any(l.startswith('VIOLATION') and 'no-failing-input-found' not in l for l in v['lines'])
        how = []
        for b in v['broken']:
            for k in ('proof', 'translator', 'correspondence', 'axioms', 'harness', 'coqchk'):
                if f'BROKEN {k}' in b and k not in how:
                    how.append(k)
        if conc and not how:
            how.append('statement check on the implementation')
        outcome = ('caught, concrete replay' if conc else
                   ('caught, no-failing-input-found' if v['exit'] else 'MISSED'))
        if os.path.exists(os.path.join(VERIF, 'seeded', m['id'], 'STALE.txt')):
            outcome += ' (as recorded; STALE: a later `fix:` commit in /repo made this change harmless, see STALE.txt)'
        rows.append((m['id'], c, title, 'yes' if m.get('valid') else 'NO', outcome, ' + '.join(how)))
out = ["# Seeded changes and which checks catch them", "",
       "Each change was written by an independent sub-agent that saw only the property text and a scratch worktree of",
       "/repo; it was kept only after `tools/seedtest.py verify` confirmed that the baseline suite still passes with it and",
       "that its demonstration fails with / passes without the change. `tools/seedtest.py record <id>` ran the registered",
       "check against a scratch worktree with the patch applied (`PYINS_REPO`), never against /repo itself.", "",
       "| id | check | change (first line of notes.md) | confirmed | outcome | what broke first |",
       "|----|-------|----------------------------------|-----------|---------|------------------|"]
for r in rows:
    out.append("| " + " | ".join(x.replace('|', '/') for x in r) + " |")
out.append("")
out.append(f"{len(rows)} runs; caught with a concrete replay: {sum('concrete' in r[4] for r in rows)}; "
           f"caught without a failing input: {sum('no-failing' in r[4] for r in rows)}; missed: {sum(r[4] == 'MISSED' for r in rows)}.")
open(os.path.join(VERIF, 'seeded', 'RESULTS.md'), 'w').write("\n".join(out) + "\n")
print(out[-1])
