(** C07 -- Kalman correction is the exact Bayesian posterior with whitened innovation.

    All statements are about the definitions GENERATED from pyins/kalman.py `correct`
    (Gen/Kalman.v: correct_ret0 = mean, correct_ret1 = covariance, correct_ret2 = innovation -- the only
    generated definitions; the statements mention nothing else that is generated: S = [innov_cov P H R] and
    the factor L = cholesky S are written with the specification), for an arbitrary real field, arbitrary dimensions n, m and
    arbitrary matrices.  Library behaviour enters as written specifications
    (Spec/LibSpecsMx.v: cho_solve, solve_triangular) and as the hypothesis
    [cholesky_factor] on the opaque oracle [cholesky] (lower triangular, L L^T = S).
    The independent specification of the conditional Gaussian is Spec/Gaussian.v.

    "The inputs are not modified" is not a statement about values: it is enforced by the
    translator (tools/gen_mx.py refuses `overwrite_*=True` on a buffer of an argument and any
    in-place operation) and checked on the implementation by byte snapshots (tools/props/C07.py). *)
From mathcomp Require Import all_ssreflect all_algebra.
From PV Require Import Spec.LibSpecsMx Spec.Gaussian Gen.Kalman Proofs.KalmanProofs.
Set Implicit Arguments.
Unset Strict Implicit.
Import GRing.Theory Num.Theory.
Local Open Scope ring_scope.

(** (1) the returned state and covariance are the conditional mean and covariance of
    x ~ N(x, P) given z = H x + v, v ~ N(0, R): regression on z with gain P H^T S^-1, the
    covariance being the Schur complement of S in the joint covariance of (x, z). *)
Theorem C07_conditional_mean_cov :
  forall (F : realFieldType) (n m : nat) (cholesky : 'M[F]_m -> 'M[F]_m)
         (x : 'cV[F]_n) (P : 'M[F]_n) (z : 'cV[F]_m) (H : 'M[F]_(m, n)) (R : 'M[F]_m),
  P^T = P -> psd P -> R^T = R -> pd R ->
  cholesky_factor cholesky (innov_cov P H R) ->
  [/\ correct_ret0 cholesky x P z H R = cond_mean x P z H R,
      correct_ret1 cholesky P H R = cond_cov P H R,
      cond_cov P H R = schur_compl P (P *m H^T) (H *m P) (innov_cov P H R)
    & innov_cov P H R \in unitmx].
Proof. exact correct_is_conditional. Qed.
Print Assumptions C07_conditional_mean_cov.

(** the same, written out, over any field (S only has to be invertible) *)
Theorem C07_mean_cov_explicit :
  forall (F : fieldType) (n m : nat) (cholesky : 'M[F]_m -> 'M[F]_m)
         (x : 'cV[F]_n) (P : 'M[F]_n) (z : 'cV[F]_m) (H : 'M[F]_(m, n)) (R : 'M[F]_m),
  P^T = P -> R^T = R -> cholesky_spec cholesky (innov_cov P H R) ->
  correct_ret0 cholesky x P z H R
    = x + P *m H^T *m invmx (H *m P *m H^T + R) *m (z - H *m x) /\
  correct_ret1 cholesky P H R
    = P - P *m H^T *m invmx (H *m P *m H^T + R) *m H *m P.
Proof. exact correct_mean_cov. Qed.
Print Assumptions C07_mean_cov_explicit.

(** (2) the posterior covariance is symmetric, positive semidefinite and not larger than
    the prior (Loewner order) *)
Theorem C07_posterior_symmetric_psd_le_prior :
  forall (F : realFieldType) (n m : nat) (cholesky : 'M[F]_m -> 'M[F]_m)
         (P : 'M[F]_n) (H : 'M[F]_(m, n)) (R : 'M[F]_m),
  P^T = P -> psd P -> R^T = R -> pd R ->
  cholesky_factor cholesky (innov_cov P H R) ->
  [/\ (correct_ret1 cholesky P H R)^T = correct_ret1 cholesky P H R,
      psd (correct_ret1 cholesky P H R)
    & loewner_le (correct_ret1 cholesky P H R) P].
Proof. exact correct_cov_properties. Qed.
Print Assumptions C07_posterior_symmetric_psd_le_prior.

(** (2') Joseph form: PSD for PSD P, R whatever the Cholesky oracle returns (any gain) *)
Theorem C07_joseph_psd_any_gain :
  forall (F : realFieldType) (n m : nat) (cholesky : 'M[F]_m -> 'M[F]_m)
         (P : 'M[F]_n) (H : 'M[F]_(m, n)) (R : 'M[F]_m),
  psd P -> psd R -> psd (correct_ret1 cholesky P H R).
Proof. exact post_psd. Qed.
Print Assumptions C07_joseph_psd_any_gain.

(** (3) information form, for invertible P: covariance (P^-1 + H^T R^-1 H)^-1 and the mean
    solves the normal equations (P^-1 + H^T R^-1 H) x+ = P^-1 x + H^T R^-1 z *)
Theorem C07_information_form :
  forall (F : realFieldType) (n m : nat) (cholesky : 'M[F]_m -> 'M[F]_m)
         (x : 'cV[F]_n) (P : 'M[F]_n) (z : 'cV[F]_m) (H : 'M[F]_(m, n)) (R : 'M[F]_m),
  P^T = P -> psd P -> R^T = R -> pd R ->
  cholesky_factor cholesky (innov_cov P H R) ->
  P \in unitmx ->
  [/\ info_mx P H R \in unitmx,
      correct_ret1 cholesky P H R = info_cov P H R
    & info_mx P H R *m correct_ret0 cholesky x P z H R = info_vec x P z H R].
Proof. exact correct_information. Qed.
Print Assumptions C07_information_form.

(** (4) the returned innovation is the residual whitened by the lower Cholesky factor of
    its covariance *)
Theorem C07_innovation_whitened :
  forall (F : realFieldType) (n m : nat) (cholesky : 'M[F]_m -> 'M[F]_m)
         (x : 'cV[F]_n) (P : 'M[F]_n) (z : 'cV[F]_m) (H : 'M[F]_(m, n)) (R : 'M[F]_m),
  psd P -> pd R -> cholesky_factor cholesky (innov_cov P H R) ->
  let S := innov_cov P H R in
  let L := cholesky S in
  let e := z - H *m x in
  let nu := correct_ret2 cholesky x P z H R in
  [/\ is_lower L /\ L *m L^T = S,
      L \in unitmx /\ nu = invmx L *m e,
      nu^T *m nu = e^T *m invmx S *m e
    & invmx L *m S *m (invmx L)^T = 1%:M].
Proof. exact correct_innovation. Qed.
Print Assumptions C07_innovation_whitened.

(** (5) two independent measurement blocks processed one after the other, in either
    order, give the result of the joint update with z = (z1; z2), H = (H1; H2),
    R = diag(R1, R2).  P may be singular (general Schur-complement argument, not the
    information form).  More blocks follow by iterating the statement. *)
Theorem C07_sequential_eq_joint :
  forall (F : realFieldType) (n m1 m2 : nat)
         (chol1 : 'M[F]_m1 -> 'M[F]_m1) (chol2 : 'M[F]_m2 -> 'M[F]_m2)
         (chol12 : 'M[F]_(m1 + m2) -> 'M[F]_(m1 + m2))
         (x : 'cV[F]_n) (P : 'M[F]_n)
         (z1 : 'cV[F]_m1) (H1 : 'M[F]_(m1, n)) (R1 : 'M[F]_m1)
         (z2 : 'cV[F]_m2) (H2 : 'M[F]_(m2, n)) (R2 : 'M[F]_m2),
  P^T = P -> psd P -> R1^T = R1 -> pd R1 -> R2^T = R2 -> pd R2 ->
  cholesky_factor chol12 (innov_cov P (col_mx H1 H2) (block_mx R1 0 0 R2)) ->
  (let x1 := correct_ret0 chol1 x P z1 H1 R1 in
   let P1 := correct_ret1 chol1 P H1 R1 in
   cholesky_factor chol1 (innov_cov P H1 R1) ->
   cholesky_factor chol2 (innov_cov P1 H2 R2) ->
   correct_ret0 chol2 x1 P1 z2 H2 R2
     = correct_ret0 chol12 x P (col_mx z1 z2) (col_mx H1 H2) (block_mx R1 0 0 R2) /\
   correct_ret1 chol2 P1 H2 R2
     = correct_ret1 chol12 P (col_mx H1 H2) (block_mx R1 0 0 R2))
  /\
  (let x1 := correct_ret0 chol2 x P z2 H2 R2 in
   let P1 := correct_ret1 chol2 P H2 R2 in
   cholesky_factor chol2 (innov_cov P H2 R2) ->
   cholesky_factor chol1 (innov_cov P1 H1 R1) ->
   correct_ret0 chol1 x1 P1 z1 H1 R1
     = correct_ret0 chol12 x P (col_mx z1 z2) (col_mx H1 H2) (block_mx R1 0 0 R2) /\
   correct_ret1 chol1 P1 H1 R1
     = correct_ret1 chol12 P (col_mx H1 H2) (block_mx R1 0 0 R2)).
Proof. exact sequential_eq_joint. Qed.
Print Assumptions C07_sequential_eq_joint.

(** Non-vacuity: the hypotheses are satisfiable.
    One update, 1 x 1:  P = 3, H = 1, R = 1, S = 4, L = 2 (P invertible). *)
Example C07_hypotheses_satisfiable :
  forall F : realFieldType,
  let P : 'M[F]_1 := 3%:R%:M in let H : 'M[F]_1 := 1%:M in let R : 'M[F]_1 := 1%:M in
  let chol : 'M[F]_1 -> 'M[F]_1 := fun=> 2%:R%:M in
  [/\ P^T = P /\ psd P, R^T = R /\ pd R, cholesky_factor chol (innov_cov P H R)
    & P \in unitmx].
Proof. exact example_correct. Qed.
Print Assumptions C07_hypotheses_satisfiable.

(** Two blocks with a SINGULAR prior covariance (P = 0), R1 = R2 = 1, any H1, H2, any
    dimensions: all hypotheses of [C07_sequential_eq_joint] hold. *)
Example C07_sequential_hypotheses_satisfiable :
  forall (F : realFieldType) (n m1 m2 : nat) (H1 : 'M[F]_(m1, n)) (H2 : 'M[F]_(m2, n)),
  let P : 'M[F]_n := 0 in
  let R1 : 'M[F]_m1 := 1%:M in let R2 : 'M[F]_m2 := 1%:M in
  let chol1 : 'M[F]_m1 -> 'M[F]_m1 := fun=> 1%:M in
  let chol2 : 'M[F]_m2 -> 'M[F]_m2 := fun=> 1%:M in
  let chol12 : 'M[F]_(m1 + m2) -> 'M[F]_(m1 + m2) := fun=> 1%:M in
  [/\ (P^T = P /\ psd P) /\ (R1^T = R1 /\ pd R1) /\ (R2^T = R2 /\ pd R2),
      cholesky_factor chol12 (innov_cov P (col_mx H1 H2) (block_mx R1 0 0 R2)),
      cholesky_factor chol1 (innov_cov P H1 R1) /\
      cholesky_factor chol2 (innov_cov (correct_ret1 chol1 P H1 R1) H2 R2)
    & cholesky_factor chol2 (innov_cov P H2 R2) /\
      cholesky_factor chol1 (innov_cov (correct_ret1 chol2 P H2 R2) H1 R1)].
Proof. exact example_sequential. Qed.
Print Assumptions C07_sequential_hypotheses_satisfiable.
