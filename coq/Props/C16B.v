(** C16, Tier B (thorough tier only): on the ellipsoid surface (alt = 0, meridian plane y = 0) Olson's series guess
    for sin|lat| (arcsin branch, |lat| <= 1 rad) resp. cos lat (arccos branch, 0.99 <= |lat| <= 1.55 rad) is within
    1e-7 of the exact value; together with [C16_olson_step_is_newton] (the final step is one Newton step of the
    forward map) this bounds the round-trip error there.  Partial: not extended to alt <> 0 (a two-variable interval
    bisection at metre resolution is out of reach) nor propagated through asin/acos (not supported by the tactic). *)
From Coq Require Import Reals.
From PV Require Import Base.RealTac Spec.LibSpecs Spec.Ellipsoid Gen.Transform Proofs.C16TierB.
Open Scope R_scope.

Theorem C16_olson_guess_surface_bound_partial : forall phi,
  let x := R_transverse A_ E2_ phi * cos phi in
  let z := (1 - E2_) * R_transverse A_ E2_ phi * sin phi in
  (0 <= phi <= 1 -> Rabs (ecef_to_lla__10 x 0 z - sin phi) <= 1 / 10000000) /\
  (99 / 100 <= phi <= 155 / 100 -> Rabs (ecef_to_lla__24 x 0 z - cos phi) <= 1 / 10000000).
Proof. exact olson_guess_surface_bound_partial. Qed.
Print Assumptions C16_olson_guess_surface_bound_partial.
