(* C18 — State differencing, resampling and perturbation obey their algebra.

   (T) util.to_180_range: theorems about the GENERATED definitions in Gen/Util.v
       ([to_180_range_r] scalar code path, [to_180_range_arr_r] ndarray / pandas code
       path; Python float [%] is [pymod]).  Proofs: Proofs/To180Proofs.v.
   (K) transform.resample_state / compute_state_difference: Model/StateDiff.v (tables as
       column labels + rows [(time, values)] over Q; labels 0,1,2 = roll,pitch,heading,
       3,4,5 = lat,lon,alt).  Proofs: Proofs/StateDiffProofs.v.  The model is tied to the
       code by tools/props/C18.py (same generated table pairs through both).

   External behaviour that enters as EXPLICIT PREMISES of the theorems below:
     ang, slerp   the composite from_euler('xyz') -> scipy Slerp on one interval -> as_euler;
     comp         reading component k (degrees) of its result;
     canon        the Euler triples that as_euler returns unchanged;
     slerp a b s at s == 0 is a, at s == 1 is b   (the two hypotheses spelled out each time);
     rn, rp       earth.principal_radii (north radius, parallel radius) — uninterpreted.
   Real-number semantics: [dvalR] of a difference cell, [valR] of a resampled cell; binary64
   rounding is not modelled (finding rph-self-diff-rounding lives exactly there).

   Preconditions mirrored from the code: [well_formed] = at least two rows and strictly
   increasing stamps (scipy interp1d / Slerp raise otherwise).

   Recorded findings, visible here as hypotheses and exhibited as Examples:
     subsample-equal-median-nonzero, subsample-smaller-median-nonzero  -> hypotheses
         [median_dt a < median_dt b] / [<=] of C18_diff_subsample_zero, witnesses below;
     equal-median-index-mismatch -> C18_diff_antisymmetric needs different medians; with equal
         medians only the common stamps are antisymmetric (C18_diff_antisymmetric_common_stamp);
     rph-self-diff-rounding -> not a statement over the reals (implementation only).
   NOT proved here: that the recovered perturbation is first-order close to the injected one
   (only the exact algebraic form, C18_perturb_recovered_partial; the closeness of the radii
   ratio to 1 is checked numerically), and that scipy's Slerp is the shortest-arc geodesic. *)
From Coq Require Import List QArith Reals Qreals Bool Permutation.
From PV Require Import Spec.LibSpecs Gen.Util Model.StateDiff Proofs.To180Proofs
  Proofs.StateDiffProofs.
Import ListNotations.

(* ---------------------------------------------------------------------------- *)
(* 1. angle reduction: every real angle goes to the congruent value in (-180, 180] *)

Theorem C18_to180_range_congruent : forall x : R,
  (-180 < to_180_range_r x <= 180)%R /\ exists k : Z, x = (to_180_range_r x + 360 * IZR k)%R.
Proof. exact to180_range_congruent. Qed.
Print Assumptions C18_to180_range_congruent.

Theorem C18_to180_array_range_congruent : forall x : R,
  (-180 < to_180_range_arr_r x <= 180)%R /\
  exists k : Z, x = (to_180_range_arr_r x + 360 * IZR k)%R.
Proof. exact to180_arr_range_congruent. Qed.
Print Assumptions C18_to180_array_range_congruent.

(* the scalar and the ndarray/pandas code paths are the same function *)
Theorem C18_to180_scalar_eq_array : forall x : R, to_180_range_r x = to_180_range_arr_r x.
Proof. exact to180_scalar_eq_array. Qed.
Print Assumptions C18_to180_scalar_eq_array.

(* it is THE representative: any r in (-180,180] congruent to x is the result *)
Theorem C18_to180_unique : forall (x r : R) (k : Z),
  (-180 < r <= 180)%R -> x = (r + 360 * IZR k)%R -> to_180_range_r x = r.
Proof. exact to180_unique. Qed.
Print Assumptions C18_to180_unique.

Example C18_to180_endpoints :
  to_180_range_r 180 = 180%R /\ to_180_range_r (- 180) = 180%R.
Proof. exact to180_neg_endpoint. Qed.

Example C18_to180_540 : to_180_range_r 540 = 180%R.
Proof. exact to180_at_540. Qed.

Example C18_to180_190 : to_180_range_arr_r 190 = (-170)%R.
Proof. exact to180_at_190. Qed.

(* ---------------------------------------------------------------------------- *)
(* 2. antisymmetry of the difference *)

(* 2a. Different median sampling intervals (whichever table is denser): exactly one of
   the two calls swaps its operands; same columns in the same order, same stamps, every
   cell negated — except an angle cell equal to 180, which is 180 in both orders
   ([table_antisym] / [cell_antisym] / [antisymR] spell this out). *)
Theorem C18_diff_antisymmetric :
  forall (ang : Type) (slerp : Q * Q * Q -> Q * Q * Q -> Q -> ang)
         (comp : nat -> ang -> R) (rn rp : R -> R -> R) (a b : table),
  ~ median_dt a == median_dt b ->
  table_antisym ang comp rn rp (state_diff ang slerp a b) (state_diff ang slerp b a).
Proof. exact diff_antisym_swap. Qed.
Print Assumptions C18_diff_antisymmetric.

(* 2b. Equal medians (no swap in either order): antisymmetric on every stamp both
   tables have, column by column (label-based: each result keeps the column order of
   its own first argument).  Stamps of only one table: finding equal-median-index-mismatch. *)
Theorem C18_diff_antisymmetric_common_stamp :
  forall (ang : Type) (slerp : Q * Q * Q -> Q * Q * Q -> Q -> ang)
         (comp : nat -> ang -> R) (canon : Q * Q * Q -> Prop) (rn rp : R -> R -> R),
  (forall (a b : Q * Q * Q) (s : Q) (k : nat),
     canon a -> s == 0 -> comp k (slerp a b s) = Q2R (tcomp k a)) ->
  (forall (a b : Q * Q * Q) (s : Q) (k : nat),
     canon b -> s == 1 -> comp k (slerp a b s) = Q2R (tcomp k b)) ->
  forall (a b : table) (t : Q) (ra rb : list Q),
  well_formed a -> well_formed b -> canon_table canon a -> canon_table canon b ->
  median_dt a == median_dt b ->
  In (t, ra) (rows a) -> In (t, rb) (rows b) ->
  exists cells1 cells2 : list (dval ang),
    In (t, cells1) (d_rows (state_diff ang slerp a b)) /\
    In (t, cells2) (d_rows (state_diff ang slerp b a)) /\
    forall c : nat, In c (cols a) -> In c (cols b) ->
      cell_antisym ang comp rn rp
        (get (DQ 0) (d_cols (state_diff ang slerp a b)) cells1 c)
        (get (DQ 0) (d_cols (state_diff ang slerp b a)) cells2 c).
Proof. exact diff_antisym_common_stamp. Qed.
Print Assumptions C18_diff_antisymmetric_common_stamp.

(* 2c. Equal index: both results carry exactly that index and every row is antisymmetric. *)
Theorem C18_diff_antisymmetric_equal_index :
  forall (ang : Type) (slerp : Q * Q * Q -> Q * Q * Q -> Q -> ang)
         (comp : nat -> ang -> R) (canon : Q * Q * Q -> Prop) (rn rp : R -> R -> R),
  (forall (a b : Q * Q * Q) (s : Q) (k : nat),
     canon a -> s == 0 -> comp k (slerp a b s) = Q2R (tcomp k a)) ->
  (forall (a b : Q * Q * Q) (s : Q) (k : nat),
     canon b -> s == 1 -> comp k (slerp a b s) = Q2R (tcomp k b)) ->
  forall a b : table,
  well_formed a -> well_formed b -> canon_table canon a -> canon_table canon b ->
  times a = times b ->
  map fst (d_rows (state_diff ang slerp a b)) = times a /\
  map fst (d_rows (state_diff ang slerp b a)) = times a /\
  forall (t : Q) (ra : list Q), In (t, ra) (rows a) ->
    exists (rb : list Q) (cells1 cells2 : list (dval ang)),
      In (t, rb) (rows b) /\
      In (t, cells1) (d_rows (state_diff ang slerp a b)) /\
      In (t, cells2) (d_rows (state_diff ang slerp b a)) /\
      forall c : nat, In c (cols a) -> In c (cols b) ->
        cell_antisym ang comp rn rp
          (get (DQ 0) (d_cols (state_diff ang slerp a b)) cells1 c)
          (get (DQ 0) (d_cols (state_diff ang slerp b a)) cells2 c).
Proof. exact diff_antisym_equal_index. Qed.
Print Assumptions C18_diff_antisymmetric_equal_index.

(* 2d. two Series with the same labels *)
Theorem C18_series_diff_antisymmetric :
  forall (ang : Type) (comp : nat -> ang -> R) (rn rp : R -> R -> R)
         (cs : list nat) (r1 r2 : list Q) (c : nat),
  In c cs ->
  cell_antisym ang comp rn rp (get (DQ 0) cs (series_diff ang cs r1 r2) c)
                              (get (DQ 0) cs (series_diff ang cs r2 r1) c).
Proof. exact series_diff_antisym. Qed.
Print Assumptions C18_series_diff_antisymmetric.

(* the exception is real: 100 deg against -80 deg is +180 in both orders *)
Example C18_angle_180_both_orders :
  to_180_range_arr_r (1 * (100 - -80)) = 180%R /\ to_180_range_arr_r (-1 * (100 - -80)) = 180%R.
Proof. exact angle_180_both_orders. Qed.

(* finding equal-median-index-mismatch exhibited in the model *)
Example C18_equal_median_index_mismatch_witness :
  forall (ang : Type) (slerp : Q * Q * Q -> Q * Q * Q -> Q -> ang),
  wf_table f3_a = true /\ wf_table f3_b = true /\ median_dt f3_a == median_dt f3_b /\
  map fst (d_rows (state_diff ang slerp f3_a f3_b)) = [1; 2; 3] /\
  map fst (d_rows (state_diff ang slerp f3_b f3_a)) = [1 # 2; 3 # 2; 5 # 2].
Proof. exact equal_median_index_mismatch_witness. Qed.

(* ---------------------------------------------------------------------------- *)
(* 3. exactly zero against itself / a sub-sampling (over the reals) *)

Theorem C18_diff_self_zero :
  forall (ang : Type) (slerp : Q * Q * Q -> Q * Q * Q -> Q -> ang)
         (comp : nat -> ang -> R) (canon : Q * Q * Q -> Prop) (rn rp : R -> R -> R),
  (forall (a b : Q * Q * Q) (s : Q) (k : nat),
     canon a -> s == 0 -> comp k (slerp a b s) = Q2R (tcomp k a)) ->
  (forall (a b : Q * Q * Q) (s : Q) (k : nat),
     canon b -> s == 1 -> comp k (slerp a b s) = Q2R (tcomp k b)) ->
  forall a : table,
  well_formed a -> canon_table canon a ->
  zero_table ang comp rn rp (state_diff ang slerp a a) (cols a) (times a).
Proof. exact diff_self_zero. Qed.
Print Assumptions C18_diff_self_zero.

(* [a] the full table, [b] a sub-sampling ([subsample b a]: same columns, every row of b is
   a row of a).  Zero, on b's stamps, exactly when the code takes [a] for the denser table;
   without the median hypotheses the statement is false (witnesses below). *)
Theorem C18_diff_subsample_zero :
  forall (ang : Type) (slerp : Q * Q * Q -> Q * Q * Q -> Q -> ang)
         (comp : nat -> ang -> R) (canon : Q * Q * Q -> Prop) (rn rp : R -> R -> R),
  (forall (a b : Q * Q * Q) (s : Q) (k : nat),
     canon a -> s == 0 -> comp k (slerp a b s) = Q2R (tcomp k a)) ->
  (forall (a b : Q * Q * Q) (s : Q) (k : nat),
     canon b -> s == 1 -> comp k (slerp a b s) = Q2R (tcomp k b)) ->
  forall a b : table,
  well_formed a -> well_formed b -> canon_table canon a -> subsample b a ->
  (median_dt a < median_dt b ->
     zero_table ang comp rn rp (state_diff ang slerp a b) (cols b) (times b)) /\
  (median_dt a <= median_dt b ->
     zero_table ang comp rn rp (state_diff ang slerp b a) (cols b) (times b)).
Proof. exact diff_subsample_zero. Qed.
Print Assumptions C18_diff_subsample_zero.

(* finding subsample-equal-median-nonzero: VN = t^2 at t = 0..6 against the same table
   without t = 4 -> -1 at t = 4 (for every slerp: the tables have no attitude) *)
Example C18_subsample_equal_median_refuted :
  forall (ang : Type) (slerp : Q * Q * Q -> Q * Q * Q -> Q -> ang)
         (comp : nat -> ang -> R) (rn rp : R -> R -> R),
  wf_table f1_full = true /\ wf_table f1_sub = true /\ subsample f1_sub f1_full /\
  median_dt f1_full == median_dt f1_sub /\
  exists q, In (4, [DQ q]) (d_rows (state_diff ang slerp f1_full f1_sub)) /\
            dvalR ang comp rn rp (DQ q) = (-1)%R.
Proof. exact subsample_equal_median_witness. Qed.

(* finding subsample-smaller-median-nonzero: t = 0,1,2,12,22,32 against rows 0,1,2,32 ->
   -2 at t = 12 (and +2 in the opposite order) *)
Example C18_subsample_smaller_median_refuted :
  forall (ang : Type) (slerp : Q * Q * Q -> Q * Q * Q -> Q -> ang)
         (comp : nat -> ang -> R) (rn rp : R -> R -> R),
  wf_table f2_full = true /\ wf_table f2_sub = true /\ subsample f2_sub f2_full /\
  median_dt f2_sub < median_dt f2_full /\
  (exists q, In (12, [DQ q]) (d_rows (state_diff ang slerp f2_full f2_sub)) /\
             dvalR ang comp rn rp (DQ q) = (-2)%R) /\
  (exists q, In (12, [DQ q]) (d_rows (state_diff ang slerp f2_sub f2_full)) /\
             dvalR ang comp rn rp (DQ q) = 2%R).
Proof. exact subsample_smaller_median_witness. Qed.

(* ---------------------------------------------------------------------------- *)
(* 4. range of the reported angle differences; what every cell is (NED metres) *)

Theorem C18_diff_angle_range :
  forall (ang : Type) (slerp : Q * Q * Q -> Q * Q * Q -> Q -> ang)
         (comp : nat -> ang -> R) (rn rp : R -> R -> R)
         (a b : table) (r : Q * list (dval ang)) (x : dval ang),
  In r (d_rows (state_diff ang slerp a b)) -> In x (snd r) ->
  is_angle ang x = true -> (-180 < dvalR ang comp rn rp x <= 180)%R.
Proof. exact diff_angle_range. Qed.
Print Assumptions C18_diff_angle_range.

(* [operands a b] = (sign, first, second) after the swap.  Columns: the common ones in the
   order of [first]; index: [first]'s stamps inside the span of [second]; each cell is
   [ideal] (unfolded by the four theorems that follow) of [first]'s row and of [second]
   interpolated at the stamp. *)
Theorem C18_diff_cells :
  forall (ang : Type) (slerp : Q * Q * Q -> Q * Q * Q -> Q -> ang)
         (comp : nat -> ang -> R) (rn rp : R -> R -> R) (a b : table),
  incr (times a) -> incr (times b) ->
  let sign := fst (fst (operands a b)) in
  let f := snd (fst (operands a b)) in
  let s := snd (operands a b) in
  let C := col_inter (cols f) (cols s) in
  d_cols (state_diff ang slerp a b) = C /\
  map fst (d_rows (state_diff ang slerp a b)) = filter (in_span s) (times f) /\
  forall row : Q * list (dval ang), In row (d_rows (state_diff ang slerp a b)) ->
    exists rf : list Q,
      In (fst row, rf) (rows f) /\ length (snd row) = length C /\
      forall c : nat, In c C ->
        is_angle ang (get (DQ 0) C (snd row) c) = has_all rph_cols C && is_rph c /\
        dvalR ang comp rn rp (get (DQ 0) C (snd row) c)
        = ideal rn rp (Q2R sign) (has_all lla_cols C) (has_all rph_cols C) c
            (fun c0 : nat => Q2R (get 0 (cols f) rf c0))
            (fun c0 : nat =>
               valR ang comp (get (VQ 0) C (interp_row ang slerp (select C s) (fst row)) c0)).
Proof. exact diff_cells. Qed.
Print Assumptions C18_diff_cells.

Theorem C18_cell_north : forall (rn rp : R -> R -> R) (sg : R) (rph : bool) (fv sv : nat -> R),
  ideal rn rp sg true rph c_lat fv sv
  = (sg * (fv c_lat - sv c_lat)
     * (rn ((fv c_lat + sv c_lat) / 2) ((fv c_alt + sv c_alt) / 2) * (PI / 180)))%R.
Proof. exact ideal_north. Qed.
Print Assumptions C18_cell_north.

Theorem C18_cell_east : forall (rn rp : R -> R -> R) (sg : R) (rph : bool) (fv sv : nat -> R),
  ideal rn rp sg true rph c_lon fv sv
  = (sg * (fv c_lon - sv c_lon)
     * (rp ((fv c_lat + sv c_lat) / 2) ((fv c_alt + sv c_alt) / 2) * (PI / 180)))%R.
Proof. exact ideal_east. Qed.
Print Assumptions C18_cell_east.

Theorem C18_cell_down : forall (rn rp : R -> R -> R) (sg : R) (rph : bool) (fv sv : nat -> R),
  ideal rn rp sg true rph c_alt fv sv = (- (sg * (fv c_alt - sv c_alt)))%R.
Proof. exact ideal_down. Qed.
Print Assumptions C18_cell_down.

Theorem C18_cell_attitude :
  forall (rn rp : R -> R -> R) (sg : R) (lla : bool) (c : nat) (fv sv : nat -> R),
  is_rph c = true ->
  ideal rn rp sg lla true c fv sv = to_180_range_arr_r (sg * (fv c - sv c)).
Proof. exact ideal_attitude. Qed.
Print Assumptions C18_cell_attitude.

Theorem C18_cell_plain :
  forall (rn rp : R -> R -> R) (sg : R) (lla rph : bool) (c : nat) (fv sv : nat -> R),
  rph && is_rph c = false -> lla && is_lla c = false ->
  ideal rn rp sg lla rph c fv sv = (sg * (fv c - sv c))%R.
Proof. exact ideal_plain. Qed.
Print Assumptions C18_cell_plain.

Theorem C18_series_diff_cells :
  forall (ang : Type) (comp : nat -> ang -> R) (rn rp : R -> R -> R)
         (cs : list nat) (r1 r2 : list Q) (c : nat),
  In c cs ->
  is_angle ang (get (DQ 0) cs (series_diff ang cs r1 r2) c) = has_all rph_cols cs && is_rph c /\
  dvalR ang comp rn rp (get (DQ 0) cs (series_diff ang cs r1 r2) c)
  = ideal rn rp 1 (has_all lla_cols cs) (has_all rph_cols cs) c
      (fun c0 : nat => Q2R (get 0 cs r1 c0)) (fun c0 : nat => Q2R (get 0 cs r2 c0)).
Proof. exact series_diff_cells. Qed.
Print Assumptions C18_series_diff_cells.

(* ---------------------------------------------------------------------------- *)
(* 5. resampling *)

(* column order kept *)
Theorem C18_resample_cols :
  forall (ang : Type) (slerp : Q * Q * Q -> Q * Q * Q -> Q -> ang) (st : table) (ts : list Q),
  r_cols (resample_state ang slerp st ts) = cols st.
Proof. exact resample_cols. Qed.
Print Assumptions C18_resample_cols.

(* output sorted; exactly the requested times inside the span (with multiplicity),
   times outside the span dropped *)
Theorem C18_resample_index :
  forall (ang : Type) (slerp : Q * Q * Q -> Q * Q * Q -> Q -> ang) (st : table) (ts : list Q),
  sorted (map fst (r_rows (resample_state ang slerp st ts))) /\
  Permutation (filter (in_span st) ts) (map fst (r_rows (resample_state ang slerp st ts))) /\
  forall t : Q, In t (map fst (r_rows (resample_state ang slerp st ts))) <->
                In t ts /\ first_time st <= t <= last_time st.
Proof. exact resample_index. Qed.
Print Assumptions C18_resample_index.

Theorem C18_resample_row :
  forall (ang : Type) (slerp : Q * Q * Q -> Q * Q * Q -> Q -> ang)
         (st : table) (ts : list Q) (t : Q) (row : list (val ang)),
  In (t, row) (r_rows (resample_state ang slerp st ts)) ->
  row = interp_row ang slerp st t /\ length row = length (cols st).
Proof. exact resample_row. Qed.
Print Assumptions C18_resample_row.

(* original rows at original times *)
Theorem C18_resample_at_knot :
  forall (ang : Type) (slerp : Q * Q * Q -> Q * Q * Q -> Q -> ang)
         (comp : nat -> ang -> R) (canon : Q * Q * Q -> Prop),
  (forall (a b : Q * Q * Q) (s : Q) (k : nat),
     canon a -> s == 0 -> comp k (slerp a b s) = Q2R (tcomp k a)) ->
  (forall (a b : Q * Q * Q) (s : Q) (k : nat),
     canon b -> s == 1 -> comp k (slerp a b s) = Q2R (tcomp k b)) ->
  forall (st : table) (ts : list Q) (t0 : Q) (r0 : list Q),
  well_formed st -> canon_table canon st -> In (t0, r0) (rows st) -> In t0 ts ->
  In (t0, interp_row ang slerp st t0) (r_rows (resample_state ang slerp st ts)) /\
  (forall c : nat, In c (cols st) ->
     valR ang comp (get (VQ 0) (cols st) (interp_row ang slerp st t0) c)
     = Q2R (get 0 (cols st) r0 c)) /\
  (NoDup (cols st) -> length r0 = length (cols st) ->
     map (valR ang comp) (interp_row ang slerp st t0) = map Q2R r0).
Proof. exact resample_at_knot. Qed.
Print Assumptions C18_resample_at_knot.

(* linear elsewhere; attitude is slerp of the two bracketing rows at a parameter in [0,1] *)
Theorem C18_resample_between :
  forall (ang : Type) (slerp : Q * Q * Q -> Q * Q * Q -> Q -> ang) (st : table) (t : Q),
  well_formed st -> in_span st t = true ->
  exists (pre : list (Q * list Q)) (lo hi : Q * list Q) (post : list (Q * list Q)),
    rows st = pre ++ lo :: hi :: post /\
    fst lo <= t <= fst hi /\ fst lo < fst hi /\
    0 <= w_hi t (fst lo) (fst hi) <= 1 /\
    forall c : nat, In c (cols st) ->
      (has_all rph_cols (cols st) && is_rph c = false ->
         exists q : Q,
           get (VQ 0) (cols st) (interp_row ang slerp st t) c = VQ q /\
           q == get 0 (cols st) (snd lo) c
                + (t - fst lo) / (fst hi - fst lo)
                  * (get 0 (cols st) (snd hi) c - get 0 (cols st) (snd lo) c)) /\
      (has_all rph_cols (cols st) && is_rph c = true ->
         get (VQ 0) (cols st) (interp_row ang slerp st t) c
         = VA c (slerp (rph_of (cols st) (snd lo)) (rph_of (cols st) (snd hi))
                       (w_hi t (fst lo) (fst hi)))).
Proof. exact resample_between. Qed.
Print Assumptions C18_resample_between.

(* ---------------------------------------------------------------------------- *)
(* 6. perturbation recovered — PARTIAL.
   Full statement (not proved in Coq; checked numerically by the harness with margin 1e-3):
     compute_state_difference(perturb_pva(pva, e), pva) = e + O(|e|^2 / R).
   Proved: the exact algebraic form of what is reported; the first-order claim is that
   rn(mean)/rn(original) and rp(mean)/rp(original) are 1 + O(|e| / R). *)
Theorem C18_perturb_recovered_partial :
  forall (rn rp : R -> R -> R) (lat alt dn de dd mlat malt x e : R),
  rn lat alt <> 0%R -> rp lat alt <> 0%R ->
  metres rn rp c_lat (1 * (lat + dn / rn lat alt * (180 / PI) - lat)) mlat malt
    = (dn * (rn mlat malt / rn lat alt))%R /\
  metres rn rp c_lon (1 * (x + de / rp lat alt * (180 / PI) - x)) mlat malt
    = (de * (rp mlat malt / rp lat alt))%R /\
  metres rn rp c_alt (1 * (alt - dd - alt)) mlat malt = dd /\
  (1 * (x + e - x))%R = e /\
  ((-180 < e <= 180)%R -> to_180_range_arr_r (1 * (x + e - x)) = e).
Proof. exact perturb_recovered_partial. Qed.
Print Assumptions C18_perturb_recovered_partial.

(* ---------------------------------------------------------------------------- *)
(* non-vacuity: the scipy premises are satisfiable (componentwise-linear instance), and
   with them the table hypotheses of the theorems above hold jointly on a table with
   position, velocity and attitude columns and its sub-sampling *)
Example C18_slerp_premises_satisfiable :
  (forall (a b : Q * Q * Q) (s : Q) (k : nat),
     any_triple a -> s == 0 -> lin_comp k (lin3 a b s) = Q2R (tcomp k a)) /\
  (forall (a b : Q * Q * Q) (s : Q) (k : nat),
     any_triple b -> s == 1 -> lin_comp k (lin3 a b s) = Q2R (tcomp k b)).
Proof. exact (conj lin3_start lin3_end). Qed.

Example C18_table_hypotheses_satisfiable :
  wf_table ex_full = true /\ wf_table ex_sub = true /\
  subsample ex_sub ex_full /\ median_dt ex_full < median_dt ex_sub /\
  ~ median_dt ex_full == median_dt ex_sub /\
  canon_table any_triple ex_full /\ canon_table any_triple ex_sub /\
  NoDup (cols ex_full).
Proof. exact ex_tables_ok. Qed.

Example C18_theorems_instantiated : forall rn rp : R -> R -> R,
  zero_table _ lin_comp rn rp (state_diff _ lin3 ex_full ex_full) (cols ex_full) (times ex_full) /\
  zero_table _ lin_comp rn rp (state_diff _ lin3 ex_full ex_sub) (cols ex_sub) (times ex_sub) /\
  zero_table _ lin_comp rn rp (state_diff _ lin3 ex_sub ex_full) (cols ex_sub) (times ex_sub) /\
  table_antisym _ lin_comp rn rp (state_diff _ lin3 ex_full ex_sub)
                                 (state_diff _ lin3 ex_sub ex_full).
Proof. exact ex_zero. Qed.
