(** * C19 — Public functions are pure, deterministic and keep the documented schema

    Static part (this file): the purity checker is sound ([C19_checker_sound]); it accepts the
    aliasing IR of EVERY public callable of pyins, regenerated from the sources on every run
    ([C19_all_public_pure], hence [C19_public_functions_pure]); the callee summaries used for
    calls are validated against the callee bodies ([C19_all_summaries_ok]); every public
    callable that draws random numbers takes them from a generator supplied by the caller /
    derived from its [rng] argument by [check_random_state] ([C19_seed_plumbed]); the column
    constants are the documented ones ([C19_schema_constants]).
    NOT proved here (validated dynamically by tools/props/C19.py): the abstraction Python ->
    IR (classification of numpy/pandas/scipy operations, micro-tested), bit-identical
    results of repeated calls, equality of scalar/stacked/list/array/table forms, schema of
    the returned VALUES; summaries are validated but "a call behaves as its summary" is
    the definition of the call semantics, not a theorem. *)
From Coq Require Import List Arith Bool String PArith.
From PV Require Import Model.Alias Gen.AliasIR Proofs.AliasProofs.
Import ListNotations.

Theorem C19_checker_sound : forall wl rd allow_g S h f P kind s0 tr s,
  check_fun wl rd allow_g S h f = true ->
  prims S (f_body f) = Some P ->
  entry_ok (f_params f) (f_owned f) (f_ownref f) (f_grng f) kind s0 ->
  run P s0 tr s ->
  Forall (safe_event wl rd allow_g (region kind s0 0) (region kind s0 2)) tr.
Proof. exact checker_sound. Qed.
Print Assumptions C19_checker_sound.

Theorem C19_checker_sound_reachable : forall wl rd allow_g S h f P kind s0 tr s,
  check_fun wl rd allow_g S h f = true ->
  prims S (f_body f) = Some P ->
  entry_ok (f_params f) (f_owned f) (f_ownref f) (f_grng f) kind s0 ->
  run P s0 tr s ->
  Forall (safe_event wl rd allow_g (protected (f_params f) s0)
                     (fun c => exists d, env s0 (f_grng f) d /\ reach s0 d c)) tr.
Proof. exact checker_sound_reachable. Qed.
Print Assumptions C19_checker_sound_reachable.

Theorem C19_all_public_pure :
  forallb (fun e => negb (is_public e) || check_entry C19_policy gen_summaries e) generated_progs = true.
Proof. exact all_public_pure. Qed.
Print Assumptions C19_all_public_pure.

Theorem C19_public_functions_pure : forall e,
  In e generated_progs -> is_public e = true ->
  forall P kind s0 tr s,
    prims gen_summaries (f_body (e_fun e)) = Some P ->
    entry_ok (f_params (e_fun e)) (f_owned (e_fun e)) (f_ownref (e_fun e)) (f_grng (e_fun e)) kind s0 ->
    run P s0 tr s ->
    Forall (safe_event (fst (fst (C19_policy (e_name e)))) (snd (fst (C19_policy (e_name e))))
                       (snd (C19_policy (e_name e))) (region kind s0 0) (region kind s0 2)) tr.
Proof. exact public_functions_pure. Qed.
Print Assumptions C19_public_functions_pure.

Theorem C19_all_summaries_ok :
  forallb (fun e => summary_ok gen_summaries (e_hints_sum e) (e_reach e) (e_fun e) (e_sum e))
          generated_progs = true.
Proof. exact all_summaries_ok. Qed.
Print Assumptions C19_all_summaries_ok.

Theorem C19_seed_plumbed :
  forallb (fun e => negb (is_public e && draws gen_summaries (e_fun e))
                    || memn (e_name e) global_rng_users
                    || seed_plumbed gen_summaries (e_hints e) (e_fun e)) generated_progs = true.
Proof. exact all_seed_plumbed. Qed.
Print Assumptions C19_seed_plumbed.

Theorem C19_readonly_slots_never_written :
  forallb (fun g => negb (memn g (written_slots gen_summaries
                       (filter (fun e => negb (memn (e_name e) init_fnames)) generated_progs))))
          readonly_slots = true.
Proof. exact readonly_ok. Qed.
Print Assumptions C19_readonly_slots_never_written.

Theorem C19_api_translated :
  (forallb (fun n => existsb (fun e => Nat.eqb (e_name e) n) generated_progs) public_fnames = true
   /\ Nat.ltb 0 (List.length public_fnames) = true)
  /\ forallb (fun ie => Nat.eqb (e_name (snd ie)) (fst ie))
             (combine (seq 0 (List.length generated_progs)) generated_progs) = true
  /\ forallb (fun e => match prims gen_summaries (f_body (e_fun e)) with Some _ => true | None => false end)
             generated_progs = true.
Proof. exact (conj public_translated (conj names_unique all_expand)). Qed.
Print Assumptions C19_api_translated.

Theorem C19_schema_constants :
  TRAJECTORY_COLS = LLA_COLS ++ VEL_COLS ++ RPH_COLS /\
  TRAJECTORY_ERROR_COLS = NED_COLS ++ VEL_COLS ++ RPH_COLS /\
  TRAJECTORY_COLS = DOC_Trajectory /\
  GYRO_COLS ++ ACCEL_COLS = DOC_Imu /\
  LIT_Increments = DOC_Increments /\
  ("dt"%string :: THETA_COLS ++ DV_COLS) = DOC_Increments /\
  TRAJECTORY_ERROR_COLS = DOC_TrajectoryError /\
  LIT_BodyVelocity = ["VX"; "VY"; "VZ"]%string /\
  NoDup DOC_Trajectory /\ NoDup DOC_Imu /\ NoDup DOC_Increments /\ NoDup DOC_TrajectoryError /\
  NoDup (LLA_COLS ++ VEL_COLS ++ RPH_COLS ++ RATE_COLS ++ GYRO_COLS ++ ACCEL_COLS
         ++ THETA_COLS ++ DV_COLS ++ NED_COLS).
Proof. exact schema_constants. Qed.
Print Assumptions C19_schema_constants.

(** non-vacuity *)
Example C19_bad_program_rejected : forall h, check_fun [] [] false [] h bad_f = false.
Proof. exact bad_rejected. Qed.

Example C19_bad_program_has_unsafe_run :
  exists kind s0 tr s,
    entry_ok (f_params bad_f) (f_owned bad_f) (f_ownref bad_f) (f_grng bad_f) kind s0 /\
    run (f_body bad_f) s0 tr s /\
    ~ Forall (safe_event [] [] false (region kind s0 0) (region kind s0 2)) tr.
Proof. exact bad_run_unsafe. Qed.

Example C19_good_program_accepted : check_fun [] [] false [] good_h good_f = true.
Proof. exact good_accepted. Qed.

Example C19_global_generator_rejected :
  (forall h, check_fun [] [] false [] h bad_rng = false) /\
  (forall h, check_fun [] [] false [] h bad_global = false).
Proof. exact (conj bad_rng_rejected bad_global_rejected). Qed.

Example C19_some_public_function_draws :
  existsb (fun e => is_public e && draws gen_summaries (e_fun e)
                    && seed_plumbed gen_summaries (e_hints e) (e_fun e)) generated_progs = true.
Proof. exact some_public_draws. Qed.
