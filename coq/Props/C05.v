(** C05 -- error-state coordinates, correction and output transforms agree.
    Statements are about the definitions GENERATED from /repo (Gen/ErrState.v); the matrices Tout3, Tout2,
    T32, T23, Tint2, ... are index bookkeeping over generated entries (Proofs/ErrStateProofs.v, part B). *)
From Coq Require Import Reals Lra Lia.
From Coquelicot Require Import Coquelicot.
From PV Require Import Base.RealTac Spec.LibSpecs Gen.Util Gen.Transform Gen.ErrState.
From PV Require Import Proofs.ErrStateProofs.
Open Scope R_scope.

(** (a) explicit inverse: T_inv(pva) * T_out(pva) = I9 = T_out * T_inv whenever cos pitch <> 0 *)
Theorem C05_to_output_invertible :
  forall lat lon alt VN VE VD roll pitch heading : R,
       cos (pitch * (PI / 180)) <> 0 ->
       meq 9 9
         (mmul 9 (Tinv3 lat lon alt VN VE VD roll pitch heading)
            (Tout3 lat lon alt VN VE VD roll pitch heading)) I_ /\
       meq 9 9
         (mmul 9 (Tout3 lat lon alt VN VE VD roll pitch heading)
            (Tinv3 lat lon alt VN VE VD roll pitch heading)) I_.
Proof. exact to_output_invertible. Qed.
Print Assumptions C05_to_output_invertible.

(** transform_to_internal inverts exactly the 3D output transform (argument handed to np.linalg.inv), in both modes *)
Theorem C05_internal_arg_is_output :
  forall lat lon alt VN VE VD roll pitch heading : R,
       meq 9 9 (TintArg3 lat lon alt VN VE VD roll pitch heading)
         (Tout3 lat lon alt VN VE VD roll pitch heading) /\
       meq 9 9 (TintArg2 lat lon alt VN VE VD roll pitch heading)
         (Tout3 lat lon alt VN VE VD roll pitch heading).
Proof. exact internal_arg_is_output. Qed.
Print Assumptions C05_internal_arg_is_output.

(** transform_to_internal returns np.linalg.inv's result (3D) / its rows selected by TRANSFORM_2D_3D (2D) *)
Theorem C05_internal_of_inv :
  forall inv : mat, meq 9 9 (Tint3 inv) inv /\ meq 7 9 (Tint2 inv) (mmul 9 T23 inv).
Proof. exact internal_of_inv. Qed.
Print Assumptions C05_internal_of_inv.

(** any left inverse (np.linalg.inv by specification) is the explicit T_inv *)
Theorem C05_inverse_unique :
  forall (inv : mat) (lat lon alt VN VE VD roll pitch heading : R),
       cos (pitch * (PI / 180)) <> 0 ->
       meq 9 9 (mmul 9 inv (Tout3 lat lon alt VN VE VD roll pitch heading)) I_ ->
       meq 9 9 inv (Tinv3 lat lon alt VN VE VD roll pitch heading).
Proof. exact inverse_unique. Qed.
Print Assumptions C05_inverse_unique.

(** output-to-internal is a left inverse of internal-to-output (3D) *)
Theorem C05_left_inverse_3d :
  forall (inv : mat) (lat lon alt VN VE VD roll pitch heading : R),
       meq 9 9 (mmul 9 inv (Tout3 lat lon alt VN VE VD roll pitch heading)) I_ ->
       meq 9 9 (mmul 9 (Tint3 inv) (Tout3 lat lon alt VN VE VD roll pitch heading)) I_.
Proof. exact left_inverse_3d. Qed.
Print Assumptions C05_left_inverse_3d.

(** ... and in the no-altitude mode: (T23 inv) (T_out T32) = I7 *)
Theorem C05_left_inverse_2d :
  forall (inv : mat) (lat lon alt VN VE VD roll pitch heading : R),
       meq 9 9 (mmul 9 inv (Tout3 lat lon alt VN VE VD roll pitch heading)) I_ ->
       meq 7 7 (mmul 9 (Tint2 inv) (Tout2 lat lon alt VN VE VD roll pitch heading)) I_.
Proof. exact left_inverse_2d. Qed.
Print Assumptions C05_left_inverse_2d.

(** TRANSFORM_2D_3D * _transform_3d_2d(VN, VE) = I7 for every velocity *)
Theorem C05_t23_t32_identity :
  forall VN VE : R, meq 7 7 (mmul 9 T23 (T32 VN VE)) I_.
Proof. exact t23_t32_identity. Qed.
Print Assumptions C05_t23_t32_identity.

(** the 2D output transform is T_out3d * _transform_3d_2d *)
Theorem C05_out2d_is_product :
  forall lat lon alt VN VE VD roll pitch heading : R,
       meq 9 7 (Tout2 lat lon alt VN VE VD roll pitch heading)
         (mmul 9 (Tout3 lat lon alt VN VE VD roll pitch heading) (T32 VN VE)).
Proof. exact out2d_is_product. Qed.
Print Assumptions C05_out2d_is_product.

(** correct_pva(pva, 0) = pva (principal-range attitude) *)
Theorem C05_correct_zero_is_identity :
  forall lat lon alt VN VE VD roll pitch heading : R,
       -180 < roll < 180 ->
       -90 < pitch < 90 ->
       -180 < heading < 180 ->
       (correct3d_lat lat lon alt VN VE VD roll pitch heading 0 0 0 0 0 0 0 0 0 = lat /\
        correct3d_lon lat lon alt VN VE VD roll pitch heading 0 0 0 0 0 0 0 0 0 = lon /\
        correct3d_alt lat lon alt VN VE VD roll pitch heading 0 0 0 0 0 0 0 0 0 = alt /\
        correct3d_VN lat lon alt VN VE VD roll pitch heading 0 0 0 0 0 0 0 0 0 = VN /\
        correct3d_VE lat lon alt VN VE VD roll pitch heading 0 0 0 0 0 0 0 0 0 = VE /\
        correct3d_VD lat lon alt VN VE VD roll pitch heading 0 0 0 0 0 0 0 0 0 = VD /\
        correct3d_roll lat lon alt VN VE VD roll pitch heading 0 0 0 0 0 0 0 0 0 = roll /\
        correct3d_pitch lat lon alt VN VE VD roll pitch heading 0 0 0 0 0 0 0 0 0 = pitch /\
        correct3d_heading lat lon alt VN VE VD roll pitch heading 0 0 0 0 0 0 0 0 0 = heading) /\
       correct2d_lat lat lon alt VN VE VD roll pitch heading 0 0 0 0 0 0 0 = lat /\
       correct2d_lon lat lon alt VN VE VD roll pitch heading 0 0 0 0 0 0 0 = lon /\
       correct2d_alt lat lon alt VN VE VD roll pitch heading 0 0 0 0 0 0 0 = alt /\
       correct2d_VN lat lon alt VN VE VD roll pitch heading 0 0 0 0 0 0 0 = VN /\
       correct2d_VE lat lon alt VN VE VD roll pitch heading 0 0 0 0 0 0 0 = VE /\
       correct2d_VD lat lon alt VN VE VD roll pitch heading 0 0 0 0 0 0 0 = VD /\
       correct2d_roll lat lon alt VN VE VD roll pitch heading 0 0 0 0 0 0 0 = roll /\
       correct2d_pitch lat lon alt VN VE VD roll pitch heading 0 0 0 0 0 0 0 = pitch /\
       correct2d_heading lat lon alt VN VE VD roll pitch heading 0 0 0 0 0 0 0 = heading.
Proof. exact correct_zero_is_identity. Qed.
Print Assumptions C05_correct_zero_is_identity.

(** (b) d/de|0 compute_state_difference(pva, correct_pva(pva, e x)) = T_out(pva) x, all 9 components: correct_pva REMOVES the error x *)
Theorem C05_correct_is_linearised_by_T_3d :
  forall lat lon alt VN VE VD roll pitch heading x0 x1 x2 x3 x4 x5 x6 x7 x8 : R,
       -90 < lat < 90 ->
       -1000000 <= alt ->
       -180 < roll < 180 ->
       -90 < pitch < 90 ->
       -180 < heading < 180 ->
       let D :=
         fun d : R -> R -> R -> R -> R -> R -> R -> R -> R -> R -> R -> R -> R -> R -> R -> R -> R -> R -> R
         => diff_after_correct3 d lat lon alt VN VE VD roll pitch heading x0 x1 x2 x3 x4 x5 x6 x7 x8 in
       let Tx := mvec 9 (Tout3 lat lon alt VN VE VD roll pitch heading) (vec9 x0 x1 x2 x3 x4 x5 x6 x7 x8) in
       is_derive (D state_diff_north) 0 (Tx 0%nat) /\
       is_derive (D state_diff_east) 0 (Tx 1%nat) /\
       is_derive (D state_diff_down) 0 (Tx 2%nat) /\
       is_derive (D state_diff_VN) 0 (Tx 3%nat) /\
       is_derive (D state_diff_VE) 0 (Tx 4%nat) /\
       is_derive (D state_diff_VD) 0 (Tx 5%nat) /\
       is_derive (D state_diff_roll) 0 (Tx 6%nat) /\
       is_derive (D state_diff_pitch) 0 (Tx 7%nat) /\ is_derive (D state_diff_heading) 0 (Tx 8%nat).
Proof. exact correct_is_linearised_by_T_3d. Qed.
Print Assumptions C05_correct_is_linearised_by_T_3d.

(** (b) the same in the no-altitude mode (x has 7 components) *)
Theorem C05_correct_is_linearised_by_T_2d :
  forall lat lon alt VN VE VD roll pitch heading x0 x1 x2 x3 x4 x5 x6 : R,
       -90 < lat < 90 ->
       -1000000 <= alt ->
       -180 < roll < 180 ->
       -90 < pitch < 90 ->
       -180 < heading < 180 ->
       let D :=
         fun d : R -> R -> R -> R -> R -> R -> R -> R -> R -> R -> R -> R -> R -> R -> R -> R -> R -> R -> R
         => diff_after_correct2 d lat lon alt VN VE VD roll pitch heading x0 x1 x2 x3 x4 x5 x6 in
       let Tx := mvec 7 (Tout2 lat lon alt VN VE VD roll pitch heading) (vec7 x0 x1 x2 x3 x4 x5 x6) in
       is_derive (D state_diff_north) 0 (Tx 0%nat) /\
       is_derive (D state_diff_east) 0 (Tx 1%nat) /\
       is_derive (D state_diff_down) 0 (Tx 2%nat) /\
       is_derive (D state_diff_VN) 0 (Tx 3%nat) /\
       is_derive (D state_diff_VE) 0 (Tx 4%nat) /\
       is_derive (D state_diff_VD) 0 (Tx 5%nat) /\
       is_derive (D state_diff_roll) 0 (Tx 6%nat) /\
       is_derive (D state_diff_pitch) 0 (Tx 7%nat) /\ is_derive (D state_diff_heading) 0 (Tx 8%nat).
Proof. exact correct_is_linearised_by_T_2d. Qed.
Print Assumptions C05_correct_is_linearised_by_T_2d.

(** (d) in 2D the down and VD rows of T_out are literally zero and correct_pva never changes altitude / vertical velocity *)
Theorem C05_rows_2d_zero :
  forall lat lon alt VN VE VD roll pitch heading : R,
       (forall j : nat,
        (j < 7)%nat ->
        Tout2 lat lon alt VN VE VD roll pitch heading 2 j = 0 /\
        Tout2 lat lon alt VN VE VD roll pitch heading 5 j = 0) /\
       (forall x0 x1 x2 x3 x4 x5 x6 : R,
        correct2d_alt lat lon alt VN VE VD roll pitch heading x0 x1 x2 x3 x4 x5 x6 = alt /\
        correct2d_VD lat lon alt VN VE VD roll pitch heading x0 x1 x2 x3 x4 x5 x6 = VD).
Proof. exact rows_2d_zero. Qed.
Print Assumptions C05_rows_2d_zero.

(** (c) perturb with e = T_out y, then correct with y: the state is restored to first order *)
Theorem C05_perturb_then_correct_3d :
  forall lat lon alt VN VE VD roll pitch heading y0 y1 y2 y3 y4 y5 y6 y7 y8 : R,
       -90 < lat < 90 ->
       -1000000 <= alt ->
       -180 < roll < 180 ->
       -90 < pitch < 90 ->
       -180 < heading < 180 ->
       let RS :=
         fun d : R -> R -> R -> R -> R -> R -> R -> R -> R -> R -> R -> R -> R -> R -> R -> R -> R -> R -> R
         => restore3 d lat lon alt VN VE VD roll pitch heading y0 y1 y2 y3 y4 y5 y6 y7 y8 in
       is_derive (RS state_diff_north) 0 0 /\
       is_derive (RS state_diff_east) 0 0 /\
       is_derive (RS state_diff_down) 0 0 /\
       is_derive (RS state_diff_VN) 0 0 /\
       is_derive (RS state_diff_VE) 0 0 /\
       is_derive (RS state_diff_VD) 0 0 /\
       is_derive (RS state_diff_roll) 0 0 /\
       is_derive (RS state_diff_pitch) 0 0 /\ is_derive (RS state_diff_heading) 0 0.
Proof. exact perturb_then_correct_3d. Qed.
Print Assumptions C05_perturb_then_correct_3d.

(** (c) perturb with e = T_out y, then correct with y: the state is restored to first order *)
Theorem C05_perturb_then_correct_2d :
  forall lat lon alt VN VE VD roll pitch heading y0 y1 y2 y3 y4 y5 y6 : R,
       -90 < lat < 90 ->
       -1000000 <= alt ->
       -180 < roll < 180 ->
       -90 < pitch < 90 ->
       -180 < heading < 180 ->
       let RS :=
         fun d : R -> R -> R -> R -> R -> R -> R -> R -> R -> R -> R -> R -> R -> R -> R -> R -> R -> R -> R
         => restore2 d lat lon alt VN VE VD roll pitch heading y0 y1 y2 y3 y4 y5 y6 in
       is_derive (RS state_diff_north) 0 0 /\
       is_derive (RS state_diff_east) 0 0 /\
       is_derive (RS state_diff_down) 0 0 /\
       is_derive (RS state_diff_VN) 0 0 /\
       is_derive (RS state_diff_VE) 0 0 /\
       is_derive (RS state_diff_VD) 0 0 /\
       is_derive (RS state_diff_roll) 0 0 /\
       is_derive (RS state_diff_pitch) 0 0 /\ is_derive (RS state_diff_heading) 0 0.
Proof. exact perturb_then_correct_2d. Qed.
Print Assumptions C05_perturb_then_correct_2d.

(** (c) perturb with e = T_out y, then correct with y: the state is restored to first order *)
Theorem C05_perturb_then_correct_3d_any_error :
  forall lat lon alt VN VE VD roll pitch heading E0 E1 E2 E3 E4 E5 E6 E7 E8 : R,
       -90 < lat < 90 ->
       -1000000 <= alt ->
       -180 < roll < 180 ->
       -90 < pitch < 90 ->
       -180 < heading < 180 ->
       let RS :=
         fun d : R -> R -> R -> R -> R -> R -> R -> R -> R -> R -> R -> R -> R -> R -> R -> R -> R -> R -> R
         => restore3E d lat lon alt VN VE VD roll pitch heading E0 E1 E2 E3 E4 E5 E6 E7 E8 in
       is_derive (RS state_diff_north) 0 0 /\
       is_derive (RS state_diff_east) 0 0 /\
       is_derive (RS state_diff_down) 0 0 /\
       is_derive (RS state_diff_VN) 0 0 /\
       is_derive (RS state_diff_VE) 0 0 /\
       is_derive (RS state_diff_VD) 0 0 /\
       is_derive (RS state_diff_roll) 0 0 /\
       is_derive (RS state_diff_pitch) 0 0 /\ is_derive (RS state_diff_heading) 0 0.
Proof. exact perturb_then_correct_3d_any_error. Qed.
Print Assumptions C05_perturb_then_correct_3d_any_error.

(** (C18 clause) d/de|0 compute_state_difference(perturb_pva(pva, e E), pva) = E, all 9 components, every E and every attitude (the wrapped angle differences vanish at e = 0, so no attitude hypothesis is needed) *)
Theorem C05_state_diff_recovers_perturbation :
  forall lat lon alt VN VE VD roll pitch heading E0 E1 E2 E3 E4 E5 E6 E7 E8 : R,
       -90 < lat < 90 ->
       -1000000 <= alt ->
       let D :=
         fun d : R -> R -> R -> R -> R -> R -> R -> R -> R -> R -> R -> R -> R -> R -> R -> R -> R -> R -> R
         => diff_of_perturbed d lat lon alt VN VE VD roll pitch heading E0 E1 E2 E3 E4 E5 E6 E7 E8 in
       is_derive (D state_diff_north) 0 E0 /\
       is_derive (D state_diff_east) 0 E1 /\
       is_derive (D state_diff_down) 0 E2 /\
       is_derive (D state_diff_VN) 0 E3 /\
       is_derive (D state_diff_VE) 0 E4 /\
       is_derive (D state_diff_VD) 0 E5 /\
       is_derive (D state_diff_roll) 0 E6 /\
       is_derive (D state_diff_pitch) 0 E7 /\ is_derive (D state_diff_heading) 0 E8.
Proof. exact state_diff_recovers_perturbation. Qed.
Print Assumptions C05_state_diff_recovers_perturbation.

(** non-vacuity: the hypotheses are satisfiable on a concrete, non-trivial state *)
Example C05_domain_nonempty :
  -90 < 48 < 90 /\ -1000000 <= 350 /\ -180 < 12 < 180 /\ -90 < -8 < 90 /\ -180 < 130 < 180 /\
  cos (-8 * (PI / 180)) <> 0.
Proof. repeat split; try lra. apply Rgt_not_eq. apply cos_d2r_pos. lra. Qed.

(** ... and the primitive hypothesis of the left-inverse theorems is met by the explicit inverse *)
Example C05_inverse_exists :
  exists inv : mat, meq 9 9 (mmul 9 inv (Tout3 48 11 350 20 (-10) 2 12 (-8) 130)) I_.
Proof.
  exists (Tinv3 48 11 350 20 (-10) 2 12 (-8) 130).
  apply to_output_invertible. apply Rgt_not_eq. apply cos_d2r_pos. lra.
Qed.
