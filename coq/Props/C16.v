(** C16 — Earth model and geodetic transforms are one coherent ellipsoidal geometry.
    Statements are about the definitions GENERATED from /repo (Gen/*.v). *)
From Coq Require Import Reals.
From Coquelicot Require Import Coquelicot.
From PV Require Import Base.RealTac Spec.LibSpecs Spec.Ellipsoid.
From PV Require Import Gen.Earth Gen.Transform Gen.NumbaIntegrate Proofs.C16Proofs.
Open Scope R_scope.

(** lla_to_ecef(lat, lon, 0) lies on the WGS-84 ellipsoid x²/a² + y²/a² + z²/b² = 1. *)
Theorem C16_ecef_on_ellipsoid : forall lat lon,
  on_ellipsoid A_ E2_ (lla_to_ecef_r0 lat lon 0) (lla_to_ecef_r1 lat lon 0) (lla_to_ecef_r2 lat lon 0).
Proof. exact ecef_on_ellipsoid. Qed.
Print Assumptions C16_ecef_on_ellipsoid.

(** altitude is measured along the unit vector (cos lat cos lon, cos lat sin lon, sin lat) ... *)
Theorem C16_ecef_altitude : forall lat lon alt,
  lla_to_ecef_r0 lat lon alt = lla_to_ecef_r0 lat lon 0 + alt * up_x (lat * d2r) (lon * d2r) /\
  lla_to_ecef_r1 lat lon alt = lla_to_ecef_r1 lat lon 0 + alt * up_y (lat * d2r) (lon * d2r) /\
  lla_to_ecef_r2 lat lon alt = lla_to_ecef_r2 lat lon 0 + alt * up_z (lat * d2r) (lon * d2r).
Proof. exact ecef_altitude. Qed.
Print Assumptions C16_ecef_altitude.

(** ... which is the ellipsoid normal at the foot point (gradient of the level function). *)
Theorem C16_ecef_normal : forall lat lon,
  let phi := lat * d2r in let lam := lon * d2r in
  let x := lla_to_ecef_r0 lat lon 0 in let y := lla_to_ecef_r1 lat lon 0 in
  let z := lla_to_ecef_r2 lat lon 0 in
  let k := R_transverse A_ E2_ phi / (A_ * A_) in
  grad_x A_ x y z = k * up_x phi lam /\ grad_y A_ x y z = k * up_y phi lam /\
  grad_z A_ E2_ x y z = k * up_z phi lam.
Proof. exact ecef_normal. Qed.
Print Assumptions C16_ecef_normal.

(** principal_radii returns the meridian / prime-vertical radii (+ altitude) and the parallel radius. *)
Theorem C16_radii_are_principal : forall lat alt, -90 <= lat <= 90 ->
  let phi := lat * d2r in
  principal_radii_rn lat alt = R_meridian A_ E2_ phi + alt /\
  principal_radii_re lat alt = R_transverse A_ E2_ phi + alt /\
  principal_radii_rp lat alt = (R_transverse A_ E2_ phi + alt) * cos phi.
Proof. exact radii_are_principal. Qed.
Print Assumptions C16_radii_are_principal.

(** columns of mat_en_from_ll are the north, east and down unit vectors; orthonormal, right-handed. *)
Theorem C16_mat_en_columns : forall lat lon,
  let phi := lat * d2r in let lam := lon * d2r in
  (mat_en_from_ll_m00 lat lon = north_x phi lam /\ mat_en_from_ll_m10 lat lon = north_y phi lam /\
   mat_en_from_ll_m20 lat lon = north_z phi lam) /\
  (mat_en_from_ll_m01 lat lon = east_x phi lam /\ mat_en_from_ll_m11 lat lon = east_y phi lam /\
   mat_en_from_ll_m21 lat lon = east_z phi lam) /\
  (mat_en_from_ll_m02 lat lon = - up_x phi lam /\ mat_en_from_ll_m12 lat lon = - up_y phi lam /\
   mat_en_from_ll_m22 lat lon = - up_z phi lam).
Proof. exact mat_en_columns. Qed.
Print Assumptions C16_mat_en_columns.

Theorem C16_frame_orthonormal : forall phi lam,
  north_x phi lam * north_x phi lam + north_y phi lam * north_y phi lam + north_z phi lam * north_z phi lam = 1 /\
  east_x phi lam * east_x phi lam + east_y phi lam * east_y phi lam + east_z phi lam * east_z phi lam = 1 /\
  up_x phi lam * up_x phi lam + up_y phi lam * up_y phi lam + up_z phi lam * up_z phi lam = 1 /\
  north_x phi lam * east_x phi lam + north_y phi lam * east_y phi lam + north_z phi lam * east_z phi lam = 0 /\
  north_x phi lam * up_x phi lam + north_y phi lam * up_y phi lam + north_z phi lam * up_z phi lam = 0 /\
  east_x phi lam * up_x phi lam + east_y phi lam * up_y phi lam + east_z phi lam * up_z phi lam = 0.
Proof. exact frame_orthonormal. Qed.
Print Assumptions C16_frame_orthonormal.

Theorem C16_frame_right_handed : forall phi lam,
  north_y phi lam * east_z phi lam - north_z phi lam * east_y phi lam = - up_x phi lam /\
  north_z phi lam * east_x phi lam - north_x phi lam * east_z phi lam = - up_y phi lam /\
  north_x phi lam * east_y phi lam - north_y phi lam * east_x phi lam = - up_z phi lam.
Proof. exact frame_right_handed. Qed.
Print Assumptions C16_frame_right_handed.

Theorem C16_mat_en_array_form_equal : forall lat lon,
  mat_en_from_ll_arr_m00 lat lon = mat_en_from_ll_m00 lat lon /\
  mat_en_from_ll_arr_m01 lat lon = mat_en_from_ll_m01 lat lon /\
  mat_en_from_ll_arr_m02 lat lon = mat_en_from_ll_m02 lat lon /\
  mat_en_from_ll_arr_m10 lat lon = mat_en_from_ll_m10 lat lon /\
  mat_en_from_ll_arr_m11 lat lon = mat_en_from_ll_m11 lat lon /\
  mat_en_from_ll_arr_m12 lat lon = mat_en_from_ll_m12 lat lon /\
  mat_en_from_ll_arr_m20 lat lon = mat_en_from_ll_m20 lat lon /\
  mat_en_from_ll_arr_m21 lat lon = mat_en_from_ll_m21 lat lon /\
  mat_en_from_ll_arr_m22 lat lon = mat_en_from_ll_m22 lat lon.
Proof. exact mat_en_array_form_equal. Qed.
Print Assumptions C16_mat_en_array_form_equal.

(** partial derivatives of ECEF position: (pi/180)·radius × frame axis. *)
Theorem C16_ecef_partial_lat : forall lat lon alt, -90 <= lat <= 90 ->
  let phi := lat * d2r in let lam := lon * d2r in
  let k := d2r * principal_radii_rn lat alt in
  is_derive (fun t => lla_to_ecef_r0 t lon alt) lat (k * north_x phi lam) /\
  is_derive (fun t => lla_to_ecef_r1 t lon alt) lat (k * north_y phi lam) /\
  is_derive (fun t => lla_to_ecef_r2 t lon alt) lat (k * north_z phi lam).
Proof. exact ecef_partial_lat. Qed.
Print Assumptions C16_ecef_partial_lat.

Theorem C16_ecef_partial_lon : forall lat lon alt, -90 <= lat <= 90 ->
  let phi := lat * d2r in let lam := lon * d2r in
  let k := d2r * principal_radii_rp lat alt in
  is_derive (fun t => lla_to_ecef_r0 lat t alt) lon (k * east_x phi lam) /\
  is_derive (fun t => lla_to_ecef_r1 lat t alt) lon (k * east_y phi lam) /\
  is_derive (fun t => lla_to_ecef_r2 lat t alt) lon (k * east_z phi lam).
Proof. exact ecef_partial_lon. Qed.
Print Assumptions C16_ecef_partial_lon.

Theorem C16_ecef_partial_alt : forall lat lon alt,
  let phi := lat * d2r in let lam := lon * d2r in
  is_derive (fun t => lla_to_ecef_r0 lat lon t) alt (up_x phi lam) /\
  is_derive (fun t => lla_to_ecef_r1 lat lon t) alt (up_y phi lam) /\
  is_derive (fun t => lla_to_ecef_r2 lat lon t) alt (up_z phi lam).
Proof. exact ecef_partial_alt. Qed.
Print Assumptions C16_ecef_partial_alt.

(** metre perturbation followed by metre difference is the identity to first order. *)
Theorem C16_perturb_diff_first_order : forall lat lon alt, -90 < lat < 90 -> -1000000 <= alt ->
  is_derive (fun d => compute_lla_difference_d0 (perturb_lla_lat lat lon alt d 0 0)
                        (perturb_lla_lon lat lon alt d 0 0) (perturb_lla_alt lat lon alt d 0 0)
                        lat lon alt) 0 1 /\
  is_derive (fun d => compute_lla_difference_d1 (perturb_lla_lat lat lon alt 0 d 0)
                        (perturb_lla_lon lat lon alt 0 d 0) (perturb_lla_alt lat lon alt 0 d 0)
                        lat lon alt) 0 1 /\
  is_derive (fun d => compute_lla_difference_d2 (perturb_lla_lat lat lon alt 0 0 d)
                        (perturb_lla_lon lat lon alt 0 0 d) (perturb_lla_alt lat lon alt 0 0 d)
                        lat lon alt) 0 1.
Proof. exact perturb_diff_first_order. Qed.
Print Assumptions C16_perturb_diff_first_order.

(** gravity: the compiled copy, the magnitude, the NED vector and the ECEF gravitation agree. *)
Theorem C16_gravity_copies_equal : forall lat alt, nb_gravity_g lat alt = gravity_g lat alt.
Proof. exact gravity_copies_equal. Qed.
Print Assumptions C16_gravity_copies_equal.

Theorem C16_gravity_n_is_down : forall lat alt,
  gravity_n_g0 lat alt = 0 /\ gravity_n_g1 lat alt = 0 /\ gravity_n_g2 lat alt = gravity_g lat alt.
Proof. exact gravity_n_is_down. Qed.
Print Assumptions C16_gravity_n_is_down.

Theorem C16_gravitation_is_gravity_minus_centrifugal : forall lat lon alt, -90 <= lat <= 90 ->
  let x := lla_to_ecef_r0 lat lon alt in let y := lla_to_ecef_r1 lat lon alt in
  let z := lla_to_ecef_r2 lat lon alt in
  gravitation_ecef_g0 lat lon alt =
    mat_en_from_ll_m02 lat lon * gravity_g lat alt - centrifugal_x RATE_ x y z /\
  gravitation_ecef_g1 lat lon alt =
    mat_en_from_ll_m12 lat lon * gravity_g lat alt - centrifugal_y RATE_ x y z /\
  gravitation_ecef_g2 lat lon alt =
    mat_en_from_ll_m22 lat lon * gravity_g lat alt - centrifugal_z RATE_ x y z.
Proof. exact gravitation_is_gravity_minus_centrifugal. Qed.
Print Assumptions C16_gravitation_is_gravity_minus_centrifugal.

Theorem C16_gravity_even : forall lat alt, gravity_g (- lat) alt = gravity_g lat alt.
Proof. exact gravity_even. Qed.
Print Assumptions C16_gravity_even.

Theorem C16_gravity_positive : forall lat alt, alt < 3000000 -> 0 < gravity_g lat alt.
Proof. exact gravity_positive. Qed.
Print Assumptions C16_gravity_positive.

Theorem C16_rate_n_parity : forall lat,
  rate_n_w0 (- lat) = rate_n_w0 lat /\ rate_n_w1 (- lat) = 0 /\ rate_n_w2 (- lat) = - rate_n_w2 lat.
Proof. exact rate_n_parity. Qed.
Print Assumptions C16_rate_n_parity.

Theorem C16_rate_n_is_axis_in_ned : forall lat lon,
  rate_n_w0 lat = mat_en_from_ll_m20 lat lon * RATE_ /\
  rate_n_w1 lat = mat_en_from_ll_m21 lat lon * RATE_ /\
  rate_n_w2 lat = mat_en_from_ll_m22 lat lon * RATE_.
Proof. exact rate_n_is_axis_in_ned. Qed.
Print Assumptions C16_rate_n_is_axis_in_ned.

Theorem C16_ecef_parity : forall lat lon alt,
  lla_to_ecef_r0 (- lat) lon alt = lla_to_ecef_r0 lat lon alt /\
  lla_to_ecef_r1 (- lat) lon alt = lla_to_ecef_r1 lat lon alt /\
  lla_to_ecef_r2 (- lat) lon alt = - lla_to_ecef_r2 lat lon alt.
Proof. exact ecef_parity. Qed.
Print Assumptions C16_ecef_parity.

(** ---- extension: statements formerly checked numerically only (Proofs/C16ExtProofs.v) ---- *)
From PV Require Import Proofs.C16ExtProofs.

(** local NED coordinates of the metre-perturbed point, relative to the unperturbed one: the Jacobian
    with respect to the (north, east, down) displacement at 0 is the identity. *)
Theorem C16_lla_to_ned_first_order : forall lat lon alt, -90 < lat < 90 -> -6000000 < alt ->
  let ned0 d0 d1 d2 := lla_to_ned_n0 (perturb_lla_lat lat lon alt d0 d1 d2) (perturb_lla_lon lat lon alt d0 d1 d2)
                         (perturb_lla_alt lat lon alt d0 d1 d2) lat lon alt in
  let ned1 d0 d1 d2 := lla_to_ned_n1 (perturb_lla_lat lat lon alt d0 d1 d2) (perturb_lla_lon lat lon alt d0 d1 d2)
                         (perturb_lla_alt lat lon alt d0 d1 d2) lat lon alt in
  let ned2 d0 d1 d2 := lla_to_ned_n2 (perturb_lla_lat lat lon alt d0 d1 d2) (perturb_lla_lon lat lon alt d0 d1 d2)
                         (perturb_lla_alt lat lon alt d0 d1 d2) lat lon alt in
  (is_derive (fun d => ned0 d 0 0) 0 1 /\ is_derive (fun d => ned1 d 0 0) 0 0 /\ is_derive (fun d => ned2 d 0 0) 0 0) /\
  (is_derive (fun d => ned0 0 d 0) 0 0 /\ is_derive (fun d => ned1 0 d 0) 0 1 /\ is_derive (fun d => ned2 0 d 0) 0 0) /\
  (is_derive (fun d => ned0 0 0 d) 0 0 /\ is_derive (fun d => ned1 0 0 d) 0 0 /\ is_derive (fun d => ned2 0 0 d) 0 1).
Proof. exact lla_to_ned_first_order. Qed.
Print Assumptions C16_lla_to_ned_first_order.

(** curvature matrix = rotation of the NED frame under displacement.  C(s) := mat_en_from_ll at
    perturb_lla(lla, s·e) for ANY direction e = (e0,e1,e2) in NED metres (north: e = (1,0,0), east: (0,1,0),
    down: (0,0,1) gives no rotation).  rel r c s = (row r of C(0)^T) · (column c of C(s)), so the nine
    derivatives below are the entries of d/ds [C(0)^T C(s)] at s = 0, and the right-hand sides are the
    entries of the skew matrix [(F e) x] = [[0,-w2,w1],[w2,0,-w0],[-w1,w0,0]], w = F e, with
    F = curvature_matrix.  (Convention confirmed on the code: tools/props/C16.py, dm[2,1], dm[0,2], dm[1,0].) *)
Theorem C16_curvature_is_frame_rotation : forall lat lon alt e0 e1 e2, -90 < lat < 90 -> -6000000 < alt ->
  let lat' s := perturb_lla_lat lat lon alt (s * e0) (s * e1) (s * e2) in
  let lon' s := perturb_lla_lon lat lon alt (s * e0) (s * e1) (s * e2) in
  let rel (r0 r1 r2 : R) (c0 c1 c2 : R -> R -> R) :=
    fun s => r0 * c0 (lat' s) (lon' s) + r1 * c1 (lat' s) (lon' s) + r2 * c2 (lat' s) (lon' s) in
  let w0 := curvature_matrix_F00 lat alt * e0 + curvature_matrix_F01 lat alt * e1 + curvature_matrix_F02 lat alt * e2 in
  let w1 := curvature_matrix_F10 lat alt * e0 + curvature_matrix_F11 lat alt * e1 + curvature_matrix_F12 lat alt * e2 in
  let w2 := curvature_matrix_F20 lat alt * e0 + curvature_matrix_F21 lat alt * e1 + curvature_matrix_F22 lat alt * e2 in
  let n0 := mat_en_from_ll_m00 lat lon in let n1 := mat_en_from_ll_m10 lat lon in let n2 := mat_en_from_ll_m20 lat lon in
  let a0 := mat_en_from_ll_m01 lat lon in let a1 := mat_en_from_ll_m11 lat lon in let a2 := mat_en_from_ll_m21 lat lon in
  let d0 := mat_en_from_ll_m02 lat lon in let d1 := mat_en_from_ll_m12 lat lon in let d2 := mat_en_from_ll_m22 lat lon in
  (is_derive (rel n0 n1 n2 mat_en_from_ll_m00 mat_en_from_ll_m10 mat_en_from_ll_m20) 0 0 /\
   is_derive (rel n0 n1 n2 mat_en_from_ll_m01 mat_en_from_ll_m11 mat_en_from_ll_m21) 0 (- w2) /\
   is_derive (rel n0 n1 n2 mat_en_from_ll_m02 mat_en_from_ll_m12 mat_en_from_ll_m22) 0 w1) /\
  (is_derive (rel a0 a1 a2 mat_en_from_ll_m00 mat_en_from_ll_m10 mat_en_from_ll_m20) 0 w2 /\
   is_derive (rel a0 a1 a2 mat_en_from_ll_m01 mat_en_from_ll_m11 mat_en_from_ll_m21) 0 0 /\
   is_derive (rel a0 a1 a2 mat_en_from_ll_m02 mat_en_from_ll_m12 mat_en_from_ll_m22) 0 (- w0)) /\
  (is_derive (rel d0 d1 d2 mat_en_from_ll_m00 mat_en_from_ll_m10 mat_en_from_ll_m20) 0 (- w1) /\
   is_derive (rel d0 d1 d2 mat_en_from_ll_m01 mat_en_from_ll_m11 mat_en_from_ll_m21) 0 w0 /\
   is_derive (rel d0 d1 d2 mat_en_from_ll_m02 mat_en_from_ll_m12 mat_en_from_ll_m22) 0 0).
Proof. intros lat lon alt e0 e1 e2. exact (curvature_is_frame_rotation lat lon alt e0 e1 e2). Qed.
Print Assumptions C16_curvature_is_frame_rotation.

(** the generated curvature matrix in terms of the generated principal radii:
    F = [[0, 1/Re, 0], [-1/Rn, 0, 0], [0, -tan(lat)/Re, 0]]  (Rp = Re cos lat). *)
Theorem C16_curvature_entries : forall lat alt, -90 < lat < 90 ->
  curvature_matrix_F00 lat alt = 0 /\ curvature_matrix_F01 lat alt = / principal_radii_re lat alt /\
  curvature_matrix_F02 lat alt = 0 /\
  curvature_matrix_F10 lat alt = - / principal_radii_rn lat alt /\ curvature_matrix_F11 lat alt = 0 /\
  curvature_matrix_F12 lat alt = 0 /\
  curvature_matrix_F20 lat alt = 0 /\
  curvature_matrix_F21 lat alt = - (sin (lat * d2r) / principal_radii_rp lat alt) /\
  curvature_matrix_F22 lat alt = 0.
Proof. exact curvature_entries. Qed.
Print Assumptions C16_curvature_entries.

(** ecef_to_lla (Olson).  Generated intermediates: ecef_to_lla__4 = c2 = w²/r² (branch selector, > 0.3:
    arcsin branch), ecef_to_lla__10 = the series guess of sin|lat| (arcsin branch), ecef_to_lla__24 = the
    series guess of cos lat (arccos branch), __19/__33 = m (tangential residual), __20/__34 = p = m/(Rn+f)
    (the latitude correction).
    Structural statement: the last step is a Newton step whose fixed point is the exact answer — if the
    guess is exact at the image (x,y,z) of a geodetic triple, the residual is purely along the normal,
    m = p = 0, and ecef_to_lla returns exactly that triple (all four generated paths, z < 0 mirrored).
    NOT proved: that the series guess is accurate for a general point (Olson's error analysis), hence the
    quantitative round-trip error off the equator/axis — that part stays a numerical check. *)
Theorem C16_olson_newton_step : forall lat lon alt,
  -90 < lat < 90 -> -180 < lon <= 180 -> -6000000 < alt ->
  let x := lla_to_ecef_r0 lat lon alt in let y := lla_to_ecef_r1 lat lon alt in
  let z := lla_to_ecef_r2 lat lon alt in
  (ecef_to_lla__4 x y z > 3 / 10 -> ecef_to_lla__10 x y z = sin (Rabs lat * d2r)) ->
  (~ ecef_to_lla__4 x y z > 3 / 10 -> ecef_to_lla__24 x y z = cos (lat * d2r)) ->
  ((ecef_to_lla__4 x y z > 3 / 10 -> ecef_to_lla__19 x y z = 0 /\ ecef_to_lla__20 x y z = 0) /\
   (~ ecef_to_lla__4 x y z > 3 / 10 -> ecef_to_lla__33 x y z = 0 /\ ecef_to_lla__34 x y z = 0)) /\
  ecef_to_lla_lat x y z = lat /\ ecef_to_lla_lon x y z = lon /\ ecef_to_lla_alt x y z = alt.
Proof. exact olson_newton_step. Qed.
Print Assumptions C16_olson_newton_step.

(** The final step read against Spec/Ellipsoid.v, for ANY point and ANY guess latitude phi (no exactness
    assumed): (u,v) is the residual of the forward map (altitude 0) at the guess in the meridian plane, f / m
    its normal / tangential components, the latitude correction is the Newton step p = m / (R_meridian(phi) + f)
    — the Jacobian of the forward map along the meridian is (R_meridian + h)·tangent, C16_ecef_partial_lat —
    and the altitude is f + m p / 2.  First the arcsin branch (guess of the sine), then the arccos branch. *)
Theorem C16_olson_step_is_newton : forall x y z phi,
  let u := ecef_to_lla__0 x y - R_transverse A_ E2_ phi * cos phi in
  let v := Rabs z - (1 - E2_) * R_transverse A_ E2_ phi * sin phi in
  let f := cos phi * u + sin phi * v in
  let m := cos phi * v - sin phi * u in
  let p := m / (R_meridian A_ E2_ phi + f) in
  (0 <= cos phi -> ecef_to_lla__10 x y z = sin phi ->
   ecef_to_lla__18 x y z = f /\ ecef_to_lla__19 x y z = m /\ ecef_to_lla__20 x y z = p /\
   ecef_to_lla__21 x y z = asin (sin phi) + p /\ ecef_to_lla__23 x y z = f + 1 / 2 * m * p) /\
  (0 <= sin phi -> ecef_to_lla__24 x y z = cos phi ->
   ecef_to_lla__32 x y z = f /\ ecef_to_lla__33 x y z = m /\ ecef_to_lla__34 x y z = p /\
   ecef_to_lla__35 x y z = acos (cos phi) + p /\ ecef_to_lla__36 x y z = f + 1 / 2 * m * p).
Proof.
  intros x y z phi. split; [exact (olson_step_is_newton_sin x y z phi)|exact (olson_step_is_newton_cos x y z phi)].
Qed.
Print Assumptions C16_olson_step_is_newton.

(** non-vacuity: on the equator the guess hypotheses of C16_olson_newton_step hold (guess = 0 = sin 0). *)
Example C16_olson_newton_step_nonvacuous :
  let x := lla_to_ecef_r0 0 30 100 in let y := lla_to_ecef_r1 0 30 100 in
  let z := lla_to_ecef_r2 0 30 100 in
  (ecef_to_lla__4 x y z > 3 / 10 -> ecef_to_lla__10 x y z = sin (Rabs 0 * d2r)) /\
  (~ ecef_to_lla__4 x y z > 3 / 10 -> ecef_to_lla__24 x y z = cos (0 * d2r)).
Proof.
  exact (olson_guess_exact_on_equator 30 100 (proj1 (proj2 ext_domain_instance))
           (proj2 (proj2 (proj2 ext_domain_instance)))).
Qed.
Print Assumptions C16_olson_newton_step_nonvacuous.

(** longitude: every path returns arctan2(y, x) in degrees; round trip for every point off the axis. *)
Theorem C16_ecef_to_lla_lon_is_atan2 : forall x y z, ecef_to_lla_lon x y z = atan2 y x * r2d.
Proof. exact ecef_to_lla_lon_is_atan2. Qed.
Print Assumptions C16_ecef_to_lla_lon_is_atan2.

Theorem C16_lon_round_trip : forall lat lon alt z',
  -90 < lat < 90 -> -180 < lon <= 180 -> -6000000 < alt ->
  ecef_to_lla_lon (lla_to_ecef_r0 lat lon alt) (lla_to_ecef_r1 lat lon alt) z' = lon.
Proof. exact lon_round_trip. Qed.
Print Assumptions C16_lon_round_trip.

(** exact inverse on the equatorial plane (every point off the axis) ... *)
Theorem C16_ecef_to_lla_equatorial_plane : forall x y, 0 < x * x + y * y ->
  ecef_to_lla_lat x y 0 = 0 /\ ecef_to_lla_lon x y 0 = atan2 y x * r2d /\
  ecef_to_lla_alt x y 0 = sqrt (x * x + y * y) - A_.
Proof. exact ecef_to_lla_equatorial_plane. Qed.
Print Assumptions C16_ecef_to_lla_equatorial_plane.

Theorem C16_equator_round_trip : forall lon alt, -180 < lon <= 180 -> - A_ < alt ->
  let x := lla_to_ecef_r0 0 lon alt in let y := lla_to_ecef_r1 0 lon alt in
  let z := lla_to_ecef_r2 0 lon alt in
  ecef_to_lla_lat x y z = 0 /\ ecef_to_lla_lon x y z = lon /\ ecef_to_lla_alt x y z = alt.
Proof. exact equator_round_trip. Qed.
Print Assumptions C16_equator_round_trip.

(** ... and on the polar axis: latitude ±90, altitude |z| - b (b = semi-minor axis), longitude reported as 0. *)
Theorem C16_ecef_to_lla_polar_axis : forall z, z <> 0 ->
  ecef_to_lla_lat 0 0 z = (if Rlt_dec z 0 then -90 else 90) /\ ecef_to_lla_lon 0 0 z = 0 /\
  ecef_to_lla_alt 0 0 z = Rabs z - sqrt (b2 A_ E2_).
Proof. exact ecef_to_lla_polar_axis. Qed.
Print Assumptions C16_ecef_to_lla_polar_axis.

Theorem C16_pole_round_trip : forall lon alt, -6000000 < alt ->
  (let x := lla_to_ecef_r0 90 lon alt in let y := lla_to_ecef_r1 90 lon alt in
   let z := lla_to_ecef_r2 90 lon alt in
   ecef_to_lla_lat x y z = 90 /\ ecef_to_lla_alt x y z = alt) /\
  (let x := lla_to_ecef_r0 (-90) lon alt in let y := lla_to_ecef_r1 (-90) lon alt in
   let z := lla_to_ecef_r2 (-90) lon alt in
   ecef_to_lla_lat x y z = -90 /\ ecef_to_lla_alt x y z = alt).
Proof. exact pole_round_trip. Qed.
Print Assumptions C16_pole_round_trip.

(** non-vacuity of the domain hypotheses used above (lat 45, lon 30, alt 100; the point (3,4,0); z = 7). *)
Example C16_ext_domain_nonvacuous : -90 < 45 < 90 /\ -180 < 30 <= 180 /\ -6000000 < 100 /\ - A_ < 100.
Proof. exact ext_domain_instance. Qed.
Example C16_ext_plane_nonvacuous : 0 < 3 * 3 + 4 * 4 /\ (7 : R) <> 0.
Proof. exact ext_plane_instance. Qed.
