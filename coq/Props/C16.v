(** C16 — Earth model and geodetic transforms are one coherent ellipsoidal geometry.
    Statements are about the definitions GENERATED from /repo (Gen/*.v). *)
From Coq Require Import Reals.
From Coquelicot Require Import Coquelicot.
From PV Require Import Base.RealTac Spec.LibSpecs Spec.Ellipsoid.
From PV Require Import Gen.Earth Gen.Transform Gen.NumbaIntegrate Proofs.C16Proofs.
Open Scope R_scope.

(** lla_to_ecef(lat, lon, 0) lies on the WGS-84 ellipsoid x²/a² + y²/a² + z²/b² = 1. *)
Theorem C16_ecef_on_ellipsoid : forall lat lon,
  on_ellipsoid A_ E2_ (lla_to_ecef_r0 lat lon 0) (lla_to_ecef_r1 lat lon 0) (lla_to_ecef_r2 lat lon 0).
Proof. exact ecef_on_ellipsoid. Qed.
Print Assumptions C16_ecef_on_ellipsoid.

(** altitude is measured along the unit vector (cos lat cos lon, cos lat sin lon, sin lat) ... *)
Theorem C16_ecef_altitude : forall lat lon alt,
  lla_to_ecef_r0 lat lon alt = lla_to_ecef_r0 lat lon 0 + alt * up_x (lat * d2r) (lon * d2r) /\
  lla_to_ecef_r1 lat lon alt = lla_to_ecef_r1 lat lon 0 + alt * up_y (lat * d2r) (lon * d2r) /\
  lla_to_ecef_r2 lat lon alt = lla_to_ecef_r2 lat lon 0 + alt * up_z (lat * d2r) (lon * d2r).
Proof. exact ecef_altitude. Qed.
Print Assumptions C16_ecef_altitude.

(** ... which is the ellipsoid normal at the foot point (gradient of the level function). *)
Theorem C16_ecef_normal : forall lat lon,
  let phi := lat * d2r in let lam := lon * d2r in
  let x := lla_to_ecef_r0 lat lon 0 in let y := lla_to_ecef_r1 lat lon 0 in
  let z := lla_to_ecef_r2 lat lon 0 in
  let k := R_transverse A_ E2_ phi / (A_ * A_) in
  grad_x A_ x y z = k * up_x phi lam /\ grad_y A_ x y z = k * up_y phi lam /\
  grad_z A_ E2_ x y z = k * up_z phi lam.
Proof. exact ecef_normal. Qed.
Print Assumptions C16_ecef_normal.

(** principal_radii returns the meridian / prime-vertical radii (+ altitude) and the parallel radius. *)
Theorem C16_radii_are_principal : forall lat alt, -90 <= lat <= 90 ->
  let phi := lat * d2r in
  principal_radii_rn lat alt = R_meridian A_ E2_ phi + alt /\
  principal_radii_re lat alt = R_transverse A_ E2_ phi + alt /\
  principal_radii_rp lat alt = (R_transverse A_ E2_ phi + alt) * cos phi.
Proof. exact radii_are_principal. Qed.
Print Assumptions C16_radii_are_principal.

(** columns of mat_en_from_ll are the north, east and down unit vectors; orthonormal, right-handed. *)
Theorem C16_mat_en_columns : forall lat lon,
  let phi := lat * d2r in let lam := lon * d2r in
  (mat_en_from_ll_m00 lat lon = north_x phi lam /\ mat_en_from_ll_m10 lat lon = north_y phi lam /\
   mat_en_from_ll_m20 lat lon = north_z phi lam) /\
  (mat_en_from_ll_m01 lat lon = east_x phi lam /\ mat_en_from_ll_m11 lat lon = east_y phi lam /\
   mat_en_from_ll_m21 lat lon = east_z phi lam) /\
  (mat_en_from_ll_m02 lat lon = - up_x phi lam /\ mat_en_from_ll_m12 lat lon = - up_y phi lam /\
   mat_en_from_ll_m22 lat lon = - up_z phi lam).
Proof. exact mat_en_columns. Qed.
Print Assumptions C16_mat_en_columns.

Theorem C16_frame_orthonormal : forall phi lam,
  north_x phi lam * north_x phi lam + north_y phi lam * north_y phi lam + north_z phi lam * north_z phi lam = 1 /\
  east_x phi lam * east_x phi lam + east_y phi lam * east_y phi lam + east_z phi lam * east_z phi lam = 1 /\
  up_x phi lam * up_x phi lam + up_y phi lam * up_y phi lam + up_z phi lam * up_z phi lam = 1 /\
  north_x phi lam * east_x phi lam + north_y phi lam * east_y phi lam + north_z phi lam * east_z phi lam = 0 /\
  north_x phi lam * up_x phi lam + north_y phi lam * up_y phi lam + north_z phi lam * up_z phi lam = 0 /\
  east_x phi lam * up_x phi lam + east_y phi lam * up_y phi lam + east_z phi lam * up_z phi lam = 0.
Proof. exact frame_orthonormal. Qed.
Print Assumptions C16_frame_orthonormal.

Theorem C16_frame_right_handed : forall phi lam,
  north_y phi lam * east_z phi lam - north_z phi lam * east_y phi lam = - up_x phi lam /\
  north_z phi lam * east_x phi lam - north_x phi lam * east_z phi lam = - up_y phi lam /\
  north_x phi lam * east_y phi lam - north_y phi lam * east_x phi lam = - up_z phi lam.
Proof. exact frame_right_handed. Qed.
Print Assumptions C16_frame_right_handed.

Theorem C16_mat_en_array_form_equal : forall lat lon,
  mat_en_from_ll_arr_m00 lat lon = mat_en_from_ll_m00 lat lon /\
  mat_en_from_ll_arr_m01 lat lon = mat_en_from_ll_m01 lat lon /\
  mat_en_from_ll_arr_m02 lat lon = mat_en_from_ll_m02 lat lon /\
  mat_en_from_ll_arr_m10 lat lon = mat_en_from_ll_m10 lat lon /\
  mat_en_from_ll_arr_m11 lat lon = mat_en_from_ll_m11 lat lon /\
  mat_en_from_ll_arr_m12 lat lon = mat_en_from_ll_m12 lat lon /\
  mat_en_from_ll_arr_m20 lat lon = mat_en_from_ll_m20 lat lon /\
  mat_en_from_ll_arr_m21 lat lon = mat_en_from_ll_m21 lat lon /\
  mat_en_from_ll_arr_m22 lat lon = mat_en_from_ll_m22 lat lon.
Proof. exact mat_en_array_form_equal. Qed.
Print Assumptions C16_mat_en_array_form_equal.

(** partial derivatives of ECEF position: (pi/180)·radius × frame axis. *)
Theorem C16_ecef_partial_lat : forall lat lon alt, -90 <= lat <= 90 ->
  let phi := lat * d2r in let lam := lon * d2r in
  let k := d2r * principal_radii_rn lat alt in
  is_derive (fun t => lla_to_ecef_r0 t lon alt) lat (k * north_x phi lam) /\
  is_derive (fun t => lla_to_ecef_r1 t lon alt) lat (k * north_y phi lam) /\
  is_derive (fun t => lla_to_ecef_r2 t lon alt) lat (k * north_z phi lam).
Proof. exact ecef_partial_lat. Qed.
Print Assumptions C16_ecef_partial_lat.

Theorem C16_ecef_partial_lon : forall lat lon alt, -90 <= lat <= 90 ->
  let phi := lat * d2r in let lam := lon * d2r in
  let k := d2r * principal_radii_rp lat alt in
  is_derive (fun t => lla_to_ecef_r0 lat t alt) lon (k * east_x phi lam) /\
  is_derive (fun t => lla_to_ecef_r1 lat t alt) lon (k * east_y phi lam) /\
  is_derive (fun t => lla_to_ecef_r2 lat t alt) lon (k * east_z phi lam).
Proof. exact ecef_partial_lon. Qed.
Print Assumptions C16_ecef_partial_lon.

Theorem C16_ecef_partial_alt : forall lat lon alt,
  let phi := lat * d2r in let lam := lon * d2r in
  is_derive (fun t => lla_to_ecef_r0 lat lon t) alt (up_x phi lam) /\
  is_derive (fun t => lla_to_ecef_r1 lat lon t) alt (up_y phi lam) /\
  is_derive (fun t => lla_to_ecef_r2 lat lon t) alt (up_z phi lam).
Proof. exact ecef_partial_alt. Qed.
Print Assumptions C16_ecef_partial_alt.

(** metre perturbation followed by metre difference is the identity to first order. *)
Theorem C16_perturb_diff_first_order : forall lat lon alt, -90 < lat < 90 -> -1000000 <= alt ->
  is_derive (fun d => compute_lla_difference_d0 (perturb_lla_lat lat lon alt d 0 0)
                        (perturb_lla_lon lat lon alt d 0 0) (perturb_lla_alt lat lon alt d 0 0)
                        lat lon alt) 0 1 /\
  is_derive (fun d => compute_lla_difference_d1 (perturb_lla_lat lat lon alt 0 d 0)
                        (perturb_lla_lon lat lon alt 0 d 0) (perturb_lla_alt lat lon alt 0 d 0)
                        lat lon alt) 0 1 /\
  is_derive (fun d => compute_lla_difference_d2 (perturb_lla_lat lat lon alt 0 0 d)
                        (perturb_lla_lon lat lon alt 0 0 d) (perturb_lla_alt lat lon alt 0 0 d)
                        lat lon alt) 0 1.
Proof. exact perturb_diff_first_order. Qed.
Print Assumptions C16_perturb_diff_first_order.

(** gravity: the compiled copy, the magnitude, the NED vector and the ECEF gravitation agree. *)
Theorem C16_gravity_copies_equal : forall lat alt, nb_gravity_g lat alt = gravity_g lat alt.
Proof. exact gravity_copies_equal. Qed.
Print Assumptions C16_gravity_copies_equal.

Theorem C16_gravity_n_is_down : forall lat alt,
  gravity_n_g0 lat alt = 0 /\ gravity_n_g1 lat alt = 0 /\ gravity_n_g2 lat alt = gravity_g lat alt.
Proof. exact gravity_n_is_down. Qed.
Print Assumptions C16_gravity_n_is_down.

Theorem C16_gravitation_is_gravity_minus_centrifugal : forall lat lon alt, -90 <= lat <= 90 ->
  let x := lla_to_ecef_r0 lat lon alt in let y := lla_to_ecef_r1 lat lon alt in
  let z := lla_to_ecef_r2 lat lon alt in
  gravitation_ecef_g0 lat lon alt =
    mat_en_from_ll_m02 lat lon * gravity_g lat alt - centrifugal_x RATE_ x y z /\
  gravitation_ecef_g1 lat lon alt =
    mat_en_from_ll_m12 lat lon * gravity_g lat alt - centrifugal_y RATE_ x y z /\
  gravitation_ecef_g2 lat lon alt =
    mat_en_from_ll_m22 lat lon * gravity_g lat alt - centrifugal_z RATE_ x y z.
Proof. exact gravitation_is_gravity_minus_centrifugal. Qed.
Print Assumptions C16_gravitation_is_gravity_minus_centrifugal.

Theorem C16_gravity_even : forall lat alt, gravity_g (- lat) alt = gravity_g lat alt.
Proof. exact gravity_even. Qed.
Print Assumptions C16_gravity_even.

Theorem C16_gravity_positive : forall lat alt, alt < 3000000 -> 0 < gravity_g lat alt.
Proof. exact gravity_positive. Qed.
Print Assumptions C16_gravity_positive.

Theorem C16_rate_n_parity : forall lat,
  rate_n_w0 (- lat) = rate_n_w0 lat /\ rate_n_w1 (- lat) = 0 /\ rate_n_w2 (- lat) = - rate_n_w2 lat.
Proof. exact rate_n_parity. Qed.
Print Assumptions C16_rate_n_parity.

Theorem C16_rate_n_is_axis_in_ned : forall lat lon,
  rate_n_w0 lat = mat_en_from_ll_m20 lat lon * RATE_ /\
  rate_n_w1 lat = mat_en_from_ll_m21 lat lon * RATE_ /\
  rate_n_w2 lat = mat_en_from_ll_m22 lat lon * RATE_.
Proof. exact rate_n_is_axis_in_ned. Qed.
Print Assumptions C16_rate_n_is_axis_in_ned.

Theorem C16_ecef_parity : forall lat lon alt,
  lla_to_ecef_r0 (- lat) lon alt = lla_to_ecef_r0 lat lon alt /\
  lla_to_ecef_r1 (- lat) lon alt = lla_to_ecef_r1 lat lon alt /\
  lla_to_ecef_r2 (- lat) lon alt = - lla_to_ecef_r2 lat lon alt.
Proof. exact ecef_parity. Qed.
Print Assumptions C16_ecef_parity.
