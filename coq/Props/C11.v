(* C11 — Feedforward filter equals the exact linear-Gaussian estimator of its model.

   Model: Model/FilterFlow.v on top of Model/FeedforwardSched.v.  Proofs: Proofs/FilterFlowProofs.v
   (which uses Proofs/SchedProofs.v for the schedule and Proofs/KalmanProofs.v for kalman.correct).

   Part 1 (any state type, any operations corr / prop):  the data flow of the loop of
   run_feedforward_filter IS the textbook recursion on the filter's time grid.
   Part 2 (MathComp, any real field, any dimensions): with corr = the GENERATED kalman.correct applied
   to H_full = [H | 0 | 0] and prop = (Phi x, Phi P Phi^T + Qd), every correction along every trace is
   the conditional-Gaussian update of Spec/Gaussian.v and every covariance is symmetric PSD; block
   layout of _initialize_covariance and _compute_error_propagation_matrices.
   Part 3 (Tier B): for positive-definite P0, R_k, Qd_k the recursion equals the one-shot weighted
   least squares (Gauss-Markov) solution of the stacked linear system, any number of stages.

   Part 4 (Tier B, singular noise): the same for Qd_k = Gam_k Gam_k^T with ARBITRARY Gam_k (any rank) and
   invertible Phi_k -- the class of the real system -- through the noise-parametrised batch problem.

   NOT proved (C11_partial): that scipy's expm returns an invertible Phi and that the Van Loan Qd is a
   Gram matrix Gam Gam^T (PSD) -- both are hypotheses here, properties of the exact exponential (C08) --
   and the floating-point agreement of the recursion with a batch solver: examined on every run by the
   independent one-shot solution of tools/props/C11.py (square-root parametrisation of exactly this
   noise-parametrised problem, no inverse of a singular matrix). *)
From Coq Require Import Reals.
From PV Require Import Spec.LibSpecs Gen.Earth Gen.ErrState Gen.C11Gen Proofs.FilterFlowProofs.

(* ================================================================================================ *)
(* ---- (c) result compensation: formulas TRACED from pyins.filters._compute_feedforward_result
   (Gen/C11Gen.v).  error_nav = T x with T = transform_to_output(nominal) (rows: north east down [m],
   VN VE VD [m/s], roll pitch heading [deg]); lat -= north / rn * (180/pi); lon -= east / rp * (180/pi);
   alt += down; velocity and roll/pitch/heading minus their errors; radii of the NOMINAL row; the sensor
   estimates are the state entries. *)
Theorem C11_compensation_formulas :
  forall lat lon alt VN VE VD roll pitch heading nlat nalt t00 t01 t02 t03 t04 t05 t06 t07 t08 t10 t11 t12 t13 t14 t15 t16 t17 t18 t20 t21 t22 t23 t24 t25 t26 t27 t28 t30 t31 t32 t33 t34 t35 t36 t37 t38 t40 t41 t42 t43 t44 t45 t46 t47 t48 t50 t51 t52 t53 t54 t55 t56 t57 t58 t60 t61 t62 t63 t64 t65 t66 t67 t68 t70 t71 t72 t73 t74 t75 t76 t77 t78 t80 t81 t82 t83 t84 t85 t86 t87 t88 x0 x1 x2 x3 x4 x5 x6 x7 x8 xg xa : R, ffres_lat lat lon alt VN VE VD roll pitch heading nlat nalt t00 t01 t02 t03 t04 t05 t06 t07 t08 t10 t11 t12 t13 t14 t15 t16 t17 t18 t20 t21 t22 t23 t24 t25 t26 t27 t28 t30 t31 t32 t33 t34 t35 t36 t37 t38 t40 t41 t42 t43 t44 t45 t46 t47 t48 t50 t51 t52 t53 t54 t55 t56 t57 t58 t60 t61 t62 t63 t64 t65 t66 t67 t68 t70 t71 t72 t73 t74 t75 t76 t77 t78 t80 t81 t82 t83 t84 t85 t86 t87 t88 x0 x1 x2 x3 x4 x5 x6 x7 x8 xg xa = lat - (t00 * x0 + t01 * x1 + t02 * x2 + t03 * x3 + t04 * x4 + t05 * x5 + t06 * x6 + t07 * x7 + t08 * x8) / principal_radii_rn nlat nalt * (180 / PI) /\ ffres_lon lat lon alt VN VE VD roll pitch heading nlat nalt t00 t01 t02 t03 t04 t05 t06 t07 t08 t10 t11 t12 t13 t14 t15 t16 t17 t18 t20 t21 t22 t23 t24 t25 t26 t27 t28 t30 t31 t32 t33 t34 t35 t36 t37 t38 t40 t41 t42 t43 t44 t45 t46 t47 t48 t50 t51 t52 t53 t54 t55 t56 t57 t58 t60 t61 t62 t63 t64 t65 t66 t67 t68 t70 t71 t72 t73 t74 t75 t76 t77 t78 t80 t81 t82 t83 t84 t85 t86 t87 t88 x0 x1 x2 x3 x4 x5 x6 x7 x8 xg xa = lon - (t10 * x0 + t11 * x1 + t12 * x2 + t13 * x3 + t14 * x4 + t15 * x5 + t16 * x6 + t17 * x7 + t18 * x8) / principal_radii_rp nlat nalt * (180 / PI) /\ ffres_alt lat lon alt VN VE VD roll pitch heading nlat nalt t00 t01 t02 t03 t04 t05 t06 t07 t08 t10 t11 t12 t13 t14 t15 t16 t17 t18 t20 t21 t22 t23 t24 t25 t26 t27 t28 t30 t31 t32 t33 t34 t35 t36 t37 t38 t40 t41 t42 t43 t44 t45 t46 t47 t48 t50 t51 t52 t53 t54 t55 t56 t57 t58 t60 t61 t62 t63 t64 t65 t66 t67 t68 t70 t71 t72 t73 t74 t75 t76 t77 t78 t80 t81 t82 t83 t84 t85 t86 t87 t88 x0 x1 x2 x3 x4 x5 x6 x7 x8 xg xa = alt + (t20 * x0 + t21 * x1 + t22 * x2 + t23 * x3 + t24 * x4 + t25 * x5 + t26 * x6 + t27 * x7 + t28 * x8) /\ ffres_VN lat lon alt VN VE VD roll pitch heading nlat nalt t00 t01 t02 t03 t04 t05 t06 t07 t08 t10 t11 t12 t13 t14 t15 t16 t17 t18 t20 t21 t22 t23 t24 t25 t26 t27 t28 t30 t31 t32 t33 t34 t35 t36 t37 t38 t40 t41 t42 t43 t44 t45 t46 t47 t48 t50 t51 t52 t53 t54 t55 t56 t57 t58 t60 t61 t62 t63 t64 t65 t66 t67 t68 t70 t71 t72 t73 t74 t75 t76 t77 t78 t80 t81 t82 t83 t84 t85 t86 t87 t88 x0 x1 x2 x3 x4 x5 x6 x7 x8 xg xa = VN - (t30 * x0 + t31 * x1 + t32 * x2 + t33 * x3 + t34 * x4 + t35 * x5 + t36 * x6 + t37 * x7 + t38 * x8) /\ ffres_VE lat lon alt VN VE VD roll pitch heading nlat nalt t00 t01 t02 t03 t04 t05 t06 t07 t08 t10 t11 t12 t13 t14 t15 t16 t17 t18 t20 t21 t22 t23 t24 t25 t26 t27 t28 t30 t31 t32 t33 t34 t35 t36 t37 t38 t40 t41 t42 t43 t44 t45 t46 t47 t48 t50 t51 t52 t53 t54 t55 t56 t57 t58 t60 t61 t62 t63 t64 t65 t66 t67 t68 t70 t71 t72 t73 t74 t75 t76 t77 t78 t80 t81 t82 t83 t84 t85 t86 t87 t88 x0 x1 x2 x3 x4 x5 x6 x7 x8 xg xa = VE - (t40 * x0 + t41 * x1 + t42 * x2 + t43 * x3 + t44 * x4 + t45 * x5 + t46 * x6 + t47 * x7 + t48 * x8) /\ ffres_VD lat lon alt VN VE VD roll pitch heading nlat nalt t00 t01 t02 t03 t04 t05 t06 t07 t08 t10 t11 t12 t13 t14 t15 t16 t17 t18 t20 t21 t22 t23 t24 t25 t26 t27 t28 t30 t31 t32 t33 t34 t35 t36 t37 t38 t40 t41 t42 t43 t44 t45 t46 t47 t48 t50 t51 t52 t53 t54 t55 t56 t57 t58 t60 t61 t62 t63 t64 t65 t66 t67 t68 t70 t71 t72 t73 t74 t75 t76 t77 t78 t80 t81 t82 t83 t84 t85 t86 t87 t88 x0 x1 x2 x3 x4 x5 x6 x7 x8 xg xa = VD - (t50 * x0 + t51 * x1 + t52 * x2 + t53 * x3 + t54 * x4 + t55 * x5 + t56 * x6 + t57 * x7 + t58 * x8) /\ ffres_roll lat lon alt VN VE VD roll pitch heading nlat nalt t00 t01 t02 t03 t04 t05 t06 t07 t08 t10 t11 t12 t13 t14 t15 t16 t17 t18 t20 t21 t22 t23 t24 t25 t26 t27 t28 t30 t31 t32 t33 t34 t35 t36 t37 t38 t40 t41 t42 t43 t44 t45 t46 t47 t48 t50 t51 t52 t53 t54 t55 t56 t57 t58 t60 t61 t62 t63 t64 t65 t66 t67 t68 t70 t71 t72 t73 t74 t75 t76 t77 t78 t80 t81 t82 t83 t84 t85 t86 t87 t88 x0 x1 x2 x3 x4 x5 x6 x7 x8 xg xa = roll - (t60 * x0 + t61 * x1 + t62 * x2 + t63 * x3 + t64 * x4 + t65 * x5 + t66 * x6 + t67 * x7 + t68 * x8) /\ ffres_pitch lat lon alt VN VE VD roll pitch heading nlat nalt t00 t01 t02 t03 t04 t05 t06 t07 t08 t10 t11 t12 t13 t14 t15 t16 t17 t18 t20 t21 t22 t23 t24 t25 t26 t27 t28 t30 t31 t32 t33 t34 t35 t36 t37 t38 t40 t41 t42 t43 t44 t45 t46 t47 t48 t50 t51 t52 t53 t54 t55 t56 t57 t58 t60 t61 t62 t63 t64 t65 t66 t67 t68 t70 t71 t72 t73 t74 t75 t76 t77 t78 t80 t81 t82 t83 t84 t85 t86 t87 t88 x0 x1 x2 x3 x4 x5 x6 x7 x8 xg xa = pitch - (t70 * x0 + t71 * x1 + t72 * x2 + t73 * x3 + t74 * x4 + t75 * x5 + t76 * x6 + t77 * x7 + t78 * x8) /\ ffres_heading lat lon alt VN VE VD roll pitch heading nlat nalt t00 t01 t02 t03 t04 t05 t06 t07 t08 t10 t11 t12 t13 t14 t15 t16 t17 t18 t20 t21 t22 t23 t24 t25 t26 t27 t28 t30 t31 t32 t33 t34 t35 t36 t37 t38 t40 t41 t42 t43 t44 t45 t46 t47 t48 t50 t51 t52 t53 t54 t55 t56 t57 t58 t60 t61 t62 t63 t64 t65 t66 t67 t68 t70 t71 t72 t73 t74 t75 t76 t77 t78 t80 t81 t82 t83 t84 t85 t86 t87 t88 x0 x1 x2 x3 x4 x5 x6 x7 x8 xg xa = heading - (t80 * x0 + t81 * x1 + t82 * x2 + t83 * x3 + t84 * x4 + t85 * x5 + t86 * x6 + t87 * x7 + t88 * x8) /\ ffres_gyro lat lon alt VN VE VD roll pitch heading nlat nalt t00 t01 t02 t03 t04 t05 t06 t07 t08 t10 t11 t12 t13 t14 t15 t16 t17 t18 t20 t21 t22 t23 t24 t25 t26 t27 t28 t30 t31 t32 t33 t34 t35 t36 t37 t38 t40 t41 t42 t43 t44 t45 t46 t47 t48 t50 t51 t52 t53 t54 t55 t56 t57 t58 t60 t61 t62 t63 t64 t65 t66 t67 t68 t70 t71 t72 t73 t74 t75 t76 t77 t78 t80 t81 t82 t83 t84 t85 t86 t87 t88 x0 x1 x2 x3 x4 x5 x6 x7 x8 xg xa = xg /\ ffres_accel lat lon alt VN VE VD roll pitch heading nlat nalt t00 t01 t02 t03 t04 t05 t06 t07 t08 t10 t11 t12 t13 t14 t15 t16 t17 t18 t20 t21 t22 t23 t24 t25 t26 t27 t28 t30 t31 t32 t33 t34 t35 t36 t37 t38 t40 t41 t42 t43 t44 t45 t46 t47 t48 t50 t51 t52 t53 t54 t55 t56 t57 t58 t60 t61 t62 t63 t64 t65 t66 t67 t68 t70 t71 t72 t73 t74 t75 t76 t77 t78 t80 t81 t82 t83 t84 t85 t86 t87 t88 x0 x1 x2 x3 x4 x5 x6 x7 x8 xg xa = xa.
Proof. exact ffres_formulas. Qed.
Print Assumptions C11_compensation_formulas.

(* the error definition of the library is sim.perturb_pva (Gen/ErrState.v): computed = perturb_pva(true, e).
   With the true row as nominal row and error_nav = e (T = identity) the compensation returns the true
   row EXACTLY: it is the inverse of the error definition, same units and signs (with the computed row
   as nominal row the radii are taken at the perturbed point: inverse to first order in e). *)
Theorem C11_compensation_consistent :
  forall lat lon alt VN VE VD roll pitch heading e0 e1 e2 e3 e4 e5 e6 e7 e8 xg xa : R, principal_radii_rn lat alt <> 0 -> principal_radii_rp lat alt <> 0 -> ffres_lat (perturb_pva_lat lat lon alt VN VE VD roll pitch heading e0 e1 e2 e3 e4 e5 e6 e7 e8) (perturb_pva_lon lat lon alt VN VE VD roll pitch heading e0 e1 e2 e3 e4 e5 e6 e7 e8) (perturb_pva_alt lat lon alt VN VE VD roll pitch heading e0 e1 e2 e3 e4 e5 e6 e7 e8) (perturb_pva_VN lat lon alt VN VE VD roll pitch heading e0 e1 e2 e3 e4 e5 e6 e7 e8) (perturb_pva_VE lat lon alt VN VE VD roll pitch heading e0 e1 e2 e3 e4 e5 e6 e7 e8) (perturb_pva_VD lat lon alt VN VE VD roll pitch heading e0 e1 e2 e3 e4 e5 e6 e7 e8) (perturb_pva_roll lat lon alt VN VE VD roll pitch heading e0 e1 e2 e3 e4 e5 e6 e7 e8) (perturb_pva_pitch lat lon alt VN VE VD roll pitch heading e0 e1 e2 e3 e4 e5 e6 e7 e8) (perturb_pva_heading lat lon alt VN VE VD roll pitch heading e0 e1 e2 e3 e4 e5 e6 e7 e8) lat alt 1 0 0 0 0 0 0 0 0 0 1 0 0 0 0 0 0 0 0 0 1 0 0 0 0 0 0 0 0 0 1 0 0 0 0 0 0 0 0 0 1 0 0 0 0 0 0 0 0 0 1 0 0 0 0 0 0 0 0 0 1 0 0 0 0 0 0 0 0 0 1 0 0 0 0 0 0 0 0 0 1 e0 e1 e2 e3 e4 e5 e6 e7 e8 xg xa = lat /\ ffres_lon (perturb_pva_lat lat lon alt VN VE VD roll pitch heading e0 e1 e2 e3 e4 e5 e6 e7 e8) (perturb_pva_lon lat lon alt VN VE VD roll pitch heading e0 e1 e2 e3 e4 e5 e6 e7 e8) (perturb_pva_alt lat lon alt VN VE VD roll pitch heading e0 e1 e2 e3 e4 e5 e6 e7 e8) (perturb_pva_VN lat lon alt VN VE VD roll pitch heading e0 e1 e2 e3 e4 e5 e6 e7 e8) (perturb_pva_VE lat lon alt VN VE VD roll pitch heading e0 e1 e2 e3 e4 e5 e6 e7 e8) (perturb_pva_VD lat lon alt VN VE VD roll pitch heading e0 e1 e2 e3 e4 e5 e6 e7 e8) (perturb_pva_roll lat lon alt VN VE VD roll pitch heading e0 e1 e2 e3 e4 e5 e6 e7 e8) (perturb_pva_pitch lat lon alt VN VE VD roll pitch heading e0 e1 e2 e3 e4 e5 e6 e7 e8) (perturb_pva_heading lat lon alt VN VE VD roll pitch heading e0 e1 e2 e3 e4 e5 e6 e7 e8) lat alt 1 0 0 0 0 0 0 0 0 0 1 0 0 0 0 0 0 0 0 0 1 0 0 0 0 0 0 0 0 0 1 0 0 0 0 0 0 0 0 0 1 0 0 0 0 0 0 0 0 0 1 0 0 0 0 0 0 0 0 0 1 0 0 0 0 0 0 0 0 0 1 0 0 0 0 0 0 0 0 0 1 e0 e1 e2 e3 e4 e5 e6 e7 e8 xg xa = lon /\ ffres_alt (perturb_pva_lat lat lon alt VN VE VD roll pitch heading e0 e1 e2 e3 e4 e5 e6 e7 e8) (perturb_pva_lon lat lon alt VN VE VD roll pitch heading e0 e1 e2 e3 e4 e5 e6 e7 e8) (perturb_pva_alt lat lon alt VN VE VD roll pitch heading e0 e1 e2 e3 e4 e5 e6 e7 e8) (perturb_pva_VN lat lon alt VN VE VD roll pitch heading e0 e1 e2 e3 e4 e5 e6 e7 e8) (perturb_pva_VE lat lon alt VN VE VD roll pitch heading e0 e1 e2 e3 e4 e5 e6 e7 e8) (perturb_pva_VD lat lon alt VN VE VD roll pitch heading e0 e1 e2 e3 e4 e5 e6 e7 e8) (perturb_pva_roll lat lon alt VN VE VD roll pitch heading e0 e1 e2 e3 e4 e5 e6 e7 e8) (perturb_pva_pitch lat lon alt VN VE VD roll pitch heading e0 e1 e2 e3 e4 e5 e6 e7 e8) (perturb_pva_heading lat lon alt VN VE VD roll pitch heading e0 e1 e2 e3 e4 e5 e6 e7 e8) lat alt 1 0 0 0 0 0 0 0 0 0 1 0 0 0 0 0 0 0 0 0 1 0 0 0 0 0 0 0 0 0 1 0 0 0 0 0 0 0 0 0 1 0 0 0 0 0 0 0 0 0 1 0 0 0 0 0 0 0 0 0 1 0 0 0 0 0 0 0 0 0 1 0 0 0 0 0 0 0 0 0 1 e0 e1 e2 e3 e4 e5 e6 e7 e8 xg xa = alt /\ ffres_VN (perturb_pva_lat lat lon alt VN VE VD roll pitch heading e0 e1 e2 e3 e4 e5 e6 e7 e8) (perturb_pva_lon lat lon alt VN VE VD roll pitch heading e0 e1 e2 e3 e4 e5 e6 e7 e8) (perturb_pva_alt lat lon alt VN VE VD roll pitch heading e0 e1 e2 e3 e4 e5 e6 e7 e8) (perturb_pva_VN lat lon alt VN VE VD roll pitch heading e0 e1 e2 e3 e4 e5 e6 e7 e8) (perturb_pva_VE lat lon alt VN VE VD roll pitch heading e0 e1 e2 e3 e4 e5 e6 e7 e8) (perturb_pva_VD lat lon alt VN VE VD roll pitch heading e0 e1 e2 e3 e4 e5 e6 e7 e8) (perturb_pva_roll lat lon alt VN VE VD roll pitch heading e0 e1 e2 e3 e4 e5 e6 e7 e8) (perturb_pva_pitch lat lon alt VN VE VD roll pitch heading e0 e1 e2 e3 e4 e5 e6 e7 e8) (perturb_pva_heading lat lon alt VN VE VD roll pitch heading e0 e1 e2 e3 e4 e5 e6 e7 e8) lat alt 1 0 0 0 0 0 0 0 0 0 1 0 0 0 0 0 0 0 0 0 1 0 0 0 0 0 0 0 0 0 1 0 0 0 0 0 0 0 0 0 1 0 0 0 0 0 0 0 0 0 1 0 0 0 0 0 0 0 0 0 1 0 0 0 0 0 0 0 0 0 1 0 0 0 0 0 0 0 0 0 1 e0 e1 e2 e3 e4 e5 e6 e7 e8 xg xa = VN /\ ffres_VE (perturb_pva_lat lat lon alt VN VE VD roll pitch heading e0 e1 e2 e3 e4 e5 e6 e7 e8) (perturb_pva_lon lat lon alt VN VE VD roll pitch heading e0 e1 e2 e3 e4 e5 e6 e7 e8) (perturb_pva_alt lat lon alt VN VE VD roll pitch heading e0 e1 e2 e3 e4 e5 e6 e7 e8) (perturb_pva_VN lat lon alt VN VE VD roll pitch heading e0 e1 e2 e3 e4 e5 e6 e7 e8) (perturb_pva_VE lat lon alt VN VE VD roll pitch heading e0 e1 e2 e3 e4 e5 e6 e7 e8) (perturb_pva_VD lat lon alt VN VE VD roll pitch heading e0 e1 e2 e3 e4 e5 e6 e7 e8) (perturb_pva_roll lat lon alt VN VE VD roll pitch heading e0 e1 e2 e3 e4 e5 e6 e7 e8) (perturb_pva_pitch lat lon alt VN VE VD roll pitch heading e0 e1 e2 e3 e4 e5 e6 e7 e8) (perturb_pva_heading lat lon alt VN VE VD roll pitch heading e0 e1 e2 e3 e4 e5 e6 e7 e8) lat alt 1 0 0 0 0 0 0 0 0 0 1 0 0 0 0 0 0 0 0 0 1 0 0 0 0 0 0 0 0 0 1 0 0 0 0 0 0 0 0 0 1 0 0 0 0 0 0 0 0 0 1 0 0 0 0 0 0 0 0 0 1 0 0 0 0 0 0 0 0 0 1 0 0 0 0 0 0 0 0 0 1 e0 e1 e2 e3 e4 e5 e6 e7 e8 xg xa = VE /\ ffres_VD (perturb_pva_lat lat lon alt VN VE VD roll pitch heading e0 e1 e2 e3 e4 e5 e6 e7 e8) (perturb_pva_lon lat lon alt VN VE VD roll pitch heading e0 e1 e2 e3 e4 e5 e6 e7 e8) (perturb_pva_alt lat lon alt VN VE VD roll pitch heading e0 e1 e2 e3 e4 e5 e6 e7 e8) (perturb_pva_VN lat lon alt VN VE VD roll pitch heading e0 e1 e2 e3 e4 e5 e6 e7 e8) (perturb_pva_VE lat lon alt VN VE VD roll pitch heading e0 e1 e2 e3 e4 e5 e6 e7 e8) (perturb_pva_VD lat lon alt VN VE VD roll pitch heading e0 e1 e2 e3 e4 e5 e6 e7 e8) (perturb_pva_roll lat lon alt VN VE VD roll pitch heading e0 e1 e2 e3 e4 e5 e6 e7 e8) (perturb_pva_pitch lat lon alt VN VE VD roll pitch heading e0 e1 e2 e3 e4 e5 e6 e7 e8) (perturb_pva_heading lat lon alt VN VE VD roll pitch heading e0 e1 e2 e3 e4 e5 e6 e7 e8) lat alt 1 0 0 0 0 0 0 0 0 0 1 0 0 0 0 0 0 0 0 0 1 0 0 0 0 0 0 0 0 0 1 0 0 0 0 0 0 0 0 0 1 0 0 0 0 0 0 0 0 0 1 0 0 0 0 0 0 0 0 0 1 0 0 0 0 0 0 0 0 0 1 0 0 0 0 0 0 0 0 0 1 e0 e1 e2 e3 e4 e5 e6 e7 e8 xg xa = VD /\ ffres_roll (perturb_pva_lat lat lon alt VN VE VD roll pitch heading e0 e1 e2 e3 e4 e5 e6 e7 e8) (perturb_pva_lon lat lon alt VN VE VD roll pitch heading e0 e1 e2 e3 e4 e5 e6 e7 e8) (perturb_pva_alt lat lon alt VN VE VD roll pitch heading e0 e1 e2 e3 e4 e5 e6 e7 e8) (perturb_pva_VN lat lon alt VN VE VD roll pitch heading e0 e1 e2 e3 e4 e5 e6 e7 e8) (perturb_pva_VE lat lon alt VN VE VD roll pitch heading e0 e1 e2 e3 e4 e5 e6 e7 e8) (perturb_pva_VD lat lon alt VN VE VD roll pitch heading e0 e1 e2 e3 e4 e5 e6 e7 e8) (perturb_pva_roll lat lon alt VN VE VD roll pitch heading e0 e1 e2 e3 e4 e5 e6 e7 e8) (perturb_pva_pitch lat lon alt VN VE VD roll pitch heading e0 e1 e2 e3 e4 e5 e6 e7 e8) (perturb_pva_heading lat lon alt VN VE VD roll pitch heading e0 e1 e2 e3 e4 e5 e6 e7 e8) lat alt 1 0 0 0 0 0 0 0 0 0 1 0 0 0 0 0 0 0 0 0 1 0 0 0 0 0 0 0 0 0 1 0 0 0 0 0 0 0 0 0 1 0 0 0 0 0 0 0 0 0 1 0 0 0 0 0 0 0 0 0 1 0 0 0 0 0 0 0 0 0 1 0 0 0 0 0 0 0 0 0 1 e0 e1 e2 e3 e4 e5 e6 e7 e8 xg xa = roll /\ ffres_pitch (perturb_pva_lat lat lon alt VN VE VD roll pitch heading e0 e1 e2 e3 e4 e5 e6 e7 e8) (perturb_pva_lon lat lon alt VN VE VD roll pitch heading e0 e1 e2 e3 e4 e5 e6 e7 e8) (perturb_pva_alt lat lon alt VN VE VD roll pitch heading e0 e1 e2 e3 e4 e5 e6 e7 e8) (perturb_pva_VN lat lon alt VN VE VD roll pitch heading e0 e1 e2 e3 e4 e5 e6 e7 e8) (perturb_pva_VE lat lon alt VN VE VD roll pitch heading e0 e1 e2 e3 e4 e5 e6 e7 e8) (perturb_pva_VD lat lon alt VN VE VD roll pitch heading e0 e1 e2 e3 e4 e5 e6 e7 e8) (perturb_pva_roll lat lon alt VN VE VD roll pitch heading e0 e1 e2 e3 e4 e5 e6 e7 e8) (perturb_pva_pitch lat lon alt VN VE VD roll pitch heading e0 e1 e2 e3 e4 e5 e6 e7 e8) (perturb_pva_heading lat lon alt VN VE VD roll pitch heading e0 e1 e2 e3 e4 e5 e6 e7 e8) lat alt 1 0 0 0 0 0 0 0 0 0 1 0 0 0 0 0 0 0 0 0 1 0 0 0 0 0 0 0 0 0 1 0 0 0 0 0 0 0 0 0 1 0 0 0 0 0 0 0 0 0 1 0 0 0 0 0 0 0 0 0 1 0 0 0 0 0 0 0 0 0 1 0 0 0 0 0 0 0 0 0 1 e0 e1 e2 e3 e4 e5 e6 e7 e8 xg xa = pitch /\ ffres_heading (perturb_pva_lat lat lon alt VN VE VD roll pitch heading e0 e1 e2 e3 e4 e5 e6 e7 e8) (perturb_pva_lon lat lon alt VN VE VD roll pitch heading e0 e1 e2 e3 e4 e5 e6 e7 e8) (perturb_pva_alt lat lon alt VN VE VD roll pitch heading e0 e1 e2 e3 e4 e5 e6 e7 e8) (perturb_pva_VN lat lon alt VN VE VD roll pitch heading e0 e1 e2 e3 e4 e5 e6 e7 e8) (perturb_pva_VE lat lon alt VN VE VD roll pitch heading e0 e1 e2 e3 e4 e5 e6 e7 e8) (perturb_pva_VD lat lon alt VN VE VD roll pitch heading e0 e1 e2 e3 e4 e5 e6 e7 e8) (perturb_pva_roll lat lon alt VN VE VD roll pitch heading e0 e1 e2 e3 e4 e5 e6 e7 e8) (perturb_pva_pitch lat lon alt VN VE VD roll pitch heading e0 e1 e2 e3 e4 e5 e6 e7 e8) (perturb_pva_heading lat lon alt VN VE VD roll pitch heading e0 e1 e2 e3 e4 e5 e6 e7 e8) lat alt 1 0 0 0 0 0 0 0 0 0 1 0 0 0 0 0 0 0 0 0 1 0 0 0 0 0 0 0 0 0 1 0 0 0 0 0 0 0 0 0 1 0 0 0 0 0 0 0 0 0 1 0 0 0 0 0 0 0 0 0 1 0 0 0 0 0 0 0 0 0 1 0 0 0 0 0 0 0 0 0 1 e0 e1 e2 e3 e4 e5 e6 e7 e8 xg xa = heading.
Proof. exact compensation_inverts_perturbation. Qed.
Print Assumptions C11_compensation_consistent.

(* trajectory_sd[k] = sqrt((T P_ins T^T)[k,k]); gyro_sd, accel_sd = sqrt of the diagonal of P
   (traced with 2 inertial states, 1 gyro and 1 accel parameter) *)
Theorem C11_sd_formulas :
  forall t00 t01 t10 t11 t20 t21 t30 t31 t40 t41 t50 t51 t60 t61 t70 t71 t80 t81 p00 p01 p02 p03 p10 p11 p12 p13 p20 p21 p22 p23 p30 p31 p32 p33 : R, ffsd_sd_north t00 t01 t10 t11 t20 t21 t30 t31 t40 t41 t50 t51 t60 t61 t70 t71 t80 t81 p00 p01 p02 p03 p10 p11 p12 p13 p20 p21 p22 p23 p30 p31 p32 p33 = sqrt (t00 * p00 * t00 + t00 * p01 * t01 + t01 * p10 * t00 + t01 * p11 * t01) /\ ffsd_sd_east t00 t01 t10 t11 t20 t21 t30 t31 t40 t41 t50 t51 t60 t61 t70 t71 t80 t81 p00 p01 p02 p03 p10 p11 p12 p13 p20 p21 p22 p23 p30 p31 p32 p33 = sqrt (t10 * p00 * t10 + t10 * p01 * t11 + t11 * p10 * t10 + t11 * p11 * t11) /\ ffsd_sd_down t00 t01 t10 t11 t20 t21 t30 t31 t40 t41 t50 t51 t60 t61 t70 t71 t80 t81 p00 p01 p02 p03 p10 p11 p12 p13 p20 p21 p22 p23 p30 p31 p32 p33 = sqrt (t20 * p00 * t20 + t20 * p01 * t21 + t21 * p10 * t20 + t21 * p11 * t21) /\ ffsd_sd_eVN t00 t01 t10 t11 t20 t21 t30 t31 t40 t41 t50 t51 t60 t61 t70 t71 t80 t81 p00 p01 p02 p03 p10 p11 p12 p13 p20 p21 p22 p23 p30 p31 p32 p33 = sqrt (t30 * p00 * t30 + t30 * p01 * t31 + t31 * p10 * t30 + t31 * p11 * t31) /\ ffsd_sd_eVE t00 t01 t10 t11 t20 t21 t30 t31 t40 t41 t50 t51 t60 t61 t70 t71 t80 t81 p00 p01 p02 p03 p10 p11 p12 p13 p20 p21 p22 p23 p30 p31 p32 p33 = sqrt (t40 * p00 * t40 + t40 * p01 * t41 + t41 * p10 * t40 + t41 * p11 * t41) /\ ffsd_sd_eVD t00 t01 t10 t11 t20 t21 t30 t31 t40 t41 t50 t51 t60 t61 t70 t71 t80 t81 p00 p01 p02 p03 p10 p11 p12 p13 p20 p21 p22 p23 p30 p31 p32 p33 = sqrt (t50 * p00 * t50 + t50 * p01 * t51 + t51 * p10 * t50 + t51 * p11 * t51) /\ ffsd_sd_roll t00 t01 t10 t11 t20 t21 t30 t31 t40 t41 t50 t51 t60 t61 t70 t71 t80 t81 p00 p01 p02 p03 p10 p11 p12 p13 p20 p21 p22 p23 p30 p31 p32 p33 = sqrt (t60 * p00 * t60 + t60 * p01 * t61 + t61 * p10 * t60 + t61 * p11 * t61) /\ ffsd_sd_pitch t00 t01 t10 t11 t20 t21 t30 t31 t40 t41 t50 t51 t60 t61 t70 t71 t80 t81 p00 p01 p02 p03 p10 p11 p12 p13 p20 p21 p22 p23 p30 p31 p32 p33 = sqrt (t70 * p00 * t70 + t70 * p01 * t71 + t71 * p10 * t70 + t71 * p11 * t71) /\ ffsd_sd_heading t00 t01 t10 t11 t20 t21 t30 t31 t40 t41 t50 t51 t60 t61 t70 t71 t80 t81 p00 p01 p02 p03 p10 p11 p12 p13 p20 p21 p22 p23 p30 p31 p32 p33 = sqrt (t80 * p00 * t80 + t80 * p01 * t81 + t81 * p10 * t80 + t81 * p11 * t81) /\ ffsd_sd_gyro t00 t01 t10 t11 t20 t21 t30 t31 t40 t41 t50 t51 t60 t61 t70 t71 t80 t81 p00 p01 p02 p03 p10 p11 p12 p13 p20 p21 p22 p23 p30 p31 p32 p33 = sqrt p22 /\ ffsd_sd_accel t00 t01 t10 t11 t20 t21 t30 t31 t40 t41 t50 t51 t60 t61 t70 t71 t80 t81 p00 p01 p02 p03 p10 p11 p12 p13 p20 p21 p22 p23 p30 p31 p32 p33 = sqrt p33.
Proof. exact ffsd_formulas. Qed.
Print Assumptions C11_sd_formulas.

(* ================================================================================================ *)
From Coq Require Import List QArith Sorted.
From PV Require Import Model.FeedbackSched Model.FeedforwardSched Model.FilterFlow
                       Proofs.SchedProofs Proofs.FilterFlowProofs.
Import ListNotations.
Open Scope Q_scope.

(* ---- (a) the fold of the event trace is the textbook recursion --------------------------------
   times = trajectory index; sensors = stamps of every measurement object; steps = the grid
   0 = i_0 < i_1 < ... = len - 1 of the propagation steps.  At every grid row i all epochs m with
   times[i] <= m < times[i+1] are corrected (ascending; sensors in list order; the correction is
   applied to the state AT times[i]), the row (times[i], state) is recorded AFTER these corrections
   and BEFORE the propagation i -> j; every epoch in [start, end) belongs to exactly one grid row.
   `_oracle`: `time + time_step` replaced by an arbitrary function (any rounding). *)
Theorem C11_ff_is_kalman_recursion :
  forall (state : Type) (corr : nat -> Q -> Q -> state -> state) (prop : nat -> nat -> state -> state)
         time_step times sensors fuel (s0 : state),
  StronglySorted Qlt times -> (2 <= length times)%nat -> (length times - 1 <= fuel)%nat ->
  let tr := ff_run_exact fuel time_step times sensors in
  let tstart := nth 0 times 0 in
  let tend := nth (length times - 1) times 0 in
  let epochs := clip tstart tend (merge_times sensors) in
  let steps := propagations tr in
  ff_flow corr prop tr s0 = kalman_grid corr prop times sensors epochs steps s0 /\
  chain 0 steps (length times - 1) /\
  (forall i j, In (i, j) steps -> (i < j)%nat /\ (j < length times)%nat) /\
  flat_map (row_epochs times epochs) (map fst steps) = filter (in_range tstart tend) (merge_times sensors) /\
  map fst (snd (ff_flow corr prop tr s0)) = record_times tr.
Proof. exact ff_is_kalman_recursion. Qed.
Print Assumptions C11_ff_is_kalman_recursion.

Theorem C11_ff_is_kalman_recursion_oracle :
  forall (state : Type) (corr : nat -> Q -> Q -> state -> state) (prop : nat -> nat -> state -> state)
         add_step times sensors fuel (s0 : state),
  StronglySorted Qlt times -> (2 <= length times)%nat -> (length times - 1 <= fuel)%nat ->
  let tr := ff_run fuel add_step times sensors in
  let tstart := nth 0 times 0 in
  let tend := nth (length times - 1) times 0 in
  let epochs := clip tstart tend (merge_times sensors) in
  let steps := propagations tr in
  ff_flow corr prop tr s0 = kalman_grid corr prop times sensors epochs steps s0 /\
  chain 0 steps (length times - 1) /\
  (forall i j, In (i, j) steps -> (i < j)%nat /\ (j < length times)%nat) /\
  flat_map (row_epochs times epochs) (map fst steps) = filter (in_range tstart tend) (merge_times sensors) /\
  map fst (snd (ff_flow corr prop tr s0)) = record_times tr.
Proof. exact ff_is_kalman_recursion_oracle. Qed.
Print Assumptions C11_ff_is_kalman_recursion_oracle.

(* an invariant of both operations holds for every recorded state and the final state, and two
   families of operations that agree on invariant states have the same flow (any trace) *)
Theorem C11_flow_invariant :
  forall (state : Type) (corr : nat -> Q -> Q -> state -> state) (prop : nat -> nat -> state -> state)
         (Inv : state -> Prop) (corr' : nat -> Q -> Q -> state -> state) (prop' : nat -> nat -> state -> state),
  (forall k m t s, Inv s -> Inv (corr k m t s) /\ corr' k m t s = corr k m t s) ->
  (forall i j s, Inv s -> Inv (prop i j s) /\ prop' i j s = prop i j s) ->
  forall tr s0, Inv s0 ->
  Inv (fst (ff_flow corr prop tr s0)) /\
  Forall (fun r => Inv (snd r)) (snd (ff_flow corr prop tr s0)) /\
  ff_flow corr' prop' tr s0 = ff_flow corr prop tr s0.
Proof. exact ff_flow_inv. Qed.
Print Assumptions C11_flow_invariant.

(* non-vacuity: the schedule of Props/C10.v (three sensors clustered in the first interval, two epochs in
   the last, a shared stamp, stamps outside the span), step larger than the span, on the free algebra *)
Example C11_ex_hypotheses :
  StronglySorted Qlt ex_times /\ (2 <= length ex_times)%nat /\ (length ex_times - 1 <= 5)%nat.
Proof. split; [repeat constructor|]. vm_compute. split; repeat constructor. Qed.

Example C11_ex_flow :
  let tr := ff_run_exact 5 1 ex_times ex_sensors in
  propagations tr = [(0, 2); (2, 4); (4, 5)]%nat /\
  snd (t_flow tr) =
    [ (1, TCorr 2 (103#100) 1 (TCorr 1 (102#100) 1 (TCorr 0 (101#100) 1 (TCorr 1 1 1 TInit))));
      (12#10, TCorr 1 (12#10) (12#10) (TCorr 0 (12#10) (12#10)
                (TProp 0 2 (TCorr 2 (103#100) 1 (TCorr 1 (102#100) 1 (TCorr 0 (101#100) 1 (TCorr 1 1 1 TInit)))))));
      (14#10, TCorr 1 (147#100) (14#10) (TCorr 0 (143#100) (14#10)
                (TProp 2 4 (TCorr 1 (12#10) (12#10) (TCorr 0 (12#10) (12#10)
                (TProp 0 2 (TCorr 2 (103#100) 1 (TCorr 1 (102#100) 1 (TCorr 0 (101#100) 1 (TCorr 1 1 1 TInit)))))))))) ] /\
  t_flow tr = kalman_grid TCorr TProp ex_times ex_sensors
                (clip 1 (15#10) (merge_times ex_sensors)) (propagations tr) TInit.
Proof. exact ex_flow_large_step. Qed.

(* ================================================================================================ *)
From mathcomp Require Import all_ssreflect all_algebra.
From PV Require Import Spec.LibSpecsMx Spec.Gaussian Gen.Kalman Gen.C11Mx Proofs.KalmanProofs.
Set Implicit Arguments.
Unset Strict Implicit.
Import GRing.Theory Num.Theory.
Local Open Scope ring_scope.

(* ---- (a, continued) along EVERY event trace the operations of the generated code are the
   conditional-Gaussian updates of Spec/Gaussian.v, and every covariance is symmetric PSD.
   Hypotheses (library / data): R_k symmetric positive definite; scipy's cholesky returns a lower factor
   of every innovation covariance it is handed; Qd symmetric PSD (the PSD-ness of the Van Loan Qd is
   the unproved part of C08). *)
Theorem C11_kalman_flow_spec :
  forall (F : realFieldType) (ni ng na : nat) (mdim : nat -> nat)
         (zf : forall k : nat, Q -> 'cV[F]_(mdim k)) (Hf : forall k : nat, Q -> 'M[F]_(mdim k, ni))
         (Rf : forall k : nat, 'M[F]_(mdim k)) (chol : forall k : nat, 'M[F]_(mdim k) -> 'M[F]_(mdim k))
         (Phi Qd : nat -> nat -> 'M[F]_(ni + (ng + na))),
  (forall k : nat, (Rf k)^T = Rf k) ->
  (forall k : nat, pd (Rf k)) ->
  (forall (k : nat) (m : Q) (P : 'M[F]_(ni + (ng + na))), P^T = P -> psd P ->
     cholesky_factor (@chol k) (correct_S P (@h_full F ni ng na mdim Hf k m) (Rf k))) ->
  (forall i j : nat, (Qd i j)^T = Qd i j) ->
  (forall i j : nat, psd (Qd i j)) ->
  forall (tr : list event) (s0 : kstate F ni ng na),
  cov_ok s0 ->
  [/\ cov_ok (ff_flow (@k_corr F ni ng na mdim zf Hf Rf chol) (@k_prop F ni ng na Phi Qd) tr s0).1,
      List.Forall (fun r : Q * kstate F ni ng na => cov_ok r.2)
        (ff_flow (@k_corr F ni ng na mdim zf Hf Rf chol) (@k_prop F ni ng na Phi Qd) tr s0).2
    & ff_flow (@k_corr_spec F ni ng na mdim zf Hf Rf) (@k_prop F ni ng na Phi Qd) tr s0 =
      ff_flow (@k_corr F ni ng na mdim zf Hf Rf chol) (@k_prop F ni ng na Phi Qd) tr s0].
Proof. exact kalman_flow_spec. Qed.
Print Assumptions C11_kalman_flow_spec.

(* ---- (b) H_full = [H | 0 | 0]: the predicted measurement and the innovation covariance see the
   inertial block only; the sensor parameters are corrected only through their cross-covariance *)
Theorem C11_h_full_embedding :
  forall (F : fieldType) (ni ns m : nat) (H : 'M[F]_(m, ni)) (R : 'M[F]_m) (P : 'M[F]_(ni + ns))
         (x : 'cV[F]_(ni + ns)),
  [/\ row_mx H 0 *m x = H *m usubmx x,
      row_mx H 0 *m P *m (row_mx H 0)^T = H *m ulsubmx P *m H^T,
      correct_S P (row_mx H 0) R = H *m ulsubmx P *m H^T + R
    & P *m (row_mx H 0)^T = col_mx (ulsubmx P *m H^T) (dlsubmx P *m H^T)].
Proof. exact h_full_embedding. Qed.
Print Assumptions C11_h_full_embedding.

(* ---- (b) P0 = T P_pva T^T (+) P_gyro (+) P_accel, for every triple of block sizes; symmetric PSD *)
Theorem C11_init_cov_blocks :
  forall (F : realFieldType) (ni ng na : nat) (T : 'M[F]_(ni, 9)) (Ppva : 'M[F]_9) (Pg : 'M[F]_ng)
         (Pa : 'M[F]_na),
  [/\ ulsubmx (init_cov T Ppva Pg Pa) = T *m Ppva *m T^T,
      ursubmx (init_cov T Ppva Pg Pa) = 0, dlsubmx (init_cov T Ppva Pg Pa) = 0
    & drsubmx (init_cov T Ppva Pg Pa) = block_mx Pg 0 0 Pa].
Proof. exact init_cov_blocks. Qed.
Print Assumptions C11_init_cov_blocks.

Theorem C11_init_cov_ok :
  forall (F : realFieldType) (ni ng na : nat) (T : 'M[F]_(ni, 9)) (Ppva : 'M[F]_9) (Pg : 'M[F]_ng)
         (Pa : 'M[F]_na),
  Ppva^T = Ppva -> psd Ppva -> Pg^T = Pg -> psd Pg -> Pa^T = Pa -> psd Pa ->
  (init_cov T Ppva Pg Pa)^T = init_cov T Ppva Pg Pa /\ psd (init_cov T Ppva Pg Pa).
Proof. exact init_cov_ok. Qed.
Print Assumptions C11_init_cov_ok.

(* ---- (b) the joint F, G, q: index ranges (ins | gyro | accel) x (ins | gyro | accel) and
   (ins | gyro | accel) x (gyro output noise | accel output noise | gyro noise | accel noise) tile the
   matrices for every choice of the seven block sizes (the types carry the sizes) *)
Theorem C11_asm_F_blocks :
  forall (F : realFieldType) (ni ng na : nat) (Fii : 'M[F]_ni) (Fig Fia : 'M[F]_(ni, 3))
         (Hg : 'M[F]_(3, ng)) (Ha : 'M[F]_(3, na)) (Fg : 'M[F]_ng) (Fa : 'M[F]_na),
  [/\ ulsubmx (asm_F Fii Fig Fia Hg Ha Fg Fa) = Fii,
      ursubmx (asm_F Fii Fig Fia Hg Ha Fg Fa) = row_mx (Fig *m Hg) (Fia *m Ha),
      dlsubmx (asm_F Fii Fig Fia Hg Ha Fg Fa) = 0
    & drsubmx (asm_F Fii Fig Fia Hg Ha Fg Fa) = block_mx Fg 0 0 Fa].
Proof. exact asm_F_blocks. Qed.
Print Assumptions C11_asm_F_blocks.

Theorem C11_asm_G_rows :
  forall (F : realFieldType) (ni ng na vg va qg qa : nat) (Fig Fia : 'M[F]_(ni, 3))
         (Jg : 'M[F]_(3, vg)) (Ja : 'M[F]_(3, va)) (Gg : 'M[F]_(ng, qg)) (Ga : 'M[F]_(na, qa)),
  [/\ usubmx (asm_G Fig Fia Jg Ja Gg Ga) = row_mx (Fig *m Jg) (row_mx (Fia *m Ja) 0),
      usubmx (dsubmx (asm_G Fig Fia Jg Ja Gg Ga)) = row_mx 0 (row_mx 0 (row_mx Gg 0))
    & dsubmx (dsubmx (asm_G Fig Fia Jg Ja Gg Ga)) = row_mx 0 (row_mx 0 (row_mx 0 Ga))].
Proof. exact asm_G_rows. Qed.
Print Assumptions C11_asm_G_rows.

(* q = (v_g, v_a, q_g, q_a): diag(q^2) is block diagonal; Q = G diag(q^2) G^T is symmetric PSD *)
Theorem C11_diag_sq_col :
  forall (F : realFieldType) (k1 k2 : nat) (a : 'cV[F]_k1) (b : 'cV[F]_k2),
  diag_sq (col_mx a b) = block_mx (diag_sq a) 0 0 (diag_sq b).
Proof. exact diag_sq_col. Qed.
Print Assumptions C11_diag_sq_col.

(* ... and written out: output noises enter the inertial block through Fig Jg / Fia Ja, every parameter
   block has its own driving noise, no cross terms *)
Theorem C11_asm_Q_blocks :
  forall (F : realFieldType) (ni ng na vg va qg qa : nat) (Fig Fia : 'M[F]_(ni, 3))
         (Jg : 'M[F]_(3, vg)) (Ja : 'M[F]_(3, va)) (Gg : 'M[F]_(ng, qg)) (Ga : 'M[F]_(na, qa))
         (v_g : 'cV[F]_vg) (v_a : 'cV[F]_va) (q_g : 'cV[F]_qg) (q_a : 'cV[F]_qa),
  asm_Q Fig Fia Jg Ja Gg Ga v_g v_a q_g q_a =
  block_mx (Fig *m Jg *m diag_sq v_g *m (Fig *m Jg)^T + Fia *m Ja *m diag_sq v_a *m (Fia *m Ja)^T) 0
           0 (block_mx (Gg *m diag_sq q_g *m Gg^T) 0 0 (Ga *m diag_sq q_a *m Ga^T)).
Proof. exact asm_Q_blocks. Qed.
Print Assumptions C11_asm_Q_blocks.

Theorem C11_asm_Q_ok :
  forall (F : realFieldType) (ni ng na vg va qg qa : nat) (Fig Fia : 'M[F]_(ni, 3))
         (Jg : 'M[F]_(3, vg)) (Ja : 'M[F]_(3, va)) (Gg : 'M[F]_(ng, qg)) (Ga : 'M[F]_(na, qa))
         (v_g : 'cV[F]_vg) (v_a : 'cV[F]_va) (q_g : 'cV[F]_qg) (q_a : 'cV[F]_qa),
  (asm_Q Fig Fia Jg Ja Gg Ga v_g v_a q_g q_a)^T = asm_Q Fig Fia Jg Ja Gg Ga v_g v_a q_g q_a /\
  psd (asm_Q Fig Fia Jg Ja Gg Ga v_g v_a q_g q_a).
Proof. exact asm_Q_ok. Qed.
Print Assumptions C11_asm_Q_ok.

(* ---- (b) the hand-written block terms ARE the terms GENERATED from the live functions
   _initialize_covariance and _compute_error_propagation_matrices (Gen/C11Mx.v: matrix-granularity trace
   by tools/reg/c11.py on every run, validated numerically on real model objects of all sizes):
   icov_ret0 = the returned P0; epm_ret0, epm_ret1 = the F and Q = G diag(q^2) G^T handed to
   kalman.compute_process_matrices; 3 sensor axes, 9 output states. *)
Theorem C11_generated_assembly :
  forall (F : realFieldType) (ni ng na vg va qg qa : nat)
         (T : 'M[F]_(ni, 9)) (Ppva : 'M[F]_9) (Pg : 'M[F]_ng) (Pa : 'M[F]_na)
         (Fii : 'M[F]_ni) (Fig Fia : 'M[F]_(ni, 3)) (Hg : 'M[F]_(3, ng)) (Ha : 'M[F]_(3, na))
         (Fg : 'M[F]_ng) (Fa : 'M[F]_na) (Jg : 'M[F]_(3, vg)) (Ja : 'M[F]_(3, va))
         (Gg : 'M[F]_(ng, qg)) (Ga : 'M[F]_(na, qa))
         (v_g : 'cV[F]_vg) (v_a : 'cV[F]_va) (q_g : 'cV[F]_qg) (q_a : 'cV[F]_qa),
  [/\ icov_ret0 T Ppva Pg Pa = init_cov T Ppva Pg Pa,
      epm_ret0 Fii Fig Fia Hg Ha Fg Fa = asm_F Fii Fig Fia Hg Ha Fg Fa
    & epm_ret1 Fig Fia Jg Ja Gg Ga v_g v_a q_g q_a = asm_Q Fig Fia Jg Ja Gg Ga v_g v_a q_g q_a].
Proof. exact generated_assembly. Qed.
Print Assumptions C11_generated_assembly.

(* ---- (d) Tier B ------------------------------------------------------------------------------ *)
(* one stage, completing the square: for EVERY x
     |x - xb|^2_{P^-1} + |z - H x|^2_{R^-1} = |z - H xb|^2_{S^-1} + |x - x+|^2_{P^-1 + H^T R^-1 H} *)
Theorem C11_key_identity :
  forall (F : realFieldType) (n m : nat) (xb : 'cV[F]_n) (P : 'M[F]_n) (z : 'cV[F]_m)
         (H : 'M[F]_(m, n)) (R : 'M[F]_m),
  P^T = P -> pd P -> R^T = R -> pd R ->
  forall x : 'cV[F]_n,
  wls_cost xb P z H R x =
  qform (invmx (innov_cov P H R)) (z - H *m xb) + qform (info_mx P H R) (x - cond_mean xb P z H R).
Proof. exact key_identity. Qed.
Print Assumptions C11_key_identity.

(* one stage: prior + one measurement block = weighted least squares of the stacked system
   [I; H] x = [xb; z], weight diag(P^-1, R^-1): estimate, covariance, unique minimiser *)
Theorem C11_single_stage_wls :
  forall (F : realFieldType) (n m : nat) (xb : 'cV[F]_n) (P : 'M[F]_n) (z : 'cV[F]_m)
         (H : 'M[F]_(m, n)) (R : 'M[F]_m),
  P^T = P -> pd P -> R^T = R -> pd R ->
  [/\ wls_est xb P z H R = cond_mean xb P z H R,
      wls_cov P H R = cond_cov P H R,
      forall x : 'cV[F]_n, wls_cost xb P z H R (cond_mean xb P z H R) <= wls_cost xb P z H R x
    & forall x : 'cV[F]_n,
        wls_cost xb P z H R x = wls_cost xb P z H R (cond_mean xb P z H R) -> x = cond_mean xb P z H R].
Proof. exact single_stage_wls. Qed.
Print Assumptions C11_single_stage_wls.

(* N stages (any N, any dimensions, ANY Phi_k and H_k; P0, R_k, Qd_k symmetric positive definite):
   traj_cost N x is the weighted least squares objective of the stacked system in x_0 .. x_N
   (prior, N measurement blocks, N transition pseudo-measurements); the state (xN, PN) of the
   recursion of the GENERATED code satisfies: min over x_0..x_{N-1} of the objective, as a function of
   x_N = y, is  (sum of squared normalised innovations) + |y - xN|^2_{PN^-1}.  Hence xN is the last
   block of every minimiser of the stacked problem and PN^-1 its information matrix. *)
Theorem C11_kalman_eq_batch_pd :
  forall (F : realFieldType) (n : nat) (md : nat -> nat) (zs : forall k : nat, 'cV[F]_(md k))
         (Hs : forall k : nat, 'M[F]_(md k, n)) (Rs : forall k : nat, 'M[F]_(md k))
         (Phis Qds : nat -> 'M[F]_n) (chols : forall k : nat, 'M[F]_(md k) -> 'M[F]_(md k))
         (xb : 'cV[F]_n) (P0 : 'M[F]_n),
  P0^T = P0 -> pd P0 ->
  (forall k : nat, (Rs k)^T = Rs k) -> (forall k : nat, pd (Rs k)) ->
  (forall k : nat, (Qds k)^T = Qds k) -> (forall k : nat, pd (Qds k)) ->
  forall N : nat,
  (forall k : nat, (k < N)%N -> chol_ok zs Hs Rs Phis Qds chols xb P0 k) ->
  let xN := (kf_run zs Hs Rs Phis Qds chols N (xb, P0)).1 in
  let PN := (kf_run zs Hs Rs Phis Qds chols N (xb, P0)).2 in
  [/\ PN^T = PN /\ pd PN,
      forall x : nat -> 'cV[F]_n,
        innov_cost zs Hs Rs Phis Qds chols xb P0 N + qform (invmx PN) (x N - xN)
        <= traj_cost zs Hs Rs Phis Qds xb P0 N x,
      forall y : 'cV[F]_n, exists x : nat -> 'cV[F]_n,
        x N = y /\
        traj_cost zs Hs Rs Phis Qds xb P0 N x =
        innov_cost zs Hs Rs Phis Qds chols xb P0 N + qform (invmx PN) (y - xN),
      (forall x : nat -> 'cV[F]_n,
         innov_cost zs Hs Rs Phis Qds chols xb P0 N <= traj_cost zs Hs Rs Phis Qds xb P0 N x) /\
      (exists x : nat -> 'cV[F]_n,
         x N = xN /\ traj_cost zs Hs Rs Phis Qds xb P0 N x = innov_cost zs Hs Rs Phis Qds chols xb P0 N)
    & forall x : nat -> 'cV[F]_n,
        traj_cost zs Hs Rs Phis Qds xb P0 N x = innov_cost zs Hs Rs Phis Qds chols xb P0 N -> x N = xN].
Proof. exact kalman_eq_batch_pd. Qed.
Print Assumptions C11_kalman_eq_batch_pd.

(* ---- (d') Tier B for SINGULAR process noise: the class of the real system -------------------------
   Qd_k = Gam_k Gam_k^T with ARBITRARY Gam_k (any rank, also 0), Phi_k invertible (a matrix exponential
   always is), P0 and R_k symmetric positive definite, any N, any dimensions.  The batch problem is
   noise-parametrised: free variables (x_0, w_0 .. w_{N-1}), states generated by
   x_{k+1} = Phi_k x_k + Gam_k w_k (nstate), objective
       |x_0 - xb|^2_{P0^-1} + sum_k |w_k|^2 + sum_k |z_k - H_k x_k|^2_{R_k^-1}      (noise_cost)
   -- no inverse of Qd anywhere. *)

(* the propagation step: S = Phi P Phi^T + Gam Gam^T is positive definite, and for every (d, w) with
   Phi d + Gam w = r:  |d|^2_{P^-1} + |w|^2 = r^T S^-1 r + |d - P Phi^T S^-1 r|^2_{P^-1} + |w - Gam^T S^-1 r|^2,
   the optimum (prop_dopt, prop_wopt) being feasible *)
Theorem C11_prop_identity :
  forall (F : realFieldType) (n p : nat) (P Phi : 'M[F]_n) (Gam : 'M[F]_(n, p)),
  P^T = P -> pd P -> Phi \in unitmx ->
  pd (Phi *m P *m Phi^T + Gam *m Gam^T) /\
  (forall r : 'cV[F]_n, Phi *m prop_dopt P Phi Gam r + Gam *m prop_wopt P Phi Gam r = r) /\
  forall (d : 'cV[F]_n) (w : 'cV[F]_p) (r : 'cV[F]_n),
  Phi *m d + Gam *m w = r ->
  qform (invmx P) d + qform 1%:M w =
  qform (invmx (Phi *m P *m Phi^T + Gam *m Gam^T)) r +
  (qform (invmx P) (d - prop_dopt P Phi Gam r) + qform 1%:M (w - prop_wopt P Phi Gam r)).
Proof. exact prop_identity_full. Qed.
Print Assumptions C11_prop_identity.

(* any N: the cost-to-arrive at x_N = y (minimum of the objective over all (x_0, w) whose generated state
   at N is y) is (sum of squared normalised innovations) + |y - xN|^2_{PN^-1}, (xN, PN) = the state of the
   recursion of the GENERATED code with P <- Phi P Phi^T + Gam Gam^T.  Hence xN is the final state of
   every minimiser of the batch problem and PN^-1 its information matrix. *)
Theorem C11_kalman_eq_batch_singular_noise :
  forall (F : realFieldType) (n p : nat) (md : nat -> nat) (zs : forall k : nat, 'cV[F]_(md k))
         (Hs : forall k : nat, 'M[F]_(md k, n)) (Rs : forall k : nat, 'M[F]_(md k))
         (Phis : nat -> 'M[F]_n) (Gams : nat -> 'M[F]_(n, p))
         (chols : forall k : nat, 'M[F]_(md k) -> 'M[F]_(md k)) (xb : 'cV[F]_n) (P0 : 'M[F]_n),
  P0^T = P0 -> pd P0 ->
  (forall k : nat, (Rs k)^T = Rs k) -> (forall k : nat, pd (Rs k)) ->
  (forall k : nat, Phis k \in unitmx) ->
  forall N : nat,
  (forall k : nat, (k < N)%N -> chol_ok zs Hs Rs Phis (gram_Qd Gams) chols xb P0 k) ->
  let xN := (kf_run zs Hs Rs Phis (gram_Qd Gams) chols N (xb, P0)).1 in
  let PN := (kf_run zs Hs Rs Phis (gram_Qd Gams) chols N (xb, P0)).2 in
  let icost := innov_cost zs Hs Rs Phis (gram_Qd Gams) chols xb P0 in
  let J := noise_cost zs Hs Rs Phis Gams xb P0 in
  let xs := nstate Phis Gams in
  [/\ PN^T = PN /\ pd PN,
      forall (x0 : 'cV[F]_n) (w : nat -> 'cV[F]_p), icost N + qform (invmx PN) (xs x0 w N - xN) <= J N x0 w,
      forall y : 'cV[F]_n, exists (x0 : 'cV[F]_n) (w : nat -> 'cV[F]_p),
        xs x0 w N = y /\ J N x0 w = icost N + qform (invmx PN) (y - xN),
      (forall (x0 : 'cV[F]_n) (w : nat -> 'cV[F]_p), icost N <= J N x0 w) /\
      (exists (x0 : 'cV[F]_n) (w : nat -> 'cV[F]_p), xs x0 w N = xN /\ J N x0 w = icost N)
    & forall (x0 : 'cV[F]_n) (w : nat -> 'cV[F]_p), J N x0 w = icost N -> xs x0 w N = xN].
Proof. exact kalman_eq_batch_singular_noise. Qed.
Print Assumptions C11_kalman_eq_batch_singular_noise.

(* non-vacuity with a singular Qd: two states, the noise drives only the first (Gam = (1; 0), rank 1 < 2),
   P0 = 3 I, H = (1 0), R = 1 (S = 4, L = 2), Phi = I *)
Example C11_ex_batch_singular_hypotheses :
  forall F : realFieldType,
  let md := fun _ : nat => 1%N in
  let zs := fun _ : nat => (0 : 'cV[F]_1) in
  let Hs := fun _ : nat => (row_mx 1%:M 0 : 'M[F]_(1, 1 + 1)) in
  let Rs := fun _ : nat => (1%:M : 'M[F]_1) in
  let Phis := fun _ : nat => (1%:M : 'M[F]_(1 + 1)) in
  let Gams := fun _ : nat => (col_mx 1%:M 0 : 'M[F]_(1 + 1, 1)) in
  let chols := fun (_ : nat) (_ : 'M[F]_1) => (2%:R%:M : 'M[F]_1) in
  let P0 : 'M[F]_(1 + 1) := 3%:R%:M in
  [/\ P0^T = P0 /\ pd P0, (forall k, (Rs k)^T = Rs k) /\ (forall k, pd (Rs k)),
      forall k, Phis k \in unitmx,
      forall k, (\rank (Gams k) < 1 + 1)%N /\ (\rank (gram_Qd Gams k) < 1 + 1)%N
    & forall k, (k < 1)%N -> @chol_ok F (1 + 1) md zs Hs Rs Phis (gram_Qd Gams) chols 0 P0 k].
Proof. exact example_batch_singular. Qed.

(* non-vacuity of Tier B: one stage, 1 x 1: P0 = 3, H = 1, R = 1 (S = 4, L = 2), Phi = 1, Qd = 1 *)
Example C11_ex_batch_hypotheses :
  forall F : realFieldType,
  let md := fun _ : nat => 1%N in
  let zs := fun _ : nat => (0 : 'cV[F]_1) in
  let Hs := fun _ : nat => (1%:M : 'M[F]_1) in
  let Rs := fun _ : nat => (1%:M : 'M[F]_1) in
  let Phis := fun _ : nat => (1%:M : 'M[F]_1) in
  let Qds := fun _ : nat => (1%:M : 'M[F]_1) in
  let chols := fun (_ : nat) (_ : 'M[F]_1) => (2%:R%:M : 'M[F]_1) in
  let P0 : 'M[F]_1 := 3%:R%:M in
  [/\ P0^T = P0 /\ pd P0, (forall k, (Rs k)^T = Rs k) /\ (forall k, pd (Rs k)),
      (forall k, (Qds k)^T = Qds k) /\ (forall k, pd (Qds k))
    & forall k, (k < 1)%N -> @chol_ok F 1 md zs Hs Rs Phis Qds chols 0 P0 k].
Proof. exact example_batch. Qed.

(* non-vacuity of the hypotheses of C11_kalman_flow_spec over any real field (a block with H = 0) *)
Example C11_ex_flow_hypotheses :
  forall (F : realFieldType) (ni ng na : nat),
  let mdim := fun _ : nat => 1%N in
  let Hf := fun (_ : nat) (_ : Q) => (0 : 'M[F]_(1, ni)) in
  let Rf := fun _ : nat => (1%:M : 'M[F]_1) in
  let chol := fun (_ : nat) (_ : 'M[F]_1) => (1%:M : 'M[F]_1) in
  [/\ forall k, (Rf k)^T = Rf k, forall k, pd (Rf k)
    & forall k m (P : 'M[F]_(ni + (ng + na))), P^T = P -> psd P ->
        cholesky_factor (chol k) (correct_S P (@h_full F ni ng na mdim Hf k m) (Rf k))].
Proof. exact example_flow_hyps. Qed.
