(** C01 — Strapdown integration converges to the true navigation solution.

    Statements are about the definitions GENERATED from /repo:
      Gen/NumbaIntegrate.v  step3d_<out> = one iteration of the loop of _numba_integrate.integrate
                            (with_altitude = True), mat_from_rotvec_mij, nb_gravity_g;
      Gen/C01Gen.v          inc_rate_<out>, inc_incr_<out> = one row of
                            strapdown.compute_increments_from_imu for the two sensor types,
    against the hand-written hub specification Spec/NavODE.v (nav_rhs_<out>).

    Proved:    step_zero, step_consistent (15 components), increments_consistent (both sensor
               types, hand transcription and generated formulas), the abstract one-step
               convergence theorem (discrete Gronwall), the halving lemma, the vanishing bound.
    PARTIAL:   strapdown_converges_partial / strapdown_converges_limit_partial state the end-to-end
               convergence of the generated kernel WITH the two uniformity hypotheses (stability
               constant L on a region D, local-error constant C along the exact solution) as
               visible premises: these constants are NOT proved for the concrete kernel.
               Full statement that is not proved: for every smooth signal pair and initial state in
               the property's domain there exist D, L, C such that the premises hold (and hence
               err(h) <= C h (e^{LT}-1)/L -> 0). *)
From Coq Require Import Reals.
From Coquelicot Require Import Coquelicot.
From PV Require Import Base.RealTac Spec.Ellipsoid Spec.NavODE Gen.NumbaIntegrate Gen.C01Gen Model.KernelHand.
From PV Require Import Proofs.C01Proofs.
Open Scope R_scope.

(** a step of zero length with zero increments returns the state unchanged (no O(1) error term) *)
Theorem C01_step_zero :
  forall (lat lon alt VN VE VD C00 C01 C02 C10 C11 C12 C20 C21 C22 : R),
  step3d_lat 0 lat lon alt VN VE VD C00 C01 C02 C10 C11 C12 C20 C21 C22 0 0 0 0 0 0 = lat /\
  step3d_lon 0 lat lon alt VN VE VD C00 C01 C02 C10 C11 C12 C20 C21 C22 0 0 0 0 0 0 = lon /\
  step3d_alt 0 lat lon alt VN VE VD C00 C01 C02 C10 C11 C12 C20 C21 C22 0 0 0 0 0 0 = alt /\
  step3d_VN 0 lat lon alt VN VE VD C00 C01 C02 C10 C11 C12 C20 C21 C22 0 0 0 0 0 0 = VN /\
  step3d_VE 0 lat lon alt VN VE VD C00 C01 C02 C10 C11 C12 C20 C21 C22 0 0 0 0 0 0 = VE /\
  step3d_VD 0 lat lon alt VN VE VD C00 C01 C02 C10 C11 C12 C20 C21 C22 0 0 0 0 0 0 = VD /\
  step3d_C00 0 lat lon alt VN VE VD C00 C01 C02 C10 C11 C12 C20 C21 C22 0 0 0 0 0 0 = C00 /\
  step3d_C01 0 lat lon alt VN VE VD C00 C01 C02 C10 C11 C12 C20 C21 C22 0 0 0 0 0 0 = C01 /\
  step3d_C02 0 lat lon alt VN VE VD C00 C01 C02 C10 C11 C12 C20 C21 C22 0 0 0 0 0 0 = C02 /\
  step3d_C10 0 lat lon alt VN VE VD C00 C01 C02 C10 C11 C12 C20 C21 C22 0 0 0 0 0 0 = C10 /\
  step3d_C11 0 lat lon alt VN VE VD C00 C01 C02 C10 C11 C12 C20 C21 C22 0 0 0 0 0 0 = C11 /\
  step3d_C12 0 lat lon alt VN VE VD C00 C01 C02 C10 C11 C12 C20 C21 C22 0 0 0 0 0 0 = C12 /\
  step3d_C20 0 lat lon alt VN VE VD C00 C01 C02 C10 C11 C12 C20 C21 C22 0 0 0 0 0 0 = C20 /\
  step3d_C21 0 lat lon alt VN VE VD C00 C01 C02 C10 C11 C12 C20 C21 C22 0 0 0 0 0 0 = C21 /\
  step3d_C22 0 lat lon alt VN VE VD C00 C01 C02 C10 C11 C12 C20 C21 C22 0 0 0 0 0 0 = C22.
Proof. exact step_zero. Qed.
Print Assumptions C01_step_zero.

(** first-order consistency, position: d/dt of the new lat/lon/alt along differentiable increment curves
    (theta(0) = dv(0) = 0, theta'(0) = w, dv'(0) = f) at dt = 0 equals the right-hand side of the navigation ODE *)
Theorem C01_step_consistent_position :
  forall (lat lon alt VN VE VD C00 C01 C02 C10 C11 C12 C20 C21 C22 w0 w1 w2 f0 f1 f2 : R) (th0 th1 th2 dv0 dv1 dv2 : R -> R),
  -90 < lat < 90 -> -1000000 <= alt ->
  th0 0 = 0 -> th1 0 = 0 -> th2 0 = 0 -> dv0 0 = 0 -> dv1 0 = 0 -> dv2 0 = 0 ->
  is_derive th0 0 w0 -> is_derive th1 0 w1 -> is_derive th2 0 w2 ->
  is_derive dv0 0 f0 -> is_derive dv1 0 f1 -> is_derive dv2 0 f2 ->
  is_derive (fun dt => step3d_lat dt lat lon alt VN VE VD C00 C01 C02 C10 C11 C12 C20 C21 C22 (th0 dt) (th1 dt) (th2 dt) (dv0 dt) (dv1 dt) (dv2 dt)) 0
    (nav_rhs_lat lat lon alt VN VE VD C00 C01 C02 C10 C11 C12 C20 C21 C22 w0 w1 w2 f0 f1 f2) /\
  is_derive (fun dt => step3d_lon dt lat lon alt VN VE VD C00 C01 C02 C10 C11 C12 C20 C21 C22 (th0 dt) (th1 dt) (th2 dt) (dv0 dt) (dv1 dt) (dv2 dt)) 0
    (nav_rhs_lon lat lon alt VN VE VD C00 C01 C02 C10 C11 C12 C20 C21 C22 w0 w1 w2 f0 f1 f2) /\
  is_derive (fun dt => step3d_alt dt lat lon alt VN VE VD C00 C01 C02 C10 C11 C12 C20 C21 C22 (th0 dt) (th1 dt) (th2 dt) (dv0 dt) (dv1 dt) (dv2 dt)) 0
    (nav_rhs_alt lat lon alt VN VE VD C00 C01 C02 C10 C11 C12 C20 C21 C22 w0 w1 w2 f0 f1 f2).
Proof. exact step_consistent_position. Qed.
Print Assumptions C01_step_consistent_position.

Example C01_step_consistent_hyps_example :
  let th0 := fun t : R => 1 * t in let th1 := fun t : R => -2 * t in let th2 := fun t : R => 3 * t in
  let dv0 := fun t : R => 1 / 2 * t in let dv1 := fun t : R => -1 * t in let dv2 := fun t : R => -9 * t in
  -90 < 45 < 90 /\ -1000000 <= 100 /\
  th0 0 = 0 /\ th1 0 = 0 /\ th2 0 = 0 /\ dv0 0 = 0 /\ dv1 0 = 0 /\ dv2 0 = 0 /\
  is_derive th0 0 1 /\ is_derive th1 0 (-2) /\ is_derive th2 0 3 /\
  is_derive dv0 0 (1 / 2) /\ is_derive dv1 0 (-1) /\ is_derive dv2 0 (-9).
Proof. exact step_consistent_hyps_example. Qed.

(** first-order consistency, velocity (Coriolis, transport rate, gravity, C f) *)
Theorem C01_step_consistent_velocity :
  forall (lat lon alt VN VE VD C00 C01 C02 C10 C11 C12 C20 C21 C22 w0 w1 w2 f0 f1 f2 : R) (th0 th1 th2 dv0 dv1 dv2 : R -> R),
  -90 < lat < 90 -> -1000000 <= alt ->
  th0 0 = 0 -> th1 0 = 0 -> th2 0 = 0 -> dv0 0 = 0 -> dv1 0 = 0 -> dv2 0 = 0 ->
  is_derive th0 0 w0 -> is_derive th1 0 w1 -> is_derive th2 0 w2 ->
  is_derive dv0 0 f0 -> is_derive dv1 0 f1 -> is_derive dv2 0 f2 ->
  is_derive (fun dt => step3d_VN dt lat lon alt VN VE VD C00 C01 C02 C10 C11 C12 C20 C21 C22 (th0 dt) (th1 dt) (th2 dt) (dv0 dt) (dv1 dt) (dv2 dt)) 0
    (nav_rhs_VN lat lon alt VN VE VD C00 C01 C02 C10 C11 C12 C20 C21 C22 w0 w1 w2 f0 f1 f2) /\
  is_derive (fun dt => step3d_VE dt lat lon alt VN VE VD C00 C01 C02 C10 C11 C12 C20 C21 C22 (th0 dt) (th1 dt) (th2 dt) (dv0 dt) (dv1 dt) (dv2 dt)) 0
    (nav_rhs_VE lat lon alt VN VE VD C00 C01 C02 C10 C11 C12 C20 C21 C22 w0 w1 w2 f0 f1 f2) /\
  is_derive (fun dt => step3d_VD dt lat lon alt VN VE VD C00 C01 C02 C10 C11 C12 C20 C21 C22 (th0 dt) (th1 dt) (th2 dt) (dv0 dt) (dv1 dt) (dv2 dt)) 0
    (nav_rhs_VD lat lon alt VN VE VD C00 C01 C02 C10 C11 C12 C20 C21 C22 w0 w1 w2 f0 f1 f2).
Proof. exact step_consistent_velocity. Qed.
Print Assumptions C01_step_consistent_velocity.

(** first-order consistency, attitude: C' = C [w x] - [(Omega + rho) x] C, all nine entries *)
Theorem C01_step_consistent_attitude :
  forall (lat lon alt VN VE VD C00 C01 C02 C10 C11 C12 C20 C21 C22 w0 w1 w2 f0 f1 f2 : R) (th0 th1 th2 dv0 dv1 dv2 : R -> R),
  -90 < lat < 90 -> -1000000 <= alt ->
  th0 0 = 0 -> th1 0 = 0 -> th2 0 = 0 -> dv0 0 = 0 -> dv1 0 = 0 -> dv2 0 = 0 ->
  is_derive th0 0 w0 -> is_derive th1 0 w1 -> is_derive th2 0 w2 ->
  is_derive dv0 0 f0 -> is_derive dv1 0 f1 -> is_derive dv2 0 f2 ->
  is_derive (fun dt => step3d_C00 dt lat lon alt VN VE VD C00 C01 C02 C10 C11 C12 C20 C21 C22 (th0 dt) (th1 dt) (th2 dt) (dv0 dt) (dv1 dt) (dv2 dt)) 0
    (nav_rhs_C00 lat lon alt VN VE VD C00 C01 C02 C10 C11 C12 C20 C21 C22 w0 w1 w2 f0 f1 f2) /\
  is_derive (fun dt => step3d_C01 dt lat lon alt VN VE VD C00 C01 C02 C10 C11 C12 C20 C21 C22 (th0 dt) (th1 dt) (th2 dt) (dv0 dt) (dv1 dt) (dv2 dt)) 0
    (nav_rhs_C01 lat lon alt VN VE VD C00 C01 C02 C10 C11 C12 C20 C21 C22 w0 w1 w2 f0 f1 f2) /\
  is_derive (fun dt => step3d_C02 dt lat lon alt VN VE VD C00 C01 C02 C10 C11 C12 C20 C21 C22 (th0 dt) (th1 dt) (th2 dt) (dv0 dt) (dv1 dt) (dv2 dt)) 0
    (nav_rhs_C02 lat lon alt VN VE VD C00 C01 C02 C10 C11 C12 C20 C21 C22 w0 w1 w2 f0 f1 f2) /\
  is_derive (fun dt => step3d_C10 dt lat lon alt VN VE VD C00 C01 C02 C10 C11 C12 C20 C21 C22 (th0 dt) (th1 dt) (th2 dt) (dv0 dt) (dv1 dt) (dv2 dt)) 0
    (nav_rhs_C10 lat lon alt VN VE VD C00 C01 C02 C10 C11 C12 C20 C21 C22 w0 w1 w2 f0 f1 f2) /\
  is_derive (fun dt => step3d_C11 dt lat lon alt VN VE VD C00 C01 C02 C10 C11 C12 C20 C21 C22 (th0 dt) (th1 dt) (th2 dt) (dv0 dt) (dv1 dt) (dv2 dt)) 0
    (nav_rhs_C11 lat lon alt VN VE VD C00 C01 C02 C10 C11 C12 C20 C21 C22 w0 w1 w2 f0 f1 f2) /\
  is_derive (fun dt => step3d_C12 dt lat lon alt VN VE VD C00 C01 C02 C10 C11 C12 C20 C21 C22 (th0 dt) (th1 dt) (th2 dt) (dv0 dt) (dv1 dt) (dv2 dt)) 0
    (nav_rhs_C12 lat lon alt VN VE VD C00 C01 C02 C10 C11 C12 C20 C21 C22 w0 w1 w2 f0 f1 f2) /\
  is_derive (fun dt => step3d_C20 dt lat lon alt VN VE VD C00 C01 C02 C10 C11 C12 C20 C21 C22 (th0 dt) (th1 dt) (th2 dt) (dv0 dt) (dv1 dt) (dv2 dt)) 0
    (nav_rhs_C20 lat lon alt VN VE VD C00 C01 C02 C10 C11 C12 C20 C21 C22 w0 w1 w2 f0 f1 f2) /\
  is_derive (fun dt => step3d_C21 dt lat lon alt VN VE VD C00 C01 C02 C10 C11 C12 C20 C21 C22 (th0 dt) (th1 dt) (th2 dt) (dv0 dt) (dv1 dt) (dv2 dt)) 0
    (nav_rhs_C21 lat lon alt VN VE VD C00 C01 C02 C10 C11 C12 C20 C21 C22 w0 w1 w2 f0 f1 f2) /\
  is_derive (fun dt => step3d_C22 dt lat lon alt VN VE VD C00 C01 C02 C10 C11 C12 C20 C21 C22 (th0 dt) (th1 dt) (th2 dt) (dv0 dt) (dv1 dt) (dv2 dt)) 0
    (nav_rhs_C22 lat lon alt VN VE VD C00 C01 C02 C10 C11 C12 C20 C21 C22 w0 w1 w2 f0 f1 f2).
Proof. exact step_consistent_attitude. Qed.
Print Assumptions C01_step_consistent_attitude.

(** rate-type sensor (generated formulas): the increments computed from the samples w(t0), w(t0+dt), f(t0), f(t0+dt)
    satisfy the premises of step_consistent with w = w(t0), f = f(t0); the dt column is the index difference *)
Theorem C01_increments_consistent_rate_gen :
  forall (w0 w1 w2 f0 f1 f2 : R -> R) (t0 : R),
  ex_derive w0 t0 -> ex_derive w1 t0 -> ex_derive w2 t0 ->
  ex_derive f0 t0 -> ex_derive f1 t0 -> ex_derive f2 t0 ->
  let row := fun (out : R -> R -> R -> R -> R -> R -> R -> R -> R -> R -> R -> R -> R -> R -> R) (dt : R) =>
    out dt (w0 t0) (w1 t0) (w2 t0) (w0 (t0 + dt)) (w1 (t0 + dt)) (w2 (t0 + dt))
           (f0 t0) (f1 t0) (f2 t0) (f0 (t0 + dt)) (f1 (t0 + dt)) (f2 (t0 + dt)) t0 in
  (forall dt, row inc_rate_odt dt = dt) /\
  (row inc_rate_th0 0 = 0 /\ row inc_rate_th1 0 = 0 /\ row inc_rate_th2 0 = 0 /\
   row inc_rate_dv0 0 = 0 /\ row inc_rate_dv1 0 = 0 /\ row inc_rate_dv2 0 = 0) /\
  (is_derive (row inc_rate_th0) 0 (w0 t0) /\ is_derive (row inc_rate_th1) 0 (w1 t0) /\
   is_derive (row inc_rate_th2) 0 (w2 t0)) /\
  (is_derive (row inc_rate_dv0) 0 (f0 t0) /\ is_derive (row inc_rate_dv1) 0 (f1 t0) /\
   is_derive (row inc_rate_dv2) 0 (f2 t0)).
Proof. exact increments_consistent_rate_gen. Qed.
Print Assumptions C01_increments_consistent_rate_gen.

Example C01_increments_rate_hyps_example :
  let w := fun t : R => 1 + 2 * t in ex_derive w 0.
Proof. exact increments_rate_hyps_example. Qed.

(** increment-type sensor (generated formulas): samples are integrals over the previous and the current interval *)
Theorem C01_increments_consistent_increment_gen :
  forall (G0 G1 G2 F0 F1 F2 : R -> R) (w0 w1 w2 f0 f1 f2 t0 : R),
  is_derive G0 0 w0 -> is_derive G1 0 w1 -> is_derive G2 0 w2 ->
  is_derive F0 0 f0 -> is_derive F1 0 f1 -> is_derive F2 0 f2 ->
  let row := fun (out : R -> R -> R -> R -> R -> R -> R -> R -> R -> R -> R -> R -> R -> R -> R) (dt : R) =>
    out dt (h_prv G0 dt) (h_prv G1 dt) (h_prv G2 dt) (h_cur G0 dt) (h_cur G1 dt) (h_cur G2 dt)
           (h_prv F0 dt) (h_prv F1 dt) (h_prv F2 dt) (h_cur F0 dt) (h_cur F1 dt) (h_cur F2 dt) t0 in
  (forall dt, row inc_incr_odt dt = dt) /\
  (row inc_incr_th0 0 = 0 /\ row inc_incr_th1 0 = 0 /\ row inc_incr_th2 0 = 0 /\
   row inc_incr_dv0 0 = 0 /\ row inc_incr_dv1 0 = 0 /\ row inc_incr_dv2 0 = 0) /\
  (is_derive (row inc_incr_th0) 0 w0 /\ is_derive (row inc_incr_th1) 0 w1 /\ is_derive (row inc_incr_th2) 0 w2) /\
  (is_derive (row inc_incr_dv0) 0 f0 /\ is_derive (row inc_incr_dv1) 0 f1 /\ is_derive (row inc_incr_dv2) 0 f2).
Proof. exact increments_consistent_increment_gen. Qed.
Print Assumptions C01_increments_consistent_increment_gen.

Example C01_increments_increment_hyps_example :
  let G := fun t : R => t + t * t in is_derive G 0 1.
Proof. exact increments_increment_hyps_example. Qed.

(** the same two statements on the hand transcription h_rate_* / h_incr_* (Model/KernelHand.v) *)
Theorem C01_increments_consistent_rate :
  forall (w0 w1 w2 f0 f1 f2 : R -> R),
  ex_derive w0 0 -> ex_derive w1 0 -> ex_derive w2 0 ->
  ex_derive f0 0 -> ex_derive f1 0 -> ex_derive f2 0 ->
  let th0 := fun dt => h_rate_theta0 dt (w0 0) (w1 0) (w2 0) (w0 dt) (w1 dt) (w2 dt) in
  let th1 := fun dt => h_rate_theta1 dt (w0 0) (w1 0) (w2 0) (w0 dt) (w1 dt) (w2 dt) in
  let th2 := fun dt => h_rate_theta2 dt (w0 0) (w1 0) (w2 0) (w0 dt) (w1 dt) (w2 dt) in
  let dv0 := fun dt => h_rate_dv0 dt (w0 0) (w1 0) (w2 0) (w0 dt) (w1 dt) (w2 dt) (f0 0) (f1 0) (f2 0) (f0 dt) (f1 dt) (f2 dt) in
  let dv1 := fun dt => h_rate_dv1 dt (w0 0) (w1 0) (w2 0) (w0 dt) (w1 dt) (w2 dt) (f0 0) (f1 0) (f2 0) (f0 dt) (f1 dt) (f2 dt) in
  let dv2 := fun dt => h_rate_dv2 dt (w0 0) (w1 0) (w2 0) (w0 dt) (w1 dt) (w2 dt) (f0 0) (f1 0) (f2 0) (f0 dt) (f1 dt) (f2 dt) in
  (th0 0 = 0 /\ th1 0 = 0 /\ th2 0 = 0 /\ dv0 0 = 0 /\ dv1 0 = 0 /\ dv2 0 = 0) /\
  (is_derive th0 0 (w0 0) /\ is_derive th1 0 (w1 0) /\ is_derive th2 0 (w2 0)) /\
  (is_derive dv0 0 (f0 0) /\ is_derive dv1 0 (f1 0) /\ is_derive dv2 0 (f2 0)).
Proof. exact increments_consistent_rate. Qed.
Print Assumptions C01_increments_consistent_rate.

Theorem C01_increments_consistent_increment :
  forall (G0 G1 G2 F0 F1 F2 : R -> R) (w0 w1 w2 f0 f1 f2 : R),
  is_derive G0 0 w0 -> is_derive G1 0 w1 -> is_derive G2 0 w2 ->
  is_derive F0 0 f0 -> is_derive F1 0 f1 -> is_derive F2 0 f2 ->
  let cur := h_cur in       (* cur W dt = integral of W' over [0, dt] *)
  let prv := h_prv in       (* prv W dt = integral of W' over [-dt, 0] *)
  let th0 := fun dt => h_incr_theta0 (prv G0 dt) (prv G1 dt) (prv G2 dt) (cur G0 dt) (cur G1 dt) (cur G2 dt) in
  let th1 := fun dt => h_incr_theta1 (prv G0 dt) (prv G1 dt) (prv G2 dt) (cur G0 dt) (cur G1 dt) (cur G2 dt) in
  let th2 := fun dt => h_incr_theta2 (prv G0 dt) (prv G1 dt) (prv G2 dt) (cur G0 dt) (cur G1 dt) (cur G2 dt) in
  let dv0 := fun dt => h_incr_dv0 (prv G0 dt) (prv G1 dt) (prv G2 dt) (cur G0 dt) (cur G1 dt) (cur G2 dt)
                                  (prv F0 dt) (prv F1 dt) (prv F2 dt) (cur F0 dt) (cur F1 dt) (cur F2 dt) in
  let dv1 := fun dt => h_incr_dv1 (prv G0 dt) (prv G1 dt) (prv G2 dt) (cur G0 dt) (cur G1 dt) (cur G2 dt)
                                  (prv F0 dt) (prv F1 dt) (prv F2 dt) (cur F0 dt) (cur F1 dt) (cur F2 dt) in
  let dv2 := fun dt => h_incr_dv2 (prv G0 dt) (prv G1 dt) (prv G2 dt) (cur G0 dt) (cur G1 dt) (cur G2 dt)
                                  (prv F0 dt) (prv F1 dt) (prv F2 dt) (cur F0 dt) (cur F1 dt) (cur F2 dt) in
  (th0 0 = 0 /\ th1 0 = 0 /\ th2 0 = 0 /\ dv0 0 = 0 /\ dv1 0 = 0 /\ dv2 0 = 0) /\
  (is_derive th0 0 w0 /\ is_derive th1 0 w1 /\ is_derive th2 0 w2) /\
  (is_derive dv0 0 f0 /\ is_derive dv1 0 f1 /\ is_derive dv2 0 f2).
Proof. exact increments_consistent_increment. Qed.
Print Assumptions C01_increments_consistent_increment.

(** abstract convergence of one-step methods (discrete Gronwall) *)
Theorem C01_one_step_convergence :
  forall (X : Type) (dist : X -> X -> R) (D : X -> Prop) (Phi : nat -> X -> X) (sol : R -> X) (L C T h : R),
  (forall x y z, dist x z <= dist x y + dist y z) -> (forall x, dist x x = 0) ->
  0 < L -> 0 <= C -> 0 < h ->
  (forall n x y, D x -> D y -> dist (Phi n x) (Phi n y) <= (1 + L * h) * dist x y) ->
  (forall n, INR (S n) * h <= T -> dist (Phi n (sol (INR n * h))) (sol (INR (S n) * h)) <= C * (h * h)) ->
  (forall n, INR n * h <= T -> D (sol (INR n * h))) ->
  (forall n, INR n * h <= T -> D (onestep_run Phi (sol 0) n)) ->
  forall n, INR n * h <= T ->
  dist (onestep_run Phi (sol 0) n) (sol (INR n * h)) <= C * h * (exp (L * T) - 1) / L.
Proof. exact one_step_convergence. Qed.
Print Assumptions C01_one_step_convergence.

Example C01_one_step_convergence_hyps_example :
  let dist := fun x y : R => Rabs (x - y) in
  let Phi := fun (n : nat) (x : R) => x + 1 / 4 in
  let sol := fun t : R => t in
  let D := fun _ : R => True in
  (forall x y z, dist x z <= dist x y + dist y z) /\ (forall x, dist x x = 0) /\
  0 < 1 /\ 0 <= 0 /\ 0 < 1 / 4 /\
  (forall n x y, D x -> D y -> dist (Phi n x) (Phi n y) <= (1 + 1 * (1 / 4)) * dist x y) /\
  (forall n, INR (S n) * (1 / 4) <= 10 ->
     dist (Phi n (sol (INR n * (1 / 4)))) (sol (INR (S n) * (1 / 4))) <= 0 * (1 / 4 * (1 / 4))) /\
  (forall n, INR n * (1 / 4) <= 10 -> D (sol (INR n * (1 / 4)))) /\
  (forall n, INR n * (1 / 4) <= 10 -> D (onestep_run Phi (sol 0) n)).
Proof. exact one_step_convergence_hyps_example. Qed.

(** the error is at most 1/(1-q) times the change caused by halving when halving contracts the error by q < 1 *)
Theorem C01_error_le_halving_change :
  forall (X : Type) (dist : X -> X -> R) (xh xh2 xs : X) (q : R),
  (forall x y z, dist x z <= dist x y + dist y z) ->
  0 <= q < 1 -> dist xh2 xs <= q * dist xh xs ->
  dist xh xs <= dist xh xh2 / (1 - q).
Proof. exact error_le_halving_change. Qed.
Print Assumptions C01_error_le_halving_change.

(** the global error bound vanishes with the interval *)
Theorem C01_bound_tends_to_zero :
  forall (L C T eps : R),
  0 < L -> 0 <= C -> 0 <= T -> 0 < eps ->
  exists h0, 0 < h0 /\ forall h, 0 < h < h0 -> C * h * (exp (L * T) - 1) / L < eps.
Proof. exact bound_tends_to_zero. Qed.
Print Assumptions C01_bound_tends_to_zero.

(** PARTIAL end-to-end statement for the generated kernel; premises 3 and 4 are the unproved uniformity hypotheses *)
Theorem C01_strapdown_converges_partial :
  forall (D : kstate -> Prop) (sol : R -> kstate) (inc : R -> nat -> kinc) (L C T : R),
  0 < L -> 0 <= C ->
  (* uniform stability of the kernel step on D *)
  (forall h n x y, 0 < h -> D x -> D y ->
     kdist (kstep h x (inc h n)) (kstep h y (inc h n)) <= (1 + L * h) * kdist x y) ->
  (* uniform second-order local error along the exact solution *)
  (forall h n, 0 < h -> INR (S n) * h <= T ->
     kdist (kstep h (sol (INR n * h)) (inc h n)) (sol (INR (S n) * h)) <= C * (h * h)) ->
  (* the exact and the numerical solution stay in D *)
  (forall t, D (sol t)) ->
  (forall h n, 0 < h -> INR n * h <= T -> D (krun h (inc h) (sol 0) n)) ->
  forall h n, 0 < h -> INR n * h <= T ->
    kdist (krun h (inc h) (sol 0) n) (sol (INR n * h)) <= C * h * (exp (L * T) - 1) / L.
Proof. exact strapdown_converges_partial. Qed.
Print Assumptions C01_strapdown_converges_partial.

Example C01_strapdown_converges_hyps_example :
  let s0 := mk_kstate 45 10 100 1 2 3 1 0 0 0 1 0 0 0 1 in
  let D := fun s : kstate => s = s0 in
  let sol := fun _ : R => s0 in
  let inc := fun (_ : R) (_ : nat) => mk_kinc 0 0 0 0 0 0 in
  0 < 1 /\ 0 <= 0 /\
  (forall h n x y, 0 < h -> D x -> D y ->
     kdist (kstep h x (inc h n)) (kstep h y (inc h n)) <= (1 + 1 * h) * kdist x y) /\
  (forall h n, 0 < h -> INR (S n) * h <= 0 ->
     kdist (kstep h (sol (INR n * h)) (inc h n)) (sol (INR (S n) * h)) <= 0 * (h * h)) /\
  (forall t, D (sol t)) /\
  (forall h n, 0 < h -> INR n * h <= 0 -> D (krun h (inc h) (sol 0) n)).
Proof. exact strapdown_converges_hyps_example. Qed.

(** PARTIAL: convergence to the exact solution as the interval shrinks, same premises *)
Theorem C01_strapdown_converges_limit_partial :
  forall (D : kstate -> Prop) (sol : R -> kstate) (inc : R -> nat -> kinc) (L C T : R),
  0 < L -> 0 <= C -> 0 <= T ->
  (forall h n x y, 0 < h -> D x -> D y ->
     kdist (kstep h x (inc h n)) (kstep h y (inc h n)) <= (1 + L * h) * kdist x y) ->
  (forall h n, 0 < h -> INR (S n) * h <= T ->
     kdist (kstep h (sol (INR n * h)) (inc h n)) (sol (INR (S n) * h)) <= C * (h * h)) ->
  (forall t, D (sol t)) ->
  (forall h n, 0 < h -> INR n * h <= T -> D (krun h (inc h) (sol 0) n)) ->
  forall eps, 0 < eps -> exists h0, 0 < h0 /\
    forall h n, 0 < h < h0 -> INR n * h <= T ->
      kdist (krun h (inc h) (sol 0) n) (sol (INR n * h)) < eps.
Proof. exact strapdown_converges_limit_partial. Qed.
Print Assumptions C01_strapdown_converges_limit_partial.
