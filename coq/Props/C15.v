(** C15 — Coning/sculling increments are high-order accurate body-frame integrals.

    Statements are about the definitions GENERATED from pyins/strapdown.py
    (compute_increments_from_imu traced on a 3-sample table: Gen/C15Gen.v; vector view
    [rate_th1], [rate_dv2], [incr_th2] ... in Proofs/C15Proofs.v: row 1 uses samples 0,1 and
    interval dt1, row 2 uses samples 1,2 and dt2; stamps are t0, t0+dt1, t0+dt1+dt2) and the
    hand-written Peano-Baker series of Spec/PeanoBaker.v (C_PB, u_PB: the unique series
    solutions mod t^4 of C' = C [w x], C(0) = I and u' = C f, u(0) = 0 for w = a + b s,
    f = d + e s; time 0 = start of the interval).

    Signals linear in time: [smp_rate a b d e s] = readings (a + b s, d + e s);
    [smp_int a b d e x y] = integrals of the same signals over [x, y].
    [px], [tx] are the sample / interval of the table that the row does not see (arbitrary).

    NOT proved (C15_partial): the order statement for general smooth (e.g. sinusoidal)
    signals.  It follows from the theorems below by Taylor's theorem with the quartic
    remainder applied to the signals and to the exact solution; Taylor's theorem with
    remainder for the matrix ODE is not formalised.  The harness tools/props/C15.py measures
    the error-vs-interval slopes on the implementation instead (numerical support). *)
From Coq Require Import Reals List.
From Coquelicot Require Import Coquelicot.
From PV Require Import Spec.PeanoBaker Gen.C15Gen Proofs.C15Proofs.
Import ListNotations.
Open Scope R_scope.

(** ** 0. The specification: the recursion-defined series solve the ODEs coefficient by
       coefficient and are the only ones; int_lin is the integral of the linear signal;
       a cubic polynomial determines its coefficients; [th x]^4 = 0 mod t^4. *)
Theorem C15_spec_PB_solves : forall W F,
  solves_C W (pb_C W) /\ solves_u (pb_C W) F (pb_u (pb_C W) F).
Proof. exact spec_PB_solves. Qed.
Print Assumptions C15_spec_PB_solves.

Theorem C15_spec_PB_unique : forall W C F u,
  solves_C W C -> solves_u C F u -> C = pb_C W /\ u = pb_u (pb_C W) F.
Proof. exact spec_PB_unique. Qed.
Print Assumptions C15_spec_PB_unique.

Theorem C15_spec_int_lin : forall a b x y,
  is_RInt (fun s => vx (lin a b s)) x y (vx (int_lin a b x y)) /\
  is_RInt (fun s => vy (lin a b s)) x y (vy (int_lin a b x y)) /\
  is_RInt (fun s => vz (lin a b s)) x y (vz (int_lin a b x y)).
Proof. exact int_lin_is_RInt. Qed.
Print Assumptions C15_spec_int_lin.

Theorem C15_spec_series_unique : forall p q : ser V3, (forall t, veval p t = veval q t) -> p = q.
Proof. exact veval_inj. Qed.
Print Assumptions C15_spec_series_unique.

Theorem C15_spec_exp_stops : forall th, s0 th = vzero ->
  let K := sskew th in smulMM (smulMM (smulMM K K) K) K = szeroM.
Proof. exact skew_pow4_zero. Qed.
Print Assumptions C15_spec_exp_stops.

(** ** 1. rate type, rotation vector: theta(t) = a t + b t^2/2 + (a x b) t^3/12 identically,
       and exp[theta x] = C_PB mod t^4 (all nine entries of all four coefficients). *)
Theorem C15_theta_rate_cubic : forall a b d e px t0 tx t,
  let th := mkS vzero a (vscale (/ 2) b) (vscale (/ 12) (cross a b)) in
  rate_th2 px (smp_rate a b d e 0) (smp_rate a b d e t) t0 tx t = veval th t /\
  rate_th1 (smp_rate a b d e 0) (smp_rate a b d e t) px t0 t tx = veval th t /\
  exp_rv3 th = C_PB a b.
Proof. exact theta_rate_cubic. Qed.
Print Assumptions C15_theta_rate_cubic.

(** ** 2. rate type, velocity increment: dv(t) = S(t) + (b x e) t^4/8 with
       S = d t + (e + a x d) t^2/2 + ((a x e)/3 + (b x d)/6) t^3, and
       S - u_PB = -(a x (a x d)) t^3/6 mod t^4: the only discrepancy through t^3 is the
       neglected second-order rotation term. *)
Theorem C15_dv_rate_cubic : forall a b d e px t0 tx t,
  let S := mkS vzero d (vscale (/ 2) (vadd e (cross a d)))
               (vadd (vscale (/ 3) (cross a e)) (vscale (/ 6) (cross b d))) in
  let r4 := vscale (t * t * t * t) (vscale (/ 8) (cross b e)) in
  rate_dv2 px (smp_rate a b d e 0) (smp_rate a b d e t) t0 tx t = vadd (veval S t) r4 /\
  rate_dv1 (smp_rate a b d e 0) (smp_rate a b d e t) px t0 t tx = vadd (veval S t) r4 /\
  ssubV S (u_PB a b d e) = mkS vzero vzero vzero (vscale (- / 6) (cross a (cross a d))).
Proof. exact dv_rate_cubic. Qed.
Print Assumptions C15_dv_rate_cubic.

(** ** 3. increment type, two EQUAL adjacent intervals [-t, 0], [0, t]: the same. *)
Theorem C15_theta_incr_cubic : forall a b d e px t0 tx t,
  let th := mkS vzero a (vscale (/ 2) b) (vscale (/ 12) (cross a b)) in
  incr_th2 px (smp_int a b d e (- t) 0) (smp_int a b d e 0 t) t0 t t = veval th t /\
  incr_th1 (smp_int a b d e (- t) 0) (smp_int a b d e 0 t) px t0 t tx = veval th t /\
  exp_rv3 th = C_PB a b.
Proof. exact theta_incr_cubic. Qed.
Print Assumptions C15_theta_incr_cubic.

Theorem C15_dv_incr_cubic : forall a b d e px t0 tx t,
  let S := mkS vzero d (vscale (/ 2) (vadd e (cross a d)))
               (vadd (vscale (/ 3) (cross a e)) (vscale (/ 6) (cross b d))) in
  let r4 := vscale (t * t * t * t) (vscale (/ 8) (cross b e)) in
  incr_dv2 px (smp_int a b d e (- t) 0) (smp_int a b d e 0 t) t0 t t = vadd (veval S t) r4 /\
  incr_dv1 (smp_int a b d e (- t) 0) (smp_int a b d e 0 t) px t0 t tx = vadd (veval S t) r4 /\
  ssubV S (u_PB a b d e) = mkS vzero vzero vzero (vscale (- / 6) (cross a (cross a d))).
Proof. exact dv_incr_cubic. Qed.
Print Assumptions C15_dv_incr_cubic.

(** ** 4. increment type, UNEQUAL adjacent intervals [-t1, 0], [0, t2]: the generated coning
       term is (a x b) t1 t2 (t1+t2)/24, not (a x b) t2^3/12; theta and dv differ from the
       equal-interval values by  t2 (t1-t2) (t1+2 t2)/24  times (a x b), resp.
       (a x e + d x b): a CUBIC term that vanishes iff t1 = t2. *)
Theorem C15_incr_unequal_discrepancy : forall a b d e px t0 t1 t2,
  let th := mkS vzero a (vscale (/ 2) b) (vscale (/ 12) (cross a b)) in
  let S := mkS vzero d (vscale (/ 2) (vadd e (cross a d)))
               (vadd (vscale (/ 3) (cross a e)) (vscale (/ 6) (cross b d))) in
  let r4 := vscale (t2 * t2 * t2 * t2) (vscale (/ 8) (cross b e)) in
  let k := t2 * (t1 - t2) * (t1 + 2 * t2) / 24 in
  incr_th2 px (smp_int a b d e (- t1) 0) (smp_int a b d e 0 t2) t0 t1 t2
    = vadd (vadd (vscale t2 a) (vscale (t2 * t2 / 2) b))
           (vscale (t1 * t2 * (t1 + t2) / 24) (cross a b)) /\
  incr_th2 px (smp_int a b d e (- t1) 0) (smp_int a b d e 0 t2) t0 t1 t2
    = vadd (veval th t2) (vscale k (cross a b)) /\
  incr_dv2 px (smp_int a b d e (- t1) 0) (smp_int a b d e 0 t2) t0 t1 t2
    = vadd (vadd (veval S t2) r4) (vscale k (vadd (cross a e) (cross d b))) /\
  (0 < t1 -> 0 < t2 -> (k = 0 <-> t1 = t2)).
Proof. exact incr_unequal_discrepancy. Qed.
Print Assumptions C15_incr_unequal_discrepancy.

(** ** 5. Rows and stamps. *)
(** traced table: labels are the stamps of samples 1, 2; dt = successive differences *)
Theorem C15_traced_stamps : forall p0 p1 p2 t0 dt1 dt2,
  (rate_stamp1 p0 p1 p2 t0 dt1 dt2 = t0 + dt1 /\ rate_dt1 p0 p1 p2 t0 dt1 dt2 = dt1 /\
   rate_stamp2 p0 p1 p2 t0 dt1 dt2 = t0 + dt1 + dt2 /\ rate_dt2 p0 p1 p2 t0 dt1 dt2 = dt2) /\
  (incr_stamp1 p0 p1 p2 t0 dt1 dt2 = t0 + dt1 /\ incr_dt1 p0 p1 p2 t0 dt1 dt2 = dt1 /\
   incr_stamp2 p0 p1 p2 t0 dt1 dt2 = t0 + dt1 + dt2 /\ incr_dt2 p0 p1 p2 t0 dt1 dt2 = dt2).
Proof. exact traced_stamps. Qed.
Print Assumptions C15_traced_stamps.

(** every row is the same formula of (previous sample, own sample, own interval) *)
Theorem C15_rows_uniform : forall p0 p1 p2 px t0 dt1 dt2 tx,
  rate_th2 p0 p1 p2 t0 dt1 dt2 = rate_th1 p1 p2 px (t0 + dt1) dt2 tx /\
  rate_dv2 p0 p1 p2 t0 dt1 dt2 = rate_dv1 p1 p2 px (t0 + dt1) dt2 tx /\
  incr_th2 p0 p1 p2 t0 dt1 dt2 = incr_th1 p1 p2 px (t0 + dt1) dt2 tx /\
  incr_dv2 p0 p1 p2 t0 dt1 dt2 = incr_dv1 p1 p2 px (t0 + dt1) dt2 tx.
Proof. exact rows_uniform. Qed.
Print Assumptions C15_rows_uniform.

(** list model (any n, any stamps): n - 1 rows; row i is labelled with the stamp of sample
    i+1, its dt is stamp(i+1) - stamp(i), its data are f(sample i, sample i+1, dt) *)
Theorem C15_rows_and_stamps :
  forall (T S O : Type) (sub : T -> T -> T) (f : S -> S -> T -> O) (imu : list (T * S)),
  length (rows sub f imu) = (length imu - 1)%nat /\
  (forall i t s t' s', nth_error imu i = Some (t, s) -> nth_error imu (Datatypes.S i) = Some (t', s') ->
     nth_error (rows sub f imu) i = Some (t', sub t' t, f s s' (sub t' t))).
Proof. exact rows_and_stamps. Qed.
Print Assumptions C15_rows_and_stamps.

(** the list model with the generated per-row formulas reproduces the traced table at n = 3 *)
Theorem C15_rows_match_traced : forall p0 p1 p2 t0 dt1 dt2,
  rows Rminus rate_row [(t0, p0); (t0 + dt1, p1); (t0 + dt1 + dt2, p2)]
  = [(rate_stamp1 p0 p1 p2 t0 dt1 dt2, rate_dt1 p0 p1 p2 t0 dt1 dt2,
      (rate_th1 p0 p1 p2 t0 dt1 dt2, rate_dv1 p0 p1 p2 t0 dt1 dt2));
     (rate_stamp2 p0 p1 p2 t0 dt1 dt2, rate_dt2 p0 p1 p2 t0 dt1 dt2,
      (rate_th2 p0 p1 p2 t0 dt1 dt2, rate_dv2 p0 p1 p2 t0 dt1 dt2))] /\
  rows Rminus incr_row [(t0, p0); (t0 + dt1, p1); (t0 + dt1 + dt2, p2)]
  = [(incr_stamp1 p0 p1 p2 t0 dt1 dt2, incr_dt1 p0 p1 p2 t0 dt1 dt2,
      (incr_th1 p0 p1 p2 t0 dt1 dt2, incr_dv1 p0 p1 p2 t0 dt1 dt2));
     (incr_stamp2 p0 p1 p2 t0 dt1 dt2, incr_dt2 p0 p1 p2 t0 dt1 dt2,
      (incr_th2 p0 p1 p2 t0 dt1 dt2, incr_dv2 p0 p1 p2 t0 dt1 dt2))].
Proof. exact rows_match_traced. Qed.
Print Assumptions C15_rows_match_traced.

(** ** Non-vacuity *)
Example C15_ex_coning_term_nonzero : s3 (theta_lin (mkV 1 0 0) (mkV 0 1 0)) = mkV 0 0 (/ 12).
Proof. exact coning_term_nonzero. Qed.

Example C15_ex_dv_gap_nonzero : s3 (dv_gap (mkV 1 0 0) (mkV 0 1 0)) = mkV 0 (/ 6) 0.
Proof. exact dv_gap_nonzero. Qed.

Example C15_ex_unequal_instance :
  let a := mkV 1 0 0 in let b := mkV 0 1 0 in
  vz (incr_th2 (mkSmp vzero vzero) (smp_int a b vzero vzero (- (1 / 2)) 0)
               (smp_int a b vzero vzero 0 1) 0 (1 / 2) 1) = 1 / 32 /\
  vz (veval (theta_lin a b) 1) = 1 / 12 /\ uneq_factor (1 / 2) 1 = - (5 / 96).
Proof. exact unequal_instance. Qed.

Example C15_ex_rows_instance :
  rows Nat.sub (fun p c dt => (p, c, dt)) [(10, 0); (12, 1); (17, 2); (18, 3)]%nat
  = [(12, 2, (0, 1, 2)); (17, 5, (1, 2, 5)); (18, 1, (2, 3, 1))]%nat.
Proof. exact rows_instance. Qed.
