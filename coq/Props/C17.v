(** C17 — Attitude representations and rotation primitives are consistent.
    Statements are about the definitions GENERATED from /repo:
      mat_from_rotvec_mij (+ its two branch formulas __p0 = Rodrigues, __p1 = Taylor)   Gen/NumbaIntegrate.v
      mat_from_rph_mij, mat_to_rph_of_rph_roll/pitch/heading (= mat_to_rph o mat_from_rph) Gen/Transform.v
      phi_to_delta_rph_tij, and the stacked-input forms ..._arr_...                        Gen/C17Gen.v
    against Spec/LibSpecs.v: rotvec_mij (closed form of the exponential map, scipy from_rotvec),
    euler_roll/pitch/heading (scipy as_euler('xyz', degrees=True) via atan2).
    Vocabulary (orthonormal3, det3, mat_close, mat_eq: 3x3 matrices as nine scalars, row-major)
    is defined at the top of Proofs/C17Proofs.v.  Angles of rph are in degrees (d2r = PI/180). *)
From Coq Require Import Reals ZArith.
From Coquelicot Require Import Coquelicot.
From PV Require Import Base.RealTac Spec.LibSpecs Spec.LibSpecsFacts.
From PV Require Import Gen.NumbaIntegrate Gen.Transform Gen.C17Gen Proofs.C17Proofs.
Open Scope R_scope.

(** ** rotation vector -> matrix *)

(** On the branch |v|^2 > 1e-6 the matrix M is a proper rotation (M^T M = I, det M = 1) with axis v
    (M v = v), angle |v| (tr M = 1 + 2 cos|v|) and right-handed sense ((M - M^T)/2 = sin|v|/|v| [v x]). *)
Theorem C17_rotvec_large_is_rotation : forall x y z, x*x + y*y + z*z > 1/1000000 ->
  let n := rv_norm x y z in
  let m00 := mat_from_rotvec_m00 x y z in
  let m01 := mat_from_rotvec_m01 x y z in
  let m02 := mat_from_rotvec_m02 x y z in
  let m10 := mat_from_rotvec_m10 x y z in
  let m11 := mat_from_rotvec_m11 x y z in
  let m12 := mat_from_rotvec_m12 x y z in
  let m20 := mat_from_rotvec_m20 x y z in
  let m21 := mat_from_rotvec_m21 x y z in
  let m22 := mat_from_rotvec_m22 x y z in
  orthonormal3 m00 m01 m02 m10 m11 m12 m20 m21 m22 /\
  det3 m00 m01 m02 m10 m11 m12 m20 m21 m22 = 1 /\
  (m00 * x + m01 * y + m02 * z = x /\ m10 * x + m11 * y + m12 * z = y /\
   m20 * x + m21 * y + m22 * z = z) /\
  m00 + m11 + m22 = 1 + 2 * cos n /\
  ((m21 - m12) / 2 = sin n / n * x /\ (m02 - m20) / 2 = sin n / n * y /\
   (m10 - m01) / 2 = sin n / n * z).
Proof. exact rotvec_large_is_rotation. Qed.
Print Assumptions C17_rotvec_large_is_rotation.

(** ... and it equals the exponential map in closed form entry by entry. *)
Theorem C17_rotvec_large_is_expmap : forall x y z, x*x + y*y + z*z > 1/1000000 ->
  mat_eq
    (mat_from_rotvec_m00 x y z) (mat_from_rotvec_m01 x y z) (mat_from_rotvec_m02 x y z)
    (mat_from_rotvec_m10 x y z) (mat_from_rotvec_m11 x y z) (mat_from_rotvec_m12 x y z)
    (mat_from_rotvec_m20 x y z) (mat_from_rotvec_m21 x y z) (mat_from_rotvec_m22 x y z)
    (rotvec_m00 x y z) (rotvec_m01 x y z) (rotvec_m02 x y z) (rotvec_m10 x y z) (rotvec_m11 x y z)
    (rotvec_m12 x y z) (rotvec_m20 x y z) (rotvec_m21 x y z) (rotvec_m22 x y z).
Proof. exact rotvec_large_is_expmap. Qed.
Print Assumptions C17_rotvec_large_is_expmap.

(** On the Taylor branch |v|^2 <= 1e-6 every entry is within 1e-20 of the exponential map. *)
Theorem C17_rotvec_small_accurate : forall x y z, x*x + y*y + z*z <= 1/1000000 ->
  mat_close (1/10^20)
    (mat_from_rotvec_m00 x y z) (mat_from_rotvec_m01 x y z) (mat_from_rotvec_m02 x y z)
    (mat_from_rotvec_m10 x y z) (mat_from_rotvec_m11 x y z) (mat_from_rotvec_m12 x y z)
    (mat_from_rotvec_m20 x y z) (mat_from_rotvec_m21 x y z) (mat_from_rotvec_m22 x y z)
    (rotvec_m00 x y z) (rotvec_m01 x y z) (rotvec_m02 x y z) (rotvec_m10 x y z) (rotvec_m11 x y z)
    (rotvec_m12 x y z) (rotvec_m20 x y z) (rotvec_m21 x y z) (rotvec_m22 x y z).
Proof. exact rotvec_small_accurate. Qed.
Print Assumptions C17_rotvec_small_accurate.

(** Hence for EVERY rotation vector the routine is the exponential map to 1e-20. *)
Theorem C17_rotvec_is_expmap : forall x y z,
  mat_close (1/10^20)
    (mat_from_rotvec_m00 x y z) (mat_from_rotvec_m01 x y z) (mat_from_rotvec_m02 x y z)
    (mat_from_rotvec_m10 x y z) (mat_from_rotvec_m11 x y z) (mat_from_rotvec_m12 x y z)
    (mat_from_rotvec_m20 x y z) (mat_from_rotvec_m21 x y z) (mat_from_rotvec_m22 x y z)
    (rotvec_m00 x y z) (rotvec_m01 x y z) (rotvec_m02 x y z) (rotvec_m10 x y z) (rotvec_m11 x y z)
    (rotvec_m12 x y z) (rotvec_m20 x y z) (rotvec_m21 x y z) (rotvec_m22 x y z).
Proof. exact rotvec_is_expmap. Qed.
Print Assumptions C17_rotvec_is_expmap.

Theorem C17_rotvec_zero_is_identity :
  mat_eq (mat_from_rotvec_m00 0 0 0) (mat_from_rotvec_m01 0 0 0) (mat_from_rotvec_m02 0 0 0)
         (mat_from_rotvec_m10 0 0 0) (mat_from_rotvec_m11 0 0 0) (mat_from_rotvec_m12 0 0 0)
         (mat_from_rotvec_m20 0 0 0) (mat_from_rotvec_m21 0 0 0) (mat_from_rotvec_m22 0 0 0)
         1 0 0 0 1 0 0 0 1.
Proof. exact rotvec_zero_is_identity. Qed.
Print Assumptions C17_rotvec_zero_is_identity.

(** Continuity across the small-angle branch: wherever the Taylor branch can be taken and the
    Rodrigues formulas are defined (0 < |v|^2 <= 1e-6) the two branch formulas agree to 1e-20 ... *)
Theorem C17_rotvec_branches_agree : forall x y z, 0 < x*x + y*y + z*z <= 1/1000000 ->
  mat_close (1/10^20)
    (mat_from_rotvec_m00__p1 x y z) (mat_from_rotvec_m01__p1 x y z) (mat_from_rotvec_m02__p1 x y z)
    (mat_from_rotvec_m10__p1 x y z) (mat_from_rotvec_m11__p1 x y z) (mat_from_rotvec_m12__p1 x y z)
    (mat_from_rotvec_m20__p1 x y z) (mat_from_rotvec_m21__p1 x y z) (mat_from_rotvec_m22__p1 x y z)
    (mat_from_rotvec_m00__p0 x y z) (mat_from_rotvec_m01__p0 x y z) (mat_from_rotvec_m02__p0 x y z)
    (mat_from_rotvec_m10__p0 x y z) (mat_from_rotvec_m11__p0 x y z) (mat_from_rotvec_m12__p0 x y z)
    (mat_from_rotvec_m20__p0 x y z) (mat_from_rotvec_m21__p0 x y z) (mat_from_rotvec_m22__p0 x y z).
Proof. exact rotvec_branches_agree. Qed.
Print Assumptions C17_rotvec_branches_agree.

(** ... in particular AT the threshold the value returned differs from the other branch by <= 1e-20. *)
Theorem C17_rotvec_continuous_at_threshold : forall x y z, x*x + y*y + z*z = 1/1000000 ->
  mat_close (1/10^20)
    (mat_from_rotvec_m00 x y z) (mat_from_rotvec_m01 x y z) (mat_from_rotvec_m02 x y z)
    (mat_from_rotvec_m10 x y z) (mat_from_rotvec_m11 x y z) (mat_from_rotvec_m12 x y z)
    (mat_from_rotvec_m20 x y z) (mat_from_rotvec_m21 x y z) (mat_from_rotvec_m22 x y z)
    (mat_from_rotvec_m00__p0 x y z) (mat_from_rotvec_m01__p0 x y z) (mat_from_rotvec_m02__p0 x y z)
    (mat_from_rotvec_m10__p0 x y z) (mat_from_rotvec_m11__p0 x y z) (mat_from_rotvec_m12__p0 x y z)
    (mat_from_rotvec_m20__p0 x y z) (mat_from_rotvec_m21__p0 x y z) (mat_from_rotvec_m22__p0 x y z).
Proof. exact rotvec_continuous_at_threshold. Qed.
Print Assumptions C17_rotvec_continuous_at_threshold.

(** ** roll, pitch, heading -> matrix *)

(** proper rotation for ALL angles: columns and rows orthonormal, det = +1 *)
Theorem C17_rph_is_proper_rotation : forall roll pitch heading,
  let m00 := mat_from_rph_m00 roll pitch heading in
  let m01 := mat_from_rph_m01 roll pitch heading in
  let m02 := mat_from_rph_m02 roll pitch heading in
  let m10 := mat_from_rph_m10 roll pitch heading in
  let m11 := mat_from_rph_m11 roll pitch heading in
  let m12 := mat_from_rph_m12 roll pitch heading in
  let m20 := mat_from_rph_m20 roll pitch heading in
  let m21 := mat_from_rph_m21 roll pitch heading in
  let m22 := mat_from_rph_m22 roll pitch heading in
  orthonormal3 m00 m01 m02 m10 m11 m12 m20 m21 m22 /\
  orthonormal3 m00 m10 m20 m01 m11 m21 m02 m12 m22 /\
  det3 m00 m01 m02 m10 m11 m12 m20 m21 m22 = 1.
Proof. exact rph_is_proper_rotation. Qed.
Print Assumptions C17_rph_is_proper_rotation.

(** the matrix is Rz(heading) Ry(pitch) Rx(roll) *)
Theorem C17_rph_is_RzRyRx : forall roll pitch heading,
  let r := roll * d2r in let p := pitch * d2r in let h := heading * d2r in
  mat_eq
    (mat_from_rph_m00 roll pitch heading) (mat_from_rph_m01 roll pitch heading)
    (mat_from_rph_m02 roll pitch heading) (mat_from_rph_m10 roll pitch heading)
    (mat_from_rph_m11 roll pitch heading) (mat_from_rph_m12 roll pitch heading)
    (mat_from_rph_m20 roll pitch heading) (mat_from_rph_m21 roll pitch heading)
    (mat_from_rph_m22 roll pitch heading)
    (cos h * cos p) (cos h * sin p * sin r - sin h * cos r) (cos h * sin p * cos r + sin h * sin r)
    (sin h * cos p) (sin h * sin p * sin r + cos h * cos r) (sin h * sin p * cos r - cos h * sin r)
    (- sin p)       (cos p * sin r)                         (cos p * cos r).
Proof. exact rph_is_RzRyRx. Qed.
Print Assumptions C17_rph_is_RzRyRx.

(** body -> NED conventions: the nose (body x) points to (cos p cos h, cos p sin h, - sin p) in
    (north, east, down): heading from north towards east, pitch nose-up; the down component of the
    right wing (body y) is sin r cos p: roll right-wing-down. *)
Theorem C17_rph_conventions : forall roll pitch heading,
  let r := roll * d2r in let p := pitch * d2r in let h := heading * d2r in
  (mat_from_rph_m00 roll pitch heading = cos p * cos h /\
   mat_from_rph_m10 roll pitch heading = cos p * sin h /\
   mat_from_rph_m20 roll pitch heading = - sin p) /\
  mat_from_rph_m21 roll pitch heading = sin r * cos p /\
  mat_from_rph_m22 roll pitch heading = cos r * cos p.
Proof. exact rph_conventions. Qed.
Print Assumptions C17_rph_conventions.

(** stacked (n,3) inputs give row-wise the single-input result *)
Theorem C17_rph_array_form_equal : forall roll pitch heading,
  mat_eq
    (mat_from_rph_arr_m00 roll pitch heading) (mat_from_rph_arr_m01 roll pitch heading)
    (mat_from_rph_arr_m02 roll pitch heading) (mat_from_rph_arr_m10 roll pitch heading)
    (mat_from_rph_arr_m11 roll pitch heading) (mat_from_rph_arr_m12 roll pitch heading)
    (mat_from_rph_arr_m20 roll pitch heading) (mat_from_rph_arr_m21 roll pitch heading)
    (mat_from_rph_arr_m22 roll pitch heading)
    (mat_from_rph_m00 roll pitch heading) (mat_from_rph_m01 roll pitch heading)
    (mat_from_rph_m02 roll pitch heading) (mat_from_rph_m10 roll pitch heading)
    (mat_from_rph_m11 roll pitch heading) (mat_from_rph_m12 roll pitch heading)
    (mat_from_rph_m20 roll pitch heading) (mat_from_rph_m21 roll pitch heading)
    (mat_from_rph_m22 roll pitch heading).
Proof. exact rph_array_form_equal. Qed.
Print Assumptions C17_rph_array_form_equal.

Theorem C17_to_rph_array_form_equal : forall roll pitch heading,
  mat_to_rph_arr_roll roll pitch heading = mat_to_rph_of_rph_roll roll pitch heading /\
  mat_to_rph_arr_pitch roll pitch heading = mat_to_rph_of_rph_pitch roll pitch heading /\
  mat_to_rph_arr_heading roll pitch heading = mat_to_rph_of_rph_heading roll pitch heading.
Proof. exact to_rph_array_form_equal. Qed.
Print Assumptions C17_to_rph_array_form_equal.

Theorem C17_phi_to_delta_array_form_equal : forall roll pitch heading,
  mat_eq
    (phi_to_delta_rph_arr_t00 roll pitch heading) (phi_to_delta_rph_arr_t01 roll pitch heading)
    (phi_to_delta_rph_arr_t02 roll pitch heading) (phi_to_delta_rph_arr_t10 roll pitch heading)
    (phi_to_delta_rph_arr_t11 roll pitch heading) (phi_to_delta_rph_arr_t12 roll pitch heading)
    (phi_to_delta_rph_arr_t20 roll pitch heading) (phi_to_delta_rph_arr_t21 roll pitch heading)
    (phi_to_delta_rph_arr_t22 roll pitch heading)
    (phi_to_delta_rph_t00 roll pitch heading) (phi_to_delta_rph_t01 roll pitch heading)
    (phi_to_delta_rph_t02 roll pitch heading) (phi_to_delta_rph_t10 roll pitch heading)
    (phi_to_delta_rph_t11 roll pitch heading) (phi_to_delta_rph_t12 roll pitch heading)
    (phi_to_delta_rph_t20 roll pitch heading) (phi_to_delta_rph_t21 roll pitch heading)
    (phi_to_delta_rph_t22 roll pitch heading).
Proof. exact phi_to_delta_array_form_equal. Qed.
Print Assumptions C17_phi_to_delta_array_form_equal.

(** ** matrix -> roll, pitch, heading: round trip *)

(** exact recovery on the principal ranges *)
Theorem C17_rph_round_trip_exact : forall roll pitch heading, -90 < pitch < 90 ->
  (-180 < roll <= 180 -> mat_to_rph_of_rph_roll roll pitch heading = roll) /\
  mat_to_rph_of_rph_pitch roll pitch heading = pitch /\
  (-180 < heading <= 180 -> mat_to_rph_of_rph_heading roll pitch heading = heading).
Proof. exact rph_round_trip_exact. Qed.
Print Assumptions C17_rph_round_trip_exact.

(** for ALL roll and heading: the same angles modulo 360 degrees, returned in (-180, 180] *)
Theorem C17_rph_round_trip : forall roll pitch heading, -90 < pitch < 90 ->
  exists k1 k2 : Z,
    mat_to_rph_of_rph_roll roll pitch heading = roll + 360 * IZR k1 /\
    -180 < mat_to_rph_of_rph_roll roll pitch heading <= 180 /\
    mat_to_rph_of_rph_pitch roll pitch heading = pitch /\
    mat_to_rph_of_rph_heading roll pitch heading = heading + 360 * IZR k2 /\
    -180 < mat_to_rph_of_rph_heading roll pitch heading <= 180.
Proof. exact rph_round_trip. Qed.
Print Assumptions C17_rph_round_trip.

Theorem C17_rph_round_trip_sincos : forall roll pitch heading, -90 < pitch < 90 ->
  sin (mat_to_rph_of_rph_roll roll pitch heading * d2r) = sin (roll * d2r) /\
  cos (mat_to_rph_of_rph_roll roll pitch heading * d2r) = cos (roll * d2r) /\
  mat_to_rph_of_rph_pitch roll pitch heading = pitch /\
  sin (mat_to_rph_of_rph_heading roll pitch heading * d2r) = sin (heading * d2r) /\
  cos (mat_to_rph_of_rph_heading roll pitch heading * d2r) = cos (heading * d2r).
Proof. exact rph_round_trip_sincos. Qed.
Print Assumptions C17_rph_round_trip_sincos.

(** away from pitch = +-90 (any pitch with cos pitch <> 0, also beyond +-90 where as_euler returns
    the other Euler triple of the same rotation) the recovered angles reproduce the matrix *)
Theorem C17_rph_round_trip_matrix : forall roll pitch heading, cos (pitch * d2r) <> 0 ->
  let r' := mat_to_rph_of_rph_roll roll pitch heading in
  let p' := mat_to_rph_of_rph_pitch roll pitch heading in
  let h' := mat_to_rph_of_rph_heading roll pitch heading in
  mat_eq (mat_from_rph_m00 r' p' h') (mat_from_rph_m01 r' p' h') (mat_from_rph_m02 r' p' h')
         (mat_from_rph_m10 r' p' h') (mat_from_rph_m11 r' p' h') (mat_from_rph_m12 r' p' h')
         (mat_from_rph_m20 r' p' h') (mat_from_rph_m21 r' p' h') (mat_from_rph_m22 r' p' h')
    (mat_from_rph_m00 roll pitch heading) (mat_from_rph_m01 roll pitch heading)
    (mat_from_rph_m02 roll pitch heading) (mat_from_rph_m10 roll pitch heading)
    (mat_from_rph_m11 roll pitch heading) (mat_from_rph_m12 roll pitch heading)
    (mat_from_rph_m20 roll pitch heading) (mat_from_rph_m21 roll pitch heading)
    (mat_from_rph_m22 roll pitch heading).
Proof. exact rph_round_trip_matrix. Qed.
Print Assumptions C17_rph_round_trip_matrix.

(** ** attitude error -> Euler-angle error *)

(** With d = T(rph) phi (T = generated _phi_to_delta_rph, degrees per radian):
      d/d eps C(rph + eps d) at 0  =  - [phi x] C(rph),
    the first-order change of C under the platform rotation C -> Rot(-eps phi) C
    (C17_platform_rotation_derivative below), for all phi, whenever cos pitch <> 0. *)
Theorem C17_euler_jacobian : forall roll pitch heading f0 f1 f2, cos (pitch * d2r) <> 0 ->
  let d0 := phi_to_delta_rph_t00 roll pitch heading * f0 + phi_to_delta_rph_t01 roll pitch heading * f1
            + phi_to_delta_rph_t02 roll pitch heading * f2 in
  let d1 := phi_to_delta_rph_t10 roll pitch heading * f0 + phi_to_delta_rph_t11 roll pitch heading * f1
            + phi_to_delta_rph_t12 roll pitch heading * f2 in
  let d2 := phi_to_delta_rph_t20 roll pitch heading * f0 + phi_to_delta_rph_t21 roll pitch heading * f1
            + phi_to_delta_rph_t22 roll pitch heading * f2 in
  let c00 := mat_from_rph_m00 roll pitch heading in
  let c01 := mat_from_rph_m01 roll pitch heading in
  let c02 := mat_from_rph_m02 roll pitch heading in
  let c10 := mat_from_rph_m10 roll pitch heading in
  let c11 := mat_from_rph_m11 roll pitch heading in
  let c12 := mat_from_rph_m12 roll pitch heading in
  let c20 := mat_from_rph_m20 roll pitch heading in
  let c21 := mat_from_rph_m21 roll pitch heading in
  let c22 := mat_from_rph_m22 roll pitch heading in
  is_derive (fun e => mat_from_rph_m00 (roll + e * d0) (pitch + e * d1) (heading + e * d2)) 0 (f2 * c10 - f1 * c20) /\
  is_derive (fun e => mat_from_rph_m01 (roll + e * d0) (pitch + e * d1) (heading + e * d2)) 0 (f2 * c11 - f1 * c21) /\
  is_derive (fun e => mat_from_rph_m02 (roll + e * d0) (pitch + e * d1) (heading + e * d2)) 0 (f2 * c12 - f1 * c22) /\
  is_derive (fun e => mat_from_rph_m10 (roll + e * d0) (pitch + e * d1) (heading + e * d2)) 0 (f0 * c20 - f2 * c00) /\
  is_derive (fun e => mat_from_rph_m11 (roll + e * d0) (pitch + e * d1) (heading + e * d2)) 0 (f0 * c21 - f2 * c01) /\
  is_derive (fun e => mat_from_rph_m12 (roll + e * d0) (pitch + e * d1) (heading + e * d2)) 0 (f0 * c22 - f2 * c02) /\
  is_derive (fun e => mat_from_rph_m20 (roll + e * d0) (pitch + e * d1) (heading + e * d2)) 0 (f1 * c00 - f0 * c10) /\
  is_derive (fun e => mat_from_rph_m21 (roll + e * d0) (pitch + e * d1) (heading + e * d2)) 0 (f1 * c01 - f0 * c11) /\
  is_derive (fun e => mat_from_rph_m22 (roll + e * d0) (pitch + e * d1) (heading + e * d2)) 0 (f1 * c02 - f0 * c12).
Proof. exact euler_jacobian. Qed.
Print Assumptions C17_euler_jacobian.

(** the angle change reproducing a given first-order change of C is unique (dC/d rph injective) *)
Theorem C17_euler_partials_injective : forall roll pitch heading d0 d1 d2, cos (pitch * d2r) <> 0 ->
  is_derive (fun e => mat_from_rph_m00 (roll + e * d0) (pitch + e * d1) (heading + e * d2)) 0 0 ->
  is_derive (fun e => mat_from_rph_m10 (roll + e * d0) (pitch + e * d1) (heading + e * d2)) 0 0 ->
  is_derive (fun e => mat_from_rph_m20 (roll + e * d0) (pitch + e * d1) (heading + e * d2)) 0 0 ->
  is_derive (fun e => mat_from_rph_m21 (roll + e * d0) (pitch + e * d1) (heading + e * d2)) 0 0 ->
  is_derive (fun e => mat_from_rph_m22 (roll + e * d0) (pitch + e * d1) (heading + e * d2)) 0 0 ->
  d0 = 0 /\ d1 = 0 /\ d2 = 0.
Proof. exact euler_partials_injective. Qed.
Print Assumptions C17_euler_partials_injective.

(** d/d eps [Rot(-eps phi) c] at 0 = - phi x c for every vector c, Rot = the exponential map spec *)
Theorem C17_platform_rotation_derivative : forall f0 f1 f2 c0 c1 c2,
  is_derive (fun e => rotvec_m00 (-e*f0) (-e*f1) (-e*f2) * c0 + rotvec_m01 (-e*f0) (-e*f1) (-e*f2) * c1
                      + rotvec_m02 (-e*f0) (-e*f1) (-e*f2) * c2) 0 (f2 * c1 - f1 * c2) /\
  is_derive (fun e => rotvec_m10 (-e*f0) (-e*f1) (-e*f2) * c0 + rotvec_m11 (-e*f0) (-e*f1) (-e*f2) * c1
                      + rotvec_m12 (-e*f0) (-e*f1) (-e*f2) * c2) 0 (f0 * c2 - f2 * c0) /\
  is_derive (fun e => rotvec_m20 (-e*f0) (-e*f1) (-e*f2) * c0 + rotvec_m21 (-e*f0) (-e*f1) (-e*f2) * c1
                      + rotvec_m22 (-e*f0) (-e*f1) (-e*f2) * c2) 0 (f1 * c0 - f0 * c1).
Proof. exact platform_rotation_derivative. Qed.
Print Assumptions C17_platform_rotation_derivative.

(** ** non-vacuity *)

Example C17_ex_large_branch : 1*1 + 0*0 + 0*0 > 1/1000000.
Proof. exact ex_large_branch. Qed.
Example C17_ex_small_branch : 0 < (1/2000)*(1/2000) + 0*0 + 0*0 <= 1/1000000.
Proof. exact ex_small_branch. Qed.
Example C17_ex_threshold : (1/1000)*(1/1000) + 0*0 + 0*0 = 1/1000000.
Proof. exact ex_threshold. Qed.
Example C17_ex_pitch : -90 < 30 < 90 /\ cos (30 * d2r) <> 0 /\ cos (100 * d2r) <> 0.
Proof. exact ex_pitch. Qed.
(** +90 deg about the down axis takes north to east (right-handed sense of the exponential map) *)
Example C17_ex_rotvec_sense :
  mat_from_rotvec_m10 0 0 (PI/2) = 1 /\ mat_from_rotvec_m01 0 0 (PI/2) = -1 /\
  mat_from_rotvec_m22 0 0 (PI/2) = 1.
Proof. exact ex_rotvec_sense. Qed.
(** heading 90: nose east; pitch 90: nose up (down component -1); roll 90: right wing down *)
Example C17_ex_rph_senses :
  mat_from_rph_m10 0 0 90 = 1 /\ mat_from_rph_m20 0 90 0 = -1 /\ mat_from_rph_m21 90 0 0 = 1.
Proof. exact ex_rph_senses. Qed.
(** a round trip that wraps: roll 350 -> -10, heading -200 -> 160 *)
Example C17_ex_round_trip_wraps :
  mat_to_rph_of_rph_roll 350 30 (-200) = -10 /\ mat_to_rph_of_rph_pitch 350 30 (-200) = 30 /\
  mat_to_rph_of_rph_heading 350 30 (-200) = 160.
Proof. exact ex_round_trip_wraps. Qed.
