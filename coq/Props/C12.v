(* C12 — Feedback filter: transparent without data, first-order equal to feedforward, re-runnable.

   Models: Model/FeedbackSched.v (loop of run_feedback_filter: cursors / events, C09),
   Model/Integrator.v (strapdown.Integrator, C02), Model/SensorModel.v (EstimationModel estimate
   state machine, C14), Model/FilterFlow.v (glue: the loop as a client of the integrator and of the
   estimate state; one measurement epoch of both filters as MathComp terms over the GENERATED
   kalman.correct).  Proofs: Proofs/C12Proofs.v.

   NOT proved (C12_partial): the multi-step second-order bound "the disagreement of the two filters, in
   units of the reported standard deviation, shrinks in proportion to the error scale".  It is an
   asymptotic statement about an extended against a linearised Kalman filter along a whole
   trajectory; Theorem C12_feedback_first_order_partial isolates its algebraic core (exact equality
   when correct_pva is an exact group action and the residuals are related linearly -- both hold to
   first order by C05 / C06) and the error-scale sweep of tools/props/C12.py examines the rest.
   The float exactness of `v - 0.0 * dt` and of LAPACK's solve with the identity matrix is checked
   byte for byte by the harness, not proved. *)
From Coq Require Import List QArith Sorted Qcanon.
From PV Require Import Model.FeedbackSched Model.FilterFlow Proofs.SchedProofs Proofs.C12Proofs.
From PV Require Model.Integrator Model.SensorModel.
Import ListNotations.

(* ---- (a) transparency --------------------------------------------------------------------------
   t0 = initial_pva.name, incs = increments.index, data = the rows of the increment table,
   sensors = stamps of every measurement object (None / [] : no sensors); on_innov = whatever the loop
   would do at a measurement epoch (predict / set_pva with data-dependent arguments: arbitrary).
   No stamp in [t0, t_end)  =>  the loop terminates, performs no correction (so no set_pva and no
   update_estimates: the estimates keep their reset values), integrates every increment exactly once
   in order, and -- for every kernel step function, both altitude modes, every time step, every
   buffer capacity -- the integrator ends with the trajectory of the single call
   Integrator(initial, with_altitude).integrate(increments). *)
Theorem C12_fb_transparent :
  forall (brow prow inc time : Type) (kstep : bool -> brow -> inc -> brow)
         (to_pub : brow -> prow) (of_pub : prow -> brow) (zero_vd : prow -> prow)
         (inc_time : inc -> time) (g g' : brow) (b : bool) (cap cap' : nat) (tinit : time) (p : prow)
         (on_innov : nat -> Q -> Q -> list (Integrator.op prow inc)) (data : list inc)
         add_step t0 incs sensors fuel,
  (forall t, t <= add_step t)%Q -> StronglySorted Qlt (t0 :: incs) -> incs <> [] ->
  (length incs <= fuel)%nat -> length data = length incs -> (1 <= cap)%nat -> (1 <= cap')%nat ->
  (forall s x, In s sensors -> In x s -> ~ (t0 <= x /\ x < last incs t0)%Q) ->
  let tr := fb_run fuel add_step t0 incs sensors in
  let ops := fb_integrator_ops on_innov data tr in
  completed tr = true /\
  (forall k m t, ~ In (Innov k m t) tr) /\
  existsb Integrator.is_setpva ops = false /\
  Integrator.all_incs ops = data /\
  exists s os s1 os1,
    Integrator.run_init kstep to_pub of_pub zero_vd inc_time g b cap tinit p ops = Some (s, os) /\
    Integrator.run_init kstep to_pub of_pub zero_vd inc_time g' b cap' tinit p
      [Integrator.Integrate data] = Some (s1, os1) /\
    Integrator.traj s = Integrator.traj s1.
Proof. exact fb_transparent. Qed.
Print Assumptions C12_fb_transparent.

(* correct_increments with reset estimates (transform = I, bias = 0) is the identity (exact numbers):
   the corrected batches ARE the raw batches *)
Theorem C12_correct_increments_reset :
  forall (dt : Qc) (v : SensorModel.V3 Qc),
  SensorModel.correct_increments SensorModel.reset dt v = Some v.
Proof. exact correct_increments_reset. Qed.
Print Assumptions C12_correct_increments_reset.

(* non-vacuity: the schedule of Props/C09.v with every stamp moved outside [t0, t_end): before the
   start, exactly at the end, after the end; five increments, step 1/10 *)
Example C12_ex_transparent :
  let t0 := 1%Q in
  let incs := [11#10; 12#10; 13#10; 14#10; 15#10]%Q in
  let sensors := [[99#100; 15#10]; [2]; []]%Q in
  StronglySorted Qlt (t0 :: incs) /\ incs <> [] /\
  (forall s x, In s sensors -> In x s -> ~ (t0 <= x /\ x < last incs t0)%Q) /\
  fb_run_exact 5 (1#10) t0 incs sensors =
    [Record 1; Integrate 0 1; Record (11#10); Integrate 1 2; Record (12#10); Integrate 2 3;
     Record (13#10); Integrate 3 4; Record (14#10); Integrate 4 5]%Q /\
  Integrator.all_incs (@fb_integrator_ops nat nat (fun _ _ _ => []) [10; 20; 30; 40; 50]%nat
                         (fb_run_exact 5 (1#10) t0 incs sensors)) = [10; 20; 30; 40; 50]%nat.
Proof.
  cbv zeta. split; [repeat constructor|]. split; [discriminate|]. split.
  - intros s x Hs Hx [H1 H2].
    repeat (destruct Hs as [<-|Hs]; [repeat (destruct Hx as [<-|Hx]; [vm_compute in H1, H2; try (now apply H1); try discriminate H2|]); destruct Hx|]).
    destruct Hs.
  - split; vm_compute; reflexivity.
Qed.

(* ---- (b) re-run ------------------------------------------------------------------------------
   A run is a client of the estimate state (transform, bias) of a sensor model: every operation may
   depend on all earlier observations.  Both run functions call reset_estimates() first; then the
   observations and the final state are the same from EVERY prior state = the run from the reset state. *)
Theorem C12_rerun_identical :
  forall (m : SensorModel.emodel) (client : list est_obs -> option est_op)
         (fuel : nat) (st1 st2 : SensorModel.est),
  client [] = Some EReset ->
  est_play m client (S fuel) [] st1 = est_play m client (S fuel) [] st2.
Proof. exact rerun_identical. Qed.
Print Assumptions C12_rerun_identical.

(* the reset is necessary: a client that uses the estimates first distinguishes prior states *)
Theorem C12_rerun_needs_reset :
  exists m client st1 st2,
    client [] = Some (ECorrect 1%Qc (SensorModel.mk3 0%Qc 0%Qc 0%Qc)) /\
    snd (est_play m client 1 [] st1) <> snd (est_play m client 1 [] st2).
Proof. exact rerun_needs_reset. Qed.
Print Assumptions C12_rerun_needs_reset.

(* non-vacuity: a client that resets, corrects an increment, updates, reads; from a polluted state *)
Example C12_ex_rerun :
  let m := SensorModel.mk_emodel [] 0 0 0 [] [] [] [] [] [] [] in
  let client := fun h : list est_obs =>
                  match length h with
                  | 0%nat => Some EReset
                  | 1%nat => Some (ECorrect 1%Qc (SensorModel.mk3 1%Qc (Q2Qc 2) (Q2Qc 3)))
                  | 2%nat => Some (EUpdate [])
                  | 3%nat => Some EGet
                  | _ => None
                  end in
  client [] = Some EReset /\
  snd (est_play m client 5 [] (SensorModel.mk_est SensorModel.ident3 (SensorModel.mk3 1%Qc 0%Qc 0%Qc))) =
  [ONone; OCorrected (SensorModel.mk3 1%Qc (Q2Qc 2) (Q2Qc 3)); ONone; OEstimates []].
Proof. split; [reflexivity|]. vm_compute. reflexivity. Qed.

(* ================================================================================================ *)
From mathcomp Require Import all_ssreflect all_algebra.
From PV Require Import Spec.LibSpecsMx Spec.Gaussian Gen.Kalman Proofs.KalmanProofs.
Set Implicit Arguments.
Unset Strict Implicit.
Import GRing.Theory Num.Theory.
Local Open Scope ring_scope.

(* ---- (c) one measurement epoch, linearised world ------------------------------------------------
   corr_run zs N = the first N kalman.correct calls of an epoch (GENERATED terms) with residuals zs.
   Shift equivariance: starting from the prior mean x with residuals z_k equals starting from 0 with
   residuals z_k - H_k x and adding x; the covariances coincide. *)
Theorem C12_corr_run_shift :
  forall (F : realFieldType) (ni ns : nat) (md : nat -> nat)
         (Hs : forall k : nat, 'M[F]_(md k, ni + ns)) (Rs : forall k : nat, 'M[F]_(md k))
         (chols : forall k : nat, 'M[F]_(md k) -> 'M[F]_(md k)),
  (forall k, (Rs k)^T = Rs k) -> (forall k, pd (Rs k)) ->
  (forall k (P : 'M[F]_(ni + ns)), P^T = P -> psd P ->
     cholesky_factor (@chols k) (correct_S P (Hs k) (Rs k))) ->
  forall (zs : forall k : nat, 'cV[F]_(md k)) (N : nat) (x : 'cV[F]_(ni + ns)) (P : 'M[F]_(ni + ns)),
  P^T = P -> psd P ->
  @corr_run F ni ns md Hs Rs chols zs N (x, P) =
  ((@corr_run F ni ns md Hs Rs chols (fun k => zs k - Hs k *m x) N (0, P)).1 + x,
   (@corr_run F ni ns md Hs Rs chols (fun k => zs k - Hs k *m x) N (0, P)).2).
Proof. exact corr_run_shift. Qed.
Print Assumptions C12_corr_run_shift.

(* feedback cycle: x := 0; corrections; set_pva(correct_pva(pva, x[ins])); update_estimates(x[sensor])
   feedforward cycle: carry x; output = (trajectory (-) x[ins], x[sensor], P).
   Hypotheses: `sub` (correct_pva) is an exact action of the additive group of error vectors, and the
   residuals of the two filters are related by z_fb = z_ff - H_full x.  Both hold to FIRST ORDER for the
   real code (C05: correct_pva is linearised by T; C06: H = dz/dx); under them the two filters agree
   EXACTLY after the epoch: navigation state, sensor-parameter estimates and covariance. *)
Theorem C12_feedback_first_order_partial :
  forall (F : realFieldType) (ni ns : nat) (md : nat -> nat)
         (Hs : forall k : nat, 'M[F]_(md k, ni + ns)) (Rs : forall k : nat, 'M[F]_(md k))
         (chols : forall k : nat, 'M[F]_(md k) -> 'M[F]_(md k)),
  (forall k, (Rs k)^T = Rs k) -> (forall k, pd (Rs k)) ->
  (forall k (P : 'M[F]_(ni + ns)), P^T = P -> psd P ->
     cholesky_factor (@chols k) (correct_S P (Hs k) (Rs k))) ->
  forall (Nav : Type) (sub : Nav -> 'cV[F]_ni -> Nav),
  (forall v a b, sub (sub v a) b = sub v (a + b)) ->
  forall (zs_ff zs_fb : forall k : nat, 'cV[F]_(md k)) (N : nat)
         (nav_raw : Nav) (x : 'cV[F]_(ni + ns)) (P : 'M[F]_(ni + ns)),
  P^T = P -> psd P ->
  (forall k, zs_fb k = zs_ff k - Hs k *m x) ->
  @fb_cycle F ni ns md Hs Rs chols Nav sub zs_fb N (sub nav_raw (usubmx x), dsubmx x, P) =
  @ff_output F ni ns Nav sub nav_raw (@ff_cycle F ni ns md Hs Rs chols zs_ff N (x, P)).
Proof. exact feedback_first_order_partial. Qed.
Print Assumptions C12_feedback_first_order_partial.

(* non-vacuity of the hypotheses over any real field: H = 0, R = 1, sub v a = v - a *)
Example C12_ex_cycle_hypotheses :
  forall (F : realFieldType) (ni ns : nat),
  let md := fun _ : nat => 1%N in
  let Hs := fun _ : nat => (0 : 'M[F]_(1, ni + ns)) in
  let Rs := fun _ : nat => (1%:M : 'M[F]_1) in
  let chols := fun (_ : nat) (_ : 'M[F]_1) => (1%:M : 'M[F]_1) in
  let sub := fun (v a : 'cV[F]_ni) => v - a in
  [/\ forall k, (Rs k)^T = Rs k, forall k, pd (Rs k),
      forall k (P : 'M[F]_(ni + ns)), P^T = P -> psd P -> cholesky_factor (chols k) (correct_S P (Hs k) (Rs k))
    & forall v a b, sub (sub v a) b = sub v (a + b)].
Proof. exact example_cycle_hyps. Qed.
