(** C04 -- INS error model is the linearisation of strapdown error growth.

    Statements are about the definitions GENERATED from /repo (Gen/C04Gen.v: sysmat3d, sysmat2d, prop3d,
    prop2d, tr23, tr32 entries) against the hand-written hub specification Spec/NavODE.v.  The vocabulary
    (nstate, imu, err, pdelta = the library's error chart P(s) x, lin, linB, errdyn = (F + N) x with F generated
    and N explicit, sens = B_gyro dw + B_accel df) is defined in Proofs/C04Proofs.v sections 0-2.

    Reading of the main theorem.  Let s(t) follow the navigation equations nav_rhs with the true sensor signals and
    let the INS state be s_ins = s + P(s) x (x = error in the library's coordinates; correct_pva removes it).  If
    s_ins follows nav_rhs too, then P(s) x' = nav_rhs(s + P(s) x) - nav_rhs(s) - (D P(s)[nav_rhs s]) x; the
    derivative of the right-hand side in x at x = 0, in the direction x, is the derivative at u = 0 of
        lin g pr s m x u = g(s + u P(s) x) - [P(s + u nav_rhs(s)) x]_pr,
    and the theorem says it equals [P(s) (F + N) x]_pr for each of the 15 scalar components pr of the state.

    PROVED HERE: C04_errdyn_is_linearisation (all 9 error directions at once, N explicit),
      C04_sensor_coupling_exact, C04_model_in_spec_terms, C04_neglected_small, C04_reduction_2d,
      C04_propagate_consistent_3d/_2d, C04_propagate_rows_uniform_3d/_2d (each step uses its own interval), C04_errdyn2d_is_linearisation (no-altitude mode), C04_pert_scale.
    NOT PROVED (see evidence `assumptions`): the exchange of the u- and t-derivatives linking this continuous
      statement to finite-time error growth (finite_step_error_growth_partial), and the quantitative "within the size
      of the neglected terms" over a finite filter step 0.1..2 s (checked numerically on the implementation by
      tools/props/C04.py).  C01 ties the hub specification to the integrator kernel. *)
From Coq Require Import Reals Lra.
From Coquelicot Require Import Coquelicot.
From PV Require Import Base.RealTac Spec.LibSpecs Spec.Ellipsoid Spec.NavODE.
From PV Require Import Gen.Transform Gen.C04Gen Proofs.C04Proofs.
Open Scope R_scope.

(** F + N is the linearisation of the navigation equations in the library's error coordinates: every state with |lat| < 90 deg, alt >= -1000 km, every error direction x (hence each e_k, k = 1..9), every sensor input, all 15 components.  Blocks: PHI and DV columns (gravity-tilt -[g x], Coriolis -[(2 Omega + rho) x], DR/PHI [v x], PHI/PHI) and the DR columns, each with its explicit remainder N *)
Theorem C04_errdyn_is_linearisation : forall s roll pitch heading m x, dom s ->
  is_derive (lin nav_rhs_lat s_lat s m x) 0 (s_lat (pdelta s (errdyn s roll pitch heading x))) /\
  is_derive (lin nav_rhs_lon s_lon s m x) 0 (s_lon (pdelta s (errdyn s roll pitch heading x))) /\
  is_derive (lin nav_rhs_alt s_alt s m x) 0 (s_alt (pdelta s (errdyn s roll pitch heading x))) /\
  is_derive (lin nav_rhs_VN s_VN s m x) 0 (s_VN (pdelta s (errdyn s roll pitch heading x))) /\
  is_derive (lin nav_rhs_VE s_VE s m x) 0 (s_VE (pdelta s (errdyn s roll pitch heading x))) /\
  is_derive (lin nav_rhs_VD s_VD s m x) 0 (s_VD (pdelta s (errdyn s roll pitch heading x))) /\
  is_derive (lin nav_rhs_C00 s_C00 s m x) 0 (s_C00 (pdelta s (errdyn s roll pitch heading x))) /\
  is_derive (lin nav_rhs_C01 s_C01 s m x) 0 (s_C01 (pdelta s (errdyn s roll pitch heading x))) /\
  is_derive (lin nav_rhs_C02 s_C02 s m x) 0 (s_C02 (pdelta s (errdyn s roll pitch heading x))) /\
  is_derive (lin nav_rhs_C10 s_C10 s m x) 0 (s_C10 (pdelta s (errdyn s roll pitch heading x))) /\
  is_derive (lin nav_rhs_C11 s_C11 s m x) 0 (s_C11 (pdelta s (errdyn s roll pitch heading x))) /\
  is_derive (lin nav_rhs_C12 s_C12 s m x) 0 (s_C12 (pdelta s (errdyn s roll pitch heading x))) /\
  is_derive (lin nav_rhs_C20 s_C20 s m x) 0 (s_C20 (pdelta s (errdyn s roll pitch heading x))) /\
  is_derive (lin nav_rhs_C21 s_C21 s m x) 0 (s_C21 (pdelta s (errdyn s roll pitch heading x))) /\
  is_derive (lin nav_rhs_C22 s_C22 s m x) 0 (s_C22 (pdelta s (errdyn s roll pitch heading x))).
Proof. exact errdyn_is_linearisation. Qed.
Print Assumptions C04_errdyn_is_linearisation.

(** B_gyro and B_accel (generated) are the exact sensitivities to the gyro / accelerometer inputs, no remainder *)
Theorem C04_sensor_coupling_exact : forall s roll pitch heading m d, att_is s roll pitch heading ->
  is_derive (linB nav_rhs_lat s m d) 0 (s_lat (pdelta s (sens s roll pitch heading d))) /\
  is_derive (linB nav_rhs_lon s m d) 0 (s_lon (pdelta s (sens s roll pitch heading d))) /\
  is_derive (linB nav_rhs_alt s m d) 0 (s_alt (pdelta s (sens s roll pitch heading d))) /\
  is_derive (linB nav_rhs_VN s m d) 0 (s_VN (pdelta s (sens s roll pitch heading d))) /\
  is_derive (linB nav_rhs_VE s m d) 0 (s_VE (pdelta s (sens s roll pitch heading d))) /\
  is_derive (linB nav_rhs_VD s m d) 0 (s_VD (pdelta s (sens s roll pitch heading d))) /\
  is_derive (linB nav_rhs_C00 s m d) 0 (s_C00 (pdelta s (sens s roll pitch heading d))) /\
  is_derive (linB nav_rhs_C01 s m d) 0 (s_C01 (pdelta s (sens s roll pitch heading d))) /\
  is_derive (linB nav_rhs_C02 s m d) 0 (s_C02 (pdelta s (sens s roll pitch heading d))) /\
  is_derive (linB nav_rhs_C10 s m d) 0 (s_C10 (pdelta s (sens s roll pitch heading d))) /\
  is_derive (linB nav_rhs_C11 s m d) 0 (s_C11 (pdelta s (sens s roll pitch heading d))) /\
  is_derive (linB nav_rhs_C12 s m d) 0 (s_C12 (pdelta s (sens s roll pitch heading d))) /\
  is_derive (linB nav_rhs_C20 s m d) 0 (s_C20 (pdelta s (sens s roll pitch heading d))) /\
  is_derive (linB nav_rhs_C21 s m d) 0 (s_C21 (pdelta s (sens s roll pitch heading d))) /\
  is_derive (linB nav_rhs_C22 s m d) 0 (s_C22 (pdelta s (sens s roll pitch heading d))).
Proof. exact sensor_coupling_exact. Qed.
Print Assumptions C04_sensor_coupling_exact.

(** the generated F x, block by block, in the vocabulary of the hub specification (sm0..sm8) *)
Theorem C04_model_in_spec_terms : forall s roll pitch heading x,
  model0 s roll pitch heading x = sm0 s x /\ model1 s roll pitch heading x = sm1 s x /\
  model2 s roll pitch heading x = sm2 s x /\ model3 s roll pitch heading x = sm3 s x /\
  model4 s roll pitch heading x = sm4 s x /\ model5 s roll pitch heading x = sm5 s x /\
  model6 s roll pitch heading x = sm6 s x /\ model7 s roll pitch heading x = sm7 s x /\
  model8 s roll pitch heading x = sm8 s x.
Proof. exact model_in_spec_terms. Qed.
Print Assumptions C04_model_in_spec_terms.

(** errdyn = generated model + explicit remainder N x *)
Theorem C04_errdyn_split : forall s roll pitch heading x,
  errdyn0 s roll pitch heading x = model0 s roll pitch heading x + negl0 s x /\
  errdyn1 s roll pitch heading x = model1 s roll pitch heading x + negl1 s x /\
  errdyn2 s roll pitch heading x = model2 s roll pitch heading x + negl2 s x /\
  errdyn3 s roll pitch heading x = model3 s roll pitch heading x + negl3 s x /\
  errdyn4 s roll pitch heading x = model4 s roll pitch heading x + negl4 s x /\
  errdyn5 s roll pitch heading x = model5 s roll pitch heading x + negl5 s x /\
  errdyn6 s roll pitch heading x = model6 s roll pitch heading x + negl6 s x /\
  errdyn7 s roll pitch heading x = model7 s roll pitch heading x + negl7 s x /\
  errdyn8 s roll pitch heading x = model8 s roll pitch heading x + negl8 s x.
Proof. exact errdyn_split. Qed.
Print Assumptions C04_errdyn_split.

(** every entry of N is bounded by an explicit constant on the flight envelope (interval arithmetic) *)
Theorem C04_neglected_small : forall s, flight_domain s ->
  Rabs (N00 s) <= 5 / 100000 /\
  Rabs (N02 s) <= 5 / 100000 /\
  Rabs (N10 s) <= 3 / 10000 /\
  Rabs (N11 s) <= 33 / 100000 /\
  Rabs (N12 s) <= 5 / 100000 /\
  Rabs (N30 s) <= 4 / 1000000000 /\
  Rabs (N36 s) <= 22 / 1000 /\
  Rabs (N37 s) <= 22 / 1000 /\
  Rabs (N38 s) <= 22 / 1000 /\
  Rabs (N40 s) <= 5 / 1000000000 /\
  Rabs (N47 s) <= 31 / 1000 /\
  Rabs (N50 s) <= 13 / 1000000000 /\
  Rabs (N56 s) <= 22 / 1000 /\
  Rabs (N57 s) <= 22 / 1000 /\
  Rabs (N58 s) <= 22 / 1000 /\
  Rabs (N60 s) <= 3 / 100000000000000 /\
  Rabs (N62 s) <= 8 / 1000000000000 /\
  Rabs (N70 s) <= 8 / 100000000000000 /\
  Rabs (N72 s) <= 8 / 1000000000000 /\
  Rabs (N80 s) <= 3 / 10000000000 /\
  Rabs (N82 s) <= 5 / 100000000000.
Proof. exact neglected_small. Qed.
Print Assumptions C04_neglected_small.

(** the generated 7-state F is T23 * F * T32(VN, VE) exactly, with the generated TRANSFORM_2D_3D and _transform_3d_2d *)
Theorem C04_reduction_2d_F : forall lat lon alt VN VE VD roll pitch heading (i j : nat), (i < 7)%nat -> (j < 7)%nat ->
  F2m lat lon alt VN VE VD roll pitch heading i j = mmul9 T23m (mmul9 (F3m lat lon alt VN VE VD roll pitch heading) (T32m VN VE)) i j.
Proof. exact reduction_2d_F. Qed.
Print Assumptions C04_reduction_2d_F.

(** the generated 7-state B matrices are T23 * B *)
Theorem C04_reduction_2d_B : forall lat lon alt VN VE VD roll pitch heading (i j : nat), (i < 7)%nat -> (j < 3)%nat ->
  G2m lat lon alt VN VE VD roll pitch heading i j = mmul9 T23m (G3m lat lon alt VN VE VD roll pitch heading) i j /\
  A2m lat lon alt VN VE VD roll pitch heading i j = mmul9 T23m (A3m lat lon alt VN VE VD roll pitch heading) i j.
Proof. exact reduction_2d_B. Qed.
Print Assumptions C04_reduction_2d_B.

(** TRANSFORM_2D_3D (generated) selects the states DR1 DR2 DV1 DV2 PHI1 PHI2 PHI3 *)
Theorem C04_t23_is_selection : forall i j : nat, (i < 7)%nat -> (j < 9)%nat ->
  T23m i j = if Nat.eqb j (sel7 i) then 1 else 0.
Proof. exact t23_is_selection. Qed.
Print Assumptions C04_t23_is_selection.

(** TRANSFORM_2D_3D * _transform_3d_2d(VN, VE) = I7 *)
Theorem C04_t23_t32_identity : forall (VN VE : R) (i j : nat), (i < 7)%nat -> (j < 7)%nat ->
  mmul9 T23m (T32m VN VE) i j = if Nat.eqb i j then 1 else 0.
Proof. exact t23_t32_identity. Qed.
Print Assumptions C04_t23_t32_identity.

(** the lift puts the 7-state error on the surface dr3 = 0, dv3 = VE phi1 - VN phi2 *)
Theorem C04_t32_constraint_row : forall (VN VE : R),
  T32m VN VE 5%nat 4%nat = VE /\ T32m VN VE 5%nat 5%nat = - VN /\
  T32m VN VE 2%nat 0%nat = 0 /\ T32m VN VE 2%nat 1%nat = 0 /\ T32m VN VE 2%nat 2%nat = 0 /\ T32m VN VE 2%nat 3%nat = 0 /\
  T32m VN VE 2%nat 4%nat = 0 /\ T32m VN VE 2%nat 5%nat = 0 /\ T32m VN VE 2%nat 6%nat = 0.
Proof. exact t32_constraint_row. Qed.
Print Assumptions C04_t32_constraint_row.

(** no-altitude mode: on level trajectories (VD = 0, vertical channel in equilibrium) the generated 7-state F2 plus the reduced remainder is the linearisation of the 2D navigation equations (altitude and VD frozen) in the lifted coordinates lift s y = T32(VN, VE) y, all 15 components *)
Theorem C04_errdyn2d_is_linearisation : forall s roll pitch heading m y, dom s -> level s m ->
  is_derive (lin2 nav_rhs_lat s_lat s m y) 0 (s_lat (pdelta s (lift s (errdynR s roll pitch heading y)))) /\
  is_derive (lin2 nav_rhs_lon s_lon s m y) 0 (s_lon (pdelta s (lift s (errdynR s roll pitch heading y)))) /\
  is_derive (lin2 rhs_zero s_alt s m y) 0 (s_alt (pdelta s (lift s (errdynR s roll pitch heading y)))) /\
  is_derive (lin2 nav_rhs_VN s_VN s m y) 0 (s_VN (pdelta s (lift s (errdynR s roll pitch heading y)))) /\
  is_derive (lin2 nav_rhs_VE s_VE s m y) 0 (s_VE (pdelta s (lift s (errdynR s roll pitch heading y)))) /\
  is_derive (lin2 rhs_zero s_VD s m y) 0 (s_VD (pdelta s (lift s (errdynR s roll pitch heading y)))) /\
  is_derive (lin2 nav_rhs_C00 s_C00 s m y) 0 (s_C00 (pdelta s (lift s (errdynR s roll pitch heading y)))) /\
  is_derive (lin2 nav_rhs_C01 s_C01 s m y) 0 (s_C01 (pdelta s (lift s (errdynR s roll pitch heading y)))) /\
  is_derive (lin2 nav_rhs_C02 s_C02 s m y) 0 (s_C02 (pdelta s (lift s (errdynR s roll pitch heading y)))) /\
  is_derive (lin2 nav_rhs_C10 s_C10 s m y) 0 (s_C10 (pdelta s (lift s (errdynR s roll pitch heading y)))) /\
  is_derive (lin2 nav_rhs_C11 s_C11 s m y) 0 (s_C11 (pdelta s (lift s (errdynR s roll pitch heading y)))) /\
  is_derive (lin2 nav_rhs_C12 s_C12 s m y) 0 (s_C12 (pdelta s (lift s (errdynR s roll pitch heading y)))) /\
  is_derive (lin2 nav_rhs_C20 s_C20 s m y) 0 (s_C20 (pdelta s (lift s (errdynR s roll pitch heading y)))) /\
  is_derive (lin2 nav_rhs_C21 s_C21 s m y) 0 (s_C21 (pdelta s (lift s (errdynR s roll pitch heading y)))) /\
  is_derive (lin2 nav_rhs_C22 s_C22 s m y) 0 (s_C22 (pdelta s (lift s (errdynR s roll pitch heading y)))).
Proof. exact errdyn2d_is_linearisation. Qed.
Print Assumptions C04_errdyn2d_is_linearisation.

(** the level hypothesis is necessary: at rest on the equator in free fall (f = 0, so f_D is not -g) with a unit PHI2 error the 2D right-hand side has derivative 0 while the 7-state model predicts the gravity-tilt rate GE_ = 9.78 for DV1, so the conclusion of C04_errdyn2d_is_linearisation fails (known finding no-altitude-vertical-specific-force) *)
Theorem C04_errdyn2d_nonlevel_refuted :
  dom s_rest /\ s_VD s_rest = 0 /\ ~ level s_rest m_fall /\
  is_derive (lin2 nav_rhs_VN s_VN s_rest m_fall y_phi2) 0 0 /\
  s_VN (pdelta s_rest (lift s_rest (errdynR s_rest 0 0 0 y_phi2))) = GE_ /\
  ~ is_derive (lin2 nav_rhs_VN s_VN s_rest m_fall y_phi2) 0
      (s_VN (pdelta s_rest (lift s_rest (errdynR s_rest 0 0 0 y_phi2)))).
Proof. exact errdyn2d_nonlevel_refuted. Qed.
Print Assumptions C04_errdyn2d_nonlevel_refuted.

(** the lift is the generated _transform_3d_2d(VN, VE) *)
Theorem C04_lift_is_T32 : forall s y,
  e0 (lift s y) = T32m (s_VN s) (s_VE s) 0%nat 0%nat * y0 y + T32m (s_VN s) (s_VE s) 0%nat 1%nat * y1 y + T32m (s_VN s) (s_VE s) 0%nat 2%nat * y2 y + T32m (s_VN s) (s_VE s) 0%nat 3%nat * y3 y + T32m (s_VN s) (s_VE s) 0%nat 4%nat * y4 y + T32m (s_VN s) (s_VE s) 0%nat 5%nat * y5 y + T32m (s_VN s) (s_VE s) 0%nat 6%nat * y6 y /\
  e1 (lift s y) = T32m (s_VN s) (s_VE s) 1%nat 0%nat * y0 y + T32m (s_VN s) (s_VE s) 1%nat 1%nat * y1 y + T32m (s_VN s) (s_VE s) 1%nat 2%nat * y2 y + T32m (s_VN s) (s_VE s) 1%nat 3%nat * y3 y + T32m (s_VN s) (s_VE s) 1%nat 4%nat * y4 y + T32m (s_VN s) (s_VE s) 1%nat 5%nat * y5 y + T32m (s_VN s) (s_VE s) 1%nat 6%nat * y6 y /\
  e2 (lift s y) = T32m (s_VN s) (s_VE s) 2%nat 0%nat * y0 y + T32m (s_VN s) (s_VE s) 2%nat 1%nat * y1 y + T32m (s_VN s) (s_VE s) 2%nat 2%nat * y2 y + T32m (s_VN s) (s_VE s) 2%nat 3%nat * y3 y + T32m (s_VN s) (s_VE s) 2%nat 4%nat * y4 y + T32m (s_VN s) (s_VE s) 2%nat 5%nat * y5 y + T32m (s_VN s) (s_VE s) 2%nat 6%nat * y6 y /\
  e3 (lift s y) = T32m (s_VN s) (s_VE s) 3%nat 0%nat * y0 y + T32m (s_VN s) (s_VE s) 3%nat 1%nat * y1 y + T32m (s_VN s) (s_VE s) 3%nat 2%nat * y2 y + T32m (s_VN s) (s_VE s) 3%nat 3%nat * y3 y + T32m (s_VN s) (s_VE s) 3%nat 4%nat * y4 y + T32m (s_VN s) (s_VE s) 3%nat 5%nat * y5 y + T32m (s_VN s) (s_VE s) 3%nat 6%nat * y6 y /\
  e4 (lift s y) = T32m (s_VN s) (s_VE s) 4%nat 0%nat * y0 y + T32m (s_VN s) (s_VE s) 4%nat 1%nat * y1 y + T32m (s_VN s) (s_VE s) 4%nat 2%nat * y2 y + T32m (s_VN s) (s_VE s) 4%nat 3%nat * y3 y + T32m (s_VN s) (s_VE s) 4%nat 4%nat * y4 y + T32m (s_VN s) (s_VE s) 4%nat 5%nat * y5 y + T32m (s_VN s) (s_VE s) 4%nat 6%nat * y6 y /\
  e5 (lift s y) = T32m (s_VN s) (s_VE s) 5%nat 0%nat * y0 y + T32m (s_VN s) (s_VE s) 5%nat 1%nat * y1 y + T32m (s_VN s) (s_VE s) 5%nat 2%nat * y2 y + T32m (s_VN s) (s_VE s) 5%nat 3%nat * y3 y + T32m (s_VN s) (s_VE s) 5%nat 4%nat * y4 y + T32m (s_VN s) (s_VE s) 5%nat 5%nat * y5 y + T32m (s_VN s) (s_VE s) 5%nat 6%nat * y6 y /\
  e6 (lift s y) = T32m (s_VN s) (s_VE s) 6%nat 0%nat * y0 y + T32m (s_VN s) (s_VE s) 6%nat 1%nat * y1 y + T32m (s_VN s) (s_VE s) 6%nat 2%nat * y2 y + T32m (s_VN s) (s_VE s) 6%nat 3%nat * y3 y + T32m (s_VN s) (s_VE s) 6%nat 4%nat * y4 y + T32m (s_VN s) (s_VE s) 6%nat 5%nat * y5 y + T32m (s_VN s) (s_VE s) 6%nat 6%nat * y6 y /\
  e7 (lift s y) = T32m (s_VN s) (s_VE s) 7%nat 0%nat * y0 y + T32m (s_VN s) (s_VE s) 7%nat 1%nat * y1 y + T32m (s_VN s) (s_VE s) 7%nat 2%nat * y2 y + T32m (s_VN s) (s_VE s) 7%nat 3%nat * y3 y + T32m (s_VN s) (s_VE s) 7%nat 4%nat * y4 y + T32m (s_VN s) (s_VE s) 7%nat 5%nat * y5 y + T32m (s_VN s) (s_VE s) 7%nat 6%nat * y6 y /\
  e8 (lift s y) = T32m (s_VN s) (s_VE s) 8%nat 0%nat * y0 y + T32m (s_VN s) (s_VE s) 8%nat 1%nat * y1 y + T32m (s_VN s) (s_VE s) 8%nat 2%nat * y2 y + T32m (s_VN s) (s_VE s) 8%nat 3%nat * y3 y + T32m (s_VN s) (s_VE s) 8%nat 4%nat * y4 y + T32m (s_VN s) (s_VE s) 8%nat 5%nat * y5 y + T32m (s_VN s) (s_VE s) 8%nat 6%nat * y6 y.
Proof. exact lift_is_T32. Qed.
Print Assumptions C04_lift_is_T32.

(** (F + N) T32 y = T32 (F2 + N2) y on the retained states; its DR3 component vanishes *)
Theorem C04_errdyn_lift : forall s roll pitch heading y,
  errdyn0 s roll pitch heading (lift s y) = errdynR0 s roll pitch heading y /\
  errdyn1 s roll pitch heading (lift s y) = errdynR1 s roll pitch heading y /\
  errdyn3 s roll pitch heading (lift s y) = errdynR2 s roll pitch heading y /\
  errdyn4 s roll pitch heading (lift s y) = errdynR3 s roll pitch heading y /\
  errdyn6 s roll pitch heading (lift s y) = errdynR4 s roll pitch heading y /\
  errdyn7 s roll pitch heading (lift s y) = errdynR5 s roll pitch heading y /\
  errdyn8 s roll pitch heading (lift s y) = errdynR6 s roll pitch heading y /\
  errdyn2 s roll pitch heading (lift s y) = 0.
Proof. exact errdyn_lift. Qed.
Print Assumptions C04_errdyn_lift.

(** one step of propagate_errors (9 states): identity at dt = 0 and derivative (F_k + F_k+1)/2 x + (B_k + B_k+1)/2 e at dt = 0 (trapezoid); with F_k+1 = F_k this is F x + B_gyro e_g + B_accel e_a *)
Theorem C04_propagate_consistent_3d : forall (Fa Fb Ga Gb Aa Ab : mat) (x eg ea : nat -> R) (i : nat), (i < 9)%nat ->
  prop3 i 0 Fa Fb Ga Gb Aa Ab x eg ea = x i /\
  is_derive (fun dt => prop3 i dt Fa Fb Ga Gb Aa Ab x eg ea) 0 (rate3 i Fa Fb Ga Gb Aa Ab x eg ea).
Proof. exact propagate_consistent_3d. Qed.
Print Assumptions C04_propagate_consistent_3d.

(** the same for the 7-state recursion *)
Theorem C04_propagate_consistent_2d : forall (Fa Fb Ga Gb Aa Ab : mat) (x eg ea : nat -> R) (i : nat), (i < 7)%nat ->
  prop2 i 0 Fa Fb Ga Gb Aa Ab x eg ea = x i /\
  is_derive (fun dt => prop2 i dt Fa Fb Ga Gb Aa Ab x eg ea) 0 (rate2 i Fa Fb Ga Gb Aa Ab x eg ea).
Proof. exact propagate_consistent_2d. Qed.
Print Assumptions C04_propagate_consistent_2d.

(** every step of propagate_errors is the one-step map with ITS OWN interval: rows 1 and 2 of a three-row trajectory with different dt1, dt2 (9 states) *)
Theorem C04_propagate_rows_uniform_3d : forall (Fa Fb Fc Ga Gb Gc Aa Ab Ac : mat) (x eg ea : nat -> R) (dt1 dt2 : R) (i : nat),
  (i < 9)%nat ->
  propT3 i dt1 dt2 Fa Fb Fc Ga Gb Gc Aa Ab Ac x eg ea = prop3 i dt1 Fa Fb Ga Gb Aa Ab x eg ea /\
  propT3' i dt1 dt2 Fa Fb Fc Ga Gb Gc Aa Ab Ac x eg ea =
    prop3 i dt2 Fb Fc Gb Gc Ab Ac (fun j => propT3 j dt1 dt2 Fa Fb Fc Ga Gb Gc Aa Ab Ac x eg ea) eg ea.
Proof. exact propagate_rows_uniform_3d. Qed.
Print Assumptions C04_propagate_rows_uniform_3d.

(** every step of propagate_errors is the one-step map with ITS OWN interval: rows 1 and 2 of a three-row trajectory with different dt1, dt2 (7 states) *)
Theorem C04_propagate_rows_uniform_2d : forall (Fa Fb Fc Ga Gb Gc Aa Ab Ac : mat) (x eg ea : nat -> R) (dt1 dt2 : R) (i : nat),
  (i < 7)%nat ->
  propT2 i dt1 dt2 Fa Fb Fc Ga Gb Gc Aa Ab Ac x eg ea = prop2 i dt1 Fa Fb Ga Gb Aa Ab x eg ea /\
  propT2' i dt1 dt2 Fa Fb Fc Ga Gb Gc Aa Ab Ac x eg ea =
    prop2 i dt2 Fb Fc Gb Gc Ab Ac (fun j => propT2 j dt1 dt2 Fa Fb Fc Ga Gb Gc Aa Ab Ac x eg ea) eg ea.
Proof. exact propagate_rows_uniform_2d. Qed.
Print Assumptions C04_propagate_rows_uniform_2d.

(** the perturbed (INS) state for the error u x is s + u P(s) x *)
Theorem C04_pert_scale : forall s x u, pert s (xscale u x) = sadd s u (pdelta s x).
Proof. exact pert_scale. Qed.
Print Assumptions C04_pert_scale.

(** the position rows of the chart are the generated transform.perturb_lla(lla, +dr) (what correct_pva inverts) *)
Theorem C04_pert_position_is_perturb_lla : forall s x, -90 < s_lat s < 90 ->
  s_lat (pert s x) = perturb_lla_lat (s_lat s) (s_lon s) (s_alt s) (e0 x) (e1 x) (e2 x) /\
  s_lon (pert s x) = perturb_lla_lon (s_lat s) (s_lon s) (s_alt s) (e0 x) (e1 x) (e2 x) /\
  s_alt (pert s x) = perturb_lla_alt (s_lat s) (s_lon s) (s_alt s) (e0 x) (e1 x) (e2 x).
Proof. exact pert_position_is_perturb_lla. Qed.
Print Assumptions C04_pert_position_is_perturb_lla.

(** non-vacuity: the hypotheses hold on concrete states *)
Example C04_dom_example : dom (mkS 45 10 100 200 (-100) 5 1 0 0 0 1 0 0 0 1) /\
  flight_domain (mkS (-60) 10 10000 200 (-100) 5 1 0 0 0 1 0 0 0 1).
Proof. unfold dom, flight_domain; cbn [s_lat s_alt s_VN s_VE s_VD]. lra. Qed.
Example C04_att_example : att_is (mkS 45 10 100 200 (-100) 5 1 0 0 0 1 0 0 0 1) 0 0 0.
Proof.
  unfold att_is; cbn [s_C00 s_C01 s_C02 s_C10 s_C11 s_C12 s_C20 s_C21 s_C22].
  unfold mat_from_rph_m00, mat_from_rph_m01, mat_from_rph_m02, mat_from_rph_m10, mat_from_rph_m11,
    mat_from_rph_m12, mat_from_rph_m20, mat_from_rph_m21, mat_from_rph_m22.
  repeat autounfold with mat_from_rph_db. rewrite !Rmult_0_l, cos_0, sin_0. repeat split; ring.
Qed.
Example C04_level_example : exists f2 : R,
  level (mkS 45 0 100 100 50 0 1 0 0 0 1 0 0 0 1) (mkI 0 0 0 0 0 f2).
Proof.
  exists (cross2 (nav_cor_N 45 100 100 50) (nav_cor_E 45 100 100 50) (nav_cor_D 45 100 100 50) 100 50 0
          - normal_gravity (45 * d2r) 100).
  unfold level, app, nav_rhs_VD, dot3; cbn [s_lat s_lon s_alt s_VN s_VE s_VD s_C00 s_C01 s_C02 s_C10 s_C11 s_C12
    s_C20 s_C21 s_C22 i_w0 i_w1 i_w2 i_f0 i_f1 i_f2]. split; [reflexivity | ring].
Qed.
(** the remainder is not identically zero: N36 at a descending state in the northern hemisphere *)
Example C04_neglected_nonzero : N02 (mkS 0 0 0 100 0 0 1 0 0 0 1 0 0 0 1) <> 0.
Proof.
  unfold N02, rn; cbn [s_lat s_alt s_VN]. pose proof (nav_Rn_big 0) as H.
  intro E. apply Rmult_integral in E. destruct E as [E|E]; [lra|].
  assert (0 < / (nav_Rn 0 + 0)) by (apply Rinv_0_lt_compat; lra). lra.
Qed.
