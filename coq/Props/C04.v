(** C04 -- INS error model is the linearisation of strapdown error growth.

    Statements are about the definitions GENERATED from /repo (Gen/C04Gen.v: sysmat3d, sysmat2d, prop3d,
    prop2d, tr23, tr32 entries) against the hand-written hub specification Spec/NavODE.v.  The vocabulary
    (nstate, imu, err, pdelta = the library's error chart P(s) x, lin, linB, errdyn = (F + N) x with F generated
    and N explicit, sens = B_gyro dw + B_accel df) is defined in Proofs/C04Proofs.v sections 0-2.

    Reading of the main theorem.  Let s(t) follow the navigation equations nav_rhs with the true sensor signals and
    let the INS state be s_ins = s + P(s) x (x = error in the library's coordinates; correct_pva removes it).  If
    s_ins follows nav_rhs too, then P(s) x' = nav_rhs(s + P(s) x) - nav_rhs(s) - (D P(s)[nav_rhs s]) x; the
    derivative of the right-hand side in x at x = 0, in the direction x, is the derivative at u = 0 of
        lin g pr s m x u = g(s + u P(s) x) - [P(s + u nav_rhs(s)) x]_pr,
    and the theorem says it equals [P(s) (F + N) x]_pr for each of the 15 scalar components pr of the state.

    PROVED HERE: C04_errdyn_is_linearisation (all 9 error directions at once, N explicit),
      C04_sensor_coupling_exact, C04_model_in_spec_terms, C04_neglected_small, C04_reduction_2d,
      C04_propagate_consistent_3d/_2d, C04_pert_scale.
    NOT PROVED (see evidence `assumptions`): the exchange of the u- and t-derivatives linking this continuous
      statement to finite-time error growth (finite_step_error_growth_partial), and the quantitative "within the size
      of the neglected terms" over a finite filter step 0.1..2 s (checked numerically on the implementation by
      tools/props/C04.py).  C01 ties the hub specification to the integrator kernel. *)
From Coq Require Import Reals Lra.
From Coquelicot Require Import Coquelicot.
From PV Require Import Base.RealTac Spec.LibSpecs Spec.Ellipsoid Spec.NavODE.
From PV Require Import Gen.Transform Gen.C04Gen Proofs.C04Proofs.
Open Scope R_scope.

(** F + N is the linearisation of the navigation equations in the library's error coordinates: every state with |lat| < 90 deg, alt >= -1000 km, every error direction x (hence each e_k), every sensor input, all 15 components *)
Theorem C04_errdyn_is_linearisation : forall s roll pitch heading m x, dom s ->
  is_derive (lin nav_rhs_lat s_lat s m x) 0 (s_lat (pdelta s (errdyn s roll pitch heading x))) /\
  is_derive (lin nav_rhs_lon s_lon s m x) 0 (s_lon (pdelta s (errdyn s roll pitch heading x))) /\
  is_derive (lin nav_rhs_alt s_alt s m x) 0 (s_alt (pdelta s (errdyn s roll pitch heading x))) /\
  is_derive (lin nav_rhs_VN s_VN s m x) 0 (s_VN (pdelta s (errdyn s roll pitch heading x))) /\
  is_derive (lin nav_rhs_VE s_VE s m x) 0 (s_VE (pdelta s (errdyn s roll pitch heading x))) /\
  is_derive (lin nav_rhs_VD s_VD s m x) 0 (s_VD (pdelta s (errdyn s roll pitch heading x))) /\
  is_derive (lin nav_rhs_C00 s_C00 s m x) 0 (s_C00 (pdelta s (errdyn s roll pitch heading x))) /\
  is_derive (lin nav_rhs_C01 s_C01 s m x) 0 (s_C01 (pdelta s (errdyn s roll pitch heading x))) /\
  is_derive (lin nav_rhs_C02 s_C02 s m x) 0 (s_C02 (pdelta s (errdyn s roll pitch heading x))) /\
  is_derive (lin nav_rhs_C10 s_C10 s m x) 0 (s_C10 (pdelta s (errdyn s roll pitch heading x))) /\
  is_derive (lin nav_rhs_C11 s_C11 s m x) 0 (s_C11 (pdelta s (errdyn s roll pitch heading x))) /\
  is_derive (lin nav_rhs_C12 s_C12 s m x) 0 (s_C12 (pdelta s (errdyn s roll pitch heading x))) /\
  is_derive (lin nav_rhs_C20 s_C20 s m x) 0 (s_C20 (pdelta s (errdyn s roll pitch heading x))) /\
  is_derive (lin nav_rhs_C21 s_C21 s m x) 0 (s_C21 (pdelta s (errdyn s roll pitch heading x))) /\
  is_derive (lin nav_rhs_C22 s_C22 s m x) 0 (s_C22 (pdelta s (errdyn s roll pitch heading x))).
Proof. exact errdyn_is_linearisation. Qed.
Print Assumptions C04_errdyn_is_linearisation.

(** B_gyro and B_accel (generated) are the exact sensitivities to the gyro / accelerometer inputs, no remainder *)
Theorem C04_sensor_coupling_exact : forall s roll pitch heading m d, att_is s roll pitch heading ->
  is_derive (linB nav_rhs_lat s m d) 0 (s_lat (pdelta s (sens s roll pitch heading d))) /\
  is_derive (linB nav_rhs_lon s m d) 0 (s_lon (pdelta s (sens s roll pitch heading d))) /\
  is_derive (linB nav_rhs_alt s m d) 0 (s_alt (pdelta s (sens s roll pitch heading d))) /\
  is_derive (linB nav_rhs_VN s m d) 0 (s_VN (pdelta s (sens s roll pitch heading d))) /\
  is_derive (linB nav_rhs_VE s m d) 0 (s_VE (pdelta s (sens s roll pitch heading d))) /\
  is_derive (linB nav_rhs_VD s m d) 0 (s_VD (pdelta s (sens s roll pitch heading d))) /\
  is_derive (linB nav_rhs_C00 s m d) 0 (s_C00 (pdelta s (sens s roll pitch heading d))) /\
  is_derive (linB nav_rhs_C01 s m d) 0 (s_C01 (pdelta s (sens s roll pitch heading d))) /\
  is_derive (linB nav_rhs_C02 s m d) 0 (s_C02 (pdelta s (sens s roll pitch heading d))) /\
  is_derive (linB nav_rhs_C10 s m d) 0 (s_C10 (pdelta s (sens s roll pitch heading d))) /\
  is_derive (linB nav_rhs_C11 s m d) 0 (s_C11 (pdelta s (sens s roll pitch heading d))) /\
  is_derive (linB nav_rhs_C12 s m d) 0 (s_C12 (pdelta s (sens s roll pitch heading d))) /\
  is_derive (linB nav_rhs_C20 s m d) 0 (s_C20 (pdelta s (sens s roll pitch heading d))) /\
  is_derive (linB nav_rhs_C21 s m d) 0 (s_C21 (pdelta s (sens s roll pitch heading d))) /\
  is_derive (linB nav_rhs_C22 s m d) 0 (s_C22 (pdelta s (sens s roll pitch heading d))).
Proof. exact sensor_coupling_exact. Qed.
Print Assumptions C04_sensor_coupling_exact.

(** the generated F x, block by block, in the vocabulary of the hub specification (sm0..sm8) *)
Theorem C04_model_in_spec_terms : forall s roll pitch heading x,
  model0 s roll pitch heading x = sm0 s x /\ model1 s roll pitch heading x = sm1 s x /\
  model2 s roll pitch heading x = sm2 s x /\ model3 s roll pitch heading x = sm3 s x /\
  model4 s roll pitch heading x = sm4 s x /\ model5 s roll pitch heading x = sm5 s x /\
  model6 s roll pitch heading x = sm6 s x /\ model7 s roll pitch heading x = sm7 s x /\
  model8 s roll pitch heading x = sm8 s x.
Proof. exact model_in_spec_terms. Qed.
Print Assumptions C04_model_in_spec_terms.

(** errdyn = generated model + explicit remainder N x *)
Theorem C04_errdyn_split : forall s roll pitch heading x,
  errdyn0 s roll pitch heading x = model0 s roll pitch heading x + negl0 s x /\
  errdyn1 s roll pitch heading x = model1 s roll pitch heading x + negl1 s x /\
  errdyn2 s roll pitch heading x = model2 s roll pitch heading x + negl2 s x /\
  errdyn3 s roll pitch heading x = model3 s roll pitch heading x + negl3 s x /\
  errdyn4 s roll pitch heading x = model4 s roll pitch heading x + negl4 s x /\
  errdyn5 s roll pitch heading x = model5 s roll pitch heading x + negl5 s x /\
  errdyn6 s roll pitch heading x = model6 s roll pitch heading x + negl6 s x /\
  errdyn7 s roll pitch heading x = model7 s roll pitch heading x + negl7 s x /\
  errdyn8 s roll pitch heading x = model8 s roll pitch heading x + negl8 s x.
Proof. exact errdyn_split. Qed.
Print Assumptions C04_errdyn_split.

(** the perturbed (INS) state for the error u x is s + u P(s) x *)
Theorem C04_pert_scale : forall s x u, pert s (xscale u x) = sadd s u (pdelta s x).
Proof. exact pert_scale. Qed.
Print Assumptions C04_pert_scale.
