(** C13 — No-altitude mode keeps altitude frozen and vertical velocity zero.

    Real-number statements about the GENERATED formulas (Gen/NumbaIntegrate.v, Gen/C13Gen.v) and,
    for every call history, about the Integrator model (Model/Integrator.v) instantiated with the
    generated kernel step.  Rows: [krow] = one row of (lla, velocity_n, mat_nb), [pva] = one public
    row; mat_to_rph / mat_from_rph are ARBITRARY functions [rph_of] / [mat_of]; [g] = arbitrary content
    of unwritten buffer cells; any initial capacity >= 1.  binary64 rounding is not modelled: that
    [alt - (0.5 * (0 + 0)) * dt] returns [alt] bit-exactly is checked on the implementation by
    tools/props/C13.py. *)
From Coq Require Import List Arith Bool ZArith Lia Reals Lra.
From PV Require Import Model.Integrator Proofs.IntegratorProofs Gen.NumbaIntegrate Gen.C13Gen
  Proofs.C13Proofs.
Import ListNotations.
Local Close Scope R_scope.

(** 1. One kernel step with with_altitude = False, for EVERY row, increment and dt:
       the new vertical velocity is 0 and the new altitude is alt - (1/2 (VD + 0)) dt;
       hence a row with VD = 0 keeps its altitude. *)
Theorem C13_step2d_row :
  forall dt lat lon alt VN VE VD C00 C01 C02 C10 C11 C12 C20 C21 C22 th0 th1 th2 dv0 dv1 dv2 : R,
    step2d_VD dt lat lon alt VN VE VD C00 C01 C02 C10 C11 C12 C20 C21 C22 th0 th1 th2 dv0 dv1 dv2 = 0%R /\
    step2d_alt dt lat lon alt VN VE VD C00 C01 C02 C10 C11 C12 C20 C21 C22 th0 th1 th2 dv0 dv1 dv2
      = (alt - (1 / 2 * (VD + 0)) * dt)%R /\
    (VD = 0%R ->
     step2d_alt dt lat lon alt VN VE VD C00 C01 C02 C10 C11 C12 C20 C21 C22 th0 th1 th2 dv0 dv1 dv2 = alt).
Proof. exact step2d_row. Qed.
Print Assumptions C13_step2d_row.

(** 1'. The same step traced into buffers whose row j+1 held arbitrary garbage (the translator
        rejects any dependence on it) gives the same altitude / vertical-velocity functions. *)
Theorem C13_step2d_ignores_old_row :
  forall dt lat lon alt VN VE VD C00 C01 C02 C10 C11 C12 C20 C21 C22 th0 th1 th2 dv0 dv1 dv2 : R,
    c13_kstep2d_fresh_alt dt lat lon alt VN VE VD C00 C01 C02 C10 C11 C12 C20 C21 C22 th0 th1 th2 dv0 dv1 dv2 =
    step2d_alt dt lat lon alt VN VE VD C00 C01 C02 C10 C11 C12 C20 C21 C22 th0 th1 th2 dv0 dv1 dv2 /\
    c13_kstep2d_fresh_VD dt lat lon alt VN VE VD C00 C01 C02 C10 C11 C12 C20 C21 C22 th0 th1 th2 dv0 dv1 dv2 =
    step2d_VD dt lat lon alt VN VE VD C00 C01 C02 C10 C11 C12 C20 C21 C22 th0 th1 th2 dv0 dv1 dv2.
Proof. exact fresh2d_same. Qed.
Print Assumptions C13_step2d_ignores_old_row.

(** 2a. For EVERY call history of a 2D integrator: the altitude column of the whole trajectory is
        the specification [k_alt_run] — each [Integrate c] appends |c| copies of the altitude most
        recently supplied, [SetPva q] replaces the last entry by the altitude of [q] — that latest
        altitude is the one of [latest_pva], there is one row per integrated increment plus the start
        row, and EVERY row has vertical velocity 0 (also rows supplied with VD <> 0). *)
Theorem C13_integrator2d_whole_trajectory :
  forall (time : Type) (rph_of : mat9 -> R * R * R) (mat_of : R -> R -> R -> mat9)
         (g : krow) (cap : nat) (t0 : time) (p : pva) (ops : list (op pva (kinc_t time))),
    1 <= cap ->
    exists s os,
      k_run_init time rph_of mat_of g false cap t0 p ops = Some (s, os) /\
      map (fun tp => p_alt (snd tp)) (traj s) = fst (k_alt_run time (p_alt p) ops) /\
      snd (k_alt_run time (p_alt p) ops) = p_alt (latest_pva p ops) /\
      length (traj s) = S (length (all_incs ops)) /\
      Forall (fun tp => p_VD (snd tp) = 0%R) (traj s).
Proof. exact integrator2d_whole. Qed.
Print Assumptions C13_integrator2d_whole_trajectory.

(** 2b. ... the rows since the most recent supply, and the buffer row from which every later
        step starts, have VD = 0 and the altitude most recently supplied. *)
Theorem C13_integrator2d_since_supply :
  forall (time : Type) (rph_of : mat9 -> R * R * R) (mat_of : R -> R -> R -> mat9)
         (g : krow) (cap : nat) (t0 : time) (p : pva) (ops : list (op pva (kinc_t time))),
    1 <= cap ->
    exists s os pre t rs cur,
      k_run_init time rph_of mat_of g false cap t0 p ops = Some (s, os) /\
      traj s = pre ++ (t, pva_zero_vd (latest_pva p ops))
                   :: combine (map (fun i : kinc_t time => snd i) (incs_since [] ops))
                              (map (k_to_pub rph_of) rs) /\
      length rs = length (incs_since [] ops) /\
      Forall (fun r => p_VD (k_to_pub rph_of r) = 0%R /\
                       p_alt (k_to_pub rph_of r) = p_alt (latest_pva p ops)) rs /\
      nth_error (buf s) (length (traj s) - 1) = Some cur /\
      k_VD cur = 0%R /\ k_alt cur = p_alt (latest_pva p ops).
Proof. exact integrator2d_since_supply. Qed.
Print Assumptions C13_integrator2d_since_supply.

(** 2c. ... and in every reachable state every row appended by [integrate] and every row
        returned by [predict] has VD = 0 and the altitude most recently supplied. *)
Theorem C13_integrator2d_produced_rows :
  forall (time : Type) (rph_of : mat9 -> R * R * R) (mat_of : R -> R -> R -> mat9)
         (g : krow) (cap : nat) (t0 : time) (p : pva) (ops : list (op pva (kinc_t time)))
         (s : state krow pva time) (os : list (obs pva time)),
    k_run_init time rph_of mat_of g false cap t0 p ops = Some (s, os) ->
    (forall g' c s' ob,
        k_step time rph_of mat_of g' s (Integrate c) = Some (s', ob) ->
        exists new, traj s' = traj s ++ new /\ length new = length c /\
                    Forall (fun tp => p_VD (snd tp) = 0%R /\
                                      p_alt (snd tp) = p_alt (latest_pva p ops)) new) /\
    (forall g' i s' ob,
        k_step time rph_of mat_of g' s (Predict i) = Some (s', ob) ->
        exists row, ob = ORow (snd i, row) /\ traj s' = traj s /\
                    p_VD row = 0%R /\ p_alt row = p_alt (latest_pva p ops)).
Proof. exact integrator2d_produced. Qed.
Print Assumptions C13_integrator2d_produced_rows.

(** 3a. correct_pva in 2D returns altitude and vertical velocity unchanged, for every error vector. *)
Theorem C13_correct2d_keeps_vertical :
  forall (p : pva) (x : err7),
    p_alt (correct2d p x) = p_alt p /\ p_VD (correct2d p x) = p_VD p.
Proof. exact correct2d_keeps_vertical. Qed.
Print Assumptions C13_correct2d_keeps_vertical.

(** 3b. _transform_3d_2d: the DR3 (down) row is zero and the DV3 row is (0,0,0,0,VE,-VN,0). *)
Theorem C13_transform_3d_2d_rows :
  forall VN VE : R,
    t3d2d_row_DR3 VN VE = [0; 0; 0; 0; 0; 0; 0]%R /\
    t3d2d_row_DV3 VN VE = [0; 0; 0; 0; VE; - VN; 0]%R.
Proof. exact t3d2d_rows. Qed.
Print Assumptions C13_transform_3d_2d_rows.

(** 3c. transform_to_output in 2D: rows "down" and "VD" are zero, hence the reported standard
        deviation sqrt ((T P T^T)_kk) of both components is 0 for EVERY covariance matrix P
        (both filters compute trajectory_sd this way). *)
Theorem C13_sd2d_zero :
  forall (lat lon alt VN VE VD roll pitch heading : R) (P : list (list R)),
    (out2d_row_down lat lon alt VN VE VD roll pitch heading = repeat 0%R 7 /\
     out2d_row_VD lat lon alt VN VE VD roll pitch heading = repeat 0%R 7) /\
    sqrt (quad (out2d_row_down lat lon alt VN VE VD roll pitch heading) P) = 0%R /\
    sqrt (quad (out2d_row_VD lat lon alt VN VE VD roll pitch heading) P) = 0%R.
Proof. intros. split; [apply out2d_rows_zero|apply sd2d_zero]. Qed.
Print Assumptions C13_sd2d_zero.

(** 3d. position / NED-velocity error Jacobians in 2D: exactly the two horizontal rows. *)
Theorem C13_meas2d_rows :
  forall lat lon alt VN VE VD roll pitch heading : R,
    poserr2d_matrix lat lon alt VN VE VD roll pitch heading =
      [[1; 0; 0; 0; 0; 0; 0]; [0; 1; 0; 0; 0; 0; 0]]%R /\
    velerr2d_matrix lat lon alt VN VE VD roll pitch heading =
      [[0; 0; 1; 0; 0; - VD; VE]; [0; 0; 0; 1; VD; 0; - VN]]%R.
Proof. exact meas2d_rows. Qed.
Print Assumptions C13_meas2d_rows.

(** 4. Feedback filter: for EVERY history in which each overwrite is
       [set_pva (correct_pva (last row) x)] for some error vector [x] (any measurements), every row
       of the returned trajectory has the INITIAL altitude and vertical velocity 0. *)
Theorem C13_feedback2d_invariant :
  forall (time : Type) (rph_of : mat9 -> R * R * R) (mat_of : R -> R -> R -> mat9)
         (g : krow) (cap : nat) (t0 : time) (p : pva) (ops : list (op pva (kinc_t time)))
         (s0 : state krow pva time),
    init (k_of_pub mat_of) pva_zero_vd g false cap t0 p = Some s0 ->
    k_fb_hist time rph_of mat_of g s0 ops ->
    exists s os,
      k_run_init time rph_of mat_of g false cap t0 p ops = Some (s, os) /\
      Forall (fun tp => p_alt (snd tp) = p_alt p /\ p_VD (snd tp) = 0%R) (traj s).
Proof. exact feedback2d. Qed.
Print Assumptions C13_feedback2d_invariant.

(** * Non-vacuity *)

(** the hypothesis VD = 0 of theorem 1 is needed: a row with VD = 2 loses 1 m in 1 s *)
Example ex_step2d_moves_with_VD :
  step2d_alt 1 0 0 10 0 0 2 1 0 0 0 1 0 0 0 1 0 0 0 0 0 0 = 9%R.
Proof. exact step2d_alt_moves_if_VD_nonzero. Qed.

Definition ex_p0 : pva := mkP 50 30 100 3 4 5 1 2 3.
Definition ex_q : pva := mkP 51 31 777 6 7 8 4 5 6.
Definition ex_i (k : nat) : kinc_t nat := (mkI 1 0 0 0 0 0 0, k).

(** the altitude specification on a history with a mid-stream overwrite (VD = 8 supplied) *)
Example ex_alt_run :
  k_alt_run nat (p_alt ex_p0)
    [Integrate [ex_i 1; ex_i 2]; Predict (ex_i 9); SetPva ex_q; Integrate []; Integrate [ex_i 3]; GetPva]
  = ([100; 100; 777; 777]%R, 777%R).
Proof. reflexivity. Qed.

(** a feedback-style history exists from the constructor state (so theorem 4 is not vacuous):
    integrate, overwrite with correct_pva of the last row for an arbitrary error vector, integrate *)
Example ex_feedback_history :
  let rph_of := fun _ : mat9 => (0%R, 0%R, 0%R) in
  let mat_of := fun _ _ _ : R => mkM 1 0 0 0 1 0 0 0 1 in
  let g := k_of_pub mat_of ex_q in
  let r1 := kstep_t nat false (k_of_pub mat_of (pva_zero_vd ex_p0)) (ex_i 1) in
  let x := mkE 1 2 3 4 5 6 7 in
  exists s0,
    init (k_of_pub mat_of) pva_zero_vd g false 1 0 ex_p0 = Some s0 /\
    k_fb_hist nat rph_of mat_of g s0
      [Integrate [ex_i 1]; GetPva; SetPva (correct2d (k_to_pub rph_of r1) x); Integrate [ex_i 2]].
Proof.
  intros rph_of mat_of g r1 x. eexists. split; [reflexivity|].
  unfold k_fb_hist. cbn -[kstep_t k_to_pub k_of_pub correct2d pva_zero_vd].
  repeat split. exists x. eexists. split; reflexivity.
Qed.

(** the generic invariant's hypotheses hold for the small computable instance of the model
    (rows = (altitude, VD) over Z), and the conclusion is visible on a history that supplies
    VD <> 0 twice and overwrites with a "corrected" row that keeps the altitude *)
Example ex_toy_feedback :
  (forall (r : toy_row) (i : Z),
      snd r = 0%Z -> snd (toy_kstep false r i) = 0%Z /\ fst (toy_kstep false r i) = fst r) /\
  option_map (fun x => traj (fst x))
    (toy_run_init false 1 0%Z (100, 5)%Z
       [Integrate [2%Z; 3%Z]; Predict 9%Z; SetPva (100, 7)%Z; Integrate [4%Z]]) =
  Some [(0, (100, 0)); (2, (100, 0)); (3, (100, 0)); (4, (100, 0))]%Z.
Proof.
  split.
  - intros [a v] i H. cbn in *. subst v. split; [reflexivity|lia].
  - vm_compute. reflexivity.
Qed.
