(* C14 — Sensor error simulation and estimation models are exact mutual inverses.

   Model: Model/SensorModel.v (EstimationModel.__init__ = [build], output_matrix, the estimate
   state machine reset/update/get_estimates/correct_increments, and the simulator side
   apply = [sim_full] with the two random streams as explicit arrays, data_frame = [columns],
   [sim_df], from_EstimationModel = [from_model]).  Numbers are canonical rationals (Qc).
   Proofs: Proofs/SensorModelProofs.v.

   Every theorem quantifies over ALL parameter values bias_sd, noise, bias_walk : V3 Qc and
   sm_sd : M3, hence over all 2^18 enable masks (an entry is enabled iff it is > 0); the
   constructor loops are characterised by induction on the loop counters, not by enumeration.

   Vocabulary:  enb / enw / enn / ensm = enabled bias axes / walking bias axes / noisy axes /
   scale-misalignment entries in loop order;  targets = what each state was created for, in
   state order;  state_vector b E = the entries of b and E = T - I listed in state order;
   bias_supported / sm_supported = zero outside the enabled entries. *)
From Coq Require Import List String Arith Bool ZArith QArith Qcanon Sorted Lia.
From PV Require Import Model.SensorModel Proofs.SensorModelProofs.
Import ListNotations.
Open Scope Qc_scope.

(* ================================================================== *)
(* 1. walk_requires_bias: the constructor raises exactly in the documented case *)

Theorem C14_walk_requires_bias : forall bias_sd noise bias_walk sm_sd,
  build bias_sd noise bias_walk sm_sd = None <->
  exists a, (a < 3)%nat /\ 0 < get3 a bias_walk /\ get3 a bias_sd <= 0.
Proof. exact walk_requires_bias. Qed.
Print Assumptions C14_walk_requires_bias.

(* ================================================================== *)
(* 2. layout_consistent *)

(* complete characterisation of the constructor's result *)
Theorem C14_layout_characterised : forall bias_sd noise bias_walk sm_sd m,
  build bias_sd noise bias_walk sm_sd = Some m ->
  states m = map bias_name (enb bias_sd)
             ++ map (fun oi => sm_name (fst oi) (snd oi)) (ensm sm_sd) /\
  n_states m = (List.length (enb bias_sd) + List.length (ensm sm_sd))%nat /\
  n_noises m = List.length (enw bias_sd bias_walk) /\
  n_output_noises m = List.length (enn noise) /\
  P m = map (fun a => sq (get3 a bias_sd)) (enb bias_sd)
        ++ map (fun oi => sq (get33 (fst oi) (snd oi) sm_sd)) (ensm sm_sd) /\
  q m = map (fun a => get3 a bias_walk) (enw bias_sd bias_walk) /\
  v m = map (fun a => get3 a noise) (enn noise) /\
  G m = indexed 0 (map (bias_rank bias_sd) (enw bias_sd bias_walk)) /\
  H m = indexed 0 (enb bias_sd) /\
  J m = indexed 0 (enn noise) /\
  scale_misal_data m = indexed (List.length (enb bias_sd)) (ensm sm_sd).
Proof. exact build_spec. Qed.
Print Assumptions C14_layout_characterised.

(* which axes / entries are enabled *)
Theorem C14_enabled_bias : forall bias_sd a,
  In a (enb bias_sd) <-> (a < 3)%nat /\ 0 < get3 a bias_sd.
Proof. exact enb_In. Qed.
Print Assumptions C14_enabled_bias.

Theorem C14_enabled_walk : forall bias_sd bias_walk a,
  In a (enw bias_sd bias_walk) <-> (a < 3)%nat /\ 0 < get3 a bias_sd /\ 0 < get3 a bias_walk.
Proof. exact enw_In. Qed.
Print Assumptions C14_enabled_walk.

Theorem C14_enabled_noise : forall noise a,
  In a (enn noise) <-> (a < 3)%nat /\ 0 < get3 a noise.
Proof. exact enn_In. Qed.
Print Assumptions C14_enabled_noise.

Theorem C14_enabled_sm : forall sm_sd o i,
  In (o, i) (ensm sm_sd) <-> (o < 3 /\ i < 3)%nat /\ 0 < get33 o i sm_sd.
Proof. exact ensm_In. Qed.
Print Assumptions C14_enabled_sm.

(* names, vectors and counters have consistent lengths within the documented maxima *)
Theorem C14_layout_dimensions : forall bias_sd noise bias_walk sm_sd m,
  build bias_sd noise bias_walk sm_sd = Some m ->
  List.length (states m) = n_states m /\ List.length (P m) = n_states m /\
  List.length (q m) = n_noises m /\ List.length (v m) = n_output_noises m /\
  List.length (G m) = n_noises m /\ List.length (J m) = n_output_noises m /\
  (n_states m <= 12)%nat /\ (n_noises m <= 3)%nat /\ (n_output_noises m <= 3)%nat /\
  (n_noises m <= n_states m)%nat.
Proof. exact layout_dimensions. Qed.
Print Assumptions C14_layout_dimensions.

(* G is n_states x n_noises, H 3 x n_states, J 3 x n_output_noises, P and F n_states^2, F = 0 *)
Theorem C14_matrix_shapes : forall bias_sd noise bias_walk sm_sd m,
  build bias_sd noise bias_walk sm_sd = Some m ->
  (List.length (G_dense m) = n_states m /\ Forall (fun r => List.length r = n_noises m) (G_dense m)) /\
  (List.length (H_dense m) = 3%nat /\ Forall (fun r => List.length r = n_states m) (H_dense m)) /\
  (List.length (J_dense m) = 3%nat /\ Forall (fun r => List.length r = n_output_noises m) (J_dense m)) /\
  (List.length (P_dense m) = n_states m /\ Forall (fun r => List.length r = n_states m) (P_dense m)) /\
  (List.length (F_dense m) = n_states m /\ Forall (fun r => List.length r = n_states m) (F_dense m)) /\
  Forall (Forall (fun x => x = 0)) (F_dense m).
Proof. exact matrix_shapes. Qed.
Print Assumptions C14_matrix_shapes.

(* state names are pairwise distinct *)
Theorem C14_states_NoDup : forall bias_sd noise bias_walk sm_sd m,
  build bias_sd noise bias_walk sm_sd = Some m -> NoDup (states m).
Proof. exact states_NoDup. Qed.
Print Assumptions C14_states_NoDup.

(* order: the states are the enabled terms in the fixed order bias_x, bias_y, bias_z,
   sm_xx, sm_xy, sm_xz, sm_yx, ..., sm_zz  (bias first, then row-major sm_<out><in>) *)
Theorem C14_states_order : forall bias_sd noise bias_walk sm_sd m,
  build bias_sd noise bias_walk sm_sd = Some m ->
  states m = map name_of (targets bias_sd sm_sd) /\
  targets bias_sd sm_sd = filter (target_en bias_sd sm_sd) all_targets /\
  StronglySorted lt (map key (targets bias_sd sm_sd)) /\
  Forall valid_target (targets bias_sd sm_sd).
Proof. exact states_order. Qed.
Print Assumptions C14_states_order.

Theorem C14_all_names :
  map name_of all_targets =
  ["bias_x"; "bias_y"; "bias_z"; "sm_xx"; "sm_xy"; "sm_xz"; "sm_yx"; "sm_yy"; "sm_yz";
   "sm_zx"; "sm_zy"; "sm_zz"]%string.
Proof. exact all_targets_names. Qed.
Print Assumptions C14_all_names.

(* P: the initial variance of state k is the squared sd of the term it was created for *)
Theorem C14_P_entries : forall bias_sd noise bias_walk sm_sd m,
  build bias_sd noise bias_walk sm_sd = Some m ->
  P m = map (sd_sq bias_sd sm_sd) (targets bias_sd sm_sd) /\
  Forall (fun x => 0 < x) (P m).
Proof. exact P_entries. Qed.
Print Assumptions C14_P_entries.

(* G: one unit entry per walking bias, in the row of that bias's state; q in column order *)
Theorem C14_G_entries : forall bias_sd noise bias_walk sm_sd m,
  build bias_sd noise bias_walk sm_sd = Some m ->
  (forall r c, In (r, c) (G m) <->
     exists a, nth_error (enw bias_sd bias_walk) c = Some a /\ r = bias_rank bias_sd a) /\
  (forall r c, In (r, c) (G m) ->
     exists a, nth_error (states m) r = Some (bias_name a) /\ 0 < get3 a bias_walk /\
               nth_error (q m) c = Some (get3 a bias_walk) /\
               (r < n_states m)%nat /\ (c < n_noises m)%nat) /\
  q m = map (fun a => get3 a bias_walk) (enw bias_sd bias_walk).
Proof. exact G_entries. Qed.
Print Assumptions C14_G_entries.

(* H: a unit at (axis, state) exactly when the state is named bias_<axis> *)
Theorem C14_H_entries : forall bias_sd noise bias_walk sm_sd m,
  build bias_sd noise bias_walk sm_sd = Some m ->
  (forall a s, In (a, s) (H m) <-> nth_error (states m) s = Some (bias_name a)) /\
  (forall a s, In (a, s) (H m) -> (a < 3)%nat /\ 0 < get3 a bias_sd /\ (s < n_states m)%nat).
Proof. exact H_entries. Qed.
Print Assumptions C14_H_entries.

(* _scale_misal_data: (out, in, state) exactly when the state is named sm_<out><in> *)
Theorem C14_sm_entries : forall bias_sd noise bias_walk sm_sd m o i s,
  build bias_sd noise bias_walk sm_sd = Some m ->
  In (o, i, s) (scale_misal_data m) <-> nth_error (states m) s = Some (sm_name o i).
Proof. exact sm_positions. Qed.
Print Assumptions C14_sm_entries.

(* J: one unit entry per noisy axis; v in column order *)
Theorem C14_J_entries : forall bias_sd noise bias_walk sm_sd m,
  build bias_sd noise bias_walk sm_sd = Some m ->
  (forall a c, In (a, c) (J m) <-> nth_error (enn noise) c = Some a) /\
  (forall a c, In (a, c) (J m) ->
     (a < 3)%nat /\ 0 < get3 a noise /\ nth_error (v m) c = Some (get3 a noise) /\
     (c < n_output_noises m)%nat) /\
  v m = map (fun a => get3 a noise) (enn noise).
Proof. exact J_entries. Qed.
Print Assumptions C14_J_entries.

(* decoding a state's NAME (as update_estimates / get_estimates do) gives exactly the term
   which the constructor's MATRICES attach to that index *)
Theorem C14_update_decodes_layout : forall bias_sd noise bias_walk sm_sd m,
  build bias_sd noise bias_walk sm_sd = Some m ->
  forall k, (k < n_states m)%nat ->
  exists t name, created_for m k = Some t /\ valid_target t /\
                 nth_error (states m) k = Some name /\ decode name = DTarget t.
Proof. exact update_decodes_layout. Qed.
Print Assumptions C14_update_decodes_layout.

(* ================================================================== *)
(* 3. names_agree: the estimator's states and the simulator's data_frame columns *)

(* whenever the simulator's non-trivial terms are the estimator's enabled terms, the column
   list IS the state list (same names, same order) and the data_frame row is the state vector *)
Theorem C14_names_agree : forall bias_sd noise bias_walk sm_sd m p,
  build bias_sd noise bias_walk sm_sd = Some m ->
  (forall a, (a < 3)%nat -> col_bias_en p a = Qcpos (get3 a bias_sd)) ->
  (forall o i, (o < 3)%nat -> (i < 3)%nat -> col_sm_en p (o, i) = Qcpos (get33 o i sm_sd)) ->
  columns p = states m /\
  df_row p = state_vector bias_sd sm_sd (p_b p) (msub (p_T p) ident3).
Proof. exact columns_states. Qed.
Print Assumptions C14_names_agree.

(* ... in particular for parameters drawn by from_EstimationModel (non-zero draws zT, zb),
   when disabling is expressed by 0 (not by a negative number) *)
Theorem C14_names_agree_from_model : forall bias_sd noise bias_walk sm_sd m zT zb,
  build bias_sd noise bias_walk sm_sd = Some m ->
  nonneg3 bias_sd -> nonneg3 bias_walk -> nonneg33 sm_sd -> nonzero3 zb -> nonzero33 zT ->
  let p := from_model bias_sd noise bias_walk sm_sd zT zb in
  columns p = states m /\
  df_row p = state_vector bias_sd sm_sd (p_b p) (msub (p_T p) ident3) /\
  bias_supported bias_sd (p_b p) /\ sm_supported sm_sd (msub (p_T p) ident3).
Proof. exact names_agree_from_model. Qed.
Print Assumptions C14_names_agree_from_model.

(* ================================================================== *)
(* 4. output_matrix_is_error: H(r) x = (T - I) r + b = simulated noise-free reading error *)

Theorem C14_output_matrix_state_vector : forall bias_sd noise bias_walk sm_sd m r b E,
  build bias_sd noise bias_walk sm_sd = Some m ->
  bias_supported bias_sd b -> sm_supported sm_sd E ->
  mat_vec (output_matrix m r) (state_vector bias_sd sm_sd b E) = v3_list (add3 (mv3 E r) b).
Proof. exact output_matrix_state_vector. Qed.
Print Assumptions C14_output_matrix_state_vector.

(* rate sensors: reading error; increment sensors: (rate error) * dt = increment error *)
Theorem C14_output_matrix_is_error : forall bias_sd noise bias_walk sm_sd m p dt r,
  build bias_sd noise bias_walk sm_sd = Some m ->
  bias_supported bias_sd (p_b p) -> sm_supported sm_sd (msub (p_T p) ident3) ->
  let x := state_vector bias_sd sm_sd (p_b p) (msub (p_T p) ident3) in
  mat_vec (output_matrix m r) x = v3_list (sub3 (sim_row p Rate dt r) r) /\
  map (fun e => e * dt) (mat_vec (output_matrix m r) x)
    = v3_list (sub3 (sim_row p Increment dt (scale3 r dt)) (scale3 r dt)).
Proof. exact output_matrix_is_error. Qed.
Print Assumptions C14_output_matrix_is_error.

(* ================================================================== *)
(* 5. correct_undoes_apply *)

(* one update with the simulator's parameter vector makes the estimates EQUAL the parameters *)
Theorem C14_estimates_equal_parameters : forall bias_sd noise bias_walk sm_sd m T b,
  build bias_sd noise bias_walk sm_sd = Some m ->
  bias_supported bias_sd b -> sm_supported sm_sd (msub T ident3) ->
  update m (state_vector bias_sd sm_sd b (msub T ident3)) reset = Some (mk_est T b).
Proof. exact estimates_equal_parameters. Qed.
Print Assumptions C14_estimates_equal_parameters.

Theorem C14_correct_undoes_apply : forall bias_sd noise bias_walk sm_sd m p dt theta,
  build bias_sd noise bias_walk sm_sd = Some m ->
  bias_supported bias_sd (p_b p) -> sm_supported sm_sd (msub (p_T p) ident3) ->
  det3 (p_T p) <> 0 ->
  exists st, update m (state_vector bias_sd sm_sd (p_b p) (msub (p_T p) ident3)) reset = Some st /\
             get_estimates m st = Some (state_vector bias_sd sm_sd (p_b p) (msub (p_T p) ident3)) /\
             correct_increments st dt (sim_row p Increment dt theta) = Some theta.
Proof. exact correct_undoes_apply. Qed.
Print Assumptions C14_correct_undoes_apply.

(* a whole record, arbitrary (irregular) time stamps: every row is recovered *)
Theorem C14_correct_undoes_apply_series : forall T b n w ts rs dts out,
  det3 T <> 0 ->
  dt_used ts = Some dts -> List.length rs = List.length ts ->
  sim_apply (mk_params T b n w) Increment ts rs = Some out ->
  map (fun d_o => correct_increments (mk_est T b) (fst d_o) (snd d_o)) (combine dts out)
  = map Some rs.
Proof. exact correct_undoes_apply_series. Qed.
Print Assumptions C14_correct_undoes_apply_series.

(* the noise-free simulator above is the complete simulator (the one compared with the code,
   streams as arrays) with both streams identically zero *)
Theorem C14_noise_free_is_full : forall p ty ts rs W N,
  sqrt_raw ts <> None ->
  Forall (fun x => x = zero3) W -> Forall (fun x => x = zero3) N ->
  List.length W = List.length ts -> List.length N = List.length ts ->
  sim_full p ty ts rs W N = sim_apply p ty ts rs.
Proof. exact sim_full_noise_free. Qed.
Print Assumptions C14_noise_free_is_full.

(* rate reading * dt = increment of the rate * dt *)
Theorem C14_rate_times_dt : forall p dt r,
  scale3 (sim_row p Rate dt r) dt = sim_row p Increment dt (scale3 r dt).
Proof. exact sim_rate_times_dt. Qed.
Print Assumptions C14_rate_times_dt.

(* the model's 3x3 solve is a solve: defined iff det <> 0, and M x = r *)
Theorem C14_solve_sound : forall M r x, solve3 M r = Some x -> mv3 M x = r.
Proof. exact solve3_sound. Qed.
Print Assumptions C14_solve_sound.

Theorem C14_solve_complete : forall M x, det3 M <> 0 -> solve3 M (mv3 M x) = Some x.
Proof. exact solve3_mv3. Qed.
Print Assumptions C14_solve_complete.

(* ================================================================== *)
(* 6. accumulate / get_after_update *)

(* update adds x[k] to the term state k was created for; fails exactly on a length mismatch *)
Theorem C14_update_spec : forall bias_sd noise bias_walk sm_sd m x st,
  build bias_sd noise bias_walk sm_sd = Some m ->
  update m x st = if Nat.eqb (List.length x) (n_states m)
                  then Some (add_all (targets bias_sd sm_sd) x st) else None.
Proof. exact update_spec. Qed.
Print Assumptions C14_update_spec.

Theorem C14_accumulate : forall bias_sd noise bias_walk sm_sd m x1 x2 st st1 st2,
  build bias_sd noise bias_walk sm_sd = Some m ->
  update m x1 st = Some st1 -> update m x2 st1 = Some st2 ->
  update m (vadd x1 x2) st = Some st2.
Proof. exact accumulate. Qed.
Print Assumptions C14_accumulate.

Theorem C14_get_update : forall bias_sd noise bias_walk sm_sd m x st st' g,
  build bias_sd noise bias_walk sm_sd = Some m ->
  get_estimates m st = Some g -> update m x st = Some st' ->
  get_estimates m st' = Some (vadd g x).
Proof. exact get_update. Qed.
Print Assumptions C14_get_update.

Theorem C14_get_reset : forall bias_sd noise bias_walk sm_sd m,
  build bias_sd noise bias_walk sm_sd = Some m ->
  get_estimates m reset = Some (repeat 0 (n_states m)).
Proof. exact get_reset. Qed.
Print Assumptions C14_get_reset.

Theorem C14_get_after_update : forall bias_sd noise bias_walk sm_sd m xs st',
  build bias_sd noise bias_walk sm_sd = Some m ->
  updates m xs reset = Some st' ->
  get_estimates m st' = Some (vsum (n_states m) xs).
Proof. exact get_after_update. Qed.
Print Assumptions C14_get_after_update.

Theorem C14_updates_defined : forall bias_sd noise bias_walk sm_sd m xs st,
  build bias_sd noise bias_walk sm_sd = Some m ->
  Forall (fun x => List.length x = n_states m) xs -> exists st', updates m xs st = Some st'.
Proof. exact updates_defined. Qed.
Print Assumptions C14_updates_defined.

(* histories in which some updates are REJECTED (wrong length: the full 9+n filter state, a truncated
   slice, an empty vector), the caller catching the ValueError and continuing to use the model:
   a rejected update raises exactly on a length mismatch and changes nothing ... *)
Theorem C14_update_rejected : forall bias_sd noise bias_walk sm_sd m x st,
  build bias_sd noise bias_walk sm_sd = Some m ->
  (update m x st = None <-> List.length x <> n_states m) /\
  (List.length x <> n_states m -> update_or_keep m st x = st).
Proof. exact update_rejected. Qed.
Print Assumptions C14_update_rejected.

(* ... so the history equals the history of the accepted calls alone ... *)
Theorem C14_history_accepted : forall bias_sd noise bias_walk sm_sd m xs st,
  build bias_sd noise bias_walk sm_sd = Some m ->
  updates m (accepted m xs) st = Some (run_history m xs st).
Proof. exact run_history_accepted. Qed.
Print Assumptions C14_history_accepted.

(* ... and the estimates are the sum of the accepted vectors = ONE update with that sum *)
Theorem C14_history_accumulates : forall bias_sd noise bias_walk sm_sd m xs,
  build bias_sd noise bias_walk sm_sd = Some m ->
  get_estimates m (run_history m xs reset) = Some (vsum (n_states m) (accepted m xs)) /\
  update m (vsum (n_states m) (accepted m xs)) reset = Some (run_history m xs reset).
Proof. exact history_accumulates. Qed.
Print Assumptions C14_history_accumulates.

(* ================================================================== *)
(* 7. variances_agree *)

(* the square root used for dt ** 0.5 *)
Theorem C14_qsqrt : forall x s, qsqrt x = Some s -> s * s = x /\ 0 <= s.
Proof. exact qsqrt_spec. Qed.
Print Assumptions C14_qsqrt.

Theorem C14_sqrt_raw : forall ts sraw,
  sqrt_raw ts = Some sraw -> Forall2 (fun d s => s * s = d /\ 0 <= s) (dt_raw ts) sraw.
Proof. exact sqrt_raw_spec. Qed.
Print Assumptions C14_sqrt_raw.

(* how the two streams enter the simulated output: the k-th noise sample linearly with
   coefficient noise * noise_coef (= dt**-0.5 for rate, dt**0.5 for increment sensors) ... *)
Theorem C14_noise_enters_linearly : forall p ty dt s r bias n,
  sim_full_row p ty dt s r bias n
  = add3 (sim_full_row p ty dt s r bias zero3) (mul3 (scale3 (p_noise p) (noise_coef ty s)) n).
Proof. exact sim_full_row_noise. Qed.
Print Assumptions C14_noise_enters_linearly.

(* ... the bias with gain 1 (rate) or dt (increment) ... *)
Theorem C14_bias_enters : forall p ty dt s r bias bias' n,
  sub3 (sim_full_row p ty dt s r bias' n) (sim_full_row p ty dt s r bias n)
  = bias_term ty dt (sub3 bias' bias).
Proof. exact sim_full_row_bias. Qed.
Print Assumptions C14_bias_enters.

(* ... and the bias is a random walk: bias[0] = b, bias[k+1] - bias[k] = walk * sqrt(dt) * W[k+1]
   (the cumulative sum is present: every later sample carries all earlier steps) *)
Theorem C14_bias_walk_first : forall p ts sraw W b0,
  sqrt_raw ts = Some sraw -> nth_error (bias_series p sraw W) 0 = Some b0 -> b0 = p_b p.
Proof. exact bias_series_first. Qed.
Print Assumptions C14_bias_walk_first.

Theorem C14_bias_walk_step : forall p sraw W k b0 b1 w s,
  nth_error (bias_series p sraw W) k = Some b0 ->
  nth_error (bias_series p sraw W) (S k) = Some b1 ->
  nth_error W (S k) = Some w -> nth_error sraw (S k) = Some s ->
  sub3 b1 b0 = mul3 (p_walk p) (scale3 w s).
Proof. exact bias_series_step. Qed.
Print Assumptions C14_bias_walk_step.

(* squared coefficients of the unit-variance samples (s = sqrt dt) *)
Theorem C14_sim_variances : forall (noise_a walk_a : Qc) dt s,
  s * s = dt -> dt <> 0 ->
  sq (noise_a * noise_coef Rate s * dt) = sq noise_a * dt /\
  sq (noise_a * noise_coef Increment s) = sq noise_a * dt /\
  sq (noise_a * noise_coef Rate s) = sq noise_a / dt /\
  sq (walk_a * s) = sq walk_a * dt.
Proof. exact sim_variances. Qed.
Print Assumptions C14_sim_variances.

(* the covariance rates of the estimator: J v^2 J^T and G q^2 G^T *)
Theorem C14_JvJ : forall bias_sd noise bias_walk sm_sd m,
  build bias_sd noise bias_walk sm_sd = Some m ->
  (forall a, (a < 3)%nat -> 0 < get3 a noise -> JvJ m a a = sq (get3 a noise)) /\
  (forall a a', a <> a' -> JvJ m a a' = 0) /\
  (forall a a', ~ ((a < 3)%nat /\ 0 < get3 a noise) -> JvJ m a a' = 0).
Proof. exact JvJ_spec. Qed.
Print Assumptions C14_JvJ.

Theorem C14_GqG : forall bias_sd noise bias_walk sm_sd m,
  build bias_sd noise bias_walk sm_sd = Some m ->
  (forall a, (a < 3)%nat -> 0 < get3 a bias_sd -> 0 < get3 a bias_walk ->
     nth_error (states m) (bias_rank bias_sd a) = Some (bias_name a) /\
     GqG m (bias_rank bias_sd a) (bias_rank bias_sd a) = sq (get3 a bias_walk)) /\
  (forall k k', k <> k' -> GqG m k k' = 0) /\
  (forall k k', (forall a, nth_error (states m) k = Some (bias_name a) -> ~ 0 < get3 a bias_walk) ->
     GqG m k k' = 0).
Proof. exact GqG_spec. Qed.
Print Assumptions C14_GqG.

(* simulated white noise integrated over dt (both sensor types) and the simulated bias increment
   over dt have exactly the variances J v^2 J^T dt and G q^2 G^T dt the estimator assumes, when
   the simulator is given the model's noise and bias_walk (as from_EstimationModel does) *)
Theorem C14_variances_agree : forall bias_sd noise bias_walk sm_sd m dt s a,
  build bias_sd noise bias_walk sm_sd = Some m ->
  nonneg3 noise -> nonneg3 bias_walk ->
  s * s = dt -> dt <> 0 -> (a < 3)%nat ->
  sq (get3 a noise * noise_coef Rate s * dt) = JvJ m a a * dt /\
  sq (get3 a noise * noise_coef Increment s) = JvJ m a a * dt /\
  (0 < get3 a bias_sd ->
   sq (get3 a bias_walk * s) = GqG m (bias_rank bias_sd a) (bias_rank bias_sd a) * dt).
Proof. exact variances_agree. Qed.
Print Assumptions C14_variances_agree.

(* ================================================================== *)
(* Non-vacuity: one concrete non-trivial configuration satisfying every hypothesis above.
   bias on x, z (walk on z), noise on y, z, scale/misalignment xy, yx, zz; negative entries
   disable like zeros. *)

Definition ex_bias_sd : V3 Qc := dy3 8 4 (-1) 2.
Definition ex_noise : V3 Qc := dy3 8 0 1 3.
Definition ex_walk : V3 Qc := dy3 8 0 0 5.
Definition ex_sm_sd : M3 := dy33 16 0 1 0 2 0 (-3) 0 0 4.
(* simulator parameters supported on the enabled entries *)
Definition ex_b : V3 Qc := dy3 8 3 0 (-2).
Definition ex_T : M3 := dy33 16 16 3 0 (-2) 16 0 0 0 20.
Definition ex_p : params := mk_params ex_T ex_b ex_noise ex_walk.
Definition ex_ts : list Qc := [dy 16 0; dy 16 4; dy 16 5; dy 16 21].     (* dt = 1/4, 1/16, 1 *)
Definition ex_rs : list (V3 Qc) := [dy3 8 1 2 3; dy3 8 (-4) 5 6; dy3 8 7 (-8) 9; dy3 8 1 1 1].

Example C14_ex_build :
  exists m, build ex_bias_sd ex_noise ex_walk ex_sm_sd = Some m /\
    states m = ["bias_x"; "bias_z"; "sm_xy"; "sm_yx"; "sm_zz"]%string /\
    n_states m = 5%nat /\ n_noises m = 1%nat /\ n_output_noises m = 2%nat /\
    G m = [(1, 0)]%nat /\ H m = [(0, 0); (2, 1)]%nat /\ J m = [(1, 0); (2, 1)]%nat /\
    scale_misal_data m = [(0, 1, 2); (1, 0, 3); (2, 2, 4)]%nat.
Proof. eexists. split; [vm_compute; reflexivity|]. vm_compute. repeat split. Qed.

Example C14_ex_walk_rejected :
  build (dy3 8 4 0 2) ex_noise (dy3 8 0 1 0) ex_sm_sd = None /\
  build (dy3 8 4 (-1) 2) ex_noise (dy3 8 0 0 (-1)) ex_sm_sd <> None.
Proof. split; [vm_compute; reflexivity|vm_compute; discriminate]. Qed.

Example C14_ex_supported :
  bias_supported ex_bias_sd ex_b /\ sm_supported ex_sm_sd (msub ex_T ident3) /\
  det3 ex_T <> 0 /\
  nonneg3 ex_noise /\ nonneg3 ex_walk.
Proof.
  split; [|split; [|split; [|split]]].
  - intros a Ha Hp. destruct a as [|[|[|a]]]; [| | |exfalso; lia];
      first [vm_compute in Hp; discriminate Hp|apply Qc_is_canon; reflexivity].
  - intros o i Ho Hi Hp.
    destruct o as [|[|[|o]]]; [| | |exfalso; lia]; (destruct i as [|[|[|i]]]; [| | |exfalso; lia]);
      first [vm_compute in Hp; discriminate Hp|apply Qc_is_canon; reflexivity].
  - intro E. apply (f_equal this) in E. vm_compute in E. discriminate E.
  - intros a Ha. destruct a as [|[|[|a]]]; [| | |exfalso; lia]; vm_compute; discriminate.
  - intros a Ha. destruct a as [|[|[|a]]]; [| | |exfalso; lia]; vm_compute; discriminate.
Qed.

(* the masks of the example simulator parameters are the estimator's (hypotheses of names_agree) *)
Example C14_ex_names :
  (forall a, (a < 3)%nat -> col_bias_en ex_p a = Qcpos (get3 a ex_bias_sd)) /\
  (forall o i, (o < 3)%nat -> (i < 3)%nat -> col_sm_en ex_p (o, i) = Qcpos (get33 o i ex_sm_sd)) /\
  columns ex_p = ["bias_x"; "bias_z"; "sm_xy"; "sm_yx"; "sm_zz"]%string.
Proof.
  split; [|split; [|vm_compute; reflexivity]].
  - intros a Ha. destruct a as [|[|[|a]]]; [| | |exfalso; lia]; vm_compute; reflexivity.
  - intros o i Ho Hi.
    destruct o as [|[|[|o]]]; [| | |exfalso; lia]; (destruct i as [|[|[|i]]]; [| | |exfalso; lia]);
      vm_compute; reflexivity.
Qed.

(* undo, H x = error, accumulation and read-back on the example, irregular stamps, both types *)
Example C14_ex_run :
  match build ex_bias_sd ex_noise ex_walk ex_sm_sd with
  | None => False
  | Some m =>
      let x := state_vector ex_bias_sd ex_sm_sd ex_b (msub ex_T ident3) in
      let x1 := map (dy 8) [1; 2; 3; 4; 5]%Z in
      let x2 := map (dy 8) [-2; 0; 7; 1; 1]%Z in
      let zeros := map (fun _ => zero3) ex_ts in
      list_eqb Qc_eqb x (map (dy 16) [6; -4; 3; -2; 4]%Z) = true /\
      opt_eqb (fun a b => M3_eqb (e_T a) (e_T b) && V3_eqb (e_b a) (e_b b))
              (update m x reset) (Some (mk_est ex_T ex_b)) = true /\
      sqrt_raw ex_ts <> None /\
      opt_eqb (list_eqb Qc_eqb) (dt_used ex_ts) (Some (map (dy 16) [4; 4; 1; 16]%Z)) = true /\
      (* rate: H(r) x = out - r on every row *)
      opt_eqb (list_eqb (list_eqb Qc_eqb))
        (option_map (fun out => map (fun o_r => v3_list (sub3 (fst o_r) (snd o_r))) (combine out ex_rs))
                    (sim_full ex_p Rate ex_ts ex_rs zeros zeros))
        (Some (map (fun r => mat_vec (output_matrix m r) x) ex_rs)) = true /\
      (* increment: correct_increments recovers every row *)
      match sim_full ex_p Increment ex_ts ex_rs zeros zeros, dt_used ex_ts with
      | Some out, Some dts =>
          list_eqb (opt_eqb V3_eqb)
            (map (fun d_o => correct_increments (mk_est ex_T ex_b) (fst d_o) (snd d_o)) (combine dts out))
            (map Some ex_rs) = true
      | _, _ => False
      end /\
      (* accumulation and read-back *)
      match updates m [x1; x2] reset, update m (vadd x1 x2) reset with
      | Some s2, Some s12 =>
          M3_eqb (e_T s2) (e_T s12) && V3_eqb (e_b s2) (e_b s12) = true /\
          opt_eqb (list_eqb Qc_eqb) (get_estimates m s2) (Some (map (dy 8) [-1; 2; 10; 5; 6]%Z)) = true
      | _, _ => False
      end
  end.
Proof. vm_compute. repeat split; try reflexivity; discriminate. Qed.

(* a history with rejected updates on the example model (5 states): too long, too short, empty *)
Example C14_ex_history :
  match build ex_bias_sd ex_noise ex_walk ex_sm_sd with
  | None => False
  | Some m =>
      let x1 := map (dy 8) [1; 2; 3; 4; 5]%Z in
      let x2 := map (dy 8) [-2; 0; 7; 1; 1]%Z in
      let long := map (dy 8) [9; 9; 9; 9; 9; 9; 9; 9; 9; 9; 9; 9; 9; 9]%Z in
      let h := [x1; long; map (dy 8) [5; 5]%Z; []; x2; long] in
      list_eqb (list_eqb Qc_eqb) (accepted m h) [x1; x2] = true /\
      update m long reset = None /\ update m [] reset = None /\
      opt_eqb (list_eqb Qc_eqb) (get_estimates m (run_history m h reset))
              (Some (map (dy 8) [-1; 2; 10; 5; 6]%Z)) = true
  end.
Proof. vm_compute. repeat split; reflexivity. Qed.

(* variances on the example: dt = 1/16 with root 1/4; noisy axis z, walking axis z *)
Example C14_ex_variances :
  qsqrt (dy 16 1) = Some (dy 4 1) /\ dy 4 1 * dy 4 1 = dy 16 1 /\ dy 16 1 <> 0 /\
  match build ex_bias_sd ex_noise ex_walk ex_sm_sd with
  | None => False
  | Some m =>
      Qc_eqb (JvJ m 2 2) (sq (dy 8 3)) = true /\ Qc_eqb (JvJ m 0 0) 0 = true /\
      Qc_eqb (GqG m 1 1) (sq (dy 8 5)) = true /\ Qc_eqb (GqG m 0 0) 0 = true /\
      bias_rank ex_bias_sd 2 = 1%nat
  end.
Proof.
  split; [vm_compute; reflexivity|]. split; [apply Qc_is_canon; reflexivity|].
  split; [intro E; apply (f_equal this) in E; vm_compute in E; discriminate E|].
  vm_compute. repeat split.
Qed.

(* the complete simulator with non-zero streams: bias walk accumulates, first sample = bias *)
Example C14_ex_walk_series :
  match sqrt_raw ex_ts with
  | None => False
  | Some sraw =>
      list_eqb Qc_eqb sraw (map (dy 4) [0; 2; 1; 4]%Z) = true /\
      list_eqb V3_eqb
        (bias_series ex_p sraw [dy3 8 8 8 8; dy3 8 8 8 8; dy3 8 (-8) 8 16; dy3 8 0 0 8])
        [dy3 256 96 0 (-64); dy3 256 96 0 16; dy3 256 96 0 96; dy3 256 96 0 256] = true
  end.
Proof. vm_compute. split; reflexivity. Qed.
