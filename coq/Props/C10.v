(* C10 — Feedforward filter terminates and consumes every schedule exactly once.

   Model: Model/FeedforwardSched.v (run_feedforward_filter at the level of cursors
   and events, times in Q).  Proofs: Proofs/SchedProofs.v.

   times   = trajectory_nominal.index = trajectory.index
   sensors = one list of stamps per element of `measurements` (None / [] = [])
   Hypotheses: times strictly increasing, at least two rows, fuel >= #rows - 1.
   - theorems `C10_ff_*`        : exact arithmetic, add_step t = t + time_step, for ANY
                                  time_step (smaller than, equal to, larger than the
                                  sampling interval; the sign is not even needed)
   - theorems `C10_ff_*_oracle` : `time + time_step` replaced by an ARBITRARY function
                                  add_step : Q -> Q (no hypothesis): termination and
                                  exactly-once do not depend on the float addition *)
From Coq Require Import List QArith Sorted Qminmax.
From PV Require Import Model.FeedbackSched Model.FeedforwardSched Proofs.SchedProofs.
Import ListNotations.
Open Scope Q_scope.

(* ---- termination: the fuel #rows - 1 is never exhausted, no index error ---- *)
Theorem C10_ff_terminates : forall time_step times sensors fuel,
  StronglySorted Qlt times -> (2 <= length times)%nat ->
  (length times - 1 <= fuel)%nat ->
  completed (ff_run_exact fuel time_step times sensors) = true.
Proof. exact ff_terminates. Qed.
Print Assumptions C10_ff_terminates.

Theorem C10_ff_terminates_oracle : forall add_step times sensors fuel,
  StronglySorted Qlt times -> (2 <= length times)%nat ->
  (length times - 1 <= fuel)%nat ->
  completed (ff_run fuel add_step times sensors) = true.
Proof. exact ff_terminates_oracle. Qed.
Print Assumptions C10_ff_terminates_oracle.

(* ---- the result tables: strictly increasing subset of the input times, first
        row = times[0]; they are the start rows of the propagation steps ---- *)
Theorem C10_ff_records : forall time_step times sensors fuel,
  StronglySorted Qlt times -> (2 <= length times)%nat ->
  (length times - 1 <= fuel)%nat ->
  let tr := ff_run_exact fuel time_step times sensors in
  StronglySorted Qlt (record_times tr) /\
  (forall t, In t (record_times tr) -> In t times /\ t < nth (length times - 1) times 0) /\
  (exists r, record_times tr = nth 0 times 0 :: r) /\
  record_times tr = map (fun p => nth (fst p) times 0) (propagations tr).
Proof. exact ff_records. Qed.
Print Assumptions C10_ff_records.

Theorem C10_ff_records_oracle : forall add_step times sensors fuel,
  StronglySorted Qlt times -> (2 <= length times)%nat ->
  (length times - 1 <= fuel)%nat ->
  let tr := ff_run fuel add_step times sensors in
  StronglySorted Qlt (record_times tr) /\
  (forall t, In t (record_times tr) -> In t times /\ t < nth (length times - 1) times 0) /\
  (exists r, record_times tr = nth 0 times 0 :: r) /\
  record_times tr = map (fun p => nth (fst p) times 0) (propagations tr).
Proof. exact ff_records_oracle. Qed.
Print Assumptions C10_ff_records_oracle.

(* ---- a propagation step never goes further than max(time_step, local gap) ---- *)
Theorem C10_ff_step_bound : forall time_step times sensors fuel,
  StronglySorted Qlt times -> (2 <= length times)%nat ->
  (length times - 1 <= fuel)%nat ->
  forall i j, In (i, j) (propagations (ff_run_exact fuel time_step times sensors)) ->
  nth j times 0 - nth i times 0 <=
  Qmax time_step (nth (i + 1) times 0 - nth i times 0).
Proof. exact ff_step_bound. Qed.
Print Assumptions C10_ff_step_bound.

Theorem C10_ff_step_bound_oracle : forall add_step times sensors fuel,
  StronglySorted Qlt times -> (2 <= length times)%nat ->
  (length times - 1 <= fuel)%nat ->
  forall i j, In (i, j) (propagations (ff_run fuel add_step times sensors)) ->
  j = (i + 1)%nat \/ nth j times 0 <= add_step (nth i times 0).
Proof. exact ff_step_bound_oracle. Qed.
Print Assumptions C10_ff_step_bound_oracle.

(* ---- the same bound read off the result tables: every row and the row after it
        (for the last row: the end of the data) are strictly increasing and never
        further apart than max(time_step, sampling gap after the earlier row);
        `adjacent P l e` (Proofs/SchedProofs.v) = P a b for every element a of l
        and its successor b, the successor of the last element being e ---- *)
Theorem C10_ff_table_step_bound : forall time_step times sensors fuel,
  StronglySorted Qlt times -> (2 <= length times)%nat ->
  (length times - 1 <= fuel)%nat ->
  adjacent (fun a b => exists i, (i + 1 < length times)%nat /\ a = nth i times 0 /\ a < b /\
                                 b - a <= Qmax time_step (nth (i + 1) times 0 - nth i times 0))
           (record_times (ff_run_exact fuel time_step times sensors))
           (nth (length times - 1) times 0).
Proof. exact ff_table_step_bound. Qed.
Print Assumptions C10_ff_table_step_bound.

Theorem C10_ff_table_step_bound_oracle : forall add_step times sensors fuel,
  StronglySorted Qlt times -> (2 <= length times)%nat ->
  (length times - 1 <= fuel)%nat ->
  adjacent (fun a b => exists i, (i + 1 < length times)%nat /\ a = nth i times 0 /\ a < b /\
                                 (b = nth (i + 1) times 0 \/ b <= add_step a))
           (record_times (ff_run fuel add_step times sensors))
           (nth (length times - 1) times 0).
Proof. exact ff_table_step_bound_oracle. Qed.
Print Assumptions C10_ff_table_step_bound_oracle.

(* ---- every step moves forward (time_delta > 0: no division by zero), stays in
        the table, and the steps chain from row 0 to the last row ---- *)
Theorem C10_ff_positive_propagate : forall time_step times sensors fuel,
  StronglySorted Qlt times -> (2 <= length times)%nat ->
  (length times - 1 <= fuel)%nat ->
  let tr := ff_run_exact fuel time_step times sensors in
  (forall i j, In (i, j) (propagations tr) ->
     (i < j)%nat /\ (j < length times)%nat /\ nth i times 0 < nth j times 0) /\
  chain 0 (propagations tr) (length times - 1).
Proof. exact ff_positive_propagate. Qed.
Print Assumptions C10_ff_positive_propagate.

Theorem C10_ff_positive_propagate_oracle : forall add_step times sensors fuel,
  StronglySorted Qlt times -> (2 <= length times)%nat ->
  (length times - 1 <= fuel)%nat ->
  let tr := ff_run fuel add_step times sensors in
  (forall i j, In (i, j) (propagations tr) ->
     (i < j)%nat /\ (j < length times)%nat /\ nth i times 0 < nth j times 0) /\
  chain 0 (propagations tr) (length times - 1).
Proof. exact ff_positive_propagate_oracle. Qed.
Print Assumptions C10_ff_positive_propagate_oracle.

(* ---- every sensor: the epochs used are exactly its stamps in [start, end),
        ascending, each once; each is used on the row i with
        times[i] <= epoch < times[i+1] (the innovation row is stamped times[i]) ---- *)
Theorem C10_ff_meas_exactly_once : forall time_step times sensors fuel,
  StronglySorted Qlt times -> (2 <= length times)%nat ->
  (length times - 1 <= fuel)%nat ->
  let tr := ff_run_exact fuel time_step times sensors in
  let tstart := nth 0 times 0 in
  let tend := nth (length times - 1) times 0 in
  (forall k s, nth_error sensors k = Some s ->
     StronglySorted Qlt (innov_epochs k tr) /\
     (forall x, InQ x (innov_epochs k tr) <-> InQ x s /\ tstart <= x /\ x < tend) /\
     Forall2 Qeq (innov_epochs k tr) (sort_unique (filter (in_range tstart tend) s)) /\
     Forall2 (fun m t => exists i, (i + 1 < length times)%nat /\ t = nth i times 0 /\
                                   t <= m /\ m < nth (i + 1) times 0)
             (innov_epochs k tr) (innov_rows k tr)) /\
  (forall k, nth_error sensors k = None -> innov_epochs k tr = []).
Proof. exact ff_meas_exactly_once. Qed.
Print Assumptions C10_ff_meas_exactly_once.

Theorem C10_ff_meas_exactly_once_oracle : forall add_step times sensors fuel,
  StronglySorted Qlt times -> (2 <= length times)%nat ->
  (length times - 1 <= fuel)%nat ->
  let tr := ff_run fuel add_step times sensors in
  let tstart := nth 0 times 0 in
  let tend := nth (length times - 1) times 0 in
  (forall k s, nth_error sensors k = Some s ->
     StronglySorted Qlt (innov_epochs k tr) /\
     (forall x, InQ x (innov_epochs k tr) <-> InQ x s /\ tstart <= x /\ x < tend) /\
     Forall2 Qeq (innov_epochs k tr) (sort_unique (filter (in_range tstart tend) s)) /\
     Forall2 (fun m t => exists i, (i + 1 < length times)%nat /\ t = nth i times 0 /\
                                   t <= m /\ m < nth (i + 1) times 0)
             (innov_epochs k tr) (innov_rows k tr)) /\
  (forall k, nth_error sensors k = None -> innov_epochs k tr = []).
Proof. exact ff_meas_exactly_once_oracle. Qed.
Print Assumptions C10_ff_meas_exactly_once_oracle.

(* ---- the guard `max(., index + 1)` is necessary: without it the loop does not
        terminate when time_step < sampling gap and no measurement is pending ---- *)
Theorem C10_ff_noguard_refuted : exists times step,
  StronglySorted Qlt times /\ 0 < step /\
  forall fuel, completed (ff_loop_noguard fuel (fun t => t + step) times [] 0 []) = false.
Proof. exact ff_noguard_refuted. Qed.
Print Assumptions C10_ff_noguard_refuted.

(* ---- non-vacuity ------------------------------------------------------------
   rows at 1/10 s from 1 to 3/2; three sensors stamped 1.01, 1.02, 1.03 inside the
   first interval, two epochs inside the last interval, a shared stamp on a row
   time, stamps before the start / at the start / at the end / after the end. *)
Definition ex_times : list Q := [1; 11#10; 12#10; 13#10; 14#10; 15#10].
Definition ex_sensors : list (list Q) :=
  [ [99#100; 101#100; 12#10; 143#100; 15#10];
    [1; 102#100; 12#10; 147#100; 2];
    [103#100] ].

Example C10_ex_hypotheses :
  StronglySorted Qlt ex_times /\ (2 <= length ex_times)%nat /\
  (length ex_times - 1 <= 5)%nat.
Proof. split; [repeat constructor|]. vm_compute. split; repeat constructor. Qed.

(* time_step (1/20) smaller than the sampling gap: one row per step *)
Example C10_ex_trace_small_step :
  let tr := ff_run_exact 5 (1#20) ex_times ex_sensors in
  completed tr = true /\
  propagations tr = [(0, 1); (1, 2); (2, 3); (3, 4); (4, 5)]%nat /\
  record_times tr = [1; 11#10; 12#10; 13#10; 14#10] /\
  innov_epochs 0 tr = [101#100; 12#10; 143#100] /\
  innov_rows 0 tr = [1; 12#10; 14#10] /\
  innov_epochs 1 tr = [1; 102#100; 12#10; 147#100] /\
  innov_rows 1 tr = [1; 1; 12#10; 14#10] /\
  innov_epochs 2 tr = [103#100] /\
  innov_rows 2 tr = [1].
Proof. vm_compute. repeat split. Qed.

(* time_step (1) larger than the span: steps are cut at the measurement epochs *)
Example C10_ex_trace_large_step :
  let tr := ff_run_exact 5 1 ex_times ex_sensors in
  completed tr = true /\
  propagations tr = [(0, 2); (2, 4); (4, 5)]%nat /\
  record_times tr = [1; 12#10; 14#10] /\
  innov_epochs 0 tr = [101#100; 12#10; 143#100] /\
  innov_epochs 1 tr = [1; 102#100; 12#10; 147#100].
Proof. vm_compute. repeat split. Qed.

(* the bound is tight: with step 1/8 the row 1/4 is followed by the row 2 (the local
   sampling gap 7/4 > time_step), and `adjacent` unfolds to one statement per row *)
Example C10_ex_table_step_bound_tight :
  let times := [0; 1#8; 3#16; 1#4; 2; 33#16] in
  record_times (ff_run_exact 5 (1#8) times []) = [0; 1#8; 1#4; 2] /\
  adjacent (fun a b => a < b /\ b - a <= Qmax (1#8) (7#4))
           (record_times (ff_run_exact 5 (1#8) times [])) (33#16) /\
  ~ adjacent (fun a b => b - a <= 1#8)
           (record_times (ff_run_exact 5 (1#8) times [])) (33#16).
Proof.
  split; [vm_compute; reflexivity|]. split.
  - vm_compute. repeat split; discriminate.
  - vm_compute. intros (_ & _ & H & _). apply H. reflexivity.
Qed.

(* irregular sampling with a gap, no measurements, step equal to a sampling gap *)
Example C10_ex_gap_no_measurements :
  let times := [0; 1#8; 3#16; 1#4; 2; 33#16] in
  StronglySorted Qlt times /\
  propagations (ff_run_exact 5 (1#8) times []) = [(0, 1); (1, 3); (3, 4); (4, 5)]%nat /\
  propagations (ff_run_exact 5 10 times []) = [(0, 5)]%nat.
Proof. split; [repeat constructor|]. vm_compute. repeat split. Qed.
