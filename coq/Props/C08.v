(** C08 -- Discretised process matrices are the exact transition and noise integral.

    All statements are about the definitions GENERATED from pyins/kalman.py
    `compute_process_matrices` (Gen/Kalman.v: cpm_ret0 = Phi = upper-left block of
    expm (dt *: [[F, Q], [0, -F^T]]), cpm_ret1 = Qd = (upper-right block) *m Phi^T -- the only generated
    definitions; Van Loan's block matrix is [vl_mx F Q] of Spec/ExpSeries.v), for arbitrary dimension n and matrices.
    `expm` is an opaque oracle.  Its specification is the FORMAL power series
    sum_k A^k / k! over a field of characteristic 0 (Spec/ExpSeries.v): theorems either
    instantiate expm with the N-term series [exp_upto N] (every N), or assume the laws of
    the exact exponential explicitly ([vl_exp_laws]); those laws are proved for the formal
    series coefficient by coefficient, and exactly for a terminating instance.
    Analytic convergence, and that scipy's Pade approximant computes this series, are not
    formalised (checked numerically against exact rational arithmetic, tools/props/C08.py). *)
From mathcomp Require Import all_ssreflect all_algebra.
From PV Require Import Spec.LibSpecsMx Spec.Gaussian Spec.ExpSeries Gen.Kalman Proofs.ProcessProofs.
Set Implicit Arguments.
Unset Strict Implicit.
Import GRing.Theory Num.Theory.
Local Open Scope ring_scope.

(** (1) powers of the generated block matrix are block upper triangular with the powers of
    F and of -F^T on the diagonal; the upper-right block obeys G(k+1) = F G(k) + Q (-F^T)^k *)
Theorem C08_pow_block :
  forall (F : fieldType) (n : nat) (A Q : 'M[F]_n) (k : nat),
  mx_pow (vl_mx A Q) k
    = block_mx (mx_pow A k) (ur_pow A Q (- A^T) k) 0 (mx_pow (- A^T) k) /\
  ur_pow A Q (- A^T) 0 = 0 /\
  ur_pow A Q (- A^T) k.+1 = A *m ur_pow A Q (- A^T) k + Q *m mx_pow (- A^T) k.
Proof. exact pow_block. Qed.
Print Assumptions C08_pow_block.

(** hence, with the N-term series for expm (any N): the returned transition matrix is the
    same series in F alone -- the matrix exponential of the dynamics over the step *)
Theorem C08_transition_is_exponential_series :
  forall (F : numFieldType) (n : nat) (A Q : 'M[F]_n) (N : nat) (dt : F),
  cpm_ret0 (@exp_upto F (n + n) N) A Q dt = \sum_(k < N) dt ^+ k *: exp_coeff A k.
Proof. exact cpm_ret0_coeff. Qed.
Print Assumptions C08_transition_is_exponential_series.

(** (2) Van Loan's identity: the coefficient of s^d in E12(s) E11(s)^T is the coefficient of
    the term-by-term integral of exp(F u) Q exp(F^T u) over [0, s], i.e.
    sum_{i+j+1 = d} F^i Q (F^T)^j / (i! j! (i+j+1))  ([integral_coeff], Spec/ExpSeries.v) *)
Theorem C08_van_loan_coeff :
  forall (F : numFieldType) (n : nat) (A Q : 'M[F]_n) (d : nat),
  vl_Qd_coeff A Q d = integral_coeff A Q d.
Proof. exact van_loan_coeff. Qed.
Print Assumptions C08_van_loan_coeff.

(** ... and for the generated code with the N-term series: every coefficient of dt^d, d < N,
    of the returned noise matrix is that of the integral; what remains has degree >= N *)
Theorem C08_noise_is_integral_series :
  forall (F : numFieldType) (n : nat) (A Q : 'M[F]_n) (N : nat) (dt : F),
  cpm_ret1 (@exp_upto F (n + n) N) A Q dt =
  \sum_(d < N) dt ^+ d *: integral_coeff A Q d +
  \sum_(k < N) \sum_(l < N | (N <= k + l)%N)
     dt ^+ (k + l) *: (vl_E12 A Q k *m (vl_E11 A l)^T).
Proof. exact cpm_ret1_coeff. Qed.
Print Assumptions C08_noise_is_integral_series.

(** (3) symmetry of every coefficient of the noise matrix for symmetric Q *)
Theorem C08_noise_symmetric :
  forall (F : numFieldType) (n : nat) (A Q : 'M[F]_n) (d : nat),
  Q^T = Q -> (vl_Qd_coeff A Q d)^T = vl_Qd_coeff A Q d.
Proof. exact vl_Qd_coeff_sym. Qed.
Print Assumptions C08_noise_symmetric.

(** (3') zero step: Phi = I and Qd = 0 (any series with at least the constant term) *)
Theorem C08_zero_step :
  forall (F : fieldType) (n : nat) (A Q : 'M[F]_n) (N : nat), (0 < N)%N ->
  cpm_ret0 (@exp_upto F (n + n) N) A Q 0 = 1%:M /\
  cpm_ret1 (@exp_upto F (n + n) N) A Q 0 = 0.
Proof. exact zero_step. Qed.
Print Assumptions C08_zero_step.

(** (4) composition over sub-steps, for the generated code with ANY expm obeying the laws
    of the exact exponential of Van Loan's matrix (semigroup, block triangular,
    E22 E11^T = 1): the transitions multiply, the noise accumulates through the later
    transition, and covariance propagation over any list of sub-steps equals one step of
    their sum -- so it does not depend on how the time is partitioned *)
Theorem C08_composition :
  forall (F : fieldType) (n : nat) (expm : 'M[F]_(n + n) -> 'M[F]_(n + n)) (A Q : 'M[F]_n),
  vl_exp_laws (fun t : F => expm (t *: vl_mx A Q)) ->
  [/\ forall s t, cpm_ret0 expm A Q (s + t) = cpm_ret0 expm A Q s *m cpm_ret0 expm A Q t,
      forall s t, cpm_ret1 expm A Q (s + t)
                  = cpm_ret0 expm A Q s *m cpm_ret1 expm A Q t *m (cpm_ret0 expm A Q s)^T
                    + cpm_ret1 expm A Q s,
      forall s t P,
        propagate (cpm_ret0 expm A Q (s + t)) (cpm_ret1 expm A Q (s + t)) P
        = propagate (cpm_ret0 expm A Q s) (cpm_ret1 expm A Q s)
            (propagate (cpm_ret0 expm A Q t) (cpm_ret1 expm A Q t) P)
    & forall P t0 ts,
        cpm_propagate_steps expm A Q P (t0 :: ts)
        = propagate (cpm_ret0 expm A Q (\sum_(t <- t0 :: ts) t))
                    (cpm_ret1 expm A Q (\sum_(t <- t0 :: ts) t)) P].
Proof. exact composition. Qed.
Print Assumptions C08_composition.

Theorem C08_partition_independent :
  forall (F : fieldType) (n : nat) (expm : 'M[F]_(n + n) -> 'M[F]_(n + n)) (A Q : 'M[F]_n),
  vl_exp_laws (fun t : F => expm (t *: vl_mx A Q)) ->
  forall (P : 'M[F]_n) (t0 : F) (ts : seq F) (u0 : F) (us : seq F),
  \sum_(t <- t0 :: ts) t = \sum_(u <- u0 :: us) u ->
  cpm_propagate_steps expm A Q P (t0 :: ts) = cpm_propagate_steps expm A Q P (u0 :: us).
Proof. exact partition_independent. Qed.
Print Assumptions C08_partition_independent.

(** the three laws hold for the formal exponential series of Van Loan's matrix, coefficient
    by coefficient: exp((s+t)M) = exp(sM) exp(tM) (Cauchy product), lower-left block 0,
    exp(-F^T s) exp(F s)^T = 1 *)
Theorem C08_formal_series_obeys_laws :
  forall (F : numFieldType) (n : nat) (A Q : 'M[F]_n),
  [/\ forall (s t : F) (d : nat),
        exp_coeff ((s + t) *: vl_mx A Q) d
        = cauchy (exp_coeff (s *: vl_mx A Q)) (exp_coeff (t *: vl_mx A Q)) d,
      forall (t : F) (k : nat), dlsubmx (exp_coeff (t *: vl_mx A Q) k) = 0
    & forall d : nat,
        cauchy (vl_E22 A) (fun k => (vl_E11 A k)^T) d = (if d is 0 then 1%:M else 0)].
Proof. exact formal_exp_laws. Qed.
Print Assumptions C08_formal_series_obeys_laws.

(** Non-vacuity of [vl_exp_laws]: for zero dynamics (random-walk states) the series
    terminates, expm := exp_upto 2 is the exact exponential, obeys the laws, and the code
    returns Phi = I, Qd = dt Q. *)
Example C08_laws_satisfiable_zero_dynamics :
  forall (F : fieldType) (n : nat) (Q : 'M[F]_n),
  vl_exp_laws (fun t : F => @exp_upto F (n + n) 2 (t *: vl_mx 0 Q)).
Proof. exact zero_dynamics_laws. Qed.
Print Assumptions C08_laws_satisfiable_zero_dynamics.

Example C08_zero_dynamics_values :
  forall (F : fieldType) (n : nat) (Q : 'M[F]_n) (dt : F),
  cpm_ret0 (@exp_upto F (n + n) 2) 0 Q dt = 1%:M /\
  cpm_ret1 (@exp_upto F (n + n) 2) 0 Q dt = dt *: Q.
Proof. exact zero_dynamics. Qed.
Print Assumptions C08_zero_dynamics_values.

(** (5) the returned transition matrix is invertible for every step, with explicit inverse E22^T
    (the transposed lower-right block of the same exponential); Phi(0) = 1 and Phi(-dt) = Phi(dt)^-1.
    Hypotheses: the laws of the exact exponential only. *)
Theorem C08_transition_invertible :
  forall (F : fieldType) (n : nat) (expm : 'M[F]_(n + n) -> 'M[F]_(n + n)) (A Q : 'M[F]_n),
  vl_exp_laws (fun t : F => expm (t *: vl_mx A Q)) ->
  forall dt : F,
  [/\ cpm_ret0 expm A Q dt \in unitmx,
      invmx (cpm_ret0 expm A Q dt) = (drsubmx (expm (dt *: vl_mx A Q)))^T,
      cpm_ret0 expm A Q 0 = 1%:M
    & cpm_ret0 expm A Q (- dt) = invmx (cpm_ret0 expm A Q dt)].
Proof. exact transition_invertible. Qed.
Print Assumptions C08_transition_invertible.

(** ... and coefficient by coefficient for the formal series: exp(F s) exp(-F s) = 1 on both sides,
    i.e. E11(s) E22(s)^T = E22(s)^T E11(s) = 1 *)
Theorem C08_formal_transition_invertible :
  forall (F : numFieldType) (n : nat) (A : 'M[F]_n) (d : nat),
  cauchy (vl_E11 A) (fun k => (vl_E22 A k)^T) d = (if d is 0 then 1%:M else 0) /\
  cauchy (fun k => (vl_E22 A k)^T) (vl_E11 A) d = (if d is 0 then 1%:M else 0).
Proof. exact formal_transition_invertible. Qed.
Print Assumptions C08_formal_transition_invertible.

(** the series of Qd starts  Qd(s) = s Q + O(s^2):  Qd(dt) / dt -> Q *)
Theorem C08_noise_first_order :
  forall (F : numFieldType) (n : nat) (A Q : 'M[F]_n),
  vl_Qd_coeff A Q 0 = 0 /\ vl_Qd_coeff A Q 1 = Q.
Proof. exact noise_first_order. Qed.
Print Assumptions C08_noise_first_order.

(** PARTIAL (toward "Qd is positive semidefinite / a Gram matrix").  Under the laws of the exact
    exponential the accumulated noise is monotone: Qd(s+t) - Phi(s) Qd(t) Phi(s)^T = Qd(s), and positive
    semidefiniteness is inherited by composed steps.  So Qd(dt) is PSD as soon as Qd is PSD on an
    arbitrarily short initial interval (0, h]: Qd(dt) = sum over k sub-steps dt/k of congruences of
    Qd(dt/k).  STILL MISSING (analysis, not formalised): that Qd(h) is PSD for small h -- with
    Qd(h) = h Q + O(h^2) ([C08_noise_first_order]) this needs the remainder of the convergent series to
    be dominated, or directly that the limit Qd(h) = int_0^h exp(F u) Q exp(F^T u) du is a limit of
    Riemann sums of the PSD matrices exp(F u) L L^T exp(F^T u) (Q = L L^T), i.e. a Gram matrix. *)
Theorem C08_noise_gram_partial :
  forall (F : realFieldType) (n : nat) (expm : 'M[F]_(n + n) -> 'M[F]_(n + n)) (A Q : 'M[F]_n),
  vl_exp_laws (fun t : F => expm (t *: vl_mx A Q)) ->
  (forall s t, cpm_ret1 expm A Q (s + t)
               - cpm_ret0 expm A Q s *m cpm_ret1 expm A Q t *m (cpm_ret0 expm A Q s)^T
               = cpm_ret1 expm A Q s) /\
  (forall s t, psd (cpm_ret1 expm A Q s) -> psd (cpm_ret1 expm A Q t) ->
               psd (cpm_ret1 expm A Q (s + t))).
Proof. exact noise_gram_partial. Qed.
Print Assumptions C08_noise_gram_partial.

(** ... made explicit: under the laws of the exact exponential Qd(0) = 0, and positive
    semidefiniteness of Qd on ONE step h is inherited by every multiple k h of it (any k), so the
    missing analytic fact is needed only on an arbitrarily short initial interval. *)
Theorem C08_noise_psd_from_short_step_partial :
  forall (F : realFieldType) (n : nat) (expm : 'M[F]_(n + n) -> 'M[F]_(n + n)) (A Q : 'M[F]_n),
  vl_exp_laws (fun t : F => expm (t *: vl_mx A Q)) ->
  (cpm_ret1 expm A Q 0 = 0) /\
  (forall (h : F) (k : nat), psd (cpm_ret1 expm A Q h) -> psd (cpm_ret1 expm A Q (k%:R * h))).
Proof.
move=> F n expm A Q laws; split;
  [exact: noise_zero_under_laws | move=> h k; exact: noise_psd_multiples].
Qed.
Print Assumptions C08_noise_psd_from_short_step_partial.

(** PARTIAL.  Positive semidefiniteness of the returned noise matrix is proved only for the
    exact zero-dynamics instance.  NOT PROVED (no analysis is formalised):
      - for every F, every PSD Q and every dt >= 0 the limit of the series
        sum_d dt^d integral_coeff F Q d, i.e. int_0^dt exp(F u) Q exp(F^T u) du, is PSD;
      - scipy.linalg.expm (Pade approximant with scaling and squaring, binary64) returns
        the limit of [exp_upto N] up to rounding, and therefore obeys [vl_exp_laws] up to
        rounding.
    Both are checked numerically on the implementation against exact rational arithmetic. *)
Theorem C08_noise_psd_partial :
  forall (F : realFieldType) (n : nat) (Q : 'M[F]_n) (dt : F),
  0 <= dt -> psd Q -> psd (cpm_ret1 (@exp_upto F (n + n) 2) 0 Q dt).
Proof. exact zero_dynamics_psd. Qed.
Print Assumptions C08_noise_psd_partial.
