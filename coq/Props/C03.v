(** C03 — the IMU synthesiser (pyins.sim.generate_imu) matches the true kinematics and inverts the strapdown
    equations.  Statements are about the definitions GENERATED from /repo:
      Gen/C03Gen.v      incr_readings_* = sim._compute_increment_readings on one sampling interval,
                        imu_rate_*, imu_incr_* = sim.generate_imu on two samples (position + velocity form;
                        the scipy splines enter by their written contract, see tools/reg/c03.py),
      Gen/Earth.v       gravitation_ecef_*, gravity_g, rate_n_*,
      Gen/Transform.v   lla_to_ecef_*, mat_en_from_ll_*, mat_from_rph_*,
    and about the hand-written navigation equations Spec/NavODE.v.  Specification-side vocabulary
    (vec3, cross, theta, body_rate3, body_force2, body_rate_of, lon_i, vi_x/y/z, cib, sf_body, sf_slope,
    hermite_poly/acc0/acc1) is defined at the top of the sections of Proofs/C03Proofs.v.

    FULL PROPERTY (C03), kept here because only a part of it is a theorem:
      For any smooth trajectory, supplied in any of the three accepted forms (position+velocity, position
      only, initial position+velocity), generate_imu returns gyro and accelerometer readings equal to the
      true body angular rate and specific force of that motion (rate type) or their integrals over each
      sampling interval (increment type), within interpolation error that shrinks with the sampling
      interval; the three forms describe the same motion.  Integrating the synthesised readings with the
      strapdown algorithm from the first returned trajectory row reproduces the returned trajectory, and a
      body at rest at any latitude, altitude and attitude senses exactly Earth rate and the reaction to
      gravity.

    PROVED below (all exact, for all inputs):
      * a body at rest senses exactly -gravity and Earth rate, any latitude (both hemispheres), longitude,
        altitude, time and attitude                                   (C03_stationary_... theorems)
      * the increment kernel returns exactly the integrals over [0, dt] of the third-order body-rate and
        second-order body-force polynomials of the interval's rotation-vector cubic; all eight omega[k] and
        f[k] coefficients are pinned                                   (C03_gyro_poly_exact, C03_accel_poly_exact)
      * for every differentiable trajectory: the inertial velocity generate_imu forms is the derivative of
        the inertial position it forms (consistent Hermite data), its accelerometer formula
        C_ib^T (a_i - g_i) is the specific force for which the velocity equation of the navigation ODE returns
        the trajectory's own acceleration, and the body rate of C_ib = C_in C_nb is the angular rate for
        which the attitude equation returns C_nb'                      (C03_inertial_velocity_is_position_rate,
                                                                        C03_specific_force_inverts_rhs,
                                                                        C03_angular_rate_inverts_rhs)
      * the live generate_imu on two samples computes exactly that accelerometer formula with the Hermite
        second derivative in place of the true one (rate type), and hands the increment kernel the linear
        interpolation of it, so that its increment readings are exact integrals of the polynomial model
                                                                       (C03_imu_rate_formula, C03_partial)
    NOT PROVED (checked numerically by tools/props/C03.py only): convergence of the derivatives of the
    scipy CubicSpline / CubicHermiteSpline / RotationSpline interpolants to the true derivatives as the
    sampling interval shrinks; agreement of the three input forms up to that interpolation error (the
    position-only form and the initial-value form with its 3-iteration latitude fixed point are not traced);
    the closed-loop statement through strapdown.Integrator (= C01 + the theorems here + spline error). *)
From Coq Require Import Reals.
From Coquelicot Require Import Coquelicot.
From PV Require Import Base.RealTac Spec.LibSpecs Spec.NavODE.
From PV Require Import Gen.Earth Gen.Transform Gen.C03Gen Proofs.C03Proofs.
Open Scope R_scope.

(** ** A body at rest.  r_i(s) = lla_to_ecef(lat, lon + (180/pi) RATE s, alt) is its inertial position. *)

(** accelerometer in NED axes: the second time derivative of r_i minus gravitation is (0, 0, -gravity);
    gyro: the frame mat_en_from_ll(lat, lon + (180/pi) RATE s) turns with rate_n(lat) (C^T C' = [rate_n x]) *)
Theorem C03_stationary_senses_gravity_and_earth_rate : forall lat lon alt t : R, -90 <= lat <= 90 ->
  let x := fun s => lla_to_ecef_r0 lat (lon_i lon s) alt in
  let y := fun s => lla_to_ecef_r1 lat (lon_i lon s) alt in
  let z := fun s => lla_to_ecef_r2 lat (lon_i lon s) alt in
  (is_derive_n x 2 t (- (RATE_ * RATE_) * x t) /\ is_derive_n y 2 t (- (RATE_ * RATE_) * y t) /\ is_derive_n z 2 t 0) /\
  (let fx := Derive_n x 2 t - gravitation_ecef_g0 lat (lon_i lon t) alt in
   let fy := Derive_n y 2 t - gravitation_ecef_g1 lat (lon_i lon t) alt in
   let fz := Derive_n z 2 t - gravitation_ecef_g2 lat (lon_i lon t) alt in
   mat_en_from_ll_m00 lat (lon_i lon t) * fx + mat_en_from_ll_m10 lat (lon_i lon t) * fy + mat_en_from_ll_m20 lat (lon_i lon t) * fz = 0 /\
   mat_en_from_ll_m01 lat (lon_i lon t) * fx + mat_en_from_ll_m11 lat (lon_i lon t) * fy + mat_en_from_ll_m21 lat (lon_i lon t) * fz = 0 /\
   mat_en_from_ll_m02 lat (lon_i lon t) * fx + mat_en_from_ll_m12 lat (lon_i lon t) * fy + mat_en_from_ll_m22 lat (lon_i lon t) * fz
     = - gravity_g lat alt) /\
  body_rate_of (fun s => mat_en_from_ll_m00 lat (lon_i lon s)) (fun s => mat_en_from_ll_m01 lat (lon_i lon s)) (fun s => mat_en_from_ll_m02 lat (lon_i lon s))
               (fun s => mat_en_from_ll_m10 lat (lon_i lon s)) (fun s => mat_en_from_ll_m11 lat (lon_i lon s)) (fun s => mat_en_from_ll_m12 lat (lon_i lon s))
               (fun s => mat_en_from_ll_m20 lat (lon_i lon s)) (fun s => mat_en_from_ll_m21 lat (lon_i lon s)) (fun s => mat_en_from_ll_m22 lat (lon_i lon s))
               t (rate_n_w0 lat) (rate_n_w1 lat) (rate_n_w2 lat).
Proof. exact stationary_senses_gravity_and_earth_rate. Qed.
Print Assumptions C03_stationary_senses_gravity_and_earth_rate.

(** any attitude: with C_ib(s) = C_in(s) mat_from_rph(roll, pitch, heading) the accelerometer senses
    - C_nb^T (0,0,g) and the gyro C_nb^T rate_n *)
Theorem C03_stationary_any_attitude : forall lat lon alt roll pitch heading t : R, -90 <= lat <= 90 ->
  let x := fun s => lla_to_ecef_r0 lat (lon_i lon s) alt in
  let y := fun s => lla_to_ecef_r1 lat (lon_i lon s) alt in
  let z := fun s => lla_to_ecef_r2 lat (lon_i lon s) alt in
  (sf_body lat (lon_i lon t) alt roll pitch heading (Derive_n x 2 t) (Derive_n y 2 t) (Derive_n z 2 t) 0
     = - (mat_from_rph_m20 roll pitch heading * gravity_g lat alt) /\
   sf_body lat (lon_i lon t) alt roll pitch heading (Derive_n x 2 t) (Derive_n y 2 t) (Derive_n z 2 t) 1
     = - (mat_from_rph_m21 roll pitch heading * gravity_g lat alt) /\
   sf_body lat (lon_i lon t) alt roll pitch heading (Derive_n x 2 t) (Derive_n y 2 t) (Derive_n z 2 t) 2
     = - (mat_from_rph_m22 roll pitch heading * gravity_g lat alt)) /\
  body_rate_of (fun s => cib lat (lon_i lon s) roll pitch heading 0 0) (fun s => cib lat (lon_i lon s) roll pitch heading 0 1) (fun s => cib lat (lon_i lon s) roll pitch heading 0 2)
               (fun s => cib lat (lon_i lon s) roll pitch heading 1 0) (fun s => cib lat (lon_i lon s) roll pitch heading 1 1) (fun s => cib lat (lon_i lon s) roll pitch heading 1 2)
               (fun s => cib lat (lon_i lon s) roll pitch heading 2 0) (fun s => cib lat (lon_i lon s) roll pitch heading 2 1) (fun s => cib lat (lon_i lon s) roll pitch heading 2 2) t
    (dot3 (mat_from_rph_m00 roll pitch heading) (mat_from_rph_m10 roll pitch heading) (mat_from_rph_m20 roll pitch heading)
          (rate_n_w0 lat) (rate_n_w1 lat) (rate_n_w2 lat))
    (dot3 (mat_from_rph_m01 roll pitch heading) (mat_from_rph_m11 roll pitch heading) (mat_from_rph_m21 roll pitch heading)
          (rate_n_w0 lat) (rate_n_w1 lat) (rate_n_w2 lat))
    (dot3 (mat_from_rph_m02 roll pitch heading) (mat_from_rph_m12 roll pitch heading) (mat_from_rph_m22 roll pitch heading)
          (rate_n_w0 lat) (rate_n_w1 lat) (rate_n_w2 lat)).
Proof. exact stationary_any_attitude. Qed.
Print Assumptions C03_stationary_any_attitude.

Example C03_stationary_instance : -90 <= -33 <= 90 /\ -90 <= 78 <= 90.
Proof. exact stationary_instance. Qed.

(** ** The increment kernel.  theta(tau) = a tau + b tau^2 + c tau^3 is the rotation vector of the interval. *)

Theorem C03_theta_dot_is_derivative : forall a b c t,
  is_derive (fun s => vx (theta a b c s)) t (vx (theta_dot a b c t)) /\
  is_derive (fun s => vy (theta a b c s)) t (vy (theta_dot a b c t)) /\
  is_derive (fun s => vz (theta a b c s)) t (vz (theta_dot a b c t)).
Proof. exact theta_derive. Qed.
Print Assumptions C03_theta_dot_is_derivative.

(** gyros(dt) is a primitive of  theta' - 1/2 theta x theta' + 1/6 theta x (theta x theta')  that vanishes at 0,
    hence its integral over [0, dt]; as a polynomial identity in dt this fixes every omega[k] *)
Theorem C03_gyro_poly_exact : forall a0 a1 a2 b0 b1 b2 c0 c1 c2 d0 d1 d2 e0 e1 e2 dt : R,
  (forall T, is_derive (fun T0 => incr_readings_gyros0 T0 a0 a1 a2 b0 b1 b2 c0 c1 c2 d0 d1 d2 e0 e1 e2) T (vx (body_rate3 (a0, a1, a2) (b0, b1, b2) (c0, c1, c2) T)) /\
             is_derive (fun T0 => incr_readings_gyros1 T0 a0 a1 a2 b0 b1 b2 c0 c1 c2 d0 d1 d2 e0 e1 e2) T (vy (body_rate3 (a0, a1, a2) (b0, b1, b2) (c0, c1, c2) T)) /\
             is_derive (fun T0 => incr_readings_gyros2 T0 a0 a1 a2 b0 b1 b2 c0 c1 c2 d0 d1 d2 e0 e1 e2) T (vz (body_rate3 (a0, a1, a2) (b0, b1, b2) (c0, c1, c2) T))) /\
  is_RInt (fun s => vx (body_rate3 (a0, a1, a2) (b0, b1, b2) (c0, c1, c2) s)) 0 dt (incr_readings_gyros0 dt a0 a1 a2 b0 b1 b2 c0 c1 c2 d0 d1 d2 e0 e1 e2) /\
  is_RInt (fun s => vy (body_rate3 (a0, a1, a2) (b0, b1, b2) (c0, c1, c2) s)) 0 dt (incr_readings_gyros1 dt a0 a1 a2 b0 b1 b2 c0 c1 c2 d0 d1 d2 e0 e1 e2) /\
  is_RInt (fun s => vz (body_rate3 (a0, a1, a2) (b0, b1, b2) (c0, c1, c2) s)) 0 dt (incr_readings_gyros2 dt a0 a1 a2 b0 b1 b2 c0 c1 c2 d0 d1 d2 e0 e1 e2).
Proof. exact gyro_poly_exact. Qed.
Print Assumptions C03_gyro_poly_exact.

(** accels(dt) likewise for  (I - [theta x] + 1/2 [theta x]^2) (d + e tau) *)
Theorem C03_accel_poly_exact : forall a0 a1 a2 b0 b1 b2 c0 c1 c2 d0 d1 d2 e0 e1 e2 dt : R,
  (forall T, is_derive (fun T0 => incr_readings_accels0 T0 a0 a1 a2 b0 b1 b2 c0 c1 c2 d0 d1 d2 e0 e1 e2) T (vx (body_force2 (a0, a1, a2) (b0, b1, b2) (c0, c1, c2) (d0, d1, d2) (e0, e1, e2) T)) /\
             is_derive (fun T0 => incr_readings_accels1 T0 a0 a1 a2 b0 b1 b2 c0 c1 c2 d0 d1 d2 e0 e1 e2) T (vy (body_force2 (a0, a1, a2) (b0, b1, b2) (c0, c1, c2) (d0, d1, d2) (e0, e1, e2) T)) /\
             is_derive (fun T0 => incr_readings_accels2 T0 a0 a1 a2 b0 b1 b2 c0 c1 c2 d0 d1 d2 e0 e1 e2) T (vz (body_force2 (a0, a1, a2) (b0, b1, b2) (c0, c1, c2) (d0, d1, d2) (e0, e1, e2) T))) /\
  is_RInt (fun s => vx (body_force2 (a0, a1, a2) (b0, b1, b2) (c0, c1, c2) (d0, d1, d2) (e0, e1, e2) s)) 0 dt (incr_readings_accels0 dt a0 a1 a2 b0 b1 b2 c0 c1 c2 d0 d1 d2 e0 e1 e2) /\
  is_RInt (fun s => vy (body_force2 (a0, a1, a2) (b0, b1, b2) (c0, c1, c2) (d0, d1, d2) (e0, e1, e2) s)) 0 dt (incr_readings_accels1 dt a0 a1 a2 b0 b1 b2 c0 c1 c2 d0 d1 d2 e0 e1 e2) /\
  is_RInt (fun s => vz (body_force2 (a0, a1, a2) (b0, b1, b2) (c0, c1, c2) (d0, d1, d2) (e0, e1, e2) s)) 0 dt (incr_readings_accels2 dt a0 a1 a2 b0 b1 b2 c0 c1 c2 d0 d1 d2 e0 e1 e2).
Proof. exact accel_poly_exact. Qed.
Print Assumptions C03_accel_poly_exact.

Example C03_incr_example :
  incr_readings_gyros0 1 1 0 0 0 1 0 0 0 0 0 0 0 0 0 0 = 31 / 30 /\
  incr_readings_gyros1 1 1 0 0 0 1 0 0 0 0 0 0 0 0 0 0 = 23 / 24 /\
  incr_readings_gyros2 1 1 0 0 0 1 0 0 0 0 0 0 0 0 0 0 = - 1 / 6 /\
  incr_readings_accels0 1 1 0 0 0 0 0 0 0 0 0 1 0 0 0 0 = 0 /\
  incr_readings_accels1 1 1 0 0 0 0 0 0 0 0 0 1 0 0 0 0 = 5 / 6 /\
  incr_readings_accels2 1 1 0 0 0 0 0 0 0 0 0 1 0 0 0 0 = - 1 / 2.
Proof. exact incr_example. Qed.

(** ** A moving body (any differentiable trajectory; latitude/longitude in degrees as functions of time). *)

(** the inertial velocity  v_i = C_in v_n + Omega x r_i  that generate_imu hands to the Hermite spline is the
    time derivative of the inertial position  r_i = lla_to_ecef(lat, lon + (180/pi) RATE t, alt)  when v_n is the
    velocity implied by the position rates *)
Theorem C03_inertial_velocity_is_position_rate : forall (lat lon alt : R -> R) (t dlat dlon dalt : R),
  is_derive lat t dlat -> is_derive lon t dlon -> is_derive alt t dalt ->
  let uN := dlat * d2r * (nav_Rn (lat t) + alt t) in
  let uE := dlon * d2r * ((nav_Re (lat t) + alt t) * cos (lat t * d2r)) in
  let uD := - dalt in
  is_derive (fun s => lla_to_ecef_r0 (lat s) (lon_i (lon s) s) (alt s)) t (vi_x (lat t) (lon_i (lon t) t) (alt t) uN uE uD) /\
  is_derive (fun s => lla_to_ecef_r1 (lat s) (lon_i (lon s) s) (alt s)) t (vi_y (lat t) (lon_i (lon t) t) (alt t) uN uE uD) /\
  is_derive (fun s => lla_to_ecef_r2 (lat s) (lon_i (lon s) s) (alt s)) t (vi_z (lat t) (lon_i (lon t) t) (alt t) uN uE uD).
Proof. exact moving_position_derive. Qed.
Print Assumptions C03_inertial_velocity_is_position_rate.

(** accelerometer formula of generate_imu with the TRUE derivative of v_i: it is the specific force f for which
    nav_rhs_VN/VE/VD (Spec/NavODE.v:  v' = C f + g - (2 Omega + rho) x v) return the trajectory's own v_n' *)
Theorem C03_specific_force_inverts_rhs :
  forall (lat lon alt VN VE VD : R -> R) (t aN aE aD roll pitch heading w0 w1 w2 : R),
  let lonI := fun s => lon_i (lon s) s in
  let Vx := fun s => vi_x (lat s) (lonI s) (alt s) (VN s) (VE s) (VD s) in
  let Vy := fun s => vi_y (lat s) (lonI s) (alt s) (VN s) (VE s) (VD s) in
  let Vz := fun s => vi_z (lat s) (lonI s) (alt s) (VN s) (VE s) (VD s) in
  let f := sf_body (lat t) (lonI t) (alt t) roll pitch heading (Derive Vx t) (Derive Vy t) (Derive Vz t) in
  let rhs := fun F : R -> R -> R -> R -> R -> R -> R -> R -> R -> R -> R -> R -> R -> R -> R -> R -> R -> R -> R -> R -> R -> R =>
    F (lat t) (lon t) (alt t) (VN t) (VE t) (VD t)
      (mat_from_rph_m00 roll pitch heading) (mat_from_rph_m01 roll pitch heading) (mat_from_rph_m02 roll pitch heading) (mat_from_rph_m10 roll pitch heading) (mat_from_rph_m11 roll pitch heading) (mat_from_rph_m12 roll pitch heading) (mat_from_rph_m20 roll pitch heading) (mat_from_rph_m21 roll pitch heading) (mat_from_rph_m22 roll pitch heading)
      w0 w1 w2 (f 0%nat) (f 1%nat) (f 2%nat) in
  -90 < lat t < 90 -> -6000000 < alt t ->
  is_derive lat t (rhs nav_rhs_lat) -> is_derive lon t (rhs nav_rhs_lon) -> is_derive alt t (rhs nav_rhs_alt) ->
  is_derive VN t aN -> is_derive VE t aE -> is_derive VD t aD ->
  (ex_derive Vx t /\ ex_derive Vy t /\ ex_derive Vz t) /\
  rhs nav_rhs_VN = aN /\ rhs nav_rhs_VE = aE /\ rhs nav_rhs_VD = aD.
Proof. exact specific_force_inverts_rhs. Qed.
Print Assumptions C03_specific_force_inverts_rhs.

Example C03_inverts_rhs_example : forall t roll pitch heading w0 w1 w2 : R,
  let lat := fun _ : R => 30 in let lon := fun s : R => 1 / 1000 * s in let alt := fun _ : R => 1000 in
  let VN := fun _ : R => 0 in let VE := fun _ : R => ex_VE in let VD := fun _ : R => 0 in
  let lonI := fun s => lon_i (lon s) s in
  let Vx := fun s => vi_x (lat s) (lonI s) (alt s) (VN s) (VE s) (VD s) in
  let Vy := fun s => vi_y (lat s) (lonI s) (alt s) (VN s) (VE s) (VD s) in
  let Vz := fun s => vi_z (lat s) (lonI s) (alt s) (VN s) (VE s) (VD s) in
  let f := sf_body (lat t) (lonI t) (alt t) roll pitch heading (Derive Vx t) (Derive Vy t) (Derive Vz t) in
  let rhs := fun F : R -> R -> R -> R -> R -> R -> R -> R -> R -> R -> R -> R -> R -> R -> R -> R -> R -> R -> R -> R -> R -> R =>
    F (lat t) (lon t) (alt t) (VN t) (VE t) (VD t)
      (mat_from_rph_m00 roll pitch heading) (mat_from_rph_m01 roll pitch heading) (mat_from_rph_m02 roll pitch heading) (mat_from_rph_m10 roll pitch heading) (mat_from_rph_m11 roll pitch heading) (mat_from_rph_m12 roll pitch heading) (mat_from_rph_m20 roll pitch heading) (mat_from_rph_m21 roll pitch heading) (mat_from_rph_m22 roll pitch heading)
      w0 w1 w2 (f 0%nat) (f 1%nat) (f 2%nat) in
  0 < ex_VE /\ rhs nav_rhs_VN = 0 /\ rhs nav_rhs_VE = 0 /\ rhs nav_rhs_VD = 0.
Proof. exact inverts_rhs_example. Qed.

(** gyro side: if w is the body rate of the inertial attitude C_ib = C_in C_nb that generate_imu interpolates
    (C_ib' = C_ib [w x]), then C_nb' is what nav_rhs_Cij (C' = C [w x] - [(Omega + rho) x] C) returns for that w *)
Theorem C03_angular_rate_inverts_rhs :
  forall (lat lon alt VN VE VD c00 c01 c02 c10 c11 c12 c20 c21 c22 : R -> R) (t d00 d01 d02 d10 d11 d12 d20 d21 d22 w0 w1 w2 f0 f1 f2 : R),
  let lonI := fun s => lon_i (lon s) s in
  let B00 := fun s => dot3 (mat_en_from_ll_m00 (lat s) (lonI s)) (mat_en_from_ll_m01 (lat s) (lonI s)) (mat_en_from_ll_m02 (lat s) (lonI s)) (c00 s) (c10 s) (c20 s) in
  let B01 := fun s => dot3 (mat_en_from_ll_m00 (lat s) (lonI s)) (mat_en_from_ll_m01 (lat s) (lonI s)) (mat_en_from_ll_m02 (lat s) (lonI s)) (c01 s) (c11 s) (c21 s) in
  let B02 := fun s => dot3 (mat_en_from_ll_m00 (lat s) (lonI s)) (mat_en_from_ll_m01 (lat s) (lonI s)) (mat_en_from_ll_m02 (lat s) (lonI s)) (c02 s) (c12 s) (c22 s) in
  let B10 := fun s => dot3 (mat_en_from_ll_m10 (lat s) (lonI s)) (mat_en_from_ll_m11 (lat s) (lonI s)) (mat_en_from_ll_m12 (lat s) (lonI s)) (c00 s) (c10 s) (c20 s) in
  let B11 := fun s => dot3 (mat_en_from_ll_m10 (lat s) (lonI s)) (mat_en_from_ll_m11 (lat s) (lonI s)) (mat_en_from_ll_m12 (lat s) (lonI s)) (c01 s) (c11 s) (c21 s) in
  let B12 := fun s => dot3 (mat_en_from_ll_m10 (lat s) (lonI s)) (mat_en_from_ll_m11 (lat s) (lonI s)) (mat_en_from_ll_m12 (lat s) (lonI s)) (c02 s) (c12 s) (c22 s) in
  let B20 := fun s => dot3 (mat_en_from_ll_m20 (lat s) (lonI s)) (mat_en_from_ll_m21 (lat s) (lonI s)) (mat_en_from_ll_m22 (lat s) (lonI s)) (c00 s) (c10 s) (c20 s) in
  let B21 := fun s => dot3 (mat_en_from_ll_m20 (lat s) (lonI s)) (mat_en_from_ll_m21 (lat s) (lonI s)) (mat_en_from_ll_m22 (lat s) (lonI s)) (c01 s) (c11 s) (c21 s) in
  let B22 := fun s => dot3 (mat_en_from_ll_m20 (lat s) (lonI s)) (mat_en_from_ll_m21 (lat s) (lonI s)) (mat_en_from_ll_m22 (lat s) (lonI s)) (c02 s) (c12 s) (c22 s) in
  let rhs := fun F : R -> R -> R -> R -> R -> R -> R -> R -> R -> R -> R -> R -> R -> R -> R -> R -> R -> R -> R -> R -> R -> R =>
    F (lat t) (lon t) (alt t) (VN t) (VE t) (VD t) (c00 t) (c01 t) (c02 t) (c10 t) (c11 t) (c12 t) (c20 t) (c21 t) (c22 t) w0 w1 w2 f0 f1 f2 in
  -90 < lat t < 90 -> -6000000 < alt t ->
  is_derive lat t (rhs nav_rhs_lat) -> is_derive lon t (rhs nav_rhs_lon) ->
  is_derive c00 t d00 ->
  is_derive c01 t d01 ->
  is_derive c02 t d02 ->
  is_derive c10 t d10 ->
  is_derive c11 t d11 ->
  is_derive c12 t d12 ->
  is_derive c20 t d20 ->
  is_derive c21 t d21 ->
  is_derive c22 t d22 ->
  is_derive B00 t (dot3 (B00 t) (B01 t) (B02 t) (skew00 w0 w1 w2) (skew10 w0 w1 w2) (skew20 w0 w1 w2)) ->
  is_derive B01 t (dot3 (B00 t) (B01 t) (B02 t) (skew01 w0 w1 w2) (skew11 w0 w1 w2) (skew21 w0 w1 w2)) ->
  is_derive B02 t (dot3 (B00 t) (B01 t) (B02 t) (skew02 w0 w1 w2) (skew12 w0 w1 w2) (skew22 w0 w1 w2)) ->
  is_derive B10 t (dot3 (B10 t) (B11 t) (B12 t) (skew00 w0 w1 w2) (skew10 w0 w1 w2) (skew20 w0 w1 w2)) ->
  is_derive B11 t (dot3 (B10 t) (B11 t) (B12 t) (skew01 w0 w1 w2) (skew11 w0 w1 w2) (skew21 w0 w1 w2)) ->
  is_derive B12 t (dot3 (B10 t) (B11 t) (B12 t) (skew02 w0 w1 w2) (skew12 w0 w1 w2) (skew22 w0 w1 w2)) ->
  is_derive B20 t (dot3 (B20 t) (B21 t) (B22 t) (skew00 w0 w1 w2) (skew10 w0 w1 w2) (skew20 w0 w1 w2)) ->
  is_derive B21 t (dot3 (B20 t) (B21 t) (B22 t) (skew01 w0 w1 w2) (skew11 w0 w1 w2) (skew21 w0 w1 w2)) ->
  is_derive B22 t (dot3 (B20 t) (B21 t) (B22 t) (skew02 w0 w1 w2) (skew12 w0 w1 w2) (skew22 w0 w1 w2)) ->
  d00 = rhs nav_rhs_C00 /\
  d01 = rhs nav_rhs_C01 /\
  d02 = rhs nav_rhs_C02 /\
  d10 = rhs nav_rhs_C10 /\
  d11 = rhs nav_rhs_C11 /\
  d12 = rhs nav_rhs_C12 /\
  d20 = rhs nav_rhs_C20 /\
  d21 = rhs nav_rhs_C21 /\
  d22 = rhs nav_rhs_C22.
Proof. exact angular_rate_inverts_rhs. Qed.
Print Assumptions C03_angular_rate_inverts_rhs.

Example C03_angular_rate_example : forall L Lam H t f0 f1 f2 : R, -90 < L < 90 -> -6000000 < H ->
  let rhs := fun F : R -> R -> R -> R -> R -> R -> R -> R -> R -> R -> R -> R -> R -> R -> R -> R -> R -> R -> R -> R -> R -> R =>
    F L Lam H 0 0 0 1 0 0 0 1 0 0 0 1 (rate_n_w0 L) (rate_n_w1 L) (rate_n_w2 L) f0 f1 f2 in
  0 = rhs nav_rhs_C00 /\
  0 = rhs nav_rhs_C01 /\
  0 = rhs nav_rhs_C02 /\
  0 = rhs nav_rhs_C10 /\
  0 = rhs nav_rhs_C11 /\
  0 = rhs nav_rhs_C12 /\
  0 = rhs nav_rhs_C20 /\
  0 = rhs nav_rhs_C21 /\
  0 = rhs nav_rhs_C22.
Proof. exact angular_rate_example. Qed.

(** ** The live generate_imu on two samples (t0, t1), position + velocity form. *)

(** contract of the cubic Hermite spline on one interval: hermite_acc0/1 are the second derivatives at the two
    ends of the cubic that matches values and first derivatives *)
Theorem C03_hermite_contract : forall r0 r1 v0 v1 h : R, h <> 0 ->
  hermite_poly r0 r1 v0 v1 h 0 = r0 /\ hermite_poly r0 r1 v0 v1 h h = r1 /\
  is_derive (hermite_poly r0 r1 v0 v1 h) 0 v0 /\ is_derive (hermite_poly r0 r1 v0 v1 h) h v1 /\
  is_derive_n (hermite_poly r0 r1 v0 v1 h) 2 0 (hermite_acc0 r0 r1 v0 v1 h) /\
  is_derive_n (hermite_poly r0 r1 v0 v1 h) 2 h (hermite_acc1 r0 r1 v0 v1 h).
Proof. exact hermite_contract. Qed.
Print Assumptions C03_hermite_contract.

(** rate type: each row's accelerometer reading is  C_ib^T (Hermite second derivative of r_i - gravitation)
    with v_i = C_in v_n + Omega x r_i, the inertial longitude lon + (180/pi) RATE t, C_ib = C_in mat_from_rph *)
Theorem C03_imu_rate_formula : forall t0 t1 lat0 lon0 alt0 lat1 lon1 alt1 roll0 pitch0 heading0 roll1 pitch1 heading1 VN0 VE0 VD0 VN1 VE1 VD1 : R,
  let h := t1 - t0 in let l0 := lon_i lon0 t0 in let l1 := lon_i lon1 t1 in
  let ax0 := hermite_acc0 (lla_to_ecef_r0 lat0 l0 alt0) (lla_to_ecef_r0 lat1 l1 alt1)
                          (vi_x lat0 l0 alt0 VN0 VE0 VD0) (vi_x lat1 l1 alt1 VN1 VE1 VD1) h in
  let ay0 := hermite_acc0 (lla_to_ecef_r1 lat0 l0 alt0) (lla_to_ecef_r1 lat1 l1 alt1)
                          (vi_y lat0 l0 alt0 VN0 VE0 VD0) (vi_y lat1 l1 alt1 VN1 VE1 VD1) h in
  let az0 := hermite_acc0 (lla_to_ecef_r2 lat0 l0 alt0) (lla_to_ecef_r2 lat1 l1 alt1)
                          (vi_z lat0 l0 alt0 VN0 VE0 VD0) (vi_z lat1 l1 alt1 VN1 VE1 VD1) h in
  let ax1 := hermite_acc1 (lla_to_ecef_r0 lat0 l0 alt0) (lla_to_ecef_r0 lat1 l1 alt1)
                          (vi_x lat0 l0 alt0 VN0 VE0 VD0) (vi_x lat1 l1 alt1 VN1 VE1 VD1) h in
  let ay1 := hermite_acc1 (lla_to_ecef_r1 lat0 l0 alt0) (lla_to_ecef_r1 lat1 l1 alt1)
                          (vi_y lat0 l0 alt0 VN0 VE0 VD0) (vi_y lat1 l1 alt1 VN1 VE1 VD1) h in
  let az1 := hermite_acc1 (lla_to_ecef_r2 lat0 l0 alt0) (lla_to_ecef_r2 lat1 l1 alt1)
                          (vi_z lat0 l0 alt0 VN0 VE0 VD0) (vi_z lat1 l1 alt1 VN1 VE1 VD1) h in
  h <> 0 ->
  (imu_rate_f0_0 t0 t1 lat0 lon0 alt0 lat1 lon1 alt1 roll0 pitch0 heading0 roll1 pitch1 heading1 VN0 VE0 VD0 VN1 VE1 VD1 = sf_body lat0 l0 alt0 roll0 pitch0 heading0 ax0 ay0 az0 0 /\
   imu_rate_f0_1 t0 t1 lat0 lon0 alt0 lat1 lon1 alt1 roll0 pitch0 heading0 roll1 pitch1 heading1 VN0 VE0 VD0 VN1 VE1 VD1 = sf_body lat0 l0 alt0 roll0 pitch0 heading0 ax0 ay0 az0 1 /\
   imu_rate_f0_2 t0 t1 lat0 lon0 alt0 lat1 lon1 alt1 roll0 pitch0 heading0 roll1 pitch1 heading1 VN0 VE0 VD0 VN1 VE1 VD1 = sf_body lat0 l0 alt0 roll0 pitch0 heading0 ax0 ay0 az0 2) /\
  (imu_rate_f1_0 t0 t1 lat0 lon0 alt0 lat1 lon1 alt1 roll0 pitch0 heading0 roll1 pitch1 heading1 VN0 VE0 VD0 VN1 VE1 VD1 = sf_body lat1 l1 alt1 roll1 pitch1 heading1 ax1 ay1 az1 0 /\
   imu_rate_f1_1 t0 t1 lat0 lon0 alt0 lat1 lon1 alt1 roll0 pitch0 heading0 roll1 pitch1 heading1 VN0 VE0 VD0 VN1 VE1 VD1 = sf_body lat1 l1 alt1 roll1 pitch1 heading1 ax1 ay1 az1 1 /\
   imu_rate_f1_2 t0 t1 lat0 lon0 alt0 lat1 lon1 alt1 roll0 pitch0 heading0 roll1 pitch1 heading1 VN0 VE0 VD0 VN1 VE1 VD1 = sf_body lat1 l1 alt1 roll1 pitch1 heading1 ax1 ay1 az1 2).
Proof. exact imu_rate_formula. Qed.
Print Assumptions C03_imu_rate_formula.

Theorem C03_trajectory_passthrough : forall t0 t1 lat0 lon0 alt0 lat1 lon1 alt1 roll0 pitch0 heading0 roll1 pitch1 heading1 VN0 VE0 VD0 VN1 VE1 VD1 : R,
  imu_rate_traj0_lat t0 t1 lat0 lon0 alt0 lat1 lon1 alt1 roll0 pitch0 heading0 roll1 pitch1 heading1 VN0 VE0 VD0 VN1 VE1 VD1 = lat0 /\ imu_rate_traj0_lon t0 t1 lat0 lon0 alt0 lat1 lon1 alt1 roll0 pitch0 heading0 roll1 pitch1 heading1 VN0 VE0 VD0 VN1 VE1 VD1 = lon0 /\ imu_rate_traj0_alt t0 t1 lat0 lon0 alt0 lat1 lon1 alt1 roll0 pitch0 heading0 roll1 pitch1 heading1 VN0 VE0 VD0 VN1 VE1 VD1 = alt0 /\
  imu_rate_traj0_VN t0 t1 lat0 lon0 alt0 lat1 lon1 alt1 roll0 pitch0 heading0 roll1 pitch1 heading1 VN0 VE0 VD0 VN1 VE1 VD1 = VN0 /\ imu_rate_traj0_VE t0 t1 lat0 lon0 alt0 lat1 lon1 alt1 roll0 pitch0 heading0 roll1 pitch1 heading1 VN0 VE0 VD0 VN1 VE1 VD1 = VE0 /\ imu_rate_traj0_VD t0 t1 lat0 lon0 alt0 lat1 lon1 alt1 roll0 pitch0 heading0 roll1 pitch1 heading1 VN0 VE0 VD0 VN1 VE1 VD1 = VD0 /\
  imu_rate_traj0_roll t0 t1 lat0 lon0 alt0 lat1 lon1 alt1 roll0 pitch0 heading0 roll1 pitch1 heading1 VN0 VE0 VD0 VN1 VE1 VD1 = roll0 /\ imu_rate_traj0_pitch t0 t1 lat0 lon0 alt0 lat1 lon1 alt1 roll0 pitch0 heading0 roll1 pitch1 heading1 VN0 VE0 VD0 VN1 VE1 VD1 = pitch0 /\ imu_rate_traj0_heading t0 t1 lat0 lon0 alt0 lat1 lon1 alt1 roll0 pitch0 heading0 roll1 pitch1 heading1 VN0 VE0 VD0 VN1 VE1 VD1 = heading0.
Proof. exact imu_rate_trajectory_passthrough. Qed.
Print Assumptions C03_trajectory_passthrough.

(** increment type (the part of C03 that is a theorem end-to-end on the generated generate_imu): the readings of
    the interval [t0, t1] are the exact integrals over [0, t1 - t0] of the body-rate polynomial of the interval's
    rotation-vector cubic (a, b, c = RotationSpline coefficient rows, library primitive) and of the body-force
    polynomial whose d + e tau interpolates  C_ib(t0)^T (a_i - g_i)  linearly between the samples.
    What is missing for the full property is listed in the header. *)
Theorem C03_partial : forall t0 t1 lat0 lon0 alt0 lat1 lon1 alt1 roll0 pitch0 heading0 roll1 pitch1 heading1 VN0 VE0 VD0 VN1 VE1 VD1 ra0 ra1 ra2 rb0 rb1 rb2 rc0 rc1 rc2 : R,
  let h := t1 - t0 in let l0 := lon_i lon0 t0 in let l1 := lon_i lon1 t1 in
  let ax0 := hermite_acc0 (lla_to_ecef_r0 lat0 l0 alt0) (lla_to_ecef_r0 lat1 l1 alt1)
                          (vi_x lat0 l0 alt0 VN0 VE0 VD0) (vi_x lat1 l1 alt1 VN1 VE1 VD1) h in
  let ay0 := hermite_acc0 (lla_to_ecef_r1 lat0 l0 alt0) (lla_to_ecef_r1 lat1 l1 alt1)
                          (vi_y lat0 l0 alt0 VN0 VE0 VD0) (vi_y lat1 l1 alt1 VN1 VE1 VD1) h in
  let az0 := hermite_acc0 (lla_to_ecef_r2 lat0 l0 alt0) (lla_to_ecef_r2 lat1 l1 alt1)
                          (vi_z lat0 l0 alt0 VN0 VE0 VD0) (vi_z lat1 l1 alt1 VN1 VE1 VD1) h in
  let ax1 := hermite_acc1 (lla_to_ecef_r0 lat0 l0 alt0) (lla_to_ecef_r0 lat1 l1 alt1)
                          (vi_x lat0 l0 alt0 VN0 VE0 VD0) (vi_x lat1 l1 alt1 VN1 VE1 VD1) h in
  let ay1 := hermite_acc1 (lla_to_ecef_r1 lat0 l0 alt0) (lla_to_ecef_r1 lat1 l1 alt1)
                          (vi_y lat0 l0 alt0 VN0 VE0 VD0) (vi_y lat1 l1 alt1 VN1 VE1 VD1) h in
  let az1 := hermite_acc1 (lla_to_ecef_r2 lat0 l0 alt0) (lla_to_ecef_r2 lat1 l1 alt1)
                          (vi_z lat0 l0 alt0 VN0 VE0 VD0) (vi_z lat1 l1 alt1 VN1 VE1 VD1) h in
  let d := fun j => sf_body lat0 l0 alt0 roll0 pitch0 heading0 ax0 ay0 az0 j in
  let e := fun j => sf_slope lat0 l0 alt0 roll0 pitch0 heading0 lat1 l1 alt1 ax0 ay0 az0 ax1 ay1 az1 h j in
  h <> 0 ->
  let a := (ra0, ra1, ra2) in let b := (rb0, rb1, rb2) in let c := (rc0, rc1, rc2) in
  let dv := (d 0%nat, d 1%nat, d 2%nat) in let ev := (e 0%nat, e 1%nat, e 2%nat) in
  is_RInt (fun s => vx (body_rate3 a b c s)) 0 h (imu_incr_gyro0 t0 t1 lat0 lon0 alt0 lat1 lon1 alt1 roll0 pitch0 heading0 roll1 pitch1 heading1 VN0 VE0 VD0 VN1 VE1 VD1 ra0 ra1 ra2 rb0 rb1 rb2 rc0 rc1 rc2) /\
  is_RInt (fun s => vy (body_rate3 a b c s)) 0 h (imu_incr_gyro1 t0 t1 lat0 lon0 alt0 lat1 lon1 alt1 roll0 pitch0 heading0 roll1 pitch1 heading1 VN0 VE0 VD0 VN1 VE1 VD1 ra0 ra1 ra2 rb0 rb1 rb2 rc0 rc1 rc2) /\
  is_RInt (fun s => vz (body_rate3 a b c s)) 0 h (imu_incr_gyro2 t0 t1 lat0 lon0 alt0 lat1 lon1 alt1 roll0 pitch0 heading0 roll1 pitch1 heading1 VN0 VE0 VD0 VN1 VE1 VD1 ra0 ra1 ra2 rb0 rb1 rb2 rc0 rc1 rc2) /\
  is_RInt (fun s => vx (body_force2 a b c dv ev s)) 0 h (imu_incr_accel0 t0 t1 lat0 lon0 alt0 lat1 lon1 alt1 roll0 pitch0 heading0 roll1 pitch1 heading1 VN0 VE0 VD0 VN1 VE1 VD1 ra0 ra1 ra2 rb0 rb1 rb2 rc0 rc1 rc2) /\
  is_RInt (fun s => vy (body_force2 a b c dv ev s)) 0 h (imu_incr_accel1 t0 t1 lat0 lon0 alt0 lat1 lon1 alt1 roll0 pitch0 heading0 roll1 pitch1 heading1 VN0 VE0 VD0 VN1 VE1 VD1 ra0 ra1 ra2 rb0 rb1 rb2 rc0 rc1 rc2) /\
  is_RInt (fun s => vz (body_force2 a b c dv ev s)) 0 h (imu_incr_accel2 t0 t1 lat0 lon0 alt0 lat1 lon1 alt1 roll0 pitch0 heading0 roll1 pitch1 heading1 VN0 VE0 VD0 VN1 VE1 VD1 ra0 ra1 ra2 rb0 rb1 rb2 rc0 rc1 rc2).
Proof. exact imu_incr_is_integral. Qed.
Print Assumptions C03_partial.

Example C03_two_samples_instance : 1 / 10 - 0 <> 0.
Proof. exact two_samples_instance. Qed.
