(* C09 — Feedback filter handles every IMU/measurement interleaving exactly once.

   Model: Model/FeedbackSched.v (run_feedback_filter at the level of cursors and
   events, times in Q).  Proofs: Proofs/SchedProofs.v.

   t0      = initial_pva.name            incs    = increments.index
   sensors = one list of stamps per element of `measurements` (None / [] = [])
   Hypotheses: t0 < incs[0] < incs[1] < ... (StronglySorted Qlt (t0 :: incs)),
   at least one increment, fuel >= number of increments.
   - theorems `C09_fb_*`        : exact arithmetic, add_step t = t + time_step, 0 <= time_step
   - theorems `C09_fb_*_oracle` : `time + time_step` replaced by ANY add_step with
                                  t <= add_step t (covers binary64 rounding of the sum) *)
From Coq Require Import List QArith Sorted.
From PV Require Import Model.FeedbackSched Proofs.SchedProofs.
Import ListNotations.
Open Scope Q_scope.

(* ---- termination: the fuel #increments is never exhausted, no index error ---- *)
Theorem C09_fb_terminates : forall time_step t0 incs sensors fuel,
  0 <= time_step -> StronglySorted Qlt (t0 :: incs) -> incs <> [] ->
  (length incs <= fuel)%nat ->
  completed (fb_run_exact fuel time_step t0 incs sensors) = true.
Proof. exact fb_terminates. Qed.
Print Assumptions C09_fb_terminates.

Theorem C09_fb_terminates_oracle : forall add_step t0 incs sensors fuel,
  (forall t, t <= add_step t) -> StronglySorted Qlt (t0 :: incs) -> incs <> [] ->
  (length incs <= fuel)%nat ->
  completed (fb_run fuel add_step t0 incs sensors) = true.
Proof. exact fb_terminates_oracle. Qed.
Print Assumptions C09_fb_terminates_oracle.

(* ---- every increment is integrated exactly once, in order; no batch is empty;
        the trajectory index is t0 followed by every increment time ---- *)
Theorem C09_fb_imu_exactly_once : forall time_step t0 incs sensors fuel,
  0 <= time_step -> StronglySorted Qlt (t0 :: incs) -> incs <> [] ->
  (length incs <= fuel)%nat ->
  let tr := fb_run_exact fuel time_step t0 incs sensors in
  integrated tr = seq 0 (length incs) /\
  (forall a b, In (Integrate a b) tr -> (a < b)%nat /\ (b <= length incs)%nat) /\
  fb_trajectory_index t0 incs tr = t0 :: incs.
Proof. exact fb_imu_exactly_once. Qed.
Print Assumptions C09_fb_imu_exactly_once.

Theorem C09_fb_imu_exactly_once_oracle : forall add_step t0 incs sensors fuel,
  (forall t, t <= add_step t) -> StronglySorted Qlt (t0 :: incs) -> incs <> [] ->
  (length incs <= fuel)%nat ->
  let tr := fb_run fuel add_step t0 incs sensors in
  integrated tr = seq 0 (length incs) /\
  (forall a b, In (Integrate a b) tr -> (a < b)%nat /\ (b <= length incs)%nat) /\
  fb_trajectory_index t0 incs tr = t0 :: incs.
Proof. exact fb_imu_exactly_once_oracle. Qed.
Print Assumptions C09_fb_imu_exactly_once_oracle.

(* ---- for every sensor the innovation rows are exactly its stamps in
        [t0, t_end), ascending, each once; stamps outside produce none ---- *)
Theorem C09_fb_meas_exactly_once : forall time_step t0 incs sensors fuel,
  0 <= time_step -> StronglySorted Qlt (t0 :: incs) -> incs <> [] ->
  (length incs <= fuel)%nat ->
  let tr := fb_run_exact fuel time_step t0 incs sensors in
  let tend := last incs t0 in
  (forall k s, nth_error sensors k = Some s ->
     StronglySorted Qlt (innov_epochs k tr) /\
     (forall x, InQ x (innov_epochs k tr) <-> InQ x s /\ t0 <= x /\ x < tend) /\
     Forall2 Qeq (innov_epochs k tr) (sort_unique (filter (in_range t0 tend) s))) /\
  (forall k, nth_error sensors k = None -> innov_epochs k tr = []).
Proof. exact fb_meas_exactly_once. Qed.
Print Assumptions C09_fb_meas_exactly_once.

Theorem C09_fb_meas_exactly_once_oracle : forall add_step t0 incs sensors fuel,
  (forall t, t <= add_step t) -> StronglySorted Qlt (t0 :: incs) -> incs <> [] ->
  (length incs <= fuel)%nat ->
  let tr := fb_run fuel add_step t0 incs sensors in
  let tend := last incs t0 in
  (forall k s, nth_error sensors k = Some s ->
     StronglySorted Qlt (innov_epochs k tr) /\
     (forall x, InQ x (innov_epochs k tr) <-> InQ x s /\ t0 <= x /\ x < tend) /\
     Forall2 Qeq (innov_epochs k tr) (sort_unique (filter (in_range t0 tend) s))) /\
  (forall k, nth_error sensors k = None -> innov_epochs k tr = []).
Proof. exact fb_meas_exactly_once_oracle. Qed.
Print Assumptions C09_fb_meas_exactly_once_oracle.

(* ---- every innovation event belongs to a stamp of its sensor in [t0, t_end)
        and is processed at the integrator time t = T[i] with T[i] <= m < T[i+1]
        (forward extrapolation by a fraction in [0, 1) of the next increment) ---- *)
Theorem C09_fb_innov_sound_oracle : forall add_step t0 incs sensors fuel,
  (forall t, t <= add_step t) -> StronglySorted Qlt (t0 :: incs) -> incs <> [] ->
  (length incs <= fuel)%nat ->
  forall k m t, In (Innov k m t) (fb_run fuel add_step t0 incs sensors) ->
  t0 <= m /\ m < last incs t0 /\
  (exists s, nth_error sensors k = Some s /\ InQ m s) /\
  exists i, (i < length incs)%nat /\ t = tmf t0 incs i /\ t <= m /\ m < tmf t0 incs (S i).
Proof. exact fb_innov_sound_oracle. Qed.
Print Assumptions C09_fb_innov_sound_oracle.

(* ---- the sd / estimate tables: strictly increasing subset of the trajectory
        times, starting at t0 ---- *)
Theorem C09_fb_records_increasing : forall time_step t0 incs sensors fuel,
  0 <= time_step -> StronglySorted Qlt (t0 :: incs) -> incs <> [] ->
  (length incs <= fuel)%nat ->
  let tr := fb_run_exact fuel time_step t0 incs sensors in
  StronglySorted Qlt (record_times tr) /\
  (forall t, In t (record_times tr) -> In t (t0 :: incs) /\ t < last incs t0) /\
  exists r, record_times tr = t0 :: r.
Proof. exact fb_records_increasing. Qed.
Print Assumptions C09_fb_records_increasing.

Theorem C09_fb_records_increasing_oracle : forall add_step t0 incs sensors fuel,
  (forall t, t <= add_step t) -> StronglySorted Qlt (t0 :: incs) -> incs <> [] ->
  (length incs <= fuel)%nat ->
  let tr := fb_run fuel add_step t0 incs sensors in
  StronglySorted Qlt (record_times tr) /\
  (forall t, In t (record_times tr) -> In t (t0 :: incs) /\ t < last incs t0) /\
  exists r, record_times tr = t0 :: r.
Proof. exact fb_records_increasing_oracle. Qed.
Print Assumptions C09_fb_records_increasing_oracle.

(* ---- no stamp in [t0, t_end) (in particular measurements=None): no correction ---- *)
Theorem C09_fb_no_meas_single_pass : forall time_step t0 incs sensors fuel,
  0 <= time_step -> StronglySorted Qlt (t0 :: incs) -> incs <> [] ->
  (length incs <= fuel)%nat ->
  (forall s x, In s sensors -> In x s -> ~ (t0 <= x /\ x < last incs t0)) ->
  forall k m t, ~ In (Innov k m t) (fb_run_exact fuel time_step t0 incs sensors).
Proof. exact fb_no_meas_single_pass. Qed.
Print Assumptions C09_fb_no_meas_single_pass.

Theorem C09_fb_no_meas_single_pass_oracle : forall add_step t0 incs sensors fuel,
  (forall t, t <= add_step t) -> StronglySorted Qlt (t0 :: incs) -> incs <> [] ->
  (length incs <= fuel)%nat ->
  (forall s x, In s sensors -> In x s -> ~ (t0 <= x /\ x < last incs t0)) ->
  forall k m t, ~ In (Innov k m t) (fb_run fuel add_step t0 incs sensors).
Proof. exact fb_no_meas_single_pass_oracle. Qed.
Print Assumptions C09_fb_no_meas_single_pass_oracle.

(* ---- the repaired guards are necessary: the loop before the fix is refuted ---- *)
Theorem C09_fb_pinned_refuted_cluster : exists t0 incs sensors step,
  StronglySorted Qlt (t0 :: incs) /\ 0 < step /\
  let tr := fb_run_pinned 10 step t0 incs sensors in
  completed tr = true /\ In (Integrate 1 0) tr /\
  integrated tr = [0; 0; 1; 2]%nat.
Proof. exact fb_pinned_refuted_cluster. Qed.
Print Assumptions C09_fb_pinned_refuted_cluster.

Theorem C09_fb_pinned_refuted_last_interval : exists t0 incs sensors step,
  StronglySorted Qlt (t0 :: incs) /\ 0 < step /\
  let tr := fb_run_pinned 10 step t0 incs sensors in
  completed tr = true /\ innov_epochs 0 tr = [149#128] /\ innov_epochs 1 tr = [].
Proof. exact fb_pinned_refuted_last_interval. Qed.
Print Assumptions C09_fb_pinned_refuted_last_interval.

(* ---- non-vacuity ------------------------------------------------------------
   IMU at 1/10 s from t0 = 1 to 3/2; three sensors stamped 1.01, 1.02, 1.03 inside
   the first interval; two epochs (1.43, 1.47) inside the last interval; a stamp
   shared by two sensors (1.2, on an IMU epoch); stamps before the start, exactly
   at the start, exactly at the end and after the end. *)
Definition ex_t0 : Q := 1.
Definition ex_incs : list Q := [11#10; 12#10; 13#10; 14#10; 15#10].
Definition ex_sensors : list (list Q) :=
  [ [99#100; 101#100; 12#10; 143#100; 15#10];
    [1; 102#100; 12#10; 147#100; 2];
    [103#100] ].
Definition ex_step : Q := 1#10.

Example C09_ex_hypotheses :
  0 <= ex_step /\ StronglySorted Qlt (ex_t0 :: ex_incs) /\ ex_incs <> [] /\
  (length ex_incs <= 5)%nat.
Proof.
  split; [discriminate|]. split; [repeat constructor|]. split; [discriminate|].
  vm_compute. repeat constructor.
Qed.

Example C09_ex_trace :
  let tr := fb_run_exact 5 ex_step ex_t0 ex_incs ex_sensors in
  completed tr = true /\
  integrated tr = [0; 1; 2; 3; 4]%nat /\
  fb_trajectory_index ex_t0 ex_incs tr = ex_t0 :: ex_incs /\
  innov_epochs 0 tr = [101#100; 12#10; 143#100] /\
  innov_epochs 1 tr = [1; 102#100; 12#10; 147#100] /\
  innov_epochs 2 tr = [103#100] /\
  record_times tr = [1; 11#10; 12#10; 13#10; 14#10].
Proof. vm_compute. repeat split. Qed.

(* irregular sampling with a gap, a large step (one batch per measurement epoch)
   and the default of no measurements *)
Example C09_ex_gap_no_measurements :
  let incs := [1#8; 3#16; 1#4; 2; 33#16] in
  StronglySorted Qlt (0 :: incs) /\
  fb_run_exact 5 10 0 incs [] =
    [Record 0; Integrate 0 5] /\
  fb_run_exact 5 (1#64) 0 incs [[1]] =
    [Record 0; Integrate 0 1; Record (1#8); Integrate 1 2; Record (3#16); Integrate 2 3;
     Innov 0 1 (1#4); Record (1#4); Integrate 3 4; Record 2; Integrate 4 5].
Proof. split; [repeat constructor|]. vm_compute. repeat split. Qed.
