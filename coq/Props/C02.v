(** C02 — Integrator result is independent of call history (chunks, predict, restart);
    plus the history part of C13 (generic 2D invariant).

    All statements quantify over arbitrary row types, an arbitrary kernel step
    [kstep], arbitrary [to_pub]/[of_pub]/[zero_vd]/[inc_time], arbitrary contents
    [g] of unwritten buffer cells, any initial capacity >= 1, both altitude
    modes [b] and every finite history [ops].  The model is Model/Integrator.v. *)
From Coq Require Import List Arith Bool ZArith Lia.
From PV Require Import Model.Integrator Proofs.IntegratorProofs.
Import ListNotations.

(** (a) No history ever reads or writes outside the buffers (the model returns
    [None] on any out-of-bounds access); every reachable state has a non-empty
    trajectory, a valid buffer prefix, and [length traj <= capacity]. *)
Theorem C02_writes_in_bounds :
  forall (brow prow inc time : Type) (kstep : bool -> brow -> inc -> brow)
         (to_pub : brow -> prow) (of_pub : prow -> brow) (zero_vd : prow -> prow)
         (inc_time : inc -> time) (g : brow)
         (b : bool) (cap : nat) (t0 : time) (p : prow) (ops : list (op prow inc)),
    1 <= cap ->
    exists s os,
      run_init kstep to_pub of_pub zero_vd inc_time g b cap t0 p ops = Some (s, os) /\
      Inv to_pub of_pub s /\
      1 <= length (traj s) <= length (buf s) /\ length os = length ops.
Proof. exact writes_in_bounds_gen. Qed.
Print Assumptions C02_writes_in_bounds.

(** ... and the invariant is inductive: any operation from any state satisfying it succeeds. *)
Theorem C02_step_total :
  forall (brow prow inc time : Type) (kstep : bool -> brow -> inc -> brow)
         (to_pub : brow -> prow) (of_pub : prow -> brow) (zero_vd : prow -> prow)
         (inc_time : inc -> time) (g : brow) (s : state brow prow time) (o : op prow inc),
    Inv to_pub of_pub s ->
    exists s' ob,
      step kstep to_pub of_pub zero_vd inc_time g s o = Some (s', ob) /\
      Inv to_pub of_pub s' /\ with_alt s' = with_alt s.
Proof. exact step_Inv. Qed.
Print Assumptions C02_step_total.

(** (b) Any history without [SetPva] — any split into chunks (empty ones
    included), any interleaving of [Predict]/[GetPva]/[GetTime], any capacities
    and garbage — ends with the trajectory of the single call
    [Integrate (all increments)], which is the closed form
    start row :: zip times (map to_pub (scanl kstep (of_pub start) incs)). *)
Theorem C02_integrate_chunks :
  forall (brow prow inc time : Type) (kstep : bool -> brow -> inc -> brow)
         (to_pub : brow -> prow) (of_pub : prow -> brow) (zero_vd : prow -> prow)
         (inc_time : inc -> time) (g g' : brow)
         (b : bool) (cap cap' : nat) (t0 : time) (p : prow) (ops : list (op prow inc)),
    1 <= cap -> 1 <= cap' -> existsb is_setpva ops = false ->
    exists s os s1 os1,
      run_init kstep to_pub of_pub zero_vd inc_time g b cap t0 p ops = Some (s, os) /\
      run_init kstep to_pub of_pub zero_vd inc_time g' b cap' t0 p [Integrate (all_incs ops)]
        = Some (s1, os1) /\
      traj s = traj s1 /\
      traj s = (t0, supplied zero_vd b p)
               :: combine (map inc_time (all_incs ops))
                          (map to_pub (scanl (kstep b) (of_pub (supplied zero_vd b p))
                                             (all_incs ops))).
Proof. exact integrate_chunks_gen. Qed.
Print Assumptions C02_integrate_chunks.

(** (b, general) With [SetPva]: the part of the trajectory from the most recent
    supply on depends only on the supplied pva and the increments integrated since. *)
Theorem C02_since_last_supply :
  forall (brow prow inc time : Type) (kstep : bool -> brow -> inc -> brow)
         (to_pub : brow -> prow) (of_pub : prow -> brow) (zero_vd : prow -> prow)
         (inc_time : inc -> time) (g : brow)
         (b : bool) (cap : nat) (t0 : time) (p : prow) (ops : list (op prow inc)),
    1 <= cap ->
    exists s os pre t,
      run_init kstep to_pub of_pub zero_vd inc_time g b cap t0 p ops = Some (s, os) /\
      traj s = pre ++ (t, supplied zero_vd b (latest_pva p ops))
                   :: combine (map inc_time (incs_since [] ops))
                        (map to_pub (scanl (kstep b)
                                       (of_pub (supplied zero_vd b (latest_pva p ops)))
                                       (incs_since [] ops))).
Proof. exact since_last_supply_gen. Qed.
Print Assumptions C02_since_last_supply.

(** (f) The time index is the start time followed by the time of every
    integrated increment exactly once, in order (for every history). *)
Theorem C02_times_exactly_once :
  forall (brow prow inc time : Type) (kstep : bool -> brow -> inc -> brow)
         (to_pub : brow -> prow) (of_pub : prow -> brow) (zero_vd : prow -> prow)
         (inc_time : inc -> time) (g : brow)
         (b : bool) (cap : nat) (t0 : time) (p : prow) (ops : list (op prow inc)),
    1 <= cap ->
    exists s os,
      run_init kstep to_pub of_pub zero_vd inc_time g b cap t0 p ops = Some (s, os) /\
      map fst (traj s) = t0 :: map inc_time (all_incs ops).
Proof. exact times_exactly_once_gen. Qed.
Print Assumptions C02_times_exactly_once.

(** (c) In every reachable state [predict i] returns exactly the row that
    [integrate [i]] appends — whether issued instead of or after the predict —
    and leaves the trajectory unchanged. *)
Theorem C02_predict_is_next_row :
  forall (brow prow inc time : Type) (kstep : bool -> brow -> inc -> brow)
         (to_pub : brow -> prow) (of_pub : prow -> brow) (zero_vd : prow -> prow)
         (inc_time : inc -> time) (g : brow)
         (b : bool) (cap : nat) (t0 : time) (p : prow) (ops : list (op prow inc)) (i : inc),
    1 <= cap ->
    exists s os s1 r s2 fr s3,
      run_init kstep to_pub of_pub zero_vd inc_time g b cap t0 p ops = Some (s, os) /\
      step kstep to_pub of_pub zero_vd inc_time g s (Predict i) = Some (s1, ORow r) /\
      fst r = inc_time i /\ traj s1 = traj s /\
      step kstep to_pub of_pub zero_vd inc_time g s (Integrate [i]) = Some (s2, fr) /\
      traj s2 = traj s ++ [r] /\
      step kstep to_pub of_pub zero_vd inc_time g s1 (Integrate [i]) = Some (s3, fr) /\
      traj s3 = traj s ++ [r].
Proof. exact predict_is_next_row_reach. Qed.
Print Assumptions C02_predict_is_next_row.

(** (c) Deleting every [Predict] from a history (and changing capacity and
    garbage at will) changes neither the trajectory, nor the valid buffer
    prefix, nor the result of any remaining operation. *)
Theorem C02_predict_unobservable :
  forall (brow prow inc time : Type) (kstep : bool -> brow -> inc -> brow)
         (to_pub : brow -> prow) (of_pub : prow -> brow) (zero_vd : prow -> prow)
         (inc_time : inc -> time) (g g' : brow)
         (b : bool) (cap cap' : nat) (t0 : time) (p : prow) (ops : list (op prow inc))
         (s : state brow prow time) (os : list (obs prow time)),
    1 <= cap' ->
    run_init kstep to_pub of_pub zero_vd inc_time g b cap t0 p ops = Some (s, os) ->
    exists s2,
      run_init kstep to_pub of_pub zero_vd inc_time g' b cap' t0 p
               (filter (fun o => negb (is_predict o)) ops)
      = Some (s2, obs_without_predict ops os) /\
      traj s2 = traj s /\ equiv s s2.
Proof. exact predict_unobservable_init. Qed.
Print Assumptions C02_predict_unobservable.

(** (c) [step] respects the equivalence that ignores cells beyond the valid
    prefix, the capacity and the garbage value: same result, equivalent states. *)
Theorem C02_step_respects_equiv :
  forall (brow prow inc time : Type) (kstep : bool -> brow -> inc -> brow)
         (to_pub : brow -> prow) (of_pub : prow -> brow) (zero_vd : prow -> prow)
         (inc_time : inc -> time) (g1 g2 : brow)
         (s1 s2 : state brow prow time) (o : op prow inc),
    Inv to_pub of_pub s1 -> Inv to_pub of_pub s2 -> equiv s1 s2 ->
    exists s1' s2' ob,
      step kstep to_pub of_pub zero_vd inc_time g1 s1 o = Some (s1', ob) /\
      step kstep to_pub of_pub zero_vd inc_time g2 s2 o = Some (s2', ob) /\
      equiv s1' s2'.
Proof. exact step_equiv. Qed.
Print Assumptions C02_step_respects_equiv.

(** Initial capacity (hence every buffer-growth boundary) and garbage are unobservable. *)
Theorem C02_capacity_irrelevant :
  forall (brow prow inc time : Type) (kstep : bool -> brow -> inc -> brow)
         (to_pub : brow -> prow) (of_pub : prow -> brow) (zero_vd : prow -> prow)
         (inc_time : inc -> time) (g g' : brow)
         (b : bool) (cap cap' : nat) (t0 : time) (p : prow) (ops : list (op prow inc))
         (s : state brow prow time) (os : list (obs prow time)),
    1 <= cap' ->
    run_init kstep to_pub of_pub zero_vd inc_time g b cap t0 p ops = Some (s, os) ->
    exists s2,
      run_init kstep to_pub of_pub zero_vd inc_time g' b cap' t0 p ops = Some (s2, os) /\
      traj s2 = traj s /\ equiv s s2.
Proof. exact capacity_garbage_irrelevant_gen. Qed.
Print Assumptions C02_capacity_irrelevant.

(** (d) After [SetPva p] at time [t] the continuation — appended rows and every
    result — is that of a fresh integrator constructed from [p] at [t]
    (any capacities, any garbage). *)
Theorem C02_set_pva_restart :
  forall (brow prow inc time : Type) (kstep : bool -> brow -> inc -> brow)
         (to_pub : brow -> prow) (of_pub : prow -> brow) (zero_vd : prow -> prow)
         (inc_time : inc -> time) (g g' : brow)
         (b : bool) (cap cap' : nat) (t0 : time) (p0 : prow)
         (ops1 : list (op prow inc)) (p : prow) (ops2 : list (op prow inc)),
    1 <= cap -> 1 <= cap' ->
    exists s1 os1 s os tpre tl f osf,
      run_init kstep to_pub of_pub zero_vd inc_time g b cap t0 p0 ops1 = Some (s1, os1) /\
      traj s1 = tpre ++ [tl] /\
      run_init kstep to_pub of_pub zero_vd inc_time g b cap t0 p0 (ops1 ++ SetPva p :: ops2)
        = Some (s, os) /\
      run_init kstep to_pub of_pub zero_vd inc_time g' b cap' (fst tl) p ops2 = Some (f, osf) /\
      traj s = tpre ++ traj f /\ os = os1 ++ OUnit :: osf.
Proof. exact set_pva_restart_gen. Qed.
Print Assumptions C02_set_pva_restart.

(** (e) In every reachable state [integrate chunk] returns the previous last
    row followed by exactly the rows it appended (one per increment, stamped
    with the increment times). *)
Theorem C02_integrate_returns_tail :
  forall (brow prow inc time : Type) (kstep : bool -> brow -> inc -> brow)
         (to_pub : brow -> prow) (of_pub : prow -> brow) (zero_vd : prow -> prow)
         (inc_time : inc -> time) (g : brow)
         (b : bool) (cap : nat) (t0 : time) (p : prow) (ops : list (op prow inc))
         (c : list inc),
    1 <= cap ->
    exists s os s' tpre tl new,
      run_init kstep to_pub of_pub zero_vd inc_time g b cap t0 p ops = Some (s, os) /\
      traj s = tpre ++ [tl] /\
      step kstep to_pub of_pub zero_vd inc_time g s (Integrate c) = Some (s', OFrame (tl :: new)) /\
      traj s' = traj s ++ new /\ length new = length c /\ map fst new = map inc_time c.
Proof. exact integrate_returns_tail_reach. Qed.
Print Assumptions C02_integrate_returns_tail.

(** (g, for C13) Generic invariant of the no-altitude mode.  If one 2D kernel
    step preserves [P] and [key], and every stored supply satisfies [P], then in
    every reachable 2D state the rows since the latest supply [q], and the
    buffer row every later step starts from, satisfy [P] and carry the key of
    [of_pub (zero_vd q)]. *)
Theorem C13_inv2d_since_supply :
  forall (brow prow inc time : Type) (kstep : bool -> brow -> inc -> brow)
         (to_pub : brow -> prow) (of_pub : prow -> brow) (zero_vd : prow -> prow)
         (inc_time : inc -> time)
         (K : Type) (P : brow -> Prop) (key : brow -> K),
    (forall r i, P r -> P (kstep false r i) /\ key (kstep false r i) = key r) ->
    (forall p, P (of_pub (zero_vd p))) ->
    forall (g : brow) (cap : nat) (t0 : time) (p : prow) (ops : list (op prow inc)),
    1 <= cap ->
    exists s os pre t rs cur,
      run_init kstep to_pub of_pub zero_vd inc_time g false cap t0 p ops = Some (s, os) /\
      traj s = pre ++ (t, zero_vd (latest_pva p ops))
                   :: combine (map inc_time (incs_since [] ops)) (map to_pub rs) /\
      rs = scanl (kstep false) (of_pub (zero_vd (latest_pva p ops))) (incs_since [] ops) /\
      Forall (fun r => P r /\ key r = key (of_pub (zero_vd (latest_pva p ops)))) rs /\
      nth_error (buf s) (length (traj s) - 1) = Some cur /\
      P cur /\ key cur = key (of_pub (zero_vd (latest_pva p ops))).
Proof. exact inv2d_since_supply_gen. Qed.
Print Assumptions C13_inv2d_since_supply.

(** (g, step form) every row appended by [Integrate] and every row returned by
    [Predict] in a reachable 2D state is [to_pub] of such a row. *)
Theorem C13_inv2d_step :
  forall (brow prow inc time : Type) (kstep : bool -> brow -> inc -> brow)
         (to_pub : brow -> prow) (of_pub : prow -> brow) (zero_vd : prow -> prow)
         (inc_time : inc -> time)
         (K : Type) (P : brow -> Prop) (key : brow -> K),
    (forall r i, P r -> P (kstep false r i) /\ key (kstep false r i) = key r) ->
    (forall p, P (of_pub (zero_vd p))) ->
    forall (g : brow) (cap : nat) (t0 : time) (p : prow) (ops : list (op prow inc))
           (s : state brow prow time) (os : list (obs prow time)),
    run_init kstep to_pub of_pub zero_vd inc_time g false cap t0 p ops = Some (s, os) ->
    (forall g' c s' ob,
        step kstep to_pub of_pub zero_vd inc_time g' s (Integrate c) = Some (s', ob) ->
        exists rs, traj s' = traj s ++ combine (map inc_time c) (map to_pub rs) /\
                   length rs = length c /\
                   Forall (fun r => P r /\ key r = key (of_pub (zero_vd (latest_pva p ops)))) rs) /\
    (forall g' i s' ob,
        step kstep to_pub of_pub zero_vd inc_time g' s (Predict i) = Some (s', ob) ->
        exists r, ob = ORow (inc_time i, to_pub r) /\ traj s' = traj s /\
                  P r /\ key r = key (of_pub (zero_vd (latest_pva p ops)))).
Proof. exact inv2d_step_gen. Qed.
Print Assumptions C13_inv2d_step.

(** The provenance terms of the correspondence instance have a correct decidable equality. *)
Theorem C02_term_eqb_correct :
  (forall a b, bterm_eqb a b = true <-> a = b) /\ (forall a b, pterm_eqb a b = true <-> a = b).
Proof. exact bterm_pterm_eqb_spec. Qed.
Print Assumptions C02_term_eqb_correct.

(** * Non-vacuity: concrete histories on the free-algebra instance, capacities 1 and 2
      (so the buffers grow several times) *)

(** a history with chunks (one empty), two predicts (the next and a foreign
    increment), getters; increments are (id, time) *)
Example ex_history_runs_cap1 :
  exists s os,
    t_run_init true 1 0%Z (PGiven 0)
      [Integrate [(0, 1%Z)]; Predict (1, 2%Z); Integrate []; GetPva; Predict (9, 77%Z);
       Integrate [(1, 2%Z); (2, 3%Z)]; GetTime] = Some (s, os) /\
    length (traj s) = 4 /\ length (buf s) = 4 /\ length os = 7.
Proof. eexists _, _. vm_compute. repeat split. Qed.

(** chunked + predicts at capacity 1 = one call at capacity 2 = the closed form *)
Example ex_integrate_chunks :
  let ops := [Integrate [(0, 1%Z)]; Predict (1, 2%Z); Integrate []; GetPva; Predict (9, 77%Z);
              Integrate [(1, 2%Z); (2, 3%Z)]; GetTime] in
  existsb is_setpva ops = false /\
  all_incs ops = [(0, 1%Z); (1, 2%Z); (2, 3%Z)] /\
  option_map (fun x => traj (fst x)) (t_run_init true 1 0%Z (PGiven 0) ops) =
  option_map (fun x => traj (fst x))
             (t_run_init true 2 0%Z (PGiven 0) [Integrate (all_incs ops)]) /\
  option_map (fun x => traj (fst x)) (t_run_init true 1 0%Z (PGiven 0) ops) =
  Some [(0%Z, PGiven 0);
        (1%Z, PToPub (BStep true (BOfPub (PGiven 0)) 0));
        (2%Z, PToPub (BStep true (BStep true (BOfPub (PGiven 0)) 0) 1));
        (3%Z, PToPub (BStep true (BStep true (BStep true (BOfPub (PGiven 0)) 0) 1) 2))].
Proof. vm_compute. repeat split. Qed.

(** predict returns the row the next integrate appends; the buffer is dirtied beyond the prefix *)
Example ex_predict_is_next_row :
  exists s os s1 s2 fr,
    t_run_init false 1 0%Z (PGiven 0) [Integrate [(0, 1%Z)]] = Some (s, os) /\
    t_step s (Predict (1, 2%Z)) =
      Some (s1, ORow (2%Z, PToPub (BStep false (BStep false (BOfPub (PZeroVd (PGiven 0))) 0) 1))) /\
    t_step s (Integrate [(1, 2%Z)]) = Some (s2, fr) /\
    traj s2 = traj s ++ [(2%Z, PToPub (BStep false (BStep false (BOfPub (PZeroVd (PGiven 0))) 0) 1))] /\
    traj s1 = traj s /\ buf s1 <> buf s /\ length (buf s) = 2 /\ length (buf s1) = 4.
Proof.
  eexists _, _, _, _, _. vm_compute. repeat split. discriminate.
Qed.

(** restart: after SetPva (2D mode, capacity 2, growth on the way) the
    continuation equals a fresh integrator at capacity 1 *)
Example ex_set_pva_restart :
  exists s os f osf,
    t_run_init false 2 0%Z (PGiven 0)
      ([Integrate [(0, 1%Z); (1, 2%Z)]; Predict (2, 3%Z)] ++ SetPva (PGiven 1)
         :: [Integrate [(2, 3%Z)]; GetPva; Integrate [(3, 4%Z); (4, 5%Z)]]) = Some (s, os) /\
    t_run_init false 1 2%Z (PGiven 1)
      [Integrate [(2, 3%Z)]; GetPva; Integrate [(3, 4%Z); (4, 5%Z)]] = Some (f, osf) /\
    traj s = [(0%Z, PZeroVd (PGiven 0));
              (1%Z, PToPub (BStep false (BOfPub (PZeroVd (PGiven 0))) 0))] ++ traj f /\
    skipn 3 os = osf /\ length (traj f) = 4 /\ length (buf s) = 8 /\ length (buf f) = 4.
Proof. eexists _, _, _, _. vm_compute. repeat split. Qed.

(** times: start time, then each increment time once *)
Example ex_times :
  option_map (fun x => map fst (traj (fst x)))
    (t_run_init true 1 0%Z (PGiven 0)
       [Integrate [(0, 1%Z)]; SetPva (PGiven 1); Integrate []; Integrate [(1, 2%Z); (2, 3%Z)]])
  = Some [0%Z; 1%Z; 2%Z; 3%Z].
Proof. vm_compute. reflexivity. Qed.

(** the error value is reachable in the model, so totality is a real statement:
    capacity 0 fails in the constructor, and a state violating the invariant
    (trajectory longer than the buffer allows) makes the kernel write out of bounds *)
Example ex_error_reachable :
  t_run_init true 0 0%Z (PGiven 0) [] = None /\
  t_step (mkState true [] [BGarbage]) GetPva = None /\
  t_step (mkState true [] [BGarbage]) (Integrate [(0, 1%Z)]) = None /\
  kernel t_kstep true [BGarbage; BGarbage] 1 [(0, 1%Z)] = None /\
  kernel t_kstep true [BGarbage; BGarbage] 0 [(0, 1%Z)] =
    Some [BGarbage; BStep true BGarbage 0].
Proof. vm_compute. repeat split. Qed.

(** states that differ beyond the valid prefix, in capacity and in garbage are equivalent
    but not equal *)
Example ex_equiv_nontrivial :
  exists s1 os1 s2 os2,
    t_run_init true 1 0%Z (PGiven 0) [Predict (5, 9%Z); Integrate [(0, 1%Z)]; Predict (6, 9%Z)]
      = Some (s1, os1) /\
    t_run_init true 5 0%Z (PGiven 0) [Integrate [(0, 1%Z)]] = Some (s2, os2) /\
    equiv s1 s2 /\ s1 <> s2 /\ Inv PToPub BOfPub s1 /\ Inv PToPub BOfPub s2.
Proof.
  eexists _, _, _, _. split; [vm_compute; reflexivity|]. split; [vm_compute; reflexivity|].
  split; [repeat split|]. split; [discriminate|].
  split; (split; [cbn; lia|]); unfold valid_prefix; cbn;
    repeat constructor; (left; reflexivity) || (right; reflexivity).
Qed.

(** the hypotheses of the 2D invariant are satisfiable by a non-trivial numeric
    instance (rows = (altitude, VD); P := VD = 0; key := altitude), and the
    conclusion is visible on a concrete history with a non-zero supplied VD *)
Example ex_inv2d_hypotheses :
  (forall (r : toy_row) (i : Z),
      snd r = 0%Z -> snd (toy_kstep false r i) = 0%Z /\ fst (toy_kstep false r i) = fst r) /\
  (forall p : toy_row, snd (toy_zero_vd p) = 0%Z) /\
  option_map (fun x => traj (fst x))
    (toy_run_init false 1 0%Z (100, 5)%Z
       [Integrate [2%Z; 3%Z]; SetPva (777, 5)%Z; Predict 9%Z; Integrate [4%Z]]) =
  Some [(0, (100, 0)); (2, (100, 0)); (3, (777, 0)); (4, (777, 0))]%Z /\
  (* with altitude the same history moves *)
  option_map (fun x => traj (fst x))
    (toy_run_init true 1 0%Z (100, 5)%Z
       [Integrate [2%Z; 3%Z]; SetPva (777, 5)%Z; Predict 9%Z; Integrate [4%Z]]) =
  Some [(0, (100, 5)); (2, (90, 7)); (3, (777, 5)); (4, (757, 9))]%Z.
Proof.
  split; [|split; [|split]].
  - intros [a v] i H. cbn in *. subst v. split; [reflexivity|lia].
  - intros p. reflexivity.
  - vm_compute. reflexivity.
  - vm_compute. reflexivity.
Qed.
