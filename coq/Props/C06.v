(** C06 -- measurement models: residual sign/units, H = -d z / d x under correct_pva, R = sd^2 I.
    Statements are about the definitions GENERATED from /repo (Gen/ErrState.v): the z / H / R entries of
    Position, NedVelocity, BodyVelocity .compute_matrices in both altitude modes, lever arm None / given,
    body rates present / absent (Zc_*, Hm_*, Rm_* are index bookkeeping over generated entries). *)
From Coq Require Import Reals Lra Lia.
From Coquelicot Require Import Coquelicot.
From PV Require Import Base.RealTac Spec.LibSpecs Gen.Util Gen.Transform Gen.ErrState.
From PV Require Import Proofs.ErrStateProofs.
Open Scope R_scope.

(** d/de|0 z(correct_pva(pva, e x)) = - H x for pos3d at measured = predicted position *)
Theorem C06_H_is_jacobian_pos3d :
  forall lat lon alt VN VE VD roll pitch heading x0 x1 x2 x3 x4 x5 x6 x7 x8 sd : R,
       -90 < lat < 90 ->
       -1000000 <= alt ->
       -180 < roll < 180 ->
       -90 < pitch < 90 ->
       -180 < heading < 180 ->
       forall k : nat,
       (k < 3)%nat ->
       is_derive
         (Zc_pos3d lat lon alt VN VE VD roll pitch heading lat lon alt sd x0 x1 x2 x3 x4 x5 x6 x7 x8 k) 0
         (-
          mvec 9 (Hm_pos3d lat lon alt VN VE VD roll pitch heading lat lon alt sd)
            (vec9 x0 x1 x2 x3 x4 x5 x6 x7 x8) k).
Proof. exact H_is_jacobian_pos3d. Qed.
Print Assumptions C06_H_is_jacobian_pos3d.

(** d/de|0 z(correct_pva(pva, e x)) = - H x for pos3d_l at measured = predicted position *)
Theorem C06_H_is_jacobian_pos3d_l :
  forall lat lon alt VN VE VD roll pitch heading x0 x1 x2 x3 x4 x5 x6 x7 x8 l0 l1 l2 sd : R,
       -90 < lat < 90 ->
       -1000000 <= alt ->
       -180 < roll < 180 ->
       -90 < pitch < 90 ->
       -180 < heading < 180 ->
       forall k : nat,
       (k < 3)%nat ->
       is_derive
         (Zc_pos3d_l lat lon alt VN VE VD roll pitch heading lat lon alt l0 l1 l2 sd x0 x1 x2 x3 x4 x5 x6 x7
            x8 k) 0
         (-
          mvec 9 (Hm_pos3d_l lat lon alt VN VE VD roll pitch heading lat lon alt l0 l1 l2 sd)
            (vec9 x0 x1 x2 x3 x4 x5 x6 x7 x8) k).
Proof. exact H_is_jacobian_pos3d_l. Qed.
Print Assumptions C06_H_is_jacobian_pos3d_l.

(** d/de|0 z(correct_pva(pva, e x)) = - H x for ned3d (every measured value) *)
Theorem C06_H_is_jacobian_ned3d :
  forall lat lon alt VN VE VD roll pitch heading x0 x1 x2 x3 x4 x5 x6 x7 x8 sd mVN mVE mVD : R,
       -180 < roll < 180 ->
       -90 < pitch < 90 ->
       -180 < heading < 180 ->
       forall k : nat,
       (k < 3)%nat ->
       is_derive
         (Zc_ned3d lat lon alt VN VE VD roll pitch heading mVN mVE mVD sd x0 x1 x2 x3 x4 x5 x6 x7 x8 k) 0
         (-
          mvec 9 (Hm_ned3d lat lon alt VN VE VD roll pitch heading mVN mVE mVD sd)
            (vec9 x0 x1 x2 x3 x4 x5 x6 x7 x8) k).
Proof. exact H_is_jacobian_ned3d. Qed.
Print Assumptions C06_H_is_jacobian_ned3d.

(** d/de|0 z(correct_pva(pva, e x)) = - H x for ned3d_rate (every measured value) *)
Theorem C06_H_is_jacobian_ned3d_rate :
  forall
         lat lon alt VN VE VD roll pitch heading x0 x1 x2 x3 x4 x5 x6 x7 x8 rate_x rate_y rate_z sd mVN mVE
          mVD : R,
       -180 < roll < 180 ->
       -90 < pitch < 90 ->
       -180 < heading < 180 ->
       forall k : nat,
       (k < 3)%nat ->
       is_derive
         (Zc_ned3d_rate lat lon alt VN VE VD roll pitch heading rate_x rate_y rate_z mVN mVE mVD sd x0 x1 x2
            x3 x4 x5 x6 x7 x8 k) 0
         (-
          mvec 9 (Hm_ned3d_rate lat lon alt VN VE VD roll pitch heading rate_x rate_y rate_z mVN mVE mVD sd)
            (vec9 x0 x1 x2 x3 x4 x5 x6 x7 x8) k).
Proof. exact H_is_jacobian_ned3d_rate. Qed.
Print Assumptions C06_H_is_jacobian_ned3d_rate.

(** d/de|0 z(correct_pva(pva, e x)) = - H x for ned3d_l (every measured value) *)
Theorem C06_H_is_jacobian_ned3d_l :
  forall
         lat lon alt VN VE VD roll pitch heading x0 x1 x2 x3 x4 x5 x6 x7 x8 rate_x rate_y rate_z l0 l1 l2 sd
          mVN mVE mVD : R,
       -180 < roll < 180 ->
       -90 < pitch < 90 ->
       -180 < heading < 180 ->
       forall k : nat,
       (k < 3)%nat ->
       is_derive
         (Zc_ned3d_l lat lon alt VN VE VD roll pitch heading rate_x rate_y rate_z mVN mVE mVD l0 l1 l2 sd x0
            x1 x2 x3 x4 x5 x6 x7 x8 k) 0
         (-
          mvec 9
            (Hm_ned3d_l lat lon alt VN VE VD roll pitch heading rate_x rate_y rate_z mVN mVE mVD l0 l1 l2 sd)
            (vec9 x0 x1 x2 x3 x4 x5 x6 x7 x8) k).
Proof. exact H_is_jacobian_ned3d_l. Qed.
Print Assumptions C06_H_is_jacobian_ned3d_l.

(** d/de|0 z(correct_pva(pva, e x)) = - H x for ned3d_l_norate (every measured value) *)
Theorem C06_H_is_jacobian_ned3d_l_norate :
  forall lat lon alt VN VE VD roll pitch heading x0 x1 x2 x3 x4 x5 x6 x7 x8 l0 l1 l2 sd mVN mVE mVD : R,
       -180 < roll < 180 ->
       -90 < pitch < 90 ->
       -180 < heading < 180 ->
       forall k : nat,
       (k < 3)%nat ->
       is_derive
         (Zc_ned3d_l_norate lat lon alt VN VE VD roll pitch heading mVN mVE mVD l0 l1 l2 sd x0 x1 x2 x3 x4 x5
            x6 x7 x8 k) 0
         (-
          mvec 9 (Hm_ned3d_l_norate lat lon alt VN VE VD roll pitch heading mVN mVE mVD l0 l1 l2 sd)
            (vec9 x0 x1 x2 x3 x4 x5 x6 x7 x8) k).
Proof. exact H_is_jacobian_ned3d_l_norate. Qed.
Print Assumptions C06_H_is_jacobian_ned3d_l_norate.

(** d/de|0 z(correct_pva(pva, e x)) = - H x for body3d (every measured value) *)
Theorem C06_H_is_jacobian_body3d :
  forall lat lon alt VN VE VD roll pitch heading x0 x1 x2 x3 x4 x5 x6 x7 x8 sd mVX mVY mVZ : R,
       -180 < roll < 180 ->
       -90 < pitch < 90 ->
       -180 < heading < 180 ->
       forall k : nat,
       (k < 3)%nat ->
       is_derive
         (Zc_body3d lat lon alt VN VE VD roll pitch heading mVX mVY mVZ sd x0 x1 x2 x3 x4 x5 x6 x7 x8 k) 0
         (-
          mvec 9 (Hm_body3d lat lon alt VN VE VD roll pitch heading mVX mVY mVZ sd)
            (vec9 x0 x1 x2 x3 x4 x5 x6 x7 x8) k).
Proof. exact H_is_jacobian_body3d. Qed.
Print Assumptions C06_H_is_jacobian_body3d.

(** d/de|0 z(correct_pva(pva, e x)) = - H x for body3d_rate (every measured value) *)
Theorem C06_H_is_jacobian_body3d_rate :
  forall
         lat lon alt VN VE VD roll pitch heading x0 x1 x2 x3 x4 x5 x6 x7 x8 rate_x rate_y rate_z sd mVX mVY
          mVZ : R,
       -180 < roll < 180 ->
       -90 < pitch < 90 ->
       -180 < heading < 180 ->
       forall k : nat,
       (k < 3)%nat ->
       is_derive
         (Zc_body3d_rate lat lon alt VN VE VD roll pitch heading rate_x rate_y rate_z mVX mVY mVZ sd x0 x1 x2
            x3 x4 x5 x6 x7 x8 k) 0
         (-
          mvec 9 (Hm_body3d_rate lat lon alt VN VE VD roll pitch heading rate_x rate_y rate_z mVX mVY mVZ sd)
            (vec9 x0 x1 x2 x3 x4 x5 x6 x7 x8) k).
Proof. exact H_is_jacobian_body3d_rate. Qed.
Print Assumptions C06_H_is_jacobian_body3d_rate.

(** d/de|0 z(correct_pva(pva, e x)) = - H x for pos2d at measured = predicted position *)
Theorem C06_H_is_jacobian_pos2d :
  forall lat lon alt VN VE VD roll pitch heading x0 x1 x2 x3 x4 x5 x6 sd : R,
       -90 < lat < 90 ->
       -1000000 <= alt ->
       -180 < roll < 180 ->
       -90 < pitch < 90 ->
       -180 < heading < 180 ->
       forall k : nat,
       (k < 2)%nat ->
       is_derive (Zc_pos2d lat lon alt VN VE VD roll pitch heading lat lon alt sd x0 x1 x2 x3 x4 x5 x6 k) 0
         (-
          mvec 7 (Hm_pos2d lat lon alt VN VE VD roll pitch heading lat lon alt sd)
            (vec7 x0 x1 x2 x3 x4 x5 x6) k).
Proof. exact H_is_jacobian_pos2d. Qed.
Print Assumptions C06_H_is_jacobian_pos2d.

(** d/de|0 z(correct_pva(pva, e x)) = - H x for pos2d_l at measured = predicted position *)
Theorem C06_H_is_jacobian_pos2d_l :
  forall lat lon alt VN VE VD roll pitch heading x0 x1 x2 x3 x4 x5 x6 l0 l1 l2 sd : R,
       -90 < lat < 90 ->
       -1000000 <= alt ->
       -180 < roll < 180 ->
       -90 < pitch < 90 ->
       -180 < heading < 180 ->
       forall k : nat,
       (k < 2)%nat ->
       is_derive
         (Zc_pos2d_l lat lon alt VN VE VD roll pitch heading lat lon alt l0 l1 l2 sd x0 x1 x2 x3 x4 x5 x6 k)
         0
         (-
          mvec 7 (Hm_pos2d_l lat lon alt VN VE VD roll pitch heading lat lon alt l0 l1 l2 sd)
            (vec7 x0 x1 x2 x3 x4 x5 x6) k).
Proof. exact H_is_jacobian_pos2d_l. Qed.
Print Assumptions C06_H_is_jacobian_pos2d_l.

(** d/de|0 z(correct_pva(pva, e x)) = - H x for ned2d (every measured value) *)
Theorem C06_H_is_jacobian_ned2d :
  forall lat lon alt VN VE VD roll pitch heading x0 x1 x2 x3 x4 x5 x6 sd mVN mVE mVD : R,
       -180 < roll < 180 ->
       -90 < pitch < 90 ->
       -180 < heading < 180 ->
       forall k : nat,
       (k < 2)%nat ->
       is_derive (Zc_ned2d lat lon alt VN VE VD roll pitch heading mVN mVE mVD sd x0 x1 x2 x3 x4 x5 x6 k) 0
         (-
          mvec 7 (Hm_ned2d lat lon alt VN VE VD roll pitch heading mVN mVE mVD sd)
            (vec7 x0 x1 x2 x3 x4 x5 x6) k).
Proof. exact H_is_jacobian_ned2d. Qed.
Print Assumptions C06_H_is_jacobian_ned2d.

(** d/de|0 z(correct_pva(pva, e x)) = - H x for ned2d_rate (every measured value) *)
Theorem C06_H_is_jacobian_ned2d_rate :
  forall
         lat lon alt VN VE VD roll pitch heading x0 x1 x2 x3 x4 x5 x6 rate_x rate_y rate_z sd mVN mVE mVD : R,
       -180 < roll < 180 ->
       -90 < pitch < 90 ->
       -180 < heading < 180 ->
       forall k : nat,
       (k < 2)%nat ->
       is_derive
         (Zc_ned2d_rate lat lon alt VN VE VD roll pitch heading rate_x rate_y rate_z mVN mVE mVD sd x0 x1 x2
            x3 x4 x5 x6 k) 0
         (-
          mvec 7 (Hm_ned2d_rate lat lon alt VN VE VD roll pitch heading rate_x rate_y rate_z mVN mVE mVD sd)
            (vec7 x0 x1 x2 x3 x4 x5 x6) k).
Proof. exact H_is_jacobian_ned2d_rate. Qed.
Print Assumptions C06_H_is_jacobian_ned2d_rate.

(** d/de|0 z(correct_pva(pva, e x)) = - H x for ned2d_l (every measured value) *)
Theorem C06_H_is_jacobian_ned2d_l :
  forall
         lat lon alt VN VE VD roll pitch heading x0 x1 x2 x3 x4 x5 x6 rate_x rate_y rate_z l0 l1 l2 sd mVN
          mVE mVD : R,
       -180 < roll < 180 ->
       -90 < pitch < 90 ->
       -180 < heading < 180 ->
       forall k : nat,
       (k < 2)%nat ->
       is_derive
         (Zc_ned2d_l lat lon alt VN VE VD roll pitch heading rate_x rate_y rate_z mVN mVE mVD l0 l1 l2 sd x0
            x1 x2 x3 x4 x5 x6 k) 0
         (-
          mvec 7
            (Hm_ned2d_l lat lon alt VN VE VD roll pitch heading rate_x rate_y rate_z mVN mVE mVD l0 l1 l2 sd)
            (vec7 x0 x1 x2 x3 x4 x5 x6) k).
Proof. exact H_is_jacobian_ned2d_l. Qed.
Print Assumptions C06_H_is_jacobian_ned2d_l.

(** d/de|0 z(correct_pva(pva, e x)) = - H x for ned2d_l_norate (every measured value) *)
Theorem C06_H_is_jacobian_ned2d_l_norate :
  forall lat lon alt VN VE VD roll pitch heading x0 x1 x2 x3 x4 x5 x6 l0 l1 l2 sd mVN mVE mVD : R,
       -180 < roll < 180 ->
       -90 < pitch < 90 ->
       -180 < heading < 180 ->
       forall k : nat,
       (k < 2)%nat ->
       is_derive
         (Zc_ned2d_l_norate lat lon alt VN VE VD roll pitch heading mVN mVE mVD l0 l1 l2 sd x0 x1 x2 x3 x4 x5
            x6 k) 0
         (-
          mvec 7 (Hm_ned2d_l_norate lat lon alt VN VE VD roll pitch heading mVN mVE mVD l0 l1 l2 sd)
            (vec7 x0 x1 x2 x3 x4 x5 x6) k).
Proof. exact H_is_jacobian_ned2d_l_norate. Qed.
Print Assumptions C06_H_is_jacobian_ned2d_l_norate.

(** d/de|0 z(correct_pva(pva, e x)) = - H x for body2d (every measured value) *)
Theorem C06_H_is_jacobian_body2d :
  forall lat lon alt VN VE VD roll pitch heading x0 x1 x2 x3 x4 x5 x6 sd mVX mVY mVZ : R,
       -180 < roll < 180 ->
       -90 < pitch < 90 ->
       -180 < heading < 180 ->
       forall k : nat,
       (k < 3)%nat ->
       is_derive (Zc_body2d lat lon alt VN VE VD roll pitch heading mVX mVY mVZ sd x0 x1 x2 x3 x4 x5 x6 k) 0
         (-
          mvec 7 (Hm_body2d lat lon alt VN VE VD roll pitch heading mVX mVY mVZ sd)
            (vec7 x0 x1 x2 x3 x4 x5 x6) k).
Proof. exact H_is_jacobian_body2d. Qed.
Print Assumptions C06_H_is_jacobian_body2d.

(** d/de|0 z(correct_pva(pva, e x)) = - H x for body2d_rate (every measured value) *)
Theorem C06_H_is_jacobian_body2d_rate :
  forall
         lat lon alt VN VE VD roll pitch heading x0 x1 x2 x3 x4 x5 x6 rate_x rate_y rate_z sd mVX mVY mVZ : R,
       -180 < roll < 180 ->
       -90 < pitch < 90 ->
       -180 < heading < 180 ->
       forall k : nat,
       (k < 3)%nat ->
       is_derive
         (Zc_body2d_rate lat lon alt VN VE VD roll pitch heading rate_x rate_y rate_z mVX mVY mVZ sd x0 x1 x2
            x3 x4 x5 x6 k) 0
         (-
          mvec 7 (Hm_body2d_rate lat lon alt VN VE VD roll pitch heading rate_x rate_y rate_z mVX mVY mVZ sd)
            (vec7 x0 x1 x2 x3 x4 x5 x6) k).
Proof. exact H_is_jacobian_body2d_rate. Qed.
Print Assumptions C06_H_is_jacobian_body2d_rate.

(** z = predicted - measured in the documented units (pos3d) *)
Theorem C06_residual_form_pos3d :
  forall (lat lon alt VN VE VD roll pitch heading mlat mlon malt sd : R) (k : nat),
       (k < 3)%nat ->
       match k with
       | 0%nat => pos3d_z0 lat lon alt VN VE VD roll pitch heading mlat mlon malt sd
       | 1%nat => pos3d_z1 lat lon alt VN VE VD roll pitch heading mlat mlon malt sd
       | 2%nat => pos3d_z2 lat lon alt VN VE VD roll pitch heading mlat mlon malt sd
       | S (S (S _)) => 0
       end = lla_diff lat lon alt mlat mlon malt k.
Proof. exact residual_form_pos3d. Qed.
Print Assumptions C06_residual_form_pos3d.

(** z = predicted - measured in the documented units (pos3d_l) *)
Theorem C06_residual_form_pos3d_l :
  forall (lat lon alt VN VE VD roll pitch heading mlat mlon malt l0 l1 l2 sd : R) (k : nat),
       (k < 3)%nat ->
       match k with
       | 0%nat => pos3d_l_z0 lat lon alt VN VE VD roll pitch heading mlat mlon malt l0 l1 l2 sd
       | 1%nat => pos3d_l_z1 lat lon alt VN VE VD roll pitch heading mlat mlon malt l0 l1 l2 sd
       | 2%nat => pos3d_l_z2 lat lon alt VN VE VD roll pitch heading mlat mlon malt l0 l1 l2 sd
       | S (S (S _)) => 0
       end = lla_diff lat lon alt mlat mlon malt k + mvec 3 (Cnb roll pitch heading) (vec3 l0 l1 l2) k.
Proof. exact residual_form_pos3d_l. Qed.
Print Assumptions C06_residual_form_pos3d_l.

(** z = predicted - measured in the documented units (ned3d) *)
Theorem C06_residual_form_ned3d :
  forall (lat lon alt VN VE VD roll pitch heading mVN mVE mVD sd : R) (k : nat),
       (k < 3)%nat ->
       match k with
       | 0%nat => ned3d_z0 lat lon alt VN VE VD roll pitch heading mVN mVE mVD sd
       | 1%nat => ned3d_z1 lat lon alt VN VE VD roll pitch heading mVN mVE mVD sd
       | 2%nat => ned3d_z2 lat lon alt VN VE VD roll pitch heading mVN mVE mVD sd
       | S (S (S _)) => 0
       end = vec3 VN VE VD k - vec3 mVN mVE mVD k.
Proof. exact residual_form_ned3d. Qed.
Print Assumptions C06_residual_form_ned3d.

(** z = predicted - measured in the documented units (ned3d_rate) *)
Theorem C06_residual_form_ned3d_rate :
  forall (lat lon alt VN VE VD roll pitch heading rate_x rate_y rate_z mVN mVE mVD sd : R) (k : nat),
       (k < 3)%nat ->
       match k with
       | 0%nat => ned3d_rate_z0 lat lon alt VN VE VD roll pitch heading rate_x rate_y rate_z mVN mVE mVD sd
       | 1%nat => ned3d_rate_z1 lat lon alt VN VE VD roll pitch heading rate_x rate_y rate_z mVN mVE mVD sd
       | 2%nat => ned3d_rate_z2 lat lon alt VN VE VD roll pitch heading rate_x rate_y rate_z mVN mVE mVD sd
       | S (S (S _)) => 0
       end = vec3 VN VE VD k - vec3 mVN mVE mVD k.
Proof. exact residual_form_ned3d_rate. Qed.
Print Assumptions C06_residual_form_ned3d_rate.

(** z = predicted - measured in the documented units (ned3d_l) *)
Theorem C06_residual_form_ned3d_l :
  forall (lat lon alt VN VE VD roll pitch heading rate_x rate_y rate_z mVN mVE mVD l0 l1 l2 sd : R)
         (k : nat),
       (k < 3)%nat ->
       match k with
       | 0%nat =>
           ned3d_l_z0 lat lon alt VN VE VD roll pitch heading rate_x rate_y rate_z mVN mVE mVD l0 l1 l2 sd
       | 1%nat =>
           ned3d_l_z1 lat lon alt VN VE VD roll pitch heading rate_x rate_y rate_z mVN mVE mVD l0 l1 l2 sd
       | 2%nat =>
           ned3d_l_z2 lat lon alt VN VE VD roll pitch heading rate_x rate_y rate_z mVN mVE mVD l0 l1 l2 sd
       | S (S (S _)) => 0
       end =
       vec3 VN VE VD k +
       mvec 3 (Cnb roll pitch heading) (cross3 (vec3 rate_x rate_y rate_z) (vec3 l0 l1 l2)) k -
       vec3 mVN mVE mVD k.
Proof. exact residual_form_ned3d_l. Qed.
Print Assumptions C06_residual_form_ned3d_l.

(** z = predicted - measured in the documented units (ned3d_l_norate) *)
Theorem C06_residual_form_ned3d_l_norate :
  forall (lat lon alt VN VE VD roll pitch heading mVN mVE mVD l0 l1 l2 sd : R) (k : nat),
       (k < 3)%nat ->
       match k with
       | 0%nat => ned3d_l_norate_z0 lat lon alt VN VE VD roll pitch heading mVN mVE mVD l0 l1 l2 sd
       | 1%nat => ned3d_l_norate_z1 lat lon alt VN VE VD roll pitch heading mVN mVE mVD l0 l1 l2 sd
       | 2%nat => ned3d_l_norate_z2 lat lon alt VN VE VD roll pitch heading mVN mVE mVD l0 l1 l2 sd
       | S (S (S _)) => 0
       end = vec3 VN VE VD k - vec3 mVN mVE mVD k.
Proof. exact residual_form_ned3d_l_norate. Qed.
Print Assumptions C06_residual_form_ned3d_l_norate.

(** z = predicted - measured in the documented units (body3d) *)
Theorem C06_residual_form_body3d :
  forall (lat lon alt VN VE VD roll pitch heading mVX mVY mVZ sd : R) (k : nat),
       (k < 3)%nat ->
       match k with
       | 0%nat => body3d_z0 lat lon alt VN VE VD roll pitch heading mVX mVY mVZ sd
       | 1%nat => body3d_z1 lat lon alt VN VE VD roll pitch heading mVX mVY mVZ sd
       | 2%nat => body3d_z2 lat lon alt VN VE VD roll pitch heading mVX mVY mVZ sd
       | S (S (S _)) => 0
       end = mtvec3 (Cnb roll pitch heading) (vec3 VN VE VD) k - vec3 mVX mVY mVZ k.
Proof. exact residual_form_body3d. Qed.
Print Assumptions C06_residual_form_body3d.

(** z = predicted - measured in the documented units (body3d_rate) *)
Theorem C06_residual_form_body3d_rate :
  forall (lat lon alt VN VE VD roll pitch heading rate_x rate_y rate_z mVX mVY mVZ sd : R) (k : nat),
       (k < 3)%nat ->
       match k with
       | 0%nat => body3d_rate_z0 lat lon alt VN VE VD roll pitch heading rate_x rate_y rate_z mVX mVY mVZ sd
       | 1%nat => body3d_rate_z1 lat lon alt VN VE VD roll pitch heading rate_x rate_y rate_z mVX mVY mVZ sd
       | 2%nat => body3d_rate_z2 lat lon alt VN VE VD roll pitch heading rate_x rate_y rate_z mVX mVY mVZ sd
       | S (S (S _)) => 0
       end = mtvec3 (Cnb roll pitch heading) (vec3 VN VE VD) k - vec3 mVX mVY mVZ k.
Proof. exact residual_form_body3d_rate. Qed.
Print Assumptions C06_residual_form_body3d_rate.

(** z = predicted - measured in the documented units (pos2d) *)
Theorem C06_residual_form_pos2d :
  forall (lat lon alt VN VE VD roll pitch heading mlat mlon malt sd : R) (k : nat),
       (k < 2)%nat ->
       match k with
       | 0%nat => pos2d_z0 lat lon alt VN VE VD roll pitch heading mlat mlon malt sd
       | 1%nat => pos2d_z1 lat lon alt VN VE VD roll pitch heading mlat mlon malt sd
       | S (S _) => 0
       end = lla_diff lat lon alt mlat mlon malt k.
Proof. exact residual_form_pos2d. Qed.
Print Assumptions C06_residual_form_pos2d.

(** z = predicted - measured in the documented units (pos2d_l) *)
Theorem C06_residual_form_pos2d_l :
  forall (lat lon alt VN VE VD roll pitch heading mlat mlon malt l0 l1 l2 sd : R) (k : nat),
       (k < 2)%nat ->
       match k with
       | 0%nat => pos2d_l_z0 lat lon alt VN VE VD roll pitch heading mlat mlon malt l0 l1 l2 sd
       | 1%nat => pos2d_l_z1 lat lon alt VN VE VD roll pitch heading mlat mlon malt l0 l1 l2 sd
       | S (S _) => 0
       end = lla_diff lat lon alt mlat mlon malt k + mvec 3 (Cnb roll pitch heading) (vec3 l0 l1 l2) k.
Proof. exact residual_form_pos2d_l. Qed.
Print Assumptions C06_residual_form_pos2d_l.

(** z = predicted - measured in the documented units (ned2d) *)
Theorem C06_residual_form_ned2d :
  forall (lat lon alt VN VE VD roll pitch heading mVN mVE mVD sd : R) (k : nat),
       (k < 2)%nat ->
       match k with
       | 0%nat => ned2d_z0 lat lon alt VN VE VD roll pitch heading mVN mVE mVD sd
       | 1%nat => ned2d_z1 lat lon alt VN VE VD roll pitch heading mVN mVE mVD sd
       | S (S _) => 0
       end = vec3 VN VE VD k - vec3 mVN mVE mVD k.
Proof. exact residual_form_ned2d. Qed.
Print Assumptions C06_residual_form_ned2d.

(** z = predicted - measured in the documented units (ned2d_rate) *)
Theorem C06_residual_form_ned2d_rate :
  forall (lat lon alt VN VE VD roll pitch heading rate_x rate_y rate_z mVN mVE mVD sd : R) (k : nat),
       (k < 2)%nat ->
       match k with
       | 0%nat => ned2d_rate_z0 lat lon alt VN VE VD roll pitch heading rate_x rate_y rate_z mVN mVE mVD sd
       | 1%nat => ned2d_rate_z1 lat lon alt VN VE VD roll pitch heading rate_x rate_y rate_z mVN mVE mVD sd
       | S (S _) => 0
       end = vec3 VN VE VD k - vec3 mVN mVE mVD k.
Proof. exact residual_form_ned2d_rate. Qed.
Print Assumptions C06_residual_form_ned2d_rate.

(** z = predicted - measured in the documented units (ned2d_l) *)
Theorem C06_residual_form_ned2d_l :
  forall (lat lon alt VN VE VD roll pitch heading rate_x rate_y rate_z mVN mVE mVD l0 l1 l2 sd : R)
         (k : nat),
       (k < 2)%nat ->
       match k with
       | 0%nat =>
           ned2d_l_z0 lat lon alt VN VE VD roll pitch heading rate_x rate_y rate_z mVN mVE mVD l0 l1 l2 sd
       | 1%nat =>
           ned2d_l_z1 lat lon alt VN VE VD roll pitch heading rate_x rate_y rate_z mVN mVE mVD l0 l1 l2 sd
       | S (S _) => 0
       end =
       vec3 VN VE VD k +
       mvec 3 (Cnb roll pitch heading) (cross3 (vec3 rate_x rate_y rate_z) (vec3 l0 l1 l2)) k -
       vec3 mVN mVE mVD k.
Proof. exact residual_form_ned2d_l. Qed.
Print Assumptions C06_residual_form_ned2d_l.

(** z = predicted - measured in the documented units (ned2d_l_norate) *)
Theorem C06_residual_form_ned2d_l_norate :
  forall (lat lon alt VN VE VD roll pitch heading mVN mVE mVD l0 l1 l2 sd : R) (k : nat),
       (k < 2)%nat ->
       match k with
       | 0%nat => ned2d_l_norate_z0 lat lon alt VN VE VD roll pitch heading mVN mVE mVD l0 l1 l2 sd
       | 1%nat => ned2d_l_norate_z1 lat lon alt VN VE VD roll pitch heading mVN mVE mVD l0 l1 l2 sd
       | S (S _) => 0
       end = vec3 VN VE VD k - vec3 mVN mVE mVD k.
Proof. exact residual_form_ned2d_l_norate. Qed.
Print Assumptions C06_residual_form_ned2d_l_norate.

(** z = predicted - measured in the documented units (body2d) *)
Theorem C06_residual_form_body2d :
  forall (lat lon alt VN VE VD roll pitch heading mVX mVY mVZ sd : R) (k : nat),
       (k < 3)%nat ->
       match k with
       | 0%nat => body2d_z0 lat lon alt VN VE VD roll pitch heading mVX mVY mVZ sd
       | 1%nat => body2d_z1 lat lon alt VN VE VD roll pitch heading mVX mVY mVZ sd
       | 2%nat => body2d_z2 lat lon alt VN VE VD roll pitch heading mVX mVY mVZ sd
       | S (S (S _)) => 0
       end = mtvec3 (Cnb roll pitch heading) (vec3 VN VE VD) k - vec3 mVX mVY mVZ k.
Proof. exact residual_form_body2d. Qed.
Print Assumptions C06_residual_form_body2d.

(** z = predicted - measured in the documented units (body2d_rate) *)
Theorem C06_residual_form_body2d_rate :
  forall (lat lon alt VN VE VD roll pitch heading rate_x rate_y rate_z mVX mVY mVZ sd : R) (k : nat),
       (k < 3)%nat ->
       match k with
       | 0%nat => body2d_rate_z0 lat lon alt VN VE VD roll pitch heading rate_x rate_y rate_z mVX mVY mVZ sd
       | 1%nat => body2d_rate_z1 lat lon alt VN VE VD roll pitch heading rate_x rate_y rate_z mVX mVY mVZ sd
       | 2%nat => body2d_rate_z2 lat lon alt VN VE VD roll pitch heading rate_x rate_y rate_z mVX mVY mVZ sd
       | S (S (S _)) => 0
       end = mtvec3 (Cnb roll pitch heading) (vec3 VN VE VD) k - vec3 mVX mVY mVZ k.
Proof. exact residual_form_body2d_rate. Qed.
Print Assumptions C06_residual_form_body2d_rate.

(** R = sd^2 I of the size of z (pos3d) *)
Theorem C06_R_matches_pos3d :
  forall lat lon alt VN VE VD roll pitch heading mlat mlon malt sd : R,
       meq 3 3 (Rm_pos3d lat lon alt VN VE VD roll pitch heading mlat mlon malt sd)
         (fun i j : nat => if i =? j then sd * sd else 0).
Proof. exact R_matches_pos3d. Qed.
Print Assumptions C06_R_matches_pos3d.

(** R = sd^2 I of the size of z (pos3d_l) *)
Theorem C06_R_matches_pos3d_l :
  forall lat lon alt VN VE VD roll pitch heading mlat mlon malt l0 l1 l2 sd : R,
       meq 3 3 (Rm_pos3d_l lat lon alt VN VE VD roll pitch heading mlat mlon malt l0 l1 l2 sd)
         (fun i j : nat => if i =? j then sd * sd else 0).
Proof. exact R_matches_pos3d_l. Qed.
Print Assumptions C06_R_matches_pos3d_l.

(** R = sd^2 I of the size of z (ned3d) *)
Theorem C06_R_matches_ned3d :
  forall lat lon alt VN VE VD roll pitch heading mVN mVE mVD sd : R,
       meq 3 3 (Rm_ned3d lat lon alt VN VE VD roll pitch heading mVN mVE mVD sd)
         (fun i j : nat => if i =? j then sd * sd else 0).
Proof. exact R_matches_ned3d. Qed.
Print Assumptions C06_R_matches_ned3d.

(** R = sd^2 I of the size of z (ned3d_rate) *)
Theorem C06_R_matches_ned3d_rate :
  forall lat lon alt VN VE VD roll pitch heading rate_x rate_y rate_z mVN mVE mVD sd : R,
       meq 3 3 (Rm_ned3d_rate lat lon alt VN VE VD roll pitch heading rate_x rate_y rate_z mVN mVE mVD sd)
         (fun i j : nat => if i =? j then sd * sd else 0).
Proof. exact R_matches_ned3d_rate. Qed.
Print Assumptions C06_R_matches_ned3d_rate.

(** R = sd^2 I of the size of z (ned3d_l) *)
Theorem C06_R_matches_ned3d_l :
  forall lat lon alt VN VE VD roll pitch heading rate_x rate_y rate_z mVN mVE mVD l0 l1 l2 sd : R,
       meq 3 3
         (Rm_ned3d_l lat lon alt VN VE VD roll pitch heading rate_x rate_y rate_z mVN mVE mVD l0 l1 l2 sd)
         (fun i j : nat => if i =? j then sd * sd else 0).
Proof. exact R_matches_ned3d_l. Qed.
Print Assumptions C06_R_matches_ned3d_l.

(** R = sd^2 I of the size of z (ned3d_l_norate) *)
Theorem C06_R_matches_ned3d_l_norate :
  forall lat lon alt VN VE VD roll pitch heading mVN mVE mVD l0 l1 l2 sd : R,
       meq 3 3 (Rm_ned3d_l_norate lat lon alt VN VE VD roll pitch heading mVN mVE mVD l0 l1 l2 sd)
         (fun i j : nat => if i =? j then sd * sd else 0).
Proof. exact R_matches_ned3d_l_norate. Qed.
Print Assumptions C06_R_matches_ned3d_l_norate.

(** R = sd^2 I of the size of z (body3d) *)
Theorem C06_R_matches_body3d :
  forall lat lon alt VN VE VD roll pitch heading mVX mVY mVZ sd : R,
       meq 3 3 (Rm_body3d lat lon alt VN VE VD roll pitch heading mVX mVY mVZ sd)
         (fun i j : nat => if i =? j then sd * sd else 0).
Proof. exact R_matches_body3d. Qed.
Print Assumptions C06_R_matches_body3d.

(** R = sd^2 I of the size of z (body3d_rate) *)
Theorem C06_R_matches_body3d_rate :
  forall lat lon alt VN VE VD roll pitch heading rate_x rate_y rate_z mVX mVY mVZ sd : R,
       meq 3 3 (Rm_body3d_rate lat lon alt VN VE VD roll pitch heading rate_x rate_y rate_z mVX mVY mVZ sd)
         (fun i j : nat => if i =? j then sd * sd else 0).
Proof. exact R_matches_body3d_rate. Qed.
Print Assumptions C06_R_matches_body3d_rate.

(** R = sd^2 I of the size of z (pos2d) *)
Theorem C06_R_matches_pos2d :
  forall lat lon alt VN VE VD roll pitch heading mlat mlon malt sd : R,
       meq 2 2 (Rm_pos2d lat lon alt VN VE VD roll pitch heading mlat mlon malt sd)
         (fun i j : nat => if i =? j then sd * sd else 0).
Proof. exact R_matches_pos2d. Qed.
Print Assumptions C06_R_matches_pos2d.

(** R = sd^2 I of the size of z (pos2d_l) *)
Theorem C06_R_matches_pos2d_l :
  forall lat lon alt VN VE VD roll pitch heading mlat mlon malt l0 l1 l2 sd : R,
       meq 2 2 (Rm_pos2d_l lat lon alt VN VE VD roll pitch heading mlat mlon malt l0 l1 l2 sd)
         (fun i j : nat => if i =? j then sd * sd else 0).
Proof. exact R_matches_pos2d_l. Qed.
Print Assumptions C06_R_matches_pos2d_l.

(** R = sd^2 I of the size of z (ned2d) *)
Theorem C06_R_matches_ned2d :
  forall lat lon alt VN VE VD roll pitch heading mVN mVE mVD sd : R,
       meq 2 2 (Rm_ned2d lat lon alt VN VE VD roll pitch heading mVN mVE mVD sd)
         (fun i j : nat => if i =? j then sd * sd else 0).
Proof. exact R_matches_ned2d. Qed.
Print Assumptions C06_R_matches_ned2d.

(** R = sd^2 I of the size of z (ned2d_rate) *)
Theorem C06_R_matches_ned2d_rate :
  forall lat lon alt VN VE VD roll pitch heading rate_x rate_y rate_z mVN mVE mVD sd : R,
       meq 2 2 (Rm_ned2d_rate lat lon alt VN VE VD roll pitch heading rate_x rate_y rate_z mVN mVE mVD sd)
         (fun i j : nat => if i =? j then sd * sd else 0).
Proof. exact R_matches_ned2d_rate. Qed.
Print Assumptions C06_R_matches_ned2d_rate.

(** R = sd^2 I of the size of z (ned2d_l) *)
Theorem C06_R_matches_ned2d_l :
  forall lat lon alt VN VE VD roll pitch heading rate_x rate_y rate_z mVN mVE mVD l0 l1 l2 sd : R,
       meq 2 2
         (Rm_ned2d_l lat lon alt VN VE VD roll pitch heading rate_x rate_y rate_z mVN mVE mVD l0 l1 l2 sd)
         (fun i j : nat => if i =? j then sd * sd else 0).
Proof. exact R_matches_ned2d_l. Qed.
Print Assumptions C06_R_matches_ned2d_l.

(** R = sd^2 I of the size of z (ned2d_l_norate) *)
Theorem C06_R_matches_ned2d_l_norate :
  forall lat lon alt VN VE VD roll pitch heading mVN mVE mVD l0 l1 l2 sd : R,
       meq 2 2 (Rm_ned2d_l_norate lat lon alt VN VE VD roll pitch heading mVN mVE mVD l0 l1 l2 sd)
         (fun i j : nat => if i =? j then sd * sd else 0).
Proof. exact R_matches_ned2d_l_norate. Qed.
Print Assumptions C06_R_matches_ned2d_l_norate.

(** R = sd^2 I of the size of z (body2d) *)
Theorem C06_R_matches_body2d :
  forall lat lon alt VN VE VD roll pitch heading mVX mVY mVZ sd : R,
       meq 3 3 (Rm_body2d lat lon alt VN VE VD roll pitch heading mVX mVY mVZ sd)
         (fun i j : nat => if i =? j then sd * sd else 0).
Proof. exact R_matches_body2d. Qed.
Print Assumptions C06_R_matches_body2d.

(** R = sd^2 I of the size of z (body2d_rate) *)
Theorem C06_R_matches_body2d_rate :
  forall lat lon alt VN VE VD roll pitch heading rate_x rate_y rate_z mVX mVY mVZ sd : R,
       meq 3 3 (Rm_body2d_rate lat lon alt VN VE VD roll pitch heading rate_x rate_y rate_z mVX mVY mVZ sd)
         (fun i j : nat => if i =? j then sd * sd else 0).
Proof. exact R_matches_body2d_rate. Qed.
Print Assumptions C06_R_matches_body2d_rate.

(** rates without lever arm / lever arm without rates: the plain model *)
Theorem C06_same_model_ned3d_rate :
  forall lat lon alt VN VE VD roll pitch heading rate_x rate_y rate_z mVN mVE mVD sd : R,
       (forall k : nat,
        (k < 3)%nat ->
        match k with
        | 0%nat => ned3d_rate_z0 lat lon alt VN VE VD roll pitch heading rate_x rate_y rate_z mVN mVE mVD sd
        | 1%nat => ned3d_rate_z1 lat lon alt VN VE VD roll pitch heading rate_x rate_y rate_z mVN mVE mVD sd
        | 2%nat => ned3d_rate_z2 lat lon alt VN VE VD roll pitch heading rate_x rate_y rate_z mVN mVE mVD sd
        | S (S (S _)) => 0
        end =
        match k with
        | 0%nat => ned3d_z0 lat lon alt VN VE VD roll pitch heading mVN mVE mVD sd
        | 1%nat => ned3d_z1 lat lon alt VN VE VD roll pitch heading mVN mVE mVD sd
        | 2%nat => ned3d_z2 lat lon alt VN VE VD roll pitch heading mVN mVE mVD sd
        | S (S (S _)) => 0
        end) /\
       meq 3 9 (Hm_ned3d_rate lat lon alt VN VE VD roll pitch heading rate_x rate_y rate_z mVN mVE mVD sd)
         (Hm_ned3d lat lon alt VN VE VD roll pitch heading mVN mVE mVD sd).
Proof. exact same_model_ned3d_rate. Qed.
Print Assumptions C06_same_model_ned3d_rate.

(** rates without lever arm / lever arm without rates: the plain model *)
Theorem C06_same_model_ned3d_l_norate :
  forall lat lon alt VN VE VD roll pitch heading mVN mVE mVD l0 l1 l2 sd : R,
       (forall k : nat,
        (k < 3)%nat ->
        match k with
        | 0%nat => ned3d_l_norate_z0 lat lon alt VN VE VD roll pitch heading mVN mVE mVD l0 l1 l2 sd
        | 1%nat => ned3d_l_norate_z1 lat lon alt VN VE VD roll pitch heading mVN mVE mVD l0 l1 l2 sd
        | 2%nat => ned3d_l_norate_z2 lat lon alt VN VE VD roll pitch heading mVN mVE mVD l0 l1 l2 sd
        | S (S (S _)) => 0
        end =
        match k with
        | 0%nat => ned3d_z0 lat lon alt VN VE VD roll pitch heading mVN mVE mVD sd
        | 1%nat => ned3d_z1 lat lon alt VN VE VD roll pitch heading mVN mVE mVD sd
        | 2%nat => ned3d_z2 lat lon alt VN VE VD roll pitch heading mVN mVE mVD sd
        | S (S (S _)) => 0
        end) /\
       meq 3 9 (Hm_ned3d_l_norate lat lon alt VN VE VD roll pitch heading mVN mVE mVD l0 l1 l2 sd)
         (Hm_ned3d lat lon alt VN VE VD roll pitch heading mVN mVE mVD sd).
Proof. exact same_model_ned3d_l_norate. Qed.
Print Assumptions C06_same_model_ned3d_l_norate.

(** rates without lever arm / lever arm without rates: the plain model *)
Theorem C06_same_model_body3d_rate :
  forall lat lon alt VN VE VD roll pitch heading rate_x rate_y rate_z mVX mVY mVZ sd : R,
       (forall k : nat,
        (k < 3)%nat ->
        match k with
        | 0%nat => body3d_rate_z0 lat lon alt VN VE VD roll pitch heading rate_x rate_y rate_z mVX mVY mVZ sd
        | 1%nat => body3d_rate_z1 lat lon alt VN VE VD roll pitch heading rate_x rate_y rate_z mVX mVY mVZ sd
        | 2%nat => body3d_rate_z2 lat lon alt VN VE VD roll pitch heading rate_x rate_y rate_z mVX mVY mVZ sd
        | S (S (S _)) => 0
        end =
        match k with
        | 0%nat => body3d_z0 lat lon alt VN VE VD roll pitch heading mVX mVY mVZ sd
        | 1%nat => body3d_z1 lat lon alt VN VE VD roll pitch heading mVX mVY mVZ sd
        | 2%nat => body3d_z2 lat lon alt VN VE VD roll pitch heading mVX mVY mVZ sd
        | S (S (S _)) => 0
        end) /\
       meq 3 9 (Hm_body3d_rate lat lon alt VN VE VD roll pitch heading rate_x rate_y rate_z mVX mVY mVZ sd)
         (Hm_body3d lat lon alt VN VE VD roll pitch heading mVX mVY mVZ sd).
Proof. exact same_model_body3d_rate. Qed.
Print Assumptions C06_same_model_body3d_rate.

(** rates without lever arm / lever arm without rates: the plain model *)
Theorem C06_same_model_ned2d_rate :
  forall lat lon alt VN VE VD roll pitch heading rate_x rate_y rate_z mVN mVE mVD sd : R,
       (forall k : nat,
        (k < 2)%nat ->
        match k with
        | 0%nat => ned2d_rate_z0 lat lon alt VN VE VD roll pitch heading rate_x rate_y rate_z mVN mVE mVD sd
        | 1%nat => ned2d_rate_z1 lat lon alt VN VE VD roll pitch heading rate_x rate_y rate_z mVN mVE mVD sd
        | S (S _) => 0
        end =
        match k with
        | 0%nat => ned2d_z0 lat lon alt VN VE VD roll pitch heading mVN mVE mVD sd
        | 1%nat => ned2d_z1 lat lon alt VN VE VD roll pitch heading mVN mVE mVD sd
        | S (S _) => 0
        end) /\
       meq 2 7 (Hm_ned2d_rate lat lon alt VN VE VD roll pitch heading rate_x rate_y rate_z mVN mVE mVD sd)
         (Hm_ned2d lat lon alt VN VE VD roll pitch heading mVN mVE mVD sd).
Proof. exact same_model_ned2d_rate. Qed.
Print Assumptions C06_same_model_ned2d_rate.

(** rates without lever arm / lever arm without rates: the plain model *)
Theorem C06_same_model_ned2d_l_norate :
  forall lat lon alt VN VE VD roll pitch heading mVN mVE mVD l0 l1 l2 sd : R,
       (forall k : nat,
        (k < 2)%nat ->
        match k with
        | 0%nat => ned2d_l_norate_z0 lat lon alt VN VE VD roll pitch heading mVN mVE mVD l0 l1 l2 sd
        | 1%nat => ned2d_l_norate_z1 lat lon alt VN VE VD roll pitch heading mVN mVE mVD l0 l1 l2 sd
        | S (S _) => 0
        end =
        match k with
        | 0%nat => ned2d_z0 lat lon alt VN VE VD roll pitch heading mVN mVE mVD sd
        | 1%nat => ned2d_z1 lat lon alt VN VE VD roll pitch heading mVN mVE mVD sd
        | S (S _) => 0
        end) /\
       meq 2 7 (Hm_ned2d_l_norate lat lon alt VN VE VD roll pitch heading mVN mVE mVD l0 l1 l2 sd)
         (Hm_ned2d lat lon alt VN VE VD roll pitch heading mVN mVE mVD sd).
Proof. exact same_model_ned2d_l_norate. Qed.
Print Assumptions C06_same_model_ned2d_l_norate.

(** rates without lever arm / lever arm without rates: the plain model *)
Theorem C06_same_model_body2d_rate :
  forall lat lon alt VN VE VD roll pitch heading rate_x rate_y rate_z mVX mVY mVZ sd : R,
       (forall k : nat,
        (k < 3)%nat ->
        match k with
        | 0%nat => body2d_rate_z0 lat lon alt VN VE VD roll pitch heading rate_x rate_y rate_z mVX mVY mVZ sd
        | 1%nat => body2d_rate_z1 lat lon alt VN VE VD roll pitch heading rate_x rate_y rate_z mVX mVY mVZ sd
        | 2%nat => body2d_rate_z2 lat lon alt VN VE VD roll pitch heading rate_x rate_y rate_z mVX mVY mVZ sd
        | S (S (S _)) => 0
        end =
        match k with
        | 0%nat => body2d_z0 lat lon alt VN VE VD roll pitch heading mVX mVY mVZ sd
        | 1%nat => body2d_z1 lat lon alt VN VE VD roll pitch heading mVX mVY mVZ sd
        | 2%nat => body2d_z2 lat lon alt VN VE VD roll pitch heading mVX mVY mVZ sd
        | S (S (S _)) => 0
        end) /\
       meq 3 7 (Hm_body2d_rate lat lon alt VN VE VD roll pitch heading rate_x rate_y rate_z mVX mVY mVZ sd)
         (Hm_body2d lat lon alt VN VE VD roll pitch heading mVX mVY mVZ sd).
Proof. exact same_model_body2d_rate. Qed.
Print Assumptions C06_same_model_body2d_rate.

(** noise-free generate_ned_velocity_measurements at the true state: z = 0 exactly (3D, 2D) *)
Theorem C06_sim_zero_residual_ned :
  forall lat lon alt VN VE VD roll pitch heading sd n0 n1 n2 : R,
       (forall k : nat, (k < 3)%nat -> simZ_ned3d lat lon alt VN VE VD roll pitch heading sd 0 n0 n1 n2 k = 0) /\
       (forall k : nat, (k < 2)%nat -> simZ_ned2d lat lon alt VN VE VD roll pitch heading sd 0 n0 n1 n2 k = 0).
Proof. exact sim_zero_residual_ned. Qed.
Print Assumptions C06_sim_zero_residual_ned.

(** noise-free generate_body_velocity_measurements at the true state: z = 0 exactly *)
Theorem C06_sim_zero_residual_body :
  forall lat lon alt VN VE VD roll pitch heading sd n0 n1 n2 : R,
       (forall k : nat,
        (k < 3)%nat -> simZ_body3d lat lon alt VN VE VD roll pitch heading sd 0 n0 n1 n2 k = 0) /\
       (forall k : nat,
        (k < 3)%nat -> simZ_body2d lat lon alt VN VE VD roll pitch heading sd 0 n0 n1 n2 k = 0).
Proof. exact sim_zero_residual_body. Qed.
Print Assumptions C06_sim_zero_residual_body.

(** noise-free generate_position_measurements at the true state: z = 0 exactly; down row = -(s n2) exactly for every s *)
Theorem C06_sim_zero_residual_pos :
  forall lat lon alt VN VE VD roll pitch heading sd n0 n1 n2 : R,
       (forall k : nat, (k < 3)%nat -> simZ_pos3d lat lon alt VN VE VD roll pitch heading sd n0 n1 n2 k 0 = 0) /\
       (forall k : nat, (k < 2)%nat -> simZ_pos2d lat lon alt VN VE VD roll pitch heading sd n0 n1 n2 k 0 = 0) /\
       (forall s : R, simZ_pos3d lat lon alt VN VE VD roll pitch heading sd n0 n1 n2 2 s = - (s * n2)).
Proof. exact sim_zero_residual_pos. Qed.
Print Assumptions C06_sim_zero_residual_pos.

(** injected error e = s n (rng.randn = n, error_sd = s): z = -e exactly *)
Theorem C06_sim_injected_error_ned :
  forall lat lon alt VN VE VD roll pitch heading sd s n0 n1 n2 : R,
       (forall k : nat,
        (k < 3)%nat ->
        simZ_ned3d lat lon alt VN VE VD roll pitch heading sd s n0 n1 n2 k = - (s * vec3 n0 n1 n2 k)) /\
       (forall k : nat,
        (k < 2)%nat ->
        simZ_ned2d lat lon alt VN VE VD roll pitch heading sd s n0 n1 n2 k = - (s * vec3 n0 n1 n2 k)).
Proof. exact sim_injected_error_ned. Qed.
Print Assumptions C06_sim_injected_error_ned.

(** injected error e = s n: z = -e exactly *)
Theorem C06_sim_injected_error_body :
  forall lat lon alt VN VE VD roll pitch heading sd s n0 n1 n2 : R,
       (forall k : nat,
        (k < 3)%nat ->
        simZ_body3d lat lon alt VN VE VD roll pitch heading sd s n0 n1 n2 k = - (s * vec3 n0 n1 n2 k)) /\
       (forall k : nat,
        (k < 3)%nat ->
        simZ_body2d lat lon alt VN VE VD roll pitch heading sd s n0 n1 n2 k = - (s * vec3 n0 n1 n2 k)).
Proof. exact sim_injected_error_body. Qed.
Print Assumptions C06_sim_injected_error_body.

(** Position, injected error s n metres: d/ds|0 z = -n (z = -e to first order; perturb_lla uses the radii at the truth, compute_lla_difference at the mid point) *)
Theorem C06_sim_injected_error_pos :
  forall lat lon alt VN VE VD roll pitch heading sd n0 n1 n2 : R,
       -90 < lat < 90 ->
       -1000000 <= alt ->
       (forall k : nat,
        (k < 3)%nat ->
        is_derive (simZ_pos3d lat lon alt VN VE VD roll pitch heading sd n0 n1 n2 k) 0 (- vec3 n0 n1 n2 k)) /\
       (forall k : nat,
        (k < 2)%nat ->
        is_derive (simZ_pos2d lat lon alt VN VE VD roll pitch heading sd n0 n1 n2 k) 0 (- vec3 n0 n1 n2 k)).
Proof. exact sim_injected_error_pos. Qed.
Print Assumptions C06_sim_injected_error_pos.

(** non-vacuity: the hypotheses are satisfiable on a concrete, non-trivial state *)
Example C06_domain_nonempty :
  -90 < 48 < 90 /\ -1000000 <= 350 /\ -180 < 12 < 180 /\ -90 < -8 < 90 /\ -180 < 130 < 180 /\ (1 < 3)%nat.
Proof. repeat split; try lra; lia. Qed.
