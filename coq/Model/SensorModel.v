(** Executable model of pyins/inertial_sensor.py (property C14).

    - [build]            : EstimationModel.__init__  (the three axis loops, counters and appends)
    - [output_matrix]    : EstimationModel.output_matrix (1-d readings)
    - [reset]/[update]/[get_estimates]/[correct_increments] : the estimate state machine
    - [sim_*], [columns] : Parameters.apply (noise-free part, squared coefficients of the two
                           random streams, data_frame column names / values)

    Numbers are canonical rationals [Qc] (QArith.Qcanon): computable, and a field for Leibniz
    equality.  Definitions only; proofs are in Proofs/SensorModelProofs.v. *)
From Coq Require Import List String Ascii Arith Bool ZArith QArith Qcanon.
Import ListNotations.
Open Scope Qc_scope.

(* ------------------------------------------------------------------ *)
(** * 3-vectors, 3x3 matrices *)

Record V3 (A : Type) : Type := mk3 { c0 : A; c1 : A; c2 : A }.
Arguments mk3 {A} _ _ _.
Arguments c0 {A} _.
Arguments c1 {A} _.
Arguments c2 {A} _.

(** Index 0,1,2; every index used by the model comes from [range(3)] or from XYZ_TO_INDEX,
    so the clamping of larger indices to 2 is never exercised (proved: [decode_range]). *)
Definition get3 {A} (i : nat) (v : V3 A) : A :=
  match i with 0 => c0 v | 1 => c1 v | _ => c2 v end%nat.
Definition upd3 {A} (i : nat) (f : A -> A) (v : V3 A) : V3 A :=
  match i with
  | 0 => mk3 (f (c0 v)) (c1 v) (c2 v)
  | 1 => mk3 (c0 v) (f (c1 v)) (c2 v)
  | _ => mk3 (c0 v) (c1 v) (f (c2 v))
  end%nat.

Definition M3 := V3 (V3 Qc).
Definition get33 (o i : nat) (M : M3) : Qc := get3 i (get3 o M).
Definition upd33 (o i : nat) (f : Qc -> Qc) (M : M3) : M3 := upd3 o (upd3 i f) M.

Definition zero3 : V3 Qc := mk3 0 0 0.
Definition ident3 : M3 := mk3 (mk3 1 0 0) (mk3 0 1 0) (mk3 0 0 1).
Definition delta (o i : nat) : Qc := if Nat.eqb o i then 1 else 0.   (* 1 if out == in else 0 *)

Definition dot3 (u v : V3 Qc) : Qc := c0 u * c0 v + c1 u * c1 v + c2 u * c2 v.
Definition mv3 (M : M3) (v : V3 Qc) : V3 Qc := mk3 (dot3 (c0 M) v) (dot3 (c1 M) v) (dot3 (c2 M) v).
Definition add3 (u v : V3 Qc) : V3 Qc := mk3 (c0 u + c0 v) (c1 u + c1 v) (c2 u + c2 v).
Definition sub3 (u v : V3 Qc) : V3 Qc := mk3 (c0 u - c0 v) (c1 u - c1 v) (c2 u - c2 v).
Definition scale3 (v : V3 Qc) (k : Qc) : V3 Qc := mk3 (c0 v * k) (c1 v * k) (c2 v * k).

(** comparisons used by the code: [x > 0], [x <= 0], [x != 0] *)
Definition Qcpos (x : Qc) : bool := match 0 ?= x with Lt => true | _ => false end.
Definition Qcnonpos (x : Qc) : bool := match x ?= 0 with Gt => false | _ => true end.
Definition Qcneq (x y : Qc) : bool := if Qc_eq_dec x y then false else true.
Definition Qcnz (x : Qc) : bool := Qcneq x 0.
Definition sq (x : Qc) : Qc := x * x.                                  (* x ** 2 *)

(** [for k in range(n): acc = body k acc] *)
Fixpoint for_range {A} (n : nat) (body : nat -> A -> A) (init : A) : A :=
  match n with O => init | S k => body k (for_range k body init) end.

(* ------------------------------------------------------------------ *)
(** * Names *)

Local Open Scope string_scope.

Definition index_to_xyz (i : nat) : string :=                          (* INDEX_TO_XYZ *)
  match i with 0 => "x" | 1 => "y" | 2 => "z" | _ => "?" end%nat.
Definition xyz_to_index (s : string) : option nat :=                   (* XYZ_TO_INDEX; None = KeyError *)
  if String.eqb s "x" then Some 0%nat else if String.eqb s "y" then Some 1%nat
  else if String.eqb s "z" then Some 2%nat else None.

Definition bias_name (a : nat) : string := "bias_" ++ index_to_xyz a.
Definition sm_name (o i : nat) : string := "sm_" ++ index_to_xyz o ++ index_to_xyz i.

(** [s.split("_")] *)
Fixpoint split_us (s : string) : list string :=
  match s with
  | EmptyString => [EmptyString]
  | String c r =>
      if Ascii.eqb c "_"%char then EmptyString :: split_us r
      else match split_us r with
           | h :: t => String c h :: t
           | [] => [String c EmptyString]
           end
  end.

Inductive target := TBias (a : nat) | TSm (o i : nat).
Inductive decoded := DTarget (t : target) | DSkip | DError.

(** The name decoding of [update_estimates] / [get_estimates]:
    items = state.split("_"); items[0] == 'bias' -> XYZ_TO_INDEX[items[1]];
    items[0] == 'sm' -> XYZ_TO_INDEX[items[1][0]], XYZ_TO_INDEX[items[1][1]];
    anything else is silently skipped; KeyError/IndexError = [DError]. *)
Definition decode (name : string) : decoded :=
  match split_us name with
  | k :: rest =>
      if String.eqb k "bias" then
        match rest with
        | it :: _ => match xyz_to_index it with Some a => DTarget (TBias a) | None => DError end
        | [] => DError
        end
      else if String.eqb k "sm" then
        match rest with
        | String a (String b _) :: _ =>
            match xyz_to_index (String a EmptyString), xyz_to_index (String b EmptyString) with
            | Some o, Some i => DTarget (TSm o i)
            | _, _ => DError
            end
        | _ => DError
        end
      else DSkip
  | [] => DSkip
  end.

Local Close Scope string_scope.

(* ------------------------------------------------------------------ *)
(** * EstimationModel.__init__ *)

Record emodel := mk_emodel {
  states : list string;
  n_states : nat;
  n_noises : nat;
  n_output_noises : nat;
  P : list Qc;                    (* diagonal of P, P[i,i] = sd^2; off-diagonal 0 *)
  q : list Qc;
  v : list Qc;
  G : list (nat * nat);           (* unit entries (state row, noise column)  *)
  H : list (nat * nat);           (* unit entries (axis row, state column)   *)
  J : list (nat * nat);           (* unit entries (axis row, output-noise column) *)
  scale_misal_data : list (nat * nat * nat)   (* (output_axis, input_axis, state) *)
}.

(** accumulator of the first loop (bias states) *)
Record acc1 := mk_acc1 {
  a_ns : nat; a_nn : nat; a_states : list string; a_P : list Qc;
  a_G : list (nat * nat); a_H : list (nat * nat); a_q : list Qc }.

Definition bias_step (bias_sd bias_walk : V3 Qc) (axis : nat) (a : acc1) : acc1 :=
  if Qcpos (get3 axis bias_sd) then
    let walk := Qcpos (get3 axis bias_walk) in
    mk_acc1 (S (a_ns a))
            (if walk then S (a_nn a) else a_nn a)
            (a_states a ++ [bias_name axis])
            (a_P a ++ [sq (get3 axis bias_sd)])
            (if walk then a_G a ++ [(a_ns a, a_nn a)] else a_G a)
            (a_H a ++ [(axis, a_ns a)])
            (if walk then a_q a ++ [get3 axis bias_walk] else a_q a)
  else a.

(** accumulator of the second (nested) loop (scale/misalignment states) *)
Record acc2 := mk_acc2 {
  b_ns : nat; b_states : list string; b_P : list Qc; b_sm : list (nat * nat * nat) }.

Definition sm_step (sm_sd : M3) (o i : nat) (b : acc2) : acc2 :=
  if Qcpos (get33 o i sm_sd) then
    mk_acc2 (S (b_ns b)) (b_states b ++ [sm_name o i]) (b_P b ++ [sq (get33 o i sm_sd)])
            (b_sm b ++ [(o, i, b_ns b)])
  else b.

(** accumulator of the third loop (output noises) *)
Record acc3 := mk_acc3 { c_n : nat; c_J : list (nat * nat); c_v : list Qc }.

Definition noise_step (noise : V3 Qc) (axis : nat) (c : acc3) : acc3 :=
  if Qcpos (get3 axis noise) then
    mk_acc3 (S (c_n c)) (c_J c ++ [(axis, c_n c)]) (c_v c ++ [get3 axis noise])
  else c.

(** np.any(bias_walk[bias_sd <= 0] > 0) *)
Definition walk_without_bias (bias_sd bias_walk : V3 Qc) : bool :=
  existsb (fun a => Qcnonpos (get3 a bias_sd) && Qcpos (get3 a bias_walk)) (seq 0 3).

Definition bias_loop (bias_sd bias_walk : V3 Qc) (n : nat) : acc1 :=
  for_range n (bias_step bias_sd bias_walk) (mk_acc1 0 0 [] [] [] [] []).
Definition sm_inner (sm_sd : M3) (o n : nat) (b : acc2) : acc2 :=
  for_range n (sm_step sm_sd o) b.
Definition sm_loop (sm_sd : M3) (n : nat) (b : acc2) : acc2 :=
  for_range n (fun o => sm_inner sm_sd o 3) b.
Definition noise_loop (noise : V3 Qc) (n : nat) : acc3 :=
  for_range n (noise_step noise) (mk_acc3 0 [] []).

(** [None] = the ValueError of the constructor. *)
Definition build (bias_sd noise bias_walk : V3 Qc) (sm_sd : M3) : option emodel :=
  if walk_without_bias bias_sd bias_walk then None
  else
    let a := bias_loop bias_sd bias_walk 3 in
    let b := sm_loop sm_sd 3 (mk_acc2 (a_ns a) (a_states a) (a_P a) []) in
    let c := noise_loop noise 3 in
    Some (mk_emodel (b_states b) (b_ns b) (a_nn a) (c_n c) (b_P b) (a_q a) (c_v c)
                    (a_G a) (a_H a) (c_J c) (b_sm b)).

(** dense views *)
Definition has_entry (r c : nat) (l : list (nat * nat)) : bool :=
  existsb (fun e => Nat.eqb (fst e) r && Nat.eqb (snd e) c) l.
Definition dense (rows cols : nat) (l : list (nat * nat)) : list (list Qc) :=
  map (fun r => map (fun c => if has_entry r c l then 1 else 0) (seq 0 cols)) (seq 0 rows).
Definition G_dense (m : emodel) := dense (n_states m) (n_noises m) (G m).
Definition H_dense (m : emodel) := dense 3 (n_states m) (H m).
Definition J_dense (m : emodel) := dense 3 (n_output_noises m) (J m).
Definition diag (d : list Qc) : list (list Qc) :=
  map (fun r => map (fun c => if Nat.eqb r c then nth r d 0 else 0) (seq 0 (List.length d)))
      (seq 0 (List.length d)).
Definition P_dense (m : emodel) := diag (P m).
Definition F_dense (m : emodel) : list (list Qc) :=
  map (fun _ => map (fun _ => 0) (seq 0 (n_states m))) (seq 0 (n_states m)).

(** [output_matrix(readings)] for 1-d readings: H.copy(); H[output_axes, states] = readings[input_axes].
    (When no scale/misalignment state exists the code returns H itself: same value, since
    [scale_misal_data] is then empty.)  State indices in [scale_misal_data] are distinct, so
    the fancy-index assignment has no overwrites and the first match is the only one. *)
Definition om_entry (m : emodel) (r : V3 Qc) (axis s : nat) : Qc :=
  match find (fun e => Nat.eqb (fst (fst e)) axis && Nat.eqb (snd e) s) (scale_misal_data m) with
  | Some e => get3 (snd (fst e)) r
  | None => if has_entry axis s (H m) then 1 else 0
  end.
Definition om_row (m : emodel) (r : V3 Qc) (axis : nat) : list Qc :=
  map (om_entry m r axis) (seq 0 (n_states m)).
Definition output_matrix (m : emodel) (r : V3 Qc) : list (list Qc) :=
  map (om_row m r) (seq 0 3).

Fixpoint dot (u w : list Qc) : Qc :=
  match u, w with
  | a :: u', b :: w' => a * b + dot u' w'
  | _, _ => 0
  end.

(* ------------------------------------------------------------------ *)
(** * Estimate state machine *)

Record est := mk_est { e_T : M3; e_b : V3 Qc }.

Definition reset : est := mk_est ident3 zero3.                          (* reset_estimates *)

Definition add_target (t : target) (xi : Qc) (st : est) : est :=
  match t with
  | TBias a => mk_est (e_T st) (upd3 a (fun y => y + xi) (e_b st))
  | TSm o i => mk_est (upd33 o i (fun y => y + xi) (e_T st)) (e_b st)
  end.

Definition read_target (t : target) (st : est) : Qc :=
  match t with
  | TBias a => get3 a (e_b st)
  | TSm o i => get33 o i (e_T st) - delta o i
  end.

(** for state, xi in zip(self.states, x): ... *)
Fixpoint update_loop (names : list string) (x : list Qc) (st : est) : option est :=
  match names, x with
  | n :: ns, xi :: xs =>
      match decode n with
      | DTarget t => update_loop ns xs (add_target t xi st)
      | DSkip => update_loop ns xs st
      | DError => None
      end
  | _, _ => Some st
  end.

(** update_estimates; [None] = ValueError (length) or KeyError/IndexError (decoding). *)
Definition update (m : emodel) (x : list Qc) (st : est) : option est :=
  if Nat.eqb (List.length x) (List.length (states m)) then update_loop (states m) x st else None.

Fixpoint get_loop (names : list string) (st : est) : option (list Qc) :=
  match names with
  | [] => Some []
  | n :: ns =>
      match decode n with
      | DTarget t => option_map (cons (read_target t st)) (get_loop ns st)
      | DSkip => get_loop ns st
      | DError => None
      end
  end.
Definition get_estimates (m : emodel) (st : est) : option (list Qc) := get_loop (states m) st.

(** np.linalg.solve for 3x3 via the adjugate (Cramer); [None] = singular matrix. *)
Definition det3 (M : M3) : Qc :=
  let '(mk3 (mk3 a b c) (mk3 d e f) (mk3 g h i)) := M in
  a * (e * i - f * h) - b * (d * i - f * g) + c * (d * h - e * g).
Definition adj3 (M : M3) : M3 :=
  let '(mk3 (mk3 a b c) (mk3 d e f) (mk3 g h i)) := M in
  mk3 (mk3 (e * i - f * h) (c * h - b * i) (b * f - c * e))
      (mk3 (f * g - d * i) (a * i - c * g) (c * d - a * f))
      (mk3 (d * h - e * g) (b * g - a * h) (a * e - b * d)).
Definition solve3 (M : M3) (r : V3 Qc) : option (V3 Qc) :=
  if Qc_eq_dec (det3 M) 0 then None
  else Some (scale3 (mv3 (adj3 M) r) (/ det3 M)).

(** correct_increments(dt, increments) for one row = solve(transform, increments - bias * dt) *)
Definition correct_increments (st : est) (dt : Qc) (incs : V3 Qc) : option (V3 Qc) :=
  solve3 (e_T st) (sub3 incs (scale3 (e_b st) dt)).

(* ------------------------------------------------------------------ *)
(** * Simulator side: Parameters.apply *)

Record params := mk_params { p_T : M3; p_b : V3 Qc; p_noise : V3 Qc; p_walk : V3 Qc }.
Inductive stype := Rate | Increment.

Fixpoint diffs (ts : list Qc) : list Qc :=
  match ts with
  | a :: ((b :: _) as r) => (b - a) :: diffs r
  | _ => []
  end.
(** dt = hstack([0, diff(index)]) : used for the bias walk *)
Definition dt_raw (ts : list Qc) : list Qc :=
  match ts with [] => [] | _ => 0 :: diffs ts end.
(** after [dt[0,0] = dt[1,0]]; [None] = IndexError (fewer than two samples) *)
Definition dt_used (ts : list Qc) : option (list Qc) :=
  match dt_raw ts with
  | _ :: d1 :: rest => Some (d1 :: d1 :: rest)
  | _ => None
  end.

(** noise-free part of one output row (bias walk and noise streams set to zero) *)
Definition sim_row (p : params) (ty : stype) (dt : Qc) (r : V3 Qc) : V3 Qc :=
  match ty with
  | Rate => add3 (mv3 (p_T p) r) (p_b p)
  | Increment => add3 (mv3 (p_T p) r) (scale3 (p_b p) dt)
  end.
Definition sim_apply (p : params) (ty : stype) (ts : list Qc) (rs : list (V3 Qc))
  : option (list (V3 Qc)) :=
  match dt_used ts with
  | Some dts => Some (map (fun dr => sim_row p ty (fst dr) (snd dr)) (combine dts rs))
  | None => None
  end.

(** ** The complete [apply], with the two random streams given as recorded arrays.

    [W] = first  [rng.randn( *readings.shape)]  (integrated into the bias),
    [N] = second [rng.randn( *readings.shape)]  (additive white noise).
    [dt ** 0.5] needs a square root: [qsqrt] returns the exact rational root, or [None] when
    there is none (then [sim_full] is undefined: the model covers exactly the time stamps on
    which the implementation's arithmetic is exact). *)
Definition mul3 (u v : V3 Qc) : V3 Qc := mk3 (c0 u * c0 v) (c1 u * c1 v) (c2 u * c2 v).

Definition qsqrt (x : Qc) : option Qc :=
  let n := Qnum (this x) in
  let d := Zpos (Qden (this x)) in
  let rn := Z.sqrt n in
  let rd := Z.sqrt d in
  if ((0 <=? n) && (rn * rn =? n) && (rd * rd =? d))%Z then Some (Q2Qc (rn # Z.to_pos rd)) else None.

Fixpoint opt_all {A} (l : list (option A)) : option (list A) :=
  match l with
  | [] => Some []
  | Some x :: r => match opt_all r with Some r' => Some (x :: r') | None => None end
  | None :: _ => None
  end.

(** np.cumsum(., axis=0) *)
Fixpoint cumsum3 (acc : V3 Qc) (l : list (V3 Qc)) : list (V3 Qc) :=
  match l with
  | [] => []
  | x :: r => let a := add3 acc x in a :: cumsum3 a r
  end.

(** bias = self.bias + self.bias_walk * np.cumsum(randn * dt ** 0.5, axis=0), dt = [dt_raw] *)
Definition walk_steps (sraw : list Qc) (W : list (V3 Qc)) : list (V3 Qc) :=
  map (fun ws => scale3 (fst ws) (snd ws)) (combine W sraw).
Definition bias_series (p : params) (sraw : list Qc) (W : list (V3 Qc)) : list (V3 Qc) :=
  map (fun c => add3 (p_b p) (mul3 (p_walk p) c)) (cumsum3 zero3 (walk_steps sraw W)).

(** coefficient of the noise sample: [dt**-0.5] (rate) or [dt**0.5] (increment), [s = dt**0.5] *)
Definition noise_coef (ty : stype) (s : Qc) : Qc :=
  match ty with Rate => / s | Increment => s end.
(** how [bias[k]] enters output row k: [+ bias] (rate) or [+ bias * dt] (increment) *)
Definition bias_term (ty : stype) (dt : Qc) (bias : V3 Qc) : V3 Qc :=
  match ty with Rate => bias | Increment => scale3 bias dt end.

Definition sim_full_row (p : params) (ty : stype) (dt s : Qc) (r bias n : V3 Qc) : V3 Qc :=
  add3 (add3 (mv3 (p_T p) r) (bias_term ty dt bias))
       (mul3 (scale3 (p_noise p) (noise_coef ty s)) n).

Fixpoint sim_rows (p : params) (ty : stype) (dts sus : list Qc) (rs bs ns : list (V3 Qc))
  : list (V3 Qc) :=
  match dts, sus, rs, bs, ns with
  | dt :: dts', s :: sus', r :: rs', b :: bs', n :: ns' =>
      sim_full_row p ty dt s r b n :: sim_rows p ty dts' sus' rs' bs' ns'
  | _, _, _, _, _ => []
  end.

(** square roots of [dt_raw] and of [dt_used] *)
Definition sqrt_raw (ts : list Qc) : option (list Qc) := opt_all (map qsqrt (dt_raw ts)).
Definition first_from_second (l : list Qc) : list Qc :=
  match l with _ :: d1 :: rest => d1 :: d1 :: rest | _ => l end.

Definition sim_full (p : params) (ty : stype) (ts : list Qc) (rs W N : list (V3 Qc))
  : option (list (V3 Qc)) :=
  match dt_used ts, sqrt_raw ts with
  | Some dts, Some sraw =>
      Some (sim_rows p ty dts (first_from_second sraw) rs (bias_series p sraw W) N)
  | _, _ => None
  end.

(** Parameters.from_EstimationModel: transform = eye(3) + scale_misal_sd * randn(3, 3),
    bias = bias_sd * randn(3); noise and bias_walk are copied. *)
Definition madd (A B : M3) : M3 := mk3 (add3 (c0 A) (c0 B)) (add3 (c1 A) (c1 B)) (add3 (c2 A) (c2 B)).
Definition mmul_el (A B : M3) : M3 := mk3 (mul3 (c0 A) (c0 B)) (mul3 (c1 A) (c1 B)) (mul3 (c2 A) (c2 B)).
Definition from_model (bias_sd noise bias_walk : V3 Qc) (sm_sd : M3) (zT : M3) (zb : V3 Qc) : params :=
  mk_params (madd ident3 (mmul_el sm_sd zT)) (mul3 bias_sd zb) noise bias_walk.

(** data_frame column names, in creation order *)
Definition pairs9 : list (nat * nat) := list_prod (seq 0 3) (seq 0 3).
Definition col_bias_en (p : params) (a : nat) : bool :=
  Qcnz (get3 a (p_b p)) || Qcnz (get3 a (p_walk p)).
Definition col_sm_en (p : params) (oi : nat * nat) : bool :=
  Qcneq (get33 (fst oi) (snd oi) (p_T p)) (delta (fst oi) (snd oi)).   (* actual != nominal *)
Definition columns (p : params) : list string :=
  map bias_name (filter (col_bias_en p) (seq 0 3))
  ++ map (fun oi => sm_name (fst oi) (snd oi)) (filter (col_sm_en p) pairs9).
(** data_frame row for a given value of the (walking) bias: bias column = bias[k, axis],
    sm column = actual - nominal *)
Definition df_row_at (p : params) (bias : V3 Qc) : list Qc :=
  map (fun a => get3 a bias) (filter (col_bias_en p) (seq 0 3))
  ++ map (fun oi => get33 (fst oi) (snd oi) (p_T p) - delta (fst oi) (snd oi))
         (filter (col_sm_en p) pairs9).
(** ... with the walk stream set to zero *)
Definition df_row (p : params) : list Qc := df_row_at p (p_b p).
Definition sim_df (p : params) (ts : list Qc) (W : list (V3 Qc)) : option (list (list Qc)) :=
  match dt_used ts, sqrt_raw ts with
  | Some _, Some sraw => Some (map (df_row_at p) (bias_series p sraw W))
  | _, _ => None
  end.

(* ------------------------------------------------------------------ *)
(** * Specification vocabulary (used in the theorem statements only) *)

(** enabled axes / entries, in loop order *)
Definition enb (bias_sd : V3 Qc) : list nat := filter (fun a => Qcpos (get3 a bias_sd)) (seq 0 3).
Definition enw (bias_sd bias_walk : V3 Qc) : list nat :=
  filter (fun a => Qcpos (get3 a bias_walk)) (enb bias_sd).
Definition enn (noise : V3 Qc) : list nat := filter (fun a => Qcpos (get3 a noise)) (seq 0 3).
Definition ensm (sm_sd : M3) : list (nat * nat) :=
  filter (fun oi => Qcpos (get33 (fst oi) (snd oi) sm_sd)) pairs9.

(** [l] paired with consecutive indices starting at [s] *)
Definition indexed {A} (s : nat) (l : list A) : list (A * nat) := combine l (seq s (List.length l)).

(** what each state was created for, in state order *)
Definition name_of (t : target) : string :=
  match t with TBias a => bias_name a | TSm o i => sm_name o i end.
Definition targets (bias_sd : V3 Qc) (sm_sd : M3) : list target :=
  map TBias (enb bias_sd) ++ map (fun oi => TSm (fst oi) (snd oi)) (ensm sm_sd).

(** the meaning the constructor's MATRICES give to state [k]: a unit of [H] in column [k] at row
    [a] makes it the bias of axis [a]; an entry [(o, i, k)] of [_scale_misal_data] makes it
    the (o, i) scale/misalignment entry. *)
Definition created_for (m : emodel) (k : nat) : option target :=
  match find (fun e => Nat.eqb (snd e) k) (H m) with
  | Some e => Some (TBias (fst e))
  | None =>
      match find (fun e => Nat.eqb (snd e) k) (scale_misal_data m) with
      | Some e => Some (TSm (fst (fst e)) (snd (fst e)))
      | None => None
      end
  end.

Definition vadd (x y : list Qc) : list Qc := map (fun ab => fst ab + snd ab) (combine x y).
Definition add_all (ts : list target) (x : list Qc) (st : est) : est :=
  fold_left (fun s tx => add_target (fst tx) (snd tx) s) (combine ts x) st.

(** state vector listing [b] and [E] (= T - I) in state order *)
Definition state_vector (bias_sd : V3 Qc) (sm_sd : M3) (b : V3 Qc) (E : M3) : list Qc :=
  map (fun a => get3 a b) (enb bias_sd) ++ map (fun oi => get33 (fst oi) (snd oi) E) (ensm sm_sd).
Definition msub (A B : M3) : M3 := mk3 (sub3 (c0 A) (c0 B)) (sub3 (c1 A) (c1 B)) (sub3 (c2 A) (c2 B)).

(** index of the bias state of axis [a] = number of enabled bias axes before it *)
Definition bias_rank (bias_sd : V3 Qc) (a : nat) : nat :=
  List.length (filter (fun a => Qcpos (get3 a bias_sd)) (seq 0 a)).
(** position of a state in the full 12-state layout: bias x,y,z then sm row-major *)
Definition key (t : target) : nat :=
  match t with TBias a => a | TSm o i => 3 + 3 * o + i end.
Definition valid_target (t : target) : Prop :=
  match t with TBias a => a < 3 | TSm o i => o < 3 /\ i < 3 end%nat.

(** [(A diag(d)^2 A^T)[r][r']] for a 0/1 matrix [A] given by its unit entries, [cols = length d]:
    the continuous-time covariance rate the filter builds from (G, q) and (J, v). *)
Definition ind (b : bool) : Qc := if b then 1 else 0.
Definition gram (A : list (nat * nat)) (d : list Qc) (r r' : nat) : Qc :=
  fold_right Qcplus 0
    (map (fun c => ind (has_entry r c A) * sq (nth c d 0) * ind (has_entry r' c A))
         (seq 0 (List.length d))).
Definition GqG (m : emodel) : nat -> nat -> Qc := gram (G m) (q m).
Definition JvJ (m : emodel) : nat -> nat -> Qc := gram (J m) (v m).

(** matrix-vector product of a dense matrix (list of rows) *)
Definition mat_vec (A : list (list Qc)) (x : list Qc) : list Qc := map (fun row => dot row x) A.
Definition v3_list (u : V3 Qc) : list Qc := [c0 u; c1 u; c2 u].

(** zero outside the enabled entries *)
Definition bias_supported (bias_sd b : V3 Qc) : Prop :=
  forall a, (a < 3)%nat -> Qcpos (get3 a bias_sd) = false -> get3 a b = 0.
Definition sm_supported (sm_sd E : M3) : Prop :=
  forall o i, (o < 3)%nat -> (i < 3)%nat -> Qcpos (get33 o i sm_sd) = false -> get33 o i E = 0.

(** sign / non-vanishing conditions on triads and matrices *)
Definition nonneg3 (u : V3 Qc) : Prop := forall a, (a < 3)%nat -> 0 <= get3 a u.
Definition nonneg33 (M : M3) : Prop := forall o i, (o < 3)%nat -> (i < 3)%nat -> 0 <= get33 o i M.
Definition nonzero3 (u : V3 Qc) : Prop := forall a, (a < 3)%nat -> get3 a u <> 0.
Definition nonzero33 (M : M3) : Prop := forall o i, (o < 3)%nat -> (i < 3)%nat -> get33 o i M <> 0.

(** run a sequence of updates *)
Fixpoint updates (m : emodel) (xs : list (list Qc)) (st : est) : option est :=
  match xs with
  | [] => Some st
  | x :: xs' => match update m x st with Some st' => updates m xs' st' | None => None end
  end.
Definition vsum (n : nat) (xs : list (list Qc)) : list Qc := fold_left vadd xs (repeat 0 n).

(** A caller that catches the ValueError of a rejected update and keeps using the model:
    [None] = raised, and a raised call has changed nothing. *)
Definition update_or_keep (m : emodel) (st : est) (x : list Qc) : est :=
  match update m x st with Some st' => st' | None => st end.
Definition run_history (m : emodel) (xs : list (list Qc)) (st : est) : est :=
  fold_left (update_or_keep m) xs st.
Definition accepted (m : emodel) (xs : list (list Qc)) : list (list Qc) :=
  filter (fun x => Nat.eqb (List.length x) (n_states m)) xs.

(* ------------------------------------------------------------------ *)
(** * Case evaluation vocabulary (used by the generated files of tools/props/C14.py only)

    Inputs are integers over a fixed power-of-two denominator; the implementation's canonical
    answers are compared inside Coq and only the indices of mismatching cases are printed. *)

Definition dy (den : positive) (k : Z) : Qc := Q2Qc (k # den).
Definition dy3 (den : positive) (a b c : Z) : V3 Qc := mk3 (dy den a) (dy den b) (dy den c).
Definition dy33 (den : positive) (a b c d e f g h i : Z) : M3 :=
  mk3 (dy3 den a b c) (dy3 den d e f) (dy3 den g h i).
Definition dyl (den : positive) (l : list Z) : list Qc := map (dy den) l.
Definition dyll (den : positive) (l : list (list Z)) : list (list Qc) := map (dyl den) l.

Definition Qc_eqb (x y : Qc) : bool := if Qc_eq_dec x y then true else false.
Fixpoint list_eqb {A} (eqb : A -> A -> bool) (l1 l2 : list A) : bool :=
  match l1, l2 with
  | [], [] => true
  | a :: r1, b :: r2 => eqb a b && list_eqb eqb r1 r2
  | _, _ => false
  end.
Definition pair_eqb (a b : nat * nat) : bool := Nat.eqb (fst a) (fst b) && Nat.eqb (snd a) (snd b).
Definition triple_eqb (a b : nat * nat * nat) : bool := pair_eqb (fst a) (fst b) && Nat.eqb (snd a) (snd b).
Definition V3_eqb (a b : V3 Qc) : bool := Qc_eqb (c0 a) (c0 b) && Qc_eqb (c1 a) (c1 b) && Qc_eqb (c2 a) (c2 b).
Definition M3_eqb (a b : M3) : bool := V3_eqb (c0 a) (c0 b) && V3_eqb (c1 a) (c1 b) && V3_eqb (c2 a) (c2 b).
Definition opt_eqb {A} (eqb : A -> A -> bool) (a b : option A) : bool :=
  match a, b with Some x, Some y => eqb x y | None, None => true | _, _ => false end.

Definition emodel_eqb (a b : emodel) : bool :=
  list_eqb String.eqb (states a) (states b) && Nat.eqb (n_states a) (n_states b)
  && Nat.eqb (n_noises a) (n_noises b) && Nat.eqb (n_output_noises a) (n_output_noises b)
  && list_eqb Qc_eqb (P a) (P b) && list_eqb Qc_eqb (q a) (q b) && list_eqb Qc_eqb (v a) (v b)
  && list_eqb pair_eqb (G a) (G b) && list_eqb pair_eqb (H a) (H b) && list_eqb pair_eqb (J a) (J b)
  && list_eqb triple_eqb (scale_misal_data a) (scale_misal_data b).

(** |a - b| <= tol, componentwise *)
Definition Qc_close (tol a b : Qc) : bool :=
  match Qccompare (a - b) tol, Qccompare (b - a) tol with
  | Gt, _ | _, Gt => false
  | _, _ => true
  end.
Definition V3_close (tol : Qc) (a b : V3 Qc) : bool :=
  Qc_close tol (c0 a) (c0 b) && Qc_close tol (c1 a) (c1 b) && Qc_close tol (c2 a) (c2 b).

(** the estimate state machine driven by a list of operations; every operation's observable
    result is compared with the implementation's.  [OUpdate x None] = the call raised. *)
Inductive op :=
| OReset
| OUpdate (x : list Qc) (raised : bool)
| OGet (expected : list Qc)
| OState (T : M3) (b : V3 Qc)                         (* self.transform, self.bias *)
| OCorrect (dt : Qc) (incs : V3 Qc) (tol : Qc) (expected : option (V3 Qc))
| OOutput (readings : V3 Qc) (expected : list (list Qc)).

Fixpoint run_ops (m : emodel) (ops : list op) (st : est) : bool :=
  match ops with
  | [] => true
  | o :: rest =>
      match o with
      | OReset => run_ops m rest reset
      | OUpdate x raised =>
          match update m x st with
          | Some st' => negb raised && run_ops m rest st'
          | None => raised && run_ops m rest st
          end
      | OGet e => opt_eqb (list_eqb Qc_eqb) (get_estimates m st) (Some e) && run_ops m rest st
      | OState T b => M3_eqb (e_T st) T && V3_eqb (e_b st) b && run_ops m rest st
      | OCorrect dt incs tol e =>
          match correct_increments st dt incs, e with
          | Some a, Some b => V3_close tol a b
          | None, None => true
          | _, _ => false
          end && run_ops m rest st
      | OOutput r e => list_eqb (list_eqb Qc_eqb) (output_matrix m r) e && run_ops m rest st
      end
  end.

(** one constructor case: arguments, the implementation's model (None = ValueError), operations *)
Record bcase := mk_bcase {
  bc_bias : V3 Qc; bc_noise : V3 Qc; bc_walk : V3 Qc; bc_sm : M3;
  bc_expected : option emodel; bc_ops : list op }.
Definition run_bcase (c : bcase) : bool :=
  match build (bc_bias c) (bc_noise c) (bc_walk c) (bc_sm c), bc_expected c with
  | Some m, Some e => emodel_eqb m e && run_ops m (bc_ops c) reset
  | None, None => true
  | _, _ => false
  end.

(** one simulator case *)
Record scase := mk_scase {
  sc_p : params; sc_ty : stype; sc_ts : list Qc; sc_rs : list (V3 Qc);
  sc_W : list (V3 Qc); sc_N : list (V3 Qc);
  sc_out : option (list (V3 Qc));              (* apply(...) values; None = raised *)
  sc_cols : list string;                       (* data_frame.columns *)
  sc_df : list (list Qc) }.                    (* data_frame.values *)
Definition run_scase (c : scase) : bool :=
  opt_eqb (list_eqb V3_eqb) (sim_full (sc_p c) (sc_ty c) (sc_ts c) (sc_rs c) (sc_W c) (sc_N c)) (sc_out c)
  && match sc_out c with
     | Some _ => list_eqb String.eqb (columns (sc_p c)) (sc_cols c)
                 && opt_eqb (list_eqb (list_eqb Qc_eqb)) (sim_df (sc_p c) (sc_ts c) (sc_W c)) (Some (sc_df c))
     | None => true
     end.

(** from_EstimationModel case *)
Record fcase := mk_fcase {
  fc_bias : V3 Qc; fc_noise : V3 Qc; fc_walk : V3 Qc; fc_sm : M3; fc_zT : M3; fc_zb : V3 Qc;
  fc_T : M3; fc_b : V3 Qc; fc_n : V3 Qc; fc_w : V3 Qc;
  fc_cols : list string }.                     (* data_frame.columns after apply *)
Definition run_fcase (c : fcase) : bool :=
  let p := from_model (fc_bias c) (fc_noise c) (fc_walk c) (fc_sm c) (fc_zT c) (fc_zb c) in
  M3_eqb (p_T p) (fc_T c) && V3_eqb (p_b p) (fc_b c) && V3_eqb (p_noise p) (fc_n c) && V3_eqb (p_walk p) (fc_w c)
  && list_eqb String.eqb (columns p) (fc_cols c).

(** indices of the cases on which [f] is false *)
Definition mismatches {A} (f : A -> bool) (cases : list A) : list nat :=
  map snd (filter (fun cn => negb (f (fst cn))) (combine cases (seq 0 (List.length cases)))).
