(** Executable model of [pyins.strapdown.Integrator] (C02, history part of C13).

    Definitions only.  The model follows [Integrator.__init__], [_integrate],
    [integrate], [predict], [get_time], [get_pva], [set_pva] line by line; the
    numerical content is abstract:

      brow      one row of the three internal buffers (lla, velocity_n, mat_nb)
      prow      one public trajectory row (lat lon alt VN VE VD roll pitch heading)
      inc       one increment row (dt, theta, dv) together with its index label
      time      index labels
      kstep b r i   the row j+1 that [_numba_integrate.integrate] writes from row j = r and
                    increment i  (b = with_altitude)
      to_pub    hstack (lla, velocity_n, mat_to_rph mat_nb)
      of_pub    (pva[LLA], pva[VEL], mat_from_rph pva[RPH])
      zero_vd   pva.copy(); pva.VD = 0.0
      garbage   contents of a never-written buffer cell (np.empty / ndarray.resize)

    Every index computation of the code is kept; a read or write outside the
    buffer (silent memory corruption in the compiled kernel, IndexError in numpy)
    is the explicit result [None], so that "all accesses are in bounds" is a
    theorem (Proofs/IntegratorProofs.v) and not an artefact of totalisation. *)
From Coq Require Import List Arith Bool ZArith.
Import ListNotations.

(** * List helpers *)

(** [l[i] = x] with bounds check. *)
Fixpoint upd {A : Type} (l : list A) (i : nat) (x : A) : option (list A) :=
  match l with
  | [] => None
  | h :: t =>
      match i with
      | O => Some (x :: t)
      | S i' => match upd t i' x with
                | Some t' => Some (h :: t')
                | None => None
                end
      end
  end.

(** [l[-k:]] (slices clip). *)
Definition lastn {A : Type} (k : nat) (l : list A) : list A := skipn (length l - k) l.

(** [l[-1]]. *)
Fixpoint last_opt {A : Type} (l : list A) : option A :=
  match l with
  | [] => None
  | x :: t => match t with [] => Some x | _ :: _ => last_opt t end
  end.

(** running fold without the seed: [scanl f a [b1;b2]] = [[f a b1; f (f a b1) b2]]. *)
Fixpoint scanl {A B : Type} (f : A -> B -> A) (a : A) (l : list B) : list A :=
  match l with
  | [] => []
  | b :: t => f a b :: scanl f (f a b) t
  end.

Section Integrator.
  Variables brow prow inc time : Type.
  Variable kstep : bool -> brow -> inc -> brow.
  Variable to_pub : brow -> prow.
  Variable of_pub : prow -> brow.
  Variable zero_vd : prow -> prow.
  Variable inc_time : inc -> time.
  Variable garbage : brow.

  (** [traj]: the DataFrame [self.trajectory], oldest row first.
      [buf]: the three arrays [lla], [velocity_n], [mat_nb] row by row;
      [length buf] is the allocated capacity. *)
  Record state := mkState {
    with_alt : bool;
    traj : list (time * prow);
    buf : list brow
  }.

  Inductive op :=
  | Integrate (chunk : list inc)
  | Predict (i : inc)
  | GetPva
  | GetTime
  | SetPva (p : prow).

  Inductive obs :=
  | OFrame (rows : list (time * prow))   (* DataFrame returned by integrate *)
  | ORow (row : time * prow)             (* Series (name = index label) of predict / get_pva *)
  | OTime (t : time)
  | OUnit.

  (** what the constructor and [set_pva] store for a supplied pva *)
  Definition supplied (b : bool) (p : prow) : prow := if b then p else zero_vd p.

  (** [__init__] with [INITIAL_SIZE = cap0] and [pva.name = t0]:
      buffers = np.empty(cap0); buffers[0] = ...; trajectory = one row. *)
  Definition init (b : bool) (cap0 : nat) (t0 : time) (p : prow) : option state :=
    let p0 := supplied b p in
    match upd (repeat garbage cap0) 0 (of_pub p0) with
    | None => None
    | Some bf => Some (mkState b [(t0, p0)] bf)
    end.

  (** [_numba_integrate.integrate]: for i in range(len(theta)): j = i + offset;
      row j+1 := kstep (row j) (increment i). *)
  Fixpoint kernel (b : bool) (bf : list brow) (j : nat) (chunk : list inc)
    : option (list brow) :=
    match chunk with
    | [] => Some bf
    | i :: rest =>
        match nth_error bf j with
        | None => None
        | Some r =>
            match upd bf (S j) (kstep b r i) with
            | None => None
            | Some bf' => kernel b bf' (S j) rest
            end
        end
    end.

  (** ndarray.resize((new_size, ...)) when required_size > size: prefix kept. *)
  Definition grow (bf : list brow) (required : nat) : list brow :=
    let size := length bf in
    if size <? required
    then bf ++ repeat garbage (Nat.max (2 * size) required - size)
    else bf.

  (** Common part of [_integrate]: returns the new buffers and the DataFrame
      [trajectory] built from rows [n_data : n_data + n_readings]. *)
  Definition integrate_core (s : state) (chunk : list inc)
    : option (list brow * list (time * prow)) :=
    let n_data := length (traj s) in
    let n_readings := length chunk in
    let required := n_data + n_readings in
    let bf := grow (buf s) required in
    match n_data with
    | O => None                                   (* offset would be -1 *)
    | S offset =>
        match kernel (with_alt s) bf offset chunk with
        | None => None
        | Some bf' =>
            let rows := firstn n_readings (skipn n_data bf') in
            if length rows =? n_readings        (* hstack / index lengths must agree *)
            then Some (bf', combine (map inc_time chunk) (map to_pub rows))
            else None
        end
    end.

  Definition step (s : state) (o : op) : option (state * obs) :=
    match o with
    | Integrate chunk =>
        match integrate_core s chunk with
        | None => None
        | Some (bf', rows) =>
            let tr := traj s ++ rows in                         (* pd.concat *)
            Some (mkState (with_alt s) tr bf',
                  OFrame (lastn (S (length chunk)) tr))         (* iloc[-n_readings-1:] *)
        end
    | Predict i =>
        match integrate_core s [i] with
        | None => None
        | Some (bf', rows) =>
            match rows with
            | [] => None
            | r :: _ => Some (mkState (with_alt s) (traj s) bf', ORow r)   (* .iloc[0] *)
            end
        end
    | GetPva =>
        match last_opt (traj s) with
        | None => None
        | Some r => Some (s, ORow r)
        end
    | GetTime =>
        match last_opt (traj s) with
        | None => None
        | Some r => Some (s, OTime (fst r))
        end
    | SetPva p =>
        match length (traj s) with
        | O => None
        | S i =>
            let p' := supplied (with_alt s) p in
            match nth_error (traj s) i with
            | None => None
            | Some old =>
                match upd (buf s) i (of_pub p'), upd (traj s) i (fst old, p') with
                | Some bf', Some tr' => Some (mkState (with_alt s) tr' bf', OUnit)
                | _, _ => None
                end
            end
        end
    end.

  Fixpoint run (s : state) (ops : list op) : option (state * list obs) :=
    match ops with
    | [] => Some (s, [])
    | o :: rest =>
        match step s o with
        | None => None
        | Some (s1, ob) =>
            match run s1 rest with
            | None => None
            | Some (s2, obs) => Some (s2, ob :: obs)
            end
        end
    end.

  (** constructor followed by a history *)
  Definition run_init (b : bool) (cap0 : nat) (t0 : time) (p : prow) (ops : list op)
    : option (state * list obs) :=
    match init b cap0 t0 p with
    | None => None
    | Some s => run s ops
    end.

  (** ** History erasure (used by the statements of the theorems) *)

  (** all integrated increments, in order *)
  Fixpoint all_incs (ops : list op) : list inc :=
    match ops with
    | [] => []
    | Integrate c :: rest => c ++ all_incs rest
    | _ :: rest => all_incs rest
    end.

  Definition is_setpva (o : op) : bool := match o with SetPva _ => true | _ => false end.
  Definition is_predict (o : op) : bool := match o with Predict _ => true | _ => false end.

  (** the most recently supplied pva (constructor argument [p] if no [SetPva]) *)
  Fixpoint latest_pva (p : prow) (ops : list op) : prow :=
    match ops with
    | [] => p
    | SetPva q :: rest => latest_pva q rest
    | _ :: rest => latest_pva p rest
    end.

  (** increments integrated after the most recent supply *)
  Fixpoint incs_since (acc : list inc) (ops : list op) : list inc :=
    match ops with
    | [] => acc
    | Integrate c :: rest => incs_since (acc ++ c) rest
    | SetPva _ :: rest => incs_since [] rest
    | _ :: rest => incs_since acc rest
    end.

  (** the rows a sequence of increments produces from buffer row [r] *)
  Definition rows_from (b : bool) (r : brow) (incs : list inc) : list (time * prow) :=
    combine (map inc_time incs) (map to_pub (scanl (kstep b) r incs)).

  (** observations of all operations that are not [Predict] *)
  Fixpoint obs_without_predict (ops : list op) (os : list obs) : list obs :=
    match ops, os with
    | o :: ops', x :: os' =>
        if is_predict o then obs_without_predict ops' os'
        else x :: obs_without_predict ops' os'
    | _, _ => []
    end.

  (** ** Predicates used by the statements of the theorems *)

  (** Buffer row [r] and trajectory row [tp] describe the same state: [tp] was
      produced from [r], or [r] was filled from the supplied [tp]. *)
  Definition row_ok (r : brow) (tp : time * prow) : Prop :=
    snd tp = to_pub r \/ r = of_pub (snd tp).

  (** rows [0 .. n_data-1] of the buffer exist and match the trajectory *)
  Definition valid_prefix (s : state) : Prop :=
    Forall2 row_ok (firstn (length (traj s)) (buf s)) (traj s).

  (** the invariant of every reachable state *)
  Definition Inv (s : state) : Prop := 1 <= length (traj s) /\ valid_prefix s.

  (** equality up to everything the code can never read again: cells at index
      >= length traj (dirtied by [predict], or garbage) and the capacity *)
  Definition equiv (s1 s2 : state) : Prop :=
    with_alt s1 = with_alt s2 /\ traj s1 = traj s2 /\
    firstn (length (traj s1)) (buf s1) = firstn (length (traj s2)) (buf s2).
End Integrator.

Arguments mkState {brow prow time} _ _ _.
Arguments with_alt {brow prow time} _.
Arguments traj {brow prow time} _.
Arguments buf {brow prow time} _.
Arguments Integrate {prow inc} _.
Arguments Predict {prow inc} _.
Arguments GetPva {prow inc}.
Arguments GetTime {prow inc}.
Arguments SetPva {prow inc} _.
Arguments OFrame {prow time} _.
Arguments ORow {prow time} _.
Arguments OTime {prow time} _.
Arguments OUnit {prow time}.
Arguments supplied {prow} zero_vd b p.
Arguments init {brow prow time} of_pub zero_vd garbage b cap0 t0 p.
Arguments kernel {brow inc} kstep b bf j chunk.
Arguments grow {brow} garbage bf required.
Arguments integrate_core {brow prow inc time} kstep to_pub inc_time garbage s chunk.
Arguments step {brow prow inc time} kstep to_pub of_pub zero_vd inc_time garbage s o.
Arguments run {brow prow inc time} kstep to_pub of_pub zero_vd inc_time garbage s ops.
Arguments run_init {brow prow inc time} kstep to_pub of_pub zero_vd inc_time garbage b cap0 t0 p ops.
Arguments all_incs {prow inc} ops.
Arguments is_setpva {prow inc} o.
Arguments is_predict {prow inc} o.
Arguments latest_pva {prow inc} p ops.
Arguments incs_since {prow inc} acc ops.
Arguments rows_from {brow prow inc time} kstep to_pub inc_time b r incs.
Arguments obs_without_predict {prow inc time} ops os.
Arguments row_ok {brow prow time} to_pub of_pub r tp.
Arguments valid_prefix {brow prow time} to_pub of_pub s.
Arguments Inv {brow prow time} to_pub of_pub s.
Arguments equiv {brow prow time} s1 s2.

(** * Free-algebra instance: running the model yields the provenance of every row *)

Inductive bterm :=
| BStep (alt : bool) (r : bterm) (inc_id : nat)   (* one kernel step *)
| BOfPub (p : pterm)                              (* (lla, vel, mat_from_rph rph) *)
| BGarbage                                        (* never written *)
with pterm :=
| PToPub (r : bterm)                              (* (lla, vel, mat_to_rph mat) *)
| PGiven (id : nat)                               (* a pva supplied by the caller *)
| PZeroVd (p : pterm).                            (* copy with VD := 0.0 *)

Fixpoint bterm_eqb (a b : bterm) : bool :=
  match a, b with
  | BStep f r i, BStep f' r' i' => Bool.eqb f f' && Nat.eqb i i' && bterm_eqb r r'
  | BOfPub p, BOfPub p' => pterm_eqb p p'
  | BGarbage, BGarbage => true
  | _, _ => false
  end
with pterm_eqb (a b : pterm) : bool :=
  match a, b with
  | PToPub r, PToPub r' => bterm_eqb r r'
  | PGiven i, PGiven i' => Nat.eqb i i'
  | PZeroVd p, PZeroVd p' => pterm_eqb p p'
  | _, _ => false
  end.

(** increment = (identifier in the harness's table, index label) *)
Definition tinc : Type := (nat * Z)%type.
Definition trow : Type := (Z * pterm)%type.
Definition tstate : Type := state bterm pterm Z.
Definition top : Type := op pterm tinc.
Definition tobs : Type := obs pterm Z.

Definition t_kstep (b : bool) (r : bterm) (i : tinc) : bterm := BStep b r (fst i).
Definition t_time (i : tinc) : Z := snd i.

Definition t_init := init BOfPub PZeroVd BGarbage (time := Z).
Definition t_step : tstate -> top -> option (tstate * tobs) :=
  step t_kstep PToPub BOfPub PZeroVd t_time BGarbage.
Definition t_run : tstate -> list top -> option (tstate * list tobs) :=
  run t_kstep PToPub BOfPub PZeroVd t_time BGarbage.
Definition t_run_init : bool -> nat -> Z -> pterm -> list top -> option (tstate * list tobs) :=
  run_init t_kstep PToPub BOfPub PZeroVd t_time BGarbage.

(** ** Comparison against the expected provenance supplied by the harness *)

Fixpoint list_eqb {A : Type} (eqb : A -> A -> bool) (l1 l2 : list A) : bool :=
  match l1, l2 with
  | [], [] => true
  | x :: t1, y :: t2 => eqb x y && list_eqb eqb t1 t2
  | _, _ => false
  end.

Definition trow_eqb (a b : trow) : bool := Z.eqb (fst a) (fst b) && pterm_eqb (snd a) (snd b).

Definition tobs_eqb (a b : tobs) : bool :=
  match a, b with
  | OFrame r, OFrame r' => list_eqb trow_eqb r r'
  | ORow r, ORow r' => trow_eqb r r'
  | OTime t, OTime t' => Z.eqb t t'
  | OUnit, OUnit => true
  | _, _ => false
  end.

Definition is_garbage (r : bterm) : bool := match r with BGarbage => true | _ => false end.

(** One correspondence case: a constructor call, a history, and what the
    harness expects (derived from the real object): the final trajectory, every
    return value, the final capacity, and the written part of the buffer (all
    cells after [e_buf] must never have been written). [e_err]: the
    implementation raised (only for [INITIAL_SIZE = 0]). *)
Record tcase := mkCase {
  c_alt : bool; c_cap : Z; c_t0 : Z; c_p0 : nat; c_ops : list top;
  e_err : bool;
  e_traj : list trow; e_obs : list tobs; e_cap : Z; e_buf : list bterm
}.

(** 0 = agreement; otherwise the first component that differs. *)
Definition check_case (c : tcase) : nat :=
  match t_run_init (c_alt c) (Z.to_nat (c_cap c)) (c_t0 c) (PGiven (c_p0 c)) (c_ops c) with
  | None => if e_err c then 0 else 1
  | Some (s, os) =>
      if e_err c then 1
      else if negb (list_eqb trow_eqb (traj s) (e_traj c)) then 2
      else if negb (list_eqb tobs_eqb os (e_obs c)) then 3
      else if negb (Z.eqb (Z.of_nat (length (buf s))) (e_cap c)) then 4
      else if negb (list_eqb bterm_eqb (firstn (length (e_buf c)) (buf s)) (e_buf c)) then 5
      else if negb (forallb is_garbage (skipn (length (e_buf c)) (buf s))) then 6
      else if negb (Bool.eqb (with_alt s) (c_alt c)) then 7
      else 0
  end.

(** * A small numeric instance (used by the non-vacuity examples of C02/C13)

    rows are (altitude, vertical velocity); an increment is its own time step;
    the 2D step sets VD := 0 and moves the altitude by the mean vertical velocity. *)
Definition toy_row : Type := (Z * Z)%type.
Definition toy_kstep (b : bool) (r : toy_row) (dt : Z) : toy_row :=
  if b then (fst r - snd r * dt, snd r + dt)%Z
  else (fst r - (snd r + 0) * dt, 0)%Z.
Definition toy_zero_vd (p : toy_row) : toy_row := (fst p, 0%Z).
Definition toy_run_init :=
  run_init toy_kstep (fun r : toy_row => r) (fun p : toy_row => p) toy_zero_vd
           (fun dt : Z => dt) (0%Z, 0%Z).
