(** Hand-written, structured transcription of ONE iteration of the loop of
    pyins._numba_integrate.integrate (with_altitude = True).

    Definitions only.  Proofs/C01Proofs.v proves the characterising lemmas
      step3d_<out> ... = hand_<out> ...
    against the GENERATED Gen/NumbaIntegrate.v (the only place where the generated text is
    unfolded); all analysis is then done on this model, whose syntactic shape is ours.

    The attitude product [h_att] is parametric in the rotation-vector-to-matrix map (entries
    passed as functions R -> R -> R -> R); the full step instantiates it with the generated
    [mat_from_rotvec_mij], which the proofs treat through its characterisation near 0 only. *)
From Coq Require Import Reals.
From PV Require Import Base.RealTac Gen.NumbaIntegrate.
Open Scope R_scope.

(** ** Slowly varying quantities: functions of the OLD latitude / altitude only *)
Definition h_sin (lat : R) : R := sin (lat * (PI / 180)).
Definition h_cos (lat : R) : R := sqrt (1 - h_sin lat * h_sin lat).
Definition h_tan (lat : R) : R := h_sin lat / h_cos lat.
Definition h_x (lat : R) : R := 1 - E2_ * h_sin lat * h_sin lat.
Definition h_w (lat : R) : R := sqrt (h_x lat).
Definition h_re0 (lat : R) : R := A_ / h_w lat.
Definition h_rn (lat alt : R) : R := h_re0 lat * (1 - E2_) / h_x lat + alt.
Definition h_re (lat alt : R) : R := h_re0 lat + alt.
Definition h_Om1 (lat : R) : R := RATE_ * h_cos lat.
Definition h_Om2 (lat : R) : R := 0.
Definition h_Om3 (lat : R) : R := - RATE_ * h_sin lat.

(** gravity(lat, alt) of _numba_integrate.py: value on the ellipsoid times the height factor *)
Definition h_g0 (lat : R) : R :=
  GE_ * (1 + FG_ * (h_sin lat * h_sin lat)) / h_w lat.
Definition h_gravity (lat alt : R) : R := h_g0 lat * (1 - 2 * alt / A_).

(** transport rate rho and chi = Omega + rho for a given horizontal velocity *)
Definition h_rho1 (lat alt VE : R) : R := VE / h_re lat alt.
Definition h_rho2 (lat alt VN : R) : R := - VN / h_rn lat alt.
Definition h_rho3 (lat alt VE : R) : R := - h_rho1 lat alt VE * h_tan lat.
Definition h_chi1 (lat alt VE : R) : R := h_Om1 lat + h_rho1 lat alt VE.
Definition h_chi2 (lat alt VN : R) : R := h_Om2 lat + h_rho2 lat alt VN.
Definition h_chi3 (lat alt VE : R) : R := h_Om3 lat + h_rho3 lat alt VE.

(** dv_n = C dv  (np.dot(mat_nb[j], dv[i], dv_n)) *)
Definition h_dvn (Ci0 Ci1 Ci2 dv0 dv1 dv2 : R) : R := Ci0 * dv0 + Ci1 * dv1 + Ci2 * dv2.

(** ** Velocity update (a1 a2 a3 = dv_n) *)
Definition h_newVN (dt lat alt VN VE VD a1 a2 a3 : R) : R :=
  VN + a1 + (- (h_chi2 lat alt VN + h_Om2 lat) * VD
             + (h_chi3 lat alt VE + h_Om3 lat) * VE
             - 1 / 2 * (h_chi2 lat alt VN * a3 - h_chi3 lat alt VE * a2)) * dt.
Definition h_newVE (dt lat alt VN VE VD a1 a2 a3 : R) : R :=
  VE + a2 + (- (h_chi3 lat alt VE + h_Om3 lat) * VN
             + (h_chi1 lat alt VE + h_Om1 lat) * VD
             - 1 / 2 * (h_chi3 lat alt VE * a1 - h_chi1 lat alt VE * a3)) * dt.
Definition h_newVD (dt lat alt VN VE VD a1 a2 a3 : R) : R :=
  VD + a3 + (- (h_chi1 lat alt VE + h_Om1 lat) * VE
             + (h_chi2 lat alt VN + h_Om2 lat) * VN
             - 1 / 2 * (h_chi1 lat alt VE * a2 - h_chi2 lat alt VN * a1)
             + h_gravity lat (alt - 1 / 2 * VD * dt)) * dt.

(** ** Position update with the averaged velocity (trapezoid rule) *)
Definition h_avg (a b : R) : R := 1 / 2 * (a + b).
Definition h_newlat (dt lat alt VNa : R) : R := lat - 180 / PI * h_rho2 lat alt VNa * dt.
Definition h_newlon (dt lat lon alt VEa : R) : R := lon + 180 / PI * h_rho1 lat alt VEa / h_cos lat * dt.
Definition h_newalt (dt alt VDa : R) : R := alt - VDa * dt.

(** ** Attitude update  C_new = dBn (C dBb),  dBn = R(xi), xi = - chi(averaged velocity) dt,  dBb = R(theta) *)
Definition h_xi1 (dt lat alt VEa : R) : R := - h_chi1 lat alt VEa * dt.
Definition h_xi2 (dt lat alt VNa : R) : R := - h_chi2 lat alt VNa * dt.
Definition h_xi3 (dt lat alt VEa : R) : R := - h_chi3 lat alt VEa * dt.

(** entry of a 3x3 product: row (a0 a1 a2) times column (b0 b1 b2) *)
Definition h_rc (a0 a1 a2 b0 b1 b2 : R) : R := a0 * b0 + a1 * b1 + a2 * b2.

(** entry (i,j) of dBn (C dBb): row i of R(xi) = (Ma Mb Mc)(xi), column j of R(theta) = (Mx My Mz)(theta) *)
Definition h_att (Ma Mb Mc Mx My Mz : R -> R -> R -> R)
                 (x1 x2 x3 C00 C01 C02 C10 C11 C12 C20 C21 C22 th0 th1 th2 : R) : R :=
  h_rc (Ma x1 x2 x3) (Mb x1 x2 x3) (Mc x1 x2 x3)
       (h_rc C00 C01 C02 (Mx th0 th1 th2) (My th0 th1 th2) (Mz th0 th1 th2))
       (h_rc C10 C11 C12 (Mx th0 th1 th2) (My th0 th1 th2) (Mz th0 th1 th2))
       (h_rc C20 C21 C22 (Mx th0 th1 th2) (My th0 th1 th2) (Mz th0 th1 th2)).

(** ** The full step: 15 outputs over the argument list of the generated step3d_<out> *)
Definition hand_VN (dt lat lon alt VN VE VD C00 C01 C02 C10 C11 C12 C20 C21 C22 th0 th1 th2 dv0 dv1 dv2 : R) : R :=
  h_newVN dt lat alt VN VE VD (h_dvn C00 C01 C02 dv0 dv1 dv2) (h_dvn C10 C11 C12 dv0 dv1 dv2) (h_dvn C20 C21 C22 dv0 dv1 dv2).
Definition hand_VE (dt lat lon alt VN VE VD C00 C01 C02 C10 C11 C12 C20 C21 C22 th0 th1 th2 dv0 dv1 dv2 : R) : R :=
  h_newVE dt lat alt VN VE VD (h_dvn C00 C01 C02 dv0 dv1 dv2) (h_dvn C10 C11 C12 dv0 dv1 dv2) (h_dvn C20 C21 C22 dv0 dv1 dv2).
Definition hand_VD (dt lat lon alt VN VE VD C00 C01 C02 C10 C11 C12 C20 C21 C22 th0 th1 th2 dv0 dv1 dv2 : R) : R :=
  h_newVD dt lat alt VN VE VD (h_dvn C00 C01 C02 dv0 dv1 dv2) (h_dvn C10 C11 C12 dv0 dv1 dv2) (h_dvn C20 C21 C22 dv0 dv1 dv2).

(* averaged velocity 0.5 (V_old + V_new) *)
Definition hand_VNa (dt lat lon alt VN VE VD C00 C01 C02 C10 C11 C12 C20 C21 C22 th0 th1 th2 dv0 dv1 dv2 : R) : R := h_avg VN (hand_VN dt lat lon alt VN VE VD C00 C01 C02 C10 C11 C12 C20 C21 C22 th0 th1 th2 dv0 dv1 dv2).
Definition hand_VEa (dt lat lon alt VN VE VD C00 C01 C02 C10 C11 C12 C20 C21 C22 th0 th1 th2 dv0 dv1 dv2 : R) : R := h_avg VE (hand_VE dt lat lon alt VN VE VD C00 C01 C02 C10 C11 C12 C20 C21 C22 th0 th1 th2 dv0 dv1 dv2).
Definition hand_VDa (dt lat lon alt VN VE VD C00 C01 C02 C10 C11 C12 C20 C21 C22 th0 th1 th2 dv0 dv1 dv2 : R) : R := h_avg VD (hand_VD dt lat lon alt VN VE VD C00 C01 C02 C10 C11 C12 C20 C21 C22 th0 th1 th2 dv0 dv1 dv2).

Definition hand_lat (dt lat lon alt VN VE VD C00 C01 C02 C10 C11 C12 C20 C21 C22 th0 th1 th2 dv0 dv1 dv2 : R) : R := h_newlat dt lat alt (hand_VNa dt lat lon alt VN VE VD C00 C01 C02 C10 C11 C12 C20 C21 C22 th0 th1 th2 dv0 dv1 dv2).
Definition hand_lon (dt lat lon alt VN VE VD C00 C01 C02 C10 C11 C12 C20 C21 C22 th0 th1 th2 dv0 dv1 dv2 : R) : R := h_newlon dt lat lon alt (hand_VEa dt lat lon alt VN VE VD C00 C01 C02 C10 C11 C12 C20 C21 C22 th0 th1 th2 dv0 dv1 dv2).
Definition hand_alt (dt lat lon alt VN VE VD C00 C01 C02 C10 C11 C12 C20 C21 C22 th0 th1 th2 dv0 dv1 dv2 : R) : R := h_newalt dt alt (hand_VDa dt lat lon alt VN VE VD C00 C01 C02 C10 C11 C12 C20 C21 C22 th0 th1 th2 dv0 dv1 dv2).

Definition hand_xi1 (dt lat lon alt VN VE VD C00 C01 C02 C10 C11 C12 C20 C21 C22 th0 th1 th2 dv0 dv1 dv2 : R) : R := h_xi1 dt lat alt (hand_VEa dt lat lon alt VN VE VD C00 C01 C02 C10 C11 C12 C20 C21 C22 th0 th1 th2 dv0 dv1 dv2).
Definition hand_xi2 (dt lat lon alt VN VE VD C00 C01 C02 C10 C11 C12 C20 C21 C22 th0 th1 th2 dv0 dv1 dv2 : R) : R := h_xi2 dt lat alt (hand_VNa dt lat lon alt VN VE VD C00 C01 C02 C10 C11 C12 C20 C21 C22 th0 th1 th2 dv0 dv1 dv2).
Definition hand_xi3 (dt lat lon alt VN VE VD C00 C01 C02 C10 C11 C12 C20 C21 C22 th0 th1 th2 dv0 dv1 dv2 : R) : R := h_xi3 dt lat alt (hand_VEa dt lat lon alt VN VE VD C00 C01 C02 C10 C11 C12 C20 C21 C22 th0 th1 th2 dv0 dv1 dv2).

Definition hand_C00 (dt lat lon alt VN VE VD C00 C01 C02 C10 C11 C12 C20 C21 C22 th0 th1 th2 dv0 dv1 dv2 : R) : R :=
  h_att mat_from_rotvec_m00 mat_from_rotvec_m01 mat_from_rotvec_m02 mat_from_rotvec_m00 mat_from_rotvec_m10 mat_from_rotvec_m20
        (hand_xi1 dt lat lon alt VN VE VD C00 C01 C02 C10 C11 C12 C20 C21 C22 th0 th1 th2 dv0 dv1 dv2) (hand_xi2 dt lat lon alt VN VE VD C00 C01 C02 C10 C11 C12 C20 C21 C22 th0 th1 th2 dv0 dv1 dv2) (hand_xi3 dt lat lon alt VN VE VD C00 C01 C02 C10 C11 C12 C20 C21 C22 th0 th1 th2 dv0 dv1 dv2)
        C00 C01 C02 C10 C11 C12 C20 C21 C22 th0 th1 th2.
Definition hand_C01 (dt lat lon alt VN VE VD C00 C01 C02 C10 C11 C12 C20 C21 C22 th0 th1 th2 dv0 dv1 dv2 : R) : R :=
  h_att mat_from_rotvec_m00 mat_from_rotvec_m01 mat_from_rotvec_m02 mat_from_rotvec_m01 mat_from_rotvec_m11 mat_from_rotvec_m21
        (hand_xi1 dt lat lon alt VN VE VD C00 C01 C02 C10 C11 C12 C20 C21 C22 th0 th1 th2 dv0 dv1 dv2) (hand_xi2 dt lat lon alt VN VE VD C00 C01 C02 C10 C11 C12 C20 C21 C22 th0 th1 th2 dv0 dv1 dv2) (hand_xi3 dt lat lon alt VN VE VD C00 C01 C02 C10 C11 C12 C20 C21 C22 th0 th1 th2 dv0 dv1 dv2)
        C00 C01 C02 C10 C11 C12 C20 C21 C22 th0 th1 th2.
Definition hand_C02 (dt lat lon alt VN VE VD C00 C01 C02 C10 C11 C12 C20 C21 C22 th0 th1 th2 dv0 dv1 dv2 : R) : R :=
  h_att mat_from_rotvec_m00 mat_from_rotvec_m01 mat_from_rotvec_m02 mat_from_rotvec_m02 mat_from_rotvec_m12 mat_from_rotvec_m22
        (hand_xi1 dt lat lon alt VN VE VD C00 C01 C02 C10 C11 C12 C20 C21 C22 th0 th1 th2 dv0 dv1 dv2) (hand_xi2 dt lat lon alt VN VE VD C00 C01 C02 C10 C11 C12 C20 C21 C22 th0 th1 th2 dv0 dv1 dv2) (hand_xi3 dt lat lon alt VN VE VD C00 C01 C02 C10 C11 C12 C20 C21 C22 th0 th1 th2 dv0 dv1 dv2)
        C00 C01 C02 C10 C11 C12 C20 C21 C22 th0 th1 th2.
Definition hand_C10 (dt lat lon alt VN VE VD C00 C01 C02 C10 C11 C12 C20 C21 C22 th0 th1 th2 dv0 dv1 dv2 : R) : R :=
  h_att mat_from_rotvec_m10 mat_from_rotvec_m11 mat_from_rotvec_m12 mat_from_rotvec_m00 mat_from_rotvec_m10 mat_from_rotvec_m20
        (hand_xi1 dt lat lon alt VN VE VD C00 C01 C02 C10 C11 C12 C20 C21 C22 th0 th1 th2 dv0 dv1 dv2) (hand_xi2 dt lat lon alt VN VE VD C00 C01 C02 C10 C11 C12 C20 C21 C22 th0 th1 th2 dv0 dv1 dv2) (hand_xi3 dt lat lon alt VN VE VD C00 C01 C02 C10 C11 C12 C20 C21 C22 th0 th1 th2 dv0 dv1 dv2)
        C00 C01 C02 C10 C11 C12 C20 C21 C22 th0 th1 th2.
Definition hand_C11 (dt lat lon alt VN VE VD C00 C01 C02 C10 C11 C12 C20 C21 C22 th0 th1 th2 dv0 dv1 dv2 : R) : R :=
  h_att mat_from_rotvec_m10 mat_from_rotvec_m11 mat_from_rotvec_m12 mat_from_rotvec_m01 mat_from_rotvec_m11 mat_from_rotvec_m21
        (hand_xi1 dt lat lon alt VN VE VD C00 C01 C02 C10 C11 C12 C20 C21 C22 th0 th1 th2 dv0 dv1 dv2) (hand_xi2 dt lat lon alt VN VE VD C00 C01 C02 C10 C11 C12 C20 C21 C22 th0 th1 th2 dv0 dv1 dv2) (hand_xi3 dt lat lon alt VN VE VD C00 C01 C02 C10 C11 C12 C20 C21 C22 th0 th1 th2 dv0 dv1 dv2)
        C00 C01 C02 C10 C11 C12 C20 C21 C22 th0 th1 th2.
Definition hand_C12 (dt lat lon alt VN VE VD C00 C01 C02 C10 C11 C12 C20 C21 C22 th0 th1 th2 dv0 dv1 dv2 : R) : R :=
  h_att mat_from_rotvec_m10 mat_from_rotvec_m11 mat_from_rotvec_m12 mat_from_rotvec_m02 mat_from_rotvec_m12 mat_from_rotvec_m22
        (hand_xi1 dt lat lon alt VN VE VD C00 C01 C02 C10 C11 C12 C20 C21 C22 th0 th1 th2 dv0 dv1 dv2) (hand_xi2 dt lat lon alt VN VE VD C00 C01 C02 C10 C11 C12 C20 C21 C22 th0 th1 th2 dv0 dv1 dv2) (hand_xi3 dt lat lon alt VN VE VD C00 C01 C02 C10 C11 C12 C20 C21 C22 th0 th1 th2 dv0 dv1 dv2)
        C00 C01 C02 C10 C11 C12 C20 C21 C22 th0 th1 th2.
Definition hand_C20 (dt lat lon alt VN VE VD C00 C01 C02 C10 C11 C12 C20 C21 C22 th0 th1 th2 dv0 dv1 dv2 : R) : R :=
  h_att mat_from_rotvec_m20 mat_from_rotvec_m21 mat_from_rotvec_m22 mat_from_rotvec_m00 mat_from_rotvec_m10 mat_from_rotvec_m20
        (hand_xi1 dt lat lon alt VN VE VD C00 C01 C02 C10 C11 C12 C20 C21 C22 th0 th1 th2 dv0 dv1 dv2) (hand_xi2 dt lat lon alt VN VE VD C00 C01 C02 C10 C11 C12 C20 C21 C22 th0 th1 th2 dv0 dv1 dv2) (hand_xi3 dt lat lon alt VN VE VD C00 C01 C02 C10 C11 C12 C20 C21 C22 th0 th1 th2 dv0 dv1 dv2)
        C00 C01 C02 C10 C11 C12 C20 C21 C22 th0 th1 th2.
Definition hand_C21 (dt lat lon alt VN VE VD C00 C01 C02 C10 C11 C12 C20 C21 C22 th0 th1 th2 dv0 dv1 dv2 : R) : R :=
  h_att mat_from_rotvec_m20 mat_from_rotvec_m21 mat_from_rotvec_m22 mat_from_rotvec_m01 mat_from_rotvec_m11 mat_from_rotvec_m21
        (hand_xi1 dt lat lon alt VN VE VD C00 C01 C02 C10 C11 C12 C20 C21 C22 th0 th1 th2 dv0 dv1 dv2) (hand_xi2 dt lat lon alt VN VE VD C00 C01 C02 C10 C11 C12 C20 C21 C22 th0 th1 th2 dv0 dv1 dv2) (hand_xi3 dt lat lon alt VN VE VD C00 C01 C02 C10 C11 C12 C20 C21 C22 th0 th1 th2 dv0 dv1 dv2)
        C00 C01 C02 C10 C11 C12 C20 C21 C22 th0 th1 th2.
Definition hand_C22 (dt lat lon alt VN VE VD C00 C01 C02 C10 C11 C12 C20 C21 C22 th0 th1 th2 dv0 dv1 dv2 : R) : R :=
  h_att mat_from_rotvec_m20 mat_from_rotvec_m21 mat_from_rotvec_m22 mat_from_rotvec_m02 mat_from_rotvec_m12 mat_from_rotvec_m22
        (hand_xi1 dt lat lon alt VN VE VD C00 C01 C02 C10 C11 C12 C20 C21 C22 th0 th1 th2 dv0 dv1 dv2) (hand_xi2 dt lat lon alt VN VE VD C00 C01 C02 C10 C11 C12 C20 C21 C22 th0 th1 th2 dv0 dv1 dv2) (hand_xi3 dt lat lon alt VN VE VD C00 C01 C02 C10 C11 C12 C20 C21 C22 th0 th1 th2 dv0 dv1 dv2)
        C00 C01 C02 C10 C11 C12 C20 C21 C22 th0 th1 th2.

(** ** The GENERATED step as a map on 15-tuples, and the run over a sequence of increments
    (used only to state the end-to-end convergence theorem of C01) *)
Record kstate : Type := mk_kstate {
  k_lat : R; k_lon : R; k_alt : R; k_VN : R; k_VE : R; k_VD : R;
  k_C00 : R; k_C01 : R; k_C02 : R; k_C10 : R; k_C11 : R; k_C12 : R; k_C20 : R; k_C21 : R; k_C22 : R }.
Record kinc : Type := mk_kinc { i_th0 : R; i_th1 : R; i_th2 : R; i_dv0 : R; i_dv1 : R; i_dv2 : R }.

Definition kapp (f : R -> R -> R -> R -> R -> R -> R -> R -> R -> R -> R -> R -> R -> R -> R -> R ->
                     R -> R -> R -> R -> R -> R -> R) (dt : R) (s : kstate) (u : kinc) : R :=
  f dt (k_lat s) (k_lon s) (k_alt s) (k_VN s) (k_VE s) (k_VD s)
       (k_C00 s) (k_C01 s) (k_C02 s) (k_C10 s) (k_C11 s) (k_C12 s) (k_C20 s) (k_C21 s) (k_C22 s)
       (i_th0 u) (i_th1 u) (i_th2 u) (i_dv0 u) (i_dv1 u) (i_dv2 u).

(** one iteration of the kernel loop (generated definitions) *)
Definition kstep (dt : R) (s : kstate) (u : kinc) : kstate :=
  mk_kstate (kapp step3d_lat dt s u) (kapp step3d_lon dt s u) (kapp step3d_alt dt s u)
            (kapp step3d_VN dt s u) (kapp step3d_VE dt s u) (kapp step3d_VD dt s u)
            (kapp step3d_C00 dt s u) (kapp step3d_C01 dt s u) (kapp step3d_C02 dt s u)
            (kapp step3d_C10 dt s u) (kapp step3d_C11 dt s u) (kapp step3d_C12 dt s u)
            (kapp step3d_C20 dt s u) (kapp step3d_C21 dt s u) (kapp step3d_C22 dt s u).

(** n iterations of a step map whose inputs may differ from step to step *)
Fixpoint onestep_run {X : Type} (step : nat -> X -> X) (x0 : X) (n : nat) : X :=
  match n with
  | O => x0
  | S m => step m (onestep_run step x0 m)
  end.

(** the loop: n iterations with constant interval h and increments inc 0, inc 1, ... *)
Definition krun (h : R) (inc : nat -> kinc) (s0 : kstate) (n : nat) : kstate :=
  onestep_run (fun m s => kstep h s (inc m)) s0 n.

(** l1 distance on the 15 components *)
Definition kdist (a b : kstate) : R :=
  Rabs (k_lat a - k_lat b) + Rabs (k_lon a - k_lon b) + Rabs (k_alt a - k_alt b)
  + Rabs (k_VN a - k_VN b) + Rabs (k_VE a - k_VE b) + Rabs (k_VD a - k_VD b)
  + Rabs (k_C00 a - k_C00 b) + Rabs (k_C01 a - k_C01 b) + Rabs (k_C02 a - k_C02 b)
  + Rabs (k_C10 a - k_C10 b) + Rabs (k_C11 a - k_C11 b) + Rabs (k_C12 a - k_C12 b)
  + Rabs (k_C20 a - k_C20 b) + Rabs (k_C21 a - k_C21 b) + Rabs (k_C22 a - k_C22 b).

(** ** Per-row formulas of strapdown.compute_increments_from_imu, rate-type sensor,
    hand transcription for one interval: a = sample at the start, e = sample at the end *)
Definition h_cross0 (a0 a1 a2 b0 b1 b2 : R) : R := a1 * b2 - a2 * b1.
Definition h_cross1 (a0 a1 a2 b0 b1 b2 : R) : R := a2 * b0 - a0 * b2.
Definition h_cross2 (a0 a1 a2 b0 b1 b2 : R) : R := a0 * b1 - a1 * b0.
(* gyro_increment / accel_increment component:  (a + 0.5 b) dt  with b = e - a *)
Definition h_rate_inc (dt a e : R) : R := (a + 1 / 2 * (e - a)) * dt.
(* theta = gyro_increment + cross(a_gyro, b_gyro) dt^2 / 12 *)
Definition h_rate_theta0 (dt a0 a1 a2 e0 e1 e2 : R) : R :=
  h_rate_inc dt a0 e0 + h_cross0 a0 a1 a2 (e0 - a0) (e1 - a1) (e2 - a2) * (dt * dt) / 12.
Definition h_rate_theta1 (dt a0 a1 a2 e0 e1 e2 : R) : R :=
  h_rate_inc dt a1 e1 + h_cross1 a0 a1 a2 (e0 - a0) (e1 - a1) (e2 - a2) * (dt * dt) / 12.
Definition h_rate_theta2 (dt a0 a1 a2 e0 e1 e2 : R) : R :=
  h_rate_inc dt a2 e2 + h_cross2 a0 a1 a2 (e0 - a0) (e1 - a1) (e2 - a2) * (dt * dt) / 12.
(* dv = accel_increment + (cross(a_gyro, b_accel) + cross(a_accel, b_gyro)) dt^2 / 12
        + 0.5 cross(gyro_increment, accel_increment);  g = gyro samples, f = accel samples *)
Definition h_rate_dv0 (dt ga0 ga1 ga2 ge0 ge1 ge2 fa0 fa1 fa2 fe0 fe1 fe2 : R) : R :=
  h_rate_inc dt fa0 fe0
  + (h_cross0 ga0 ga1 ga2 (fe0 - fa0) (fe1 - fa1) (fe2 - fa2)
     + h_cross0 fa0 fa1 fa2 (ge0 - ga0) (ge1 - ga1) (ge2 - ga2)) * (dt * dt) / 12
  + 1 / 2 * h_cross0 (h_rate_inc dt ga0 ge0) (h_rate_inc dt ga1 ge1) (h_rate_inc dt ga2 ge2)
                     (h_rate_inc dt fa0 fe0) (h_rate_inc dt fa1 fe1) (h_rate_inc dt fa2 fe2).
Definition h_rate_dv1 (dt ga0 ga1 ga2 ge0 ge1 ge2 fa0 fa1 fa2 fe0 fe1 fe2 : R) : R :=
  h_rate_inc dt fa1 fe1
  + (h_cross1 ga0 ga1 ga2 (fe0 - fa0) (fe1 - fa1) (fe2 - fa2)
     + h_cross1 fa0 fa1 fa2 (ge0 - ga0) (ge1 - ga1) (ge2 - ga2)) * (dt * dt) / 12
  + 1 / 2 * h_cross1 (h_rate_inc dt ga0 ge0) (h_rate_inc dt ga1 ge1) (h_rate_inc dt ga2 ge2)
                     (h_rate_inc dt fa0 fe0) (h_rate_inc dt fa1 fe1) (h_rate_inc dt fa2 fe2).
Definition h_rate_dv2 (dt ga0 ga1 ga2 ge0 ge1 ge2 fa0 fa1 fa2 fe0 fe1 fe2 : R) : R :=
  h_rate_inc dt fa2 fe2
  + (h_cross2 ga0 ga1 ga2 (fe0 - fa0) (fe1 - fa1) (fe2 - fa2)
     + h_cross2 fa0 fa1 fa2 (ge0 - ga0) (ge1 - ga1) (ge2 - ga2)) * (dt * dt) / 12
  + 1 / 2 * h_cross2 (h_rate_inc dt ga0 ge0) (h_rate_inc dt ga1 ge1) (h_rate_inc dt ga2 ge2)
                     (h_rate_inc dt fa0 fe0) (h_rate_inc dt fa1 fe1) (h_rate_inc dt fa2 fe2).

(** integrals of a signal with antiderivative W over the current interval [0, dt] and over the
    previous interval [-dt, 0] *)
Definition h_cur (W : R -> R) (dt : R) : R := W dt - W 0.
Definition h_prv (W : R -> R) (dt : R) : R := W 0 - W (- dt).

(** increment-type sensor: p = sample of the previous interval, c = sample of the current one
    (both are integrals of the signal over their interval) *)
Definition h_incr_theta0 (gp0 gp1 gp2 gc0 gc1 gc2 : R) : R := gc0 + h_cross0 gp0 gp1 gp2 gc0 gc1 gc2 / 12.
Definition h_incr_theta1 (gp0 gp1 gp2 gc0 gc1 gc2 : R) : R := gc1 + h_cross1 gp0 gp1 gp2 gc0 gc1 gc2 / 12.
Definition h_incr_theta2 (gp0 gp1 gp2 gc0 gc1 gc2 : R) : R := gc2 + h_cross2 gp0 gp1 gp2 gc0 gc1 gc2 / 12.
Definition h_incr_dv0 (gp0 gp1 gp2 gc0 gc1 gc2 fp0 fp1 fp2 fc0 fc1 fc2 : R) : R :=
  fc0 + (h_cross0 gp0 gp1 gp2 fc0 fc1 fc2 + h_cross0 fp0 fp1 fp2 gc0 gc1 gc2) / 12
  + 1 / 2 * h_cross0 gc0 gc1 gc2 fc0 fc1 fc2.
Definition h_incr_dv1 (gp0 gp1 gp2 gc0 gc1 gc2 fp0 fp1 fp2 fc0 fc1 fc2 : R) : R :=
  fc1 + (h_cross1 gp0 gp1 gp2 fc0 fc1 fc2 + h_cross1 fp0 fp1 fp2 gc0 gc1 gc2) / 12
  + 1 / 2 * h_cross1 gc0 gc1 gc2 fc0 fc1 fc2.
Definition h_incr_dv2 (gp0 gp1 gp2 gc0 gc1 gc2 fp0 fp1 fp2 fc0 fc1 fc2 : R) : R :=
  fc2 + (h_cross2 gp0 gp1 gp2 fc0 fc1 fc2 + h_cross2 fp0 fp1 fp2 gc0 gc1 gc2) / 12
  + 1 / 2 * h_cross2 gc0 gc1 gc2 fc0 fc1 fc2.
