(** C18 (K part): executable model of [transform.resample_state] and
    [transform.compute_state_difference] at the level of time-indexed tables.
    Definitions only; the proofs are in Proofs/StateDiffProofs.v.

    A table is a list of column identifiers plus rows [(time, values)] with the
    values aligned with the column list; times and values are rationals (the
    correspondence check uses dyadic ones, on which binary64 arithmetic is exact).
    Column identifiers 0,1,2 stand for 'roll','pitch','heading' and 3,4,5 for
    'lat','lon','alt' (renamed 'north','east','down' in a difference); every
    other number is an ordinary column.

    Attitude: when ALL of roll/pitch/heading are present the code interpolates them
    with scipy [Slerp] and reads Euler angles back.  That composite
    (from_euler -> Slerp -> as_euler) is the Section variable [slerp]: it maps the
    two bracketing rph triples and the interpolation parameter to an abstract Euler
    triple [ang].  When only some of them are present they are ordinary columns
    (linear interpolation, no wrap).

    Preconditions of the real code mirrored as preconditions of the theorems (not
    of the definitions, which are total): at least two rows per table (interp1d and
    Slerp raise otherwise, np.median of an empty diff is nan) and strictly
    increasing times (Slerp raises otherwise). *)
From Coq Require Import List QArith Bool Arith.
Import ListNotations.
Open Scope Q_scope.

Definition c_roll : nat := 0.
Definition c_pitch : nat := 1.
Definition c_heading : nat := 2.
Definition c_lat : nat := 3.
Definition c_lon : nat := 4.
Definition c_alt : nat := 5.
Definition rph_cols : list nat := [c_roll; c_pitch; c_heading].
Definition lla_cols : list nat := [c_lat; c_lon; c_alt].

Definition mem (c : nat) (l : list nat) : bool := existsb (Nat.eqb c) l.
(** [all(col in data for col in want)] *)
Definition has_all (want cs : list nat) : bool := forallb (fun c => mem c cs) want.
Definition is_rph (c : nat) : bool := mem c rph_cols.
Definition is_lla (c : nat) : bool := mem c lla_cols.

(** label-based access: position of the first occurrence of a column label *)
Fixpoint index_of (c : nat) (cs : list nat) : nat :=
  match cs with
  | [] => 0%nat
  | x :: r => if Nat.eqb c x then 0%nat else S (index_of c r)
  end.
Definition get {A : Type} (d : A) (cs : list nat) (r : list A) (c : nat) : A :=
  nth (index_of c cs) r d.

(** [Index.intersection]: order of the left operand *)
Definition col_inter (c1 c2 : list nat) : list nat := filter (fun c => mem c c2) c1.

Record table := mkTable { cols : list nat; rows : list (Q * list Q) }.
Definition times (t : table) : list Q := map fst (rows t).

(** [state[columns]] *)
Definition select (C : list nat) (t : table) : table :=
  mkTable C (map (fun r => (fst r, map (get 0 (cols t) (snd r)) C)) (rows t)).

(** [np.sort] *)
Fixpoint insert (x : Q) (l : list Q) : list Q :=
  match l with
  | [] => [x]
  | y :: l' => if Qle_bool x y then x :: l else y :: insert x l'
  end.
Fixpoint isort (l : list Q) : list Q :=
  match l with
  | [] => []
  | x :: l' => insert x (isort l')
  end.

Definition first_time (t : table) : Q :=
  match rows t with [] => 0 | r :: _ => fst r end.
Definition last_time (t : table) : Q := fst (last (rows t) (0, [])).
(** [(x >= state.index[0]) & (x <= state.index[-1])] *)
Definition in_span (t : table) (x : Q) : bool :=
  Qle_bool (first_time t) x && Qle_bool x (last_time t).

(** The bracketing knots used by scipy [interp1d(kind='linear')] and [Slerp]:
    [searchsorted(x, t)] (side 'left') clipped to [1, n-1] gives [hi], [lo = hi-1];
    i.e. the first interval (lo, hi] that contains t, the first interval for
    t = x[0]. *)
Fixpoint locate (t : Q) (lo : Q * list Q) (rest : list (Q * list Q))
  : (Q * list Q) * (Q * list Q) :=
  match rest with
  | [] => (lo, lo)
  | hi :: rest' =>
      if Qle_bool t (fst hi) then (lo, hi)
      else match rest' with
           | [] => (lo, hi)
           | _ :: _ => locate t hi rest'
           end
  end.
Definition bracket (rs : list (Q * list Q)) (t : Q) : (Q * list Q) * (Q * list Q) :=
  match rs with
  | [] => ((0, []), (0, []))
  | lo :: rest => locate t lo rest
  end.

(** scipy >= 1.10 [_call_linear]:
    [(x_new - x_lo)/(x_hi - x_lo) * y_hi + (x_hi - x_new)/(x_hi - x_lo) * y_lo] *)
Definition w_hi (t xlo xhi : Q) : Q := (t - xlo) / (xhi - xlo).
Definition w_lo (t xlo xhi : Q) : Q := (xhi - t) / (xhi - xlo).
Definition lerp (t xlo xhi ylo yhi : Q) : Q := w_hi t xlo xhi * yhi + w_lo t xlo xhi * ylo.

Definition rph_of (cs : list nat) (r : list Q) : Q * Q * Q :=
  (get 0 cs r c_roll, get 0 cs r c_pitch, get 0 cs r c_heading).

(** [np.median(np.diff(index))] *)
Fixpoint diffs (l : list Q) : list Q :=
  match l with
  | x :: ((y :: _) as l') => (y - x) :: diffs l'
  | _ => []
  end.
Definition median (l : list Q) : Q :=
  let s := isort l in
  let n := length s in
  if Nat.even n then (nth (n / 2 - 1) s 0 + nth (n / 2) s 0) / 2
  else nth (n / 2) s 0.
Definition median_dt (t : table) : Q := median (diffs (times t)).

Definition Qltb (x y : Q) : bool := negb (Qle_bool y x).

Section StateDiff.
  (** Euler triple read back from an interpolated rotation *)
  Variable ang : Type.
  (** from_euler('xyz', deg) -> Slerp over one interval at parameter s -> as_euler('xyz', deg) *)
  Variable slerp : Q * Q * Q -> Q * Q * Q -> Q -> ang.

  (** a resampled cell: a number, or component [k] of an interpolated Euler triple *)
  Inductive val : Type :=
  | VQ (q : Q)
  | VA (k : nat) (a : ang).
  Definition valq (v : val) : Q := match v with VQ q => q | VA _ _ => 0 end.

  Definition interp_cell (cs : list nat) (rph : bool) (t : Q) (lo hi : Q * list Q) (c : nat) : val :=
    if rph && is_rph c
    then VA c (slerp (rph_of cs (snd lo)) (rph_of cs (snd hi)) (w_hi t (fst lo) (fst hi)))
    else VQ (lerp t (fst lo) (fst hi) (get 0 cs (snd lo) c) (get 0 cs (snd hi) c)).

  Definition interp_row (st : table) (t : Q) : list val :=
    let b := bracket (rows st) t in
    map (interp_cell (cols st) (has_all rph_cols (cols st)) t (fst b) (snd b)) (cols st).

  Record rtable := mkR { r_cols : list nat; r_rows : list (Q * list val) }.

  (** [resample_state(state, times)]: sort, clip to the span, interpolate every
      column, return the columns in the order of [state.columns]. *)
  Definition resample_state (st : table) (ts : list Q) : rtable :=
    mkR (cols st)
        (map (fun t => (t, interp_row st t)) (filter (in_span st) (isort ts))).

  (** a difference cell:
      [DQ q]             ordinary column: the number q = sign * (first - second);
      [DA sign f s]      angle column (all of roll/pitch/heading present):
                         to_180_range (sign * (f - s));
      [DP k d mlat malt] position column k of lat/lon/alt (all three present):
                         d = sign * (first - second) in degrees / metres, to be scaled
                         by rn*DEG_TO_RAD, rp*DEG_TO_RAD (radii at the mean latitude
                         [mlat] and mean altitude [malt]) or -1. *)
  Inductive dval : Type :=
  | DQ (q : Q)
  | DA (sign f : Q) (s : val)
  | DP (k : nat) (d mlat malt : Q).

  Definition diff_cell (sign : Q) (lla rph : bool) (C : list nat)
             (fr : list Q) (sr : list val) (c : nat) : dval :=
    let fq := get 0 C fr c in
    let sv := get (VQ 0) C sr c in
    if rph && is_rph c then DA sign fq sv
    else if lla && is_lla c
         then DP c (sign * (fq - valq sv))
                 ((1 # 2) * (get 0 C fr c_lat + valq (get (VQ 0) C sr c_lat)))
                 ((1 # 2) * (get 0 C fr c_alt + valq (get (VQ 0) C sr c_alt)))
         else DQ (sign * (fq - valq sv)).

  Definition diff_row (sign : Q) (C : list nat) (fr : list Q) (sr : list val) : list dval :=
    map (diff_cell sign (has_all lla_cols C) (has_all rph_cols C) C fr sr) C.

  Record dtable := mkD { d_cols : list nat; d_rows : list (Q * list dval) }.

  (** the body of [compute_state_difference] after the operand swap *)
  Definition diff_core (sign : Q) (f s : table) : dtable :=
    let index := filter (in_span s) (times f) in
    let C := col_inter (cols f) (cols s) in
    let f' := filter (fun r => in_span s (fst r)) (rows (select C f)) in   (* first.loc[index, columns] *)
    let s' := resample_state (select C s) index in
    mkD C (map (fun p => (fst (fst p), diff_row sign C (snd (fst p)) (snd (snd p))))
               (combine f' (r_rows s'))).

  (** [compute_state_difference(a, b)] for two DataFrames *)
  Definition state_diff (a b : table) : dtable :=
    if Qltb (median_dt a) (median_dt b) then diff_core (-1) b a else diff_core 1 a b.

  (** [compute_state_difference(a, b)] for two Series with the same labels *)
  Definition series_diff (cs : list nat) (r1 r2 : list Q) : list dval :=
    diff_row 1 cs r1 (map VQ r2).

  (** boolean well-formedness used by examples and by the harness *)
  Fixpoint increasingb (l : list Q) : bool :=
    match l with
    | x :: ((y :: _) as l') => Qltb x y && increasingb l'
    | _ => true
    end.
  Definition wf_table (t : table) : bool :=
    (2 <=? length (rows t))%nat && increasingb (times t)
    && forallb (fun r => (length (snd r) =? length (cols t))%nat) (rows t).
End StateDiff.

Arguments VQ {ang} q.
Arguments VA {ang} k a.
Arguments DQ {ang} q.
Arguments DA {ang} sign f s.
Arguments DP {ang} k d mlat malt.
Arguments valq {ang} v.
Arguments mkR {ang} r_cols r_rows.
Arguments r_cols {ang} r.
Arguments r_rows {ang} r.
Arguments mkD {ang} d_cols d_rows.
Arguments d_cols {ang} d.
Arguments d_rows {ang} d.

(** ** Computable instance for the correspondence check: the attitude result is
    kept symbolic as the record of what scipy is asked to do (the two bracketing
    rph triples and the interpolation parameter). *)
Definition sym_ang : Type := (Q * Q * Q) * (Q * Q * Q) * Q.
Definition sym_slerp (a b : Q * Q * Q) (s : Q) : sym_ang := (a, b, s).
Definition resample_state_q := resample_state sym_ang sym_slerp.
Definition state_diff_q := state_diff sym_ang sym_slerp.
Definition series_diff_q := series_diff sym_ang.

(** Flat integer encodings (parsed by tools/props/C18.py). *)
Definition encQ (q : Q) : list Z := let r := Qred q in [Qnum r; Zpos (Qden r)].
Definition encN (n : nat) : list Z := [Z.of_nat n].
Definition encQ3 (a : Q * Q * Q) : list Z :=
  encQ (fst (fst a)) ++ encQ (snd (fst a)) ++ encQ (snd a).
Definition enc_val (v : val sym_ang) : list Z :=
  match v with
  | VQ q => 0%Z :: encQ q
  | VA k a => 1%Z :: encN k ++ encQ3 (fst (fst a)) ++ encQ3 (snd (fst a)) ++ encQ (snd a)
  end.
Definition enc_dval (d : dval sym_ang) : list Z :=
  match d with
  | DQ q => 0%Z :: encQ q
  | DA sg f s => 1%Z :: encQ sg ++ encQ f ++ enc_val s
  | DP k d mlat malt => 2%Z :: encN k ++ encQ d ++ encQ mlat ++ encQ malt
  end.
Definition enc_rtable (r : rtable sym_ang) : list Z :=
  encN (length (r_cols r)) ++ flat_map encN (r_cols r) ++ encN (length (r_rows r)) ++
  flat_map (fun row => encQ (fst row) ++ flat_map enc_val (snd row)) (r_rows r).
Definition enc_dtable (d : dtable sym_ang) : list Z :=
  encN (length (d_cols d)) ++ flat_map encN (d_cols d) ++ encN (length (d_rows d)) ++
  flat_map (fun row => encQ (fst row) ++ flat_map enc_dval (snd row)) (d_rows d).
