(* ------------------------------------------------------------------------- *)
(*  C10 — scheduling model of pyins.filters.run_feedforward_filter             *)
(*                                                                             *)
(*  Executable Gallina model (definitions only) of the loop at the level of    *)
(*  cursors and events; shares the helpers, the event type and the inner       *)
(*  `while` with Model/FeedbackSched.v.                                        *)
(* ------------------------------------------------------------------------- *)
From Coq Require Import List QArith Bool Arith.
From PV Require Import Model.FeedbackSched.
Import ListNotations.
Open Scope Q_scope.

(*  index = 0
    while index + 1 < len(trajectory):
        time = times[index]
        next_time = times[index + 1]
        while measurement_times[mi] < next_time:
            ... innovations_times[name].append(time) ...; mi += 1
        times_result.append(time)
        next_time = min(time + time_step, measurement_times[mi])
        next_index = max(np.searchsorted(times, next_time, side='right') - 1, index + 1)
        next_time = times[next_index]
        time_delta = next_time - time
        ...
        index = next_index
   `add_step time` stands for the float expression `time + time_step`.
   searchsorted(...) - 1 may be -1 in python; the truncated subtraction gives 0
   instead, and max(., index + 1) returns index + 1 in both cases. *)
Fixpoint ff_loop (fuel : nat) (add_step : Q -> Q) (times : list Q)
         (sensors : list (list Q)) (index : nat) (pending : list Q) : list event :=
  if Nat.ltb (index + 1) (length times) then
    match fuel with
    | O => [OutOfFuel]
    | S fuel' =>
        match nth_error times index, nth_error times (index + 1) with
        | Some time, Some bound =>
            let (ev, pending') := inner sensors time bound pending in
            let next_time := min_inf (add_step time) (head_inf pending') in
            let next_index :=
              Nat.max (searchsorted_right times next_time - 1) (index + 1) in
            match nth_error times next_index with
            | None => ev ++ [Record time; Crash]          (* times[next_index] *)
            | Some _ =>
                ev ++ Record time :: Propagate index next_index
                   :: ff_loop fuel' add_step times sensors next_index pending'
            end
        | _, _ => [Crash]
        end
    end
  else [].

(* whole function: times = trajectory_nominal.index = trajectory.index *)
Definition ff_run (fuel : nat) (add_step : Q -> Q) (times : list Q)
           (sensors : list (list Q)) : list event :=
  match times with
  | [] => [Crash]                                 (* start_time = times[0] *)
  | t0 :: _ =>
      let end_time := last times t0 in
      ff_loop fuel add_step times sensors 0 (clip t0 end_time (merge_times sensors))
  end.

Definition ff_run_exact (fuel : nat) (time_step : Q) (times : list Q)
           (sensors : list (list Q)) : list event :=
  ff_run fuel (fun t => t + time_step) times sensors.

(* the propagation steps (index, next_index) of a trace *)
Definition propagations (tr : list event) : list (nat * nat) :=
  flat_map (fun e => match e with Propagate i j => [(i, j)] | _ => [] end) tr.
