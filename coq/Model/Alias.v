(** * C19 — aliasing IR, abstract heap semantics and the purity checker (definitions only)

    The translator [tools/alias2ir.py] turns every public callable of pyins (and the
    private helpers it calls) into a [func]: a flow-insensitive SET of statements over
    abstract locations (SSA-renamed Python variables, instance-state slots, one root for
    module constants).  This file gives

    - the IR datatypes,
    - an abstract semantics: a heap of cells (a cell = one mutable buffer / container /
      object), undirected "may share or contain" links between cells, and an environment
      [var -> set of cells]; statements are executed in ANY order and ANY number of times
      (flow-insensitive executions, [run]); a call behaves as any sequence of the effects
      its callee summary allows ([expand]);
    - the checker [check_fun] (a may-share closure over the statement set) and
      [summary_of] (summaries of callees computed by the same closure).

    Soundness is proved in [Proofs/AliasProofs.v]. *)
From Coq Require Import List Arith Bool Relations.
Import ListNotations.

Definition var := nat.
Definition fname := nat.
Definition sname := nat.   (* name of a state slot: "Class.attr" or a module-level name *)

(** ** IR *)
Inductive stmt :=
| Fresh (x : var)                       (* x := newly allocated value *)
| Alias (x y : var)                     (* x may share memory with / contain / be contained in y *)
| Mutate (x : var)                      (* a write THROUGH x *)
| Call (x : var) (f : fname) (args : list var)
| GlobalRng                             (* a draw from numpy's module-level generator / an unseeded one *)
| Draw (r : var)                        (* a draw from the generator object held by r *)
| StateRead (g : sname) (r : var)       (* slot g of the object held by r is read *)
| StateWrite (g : sname) (r : var).     (* slot g of the object held by r is rebound *)

(** [f_params]: protected roots (positional parameters, state slots that may hold caller
    memory, the module-constants root).  [f_owned]: unprotected roots (the receiver object
    and its private state slots).  [f_grng]: the root standing for numpy's global generator
    (what [check_random_state None] returns; passed by the translator for an omitted or
    [None] rng argument).  [f_formals]: for each argument POSITION of a call, the
    roots that position stands for (position 0 of a method = receiver + all its slots).
    [f_slots]: the PRIVATE slots of the receiver (slot name, root variable): a write through
    the content of such a slot is reported to callers as an update of that slot
    ([s_sw]) and not as a write through the argument ([s_mut]). *)
Record func := mkFunc {
  f_params : list var;
  f_owned : list var;
  f_grng : var;
  f_formals : list (list var);
  f_slots : list (sname * var);
  f_body : list stmt;
  f_ret : var }.

Record summary := mkSum {
  s_mut : list nat;                (* argument positions that may be written through *)
  s_ret : list nat;                (* argument positions the result may share with *)
  s_lnk : list (nat * nat);        (* argument positions that may become linked *)
  s_rng : bool;                    (* draws from a global / unseeded generator *)
  s_drw : list nat;                (* argument positions whose generator object may be drawn from *)
  s_sw : list (sname * nat);       (* slot g of (an object reachable from) position i is rebound *)
  s_sr : list (sname * nat) }.

Definition summaries := list (fname * summary).

Definition mem (x : nat) (l : list nat) : bool := existsb (Nat.eqb x) l.

Fixpoint lookup {A : Type} (k : nat) (l : list (nat * A)) : option A :=
  match l with
  | [] => None
  | (k', v) :: t => if Nat.eqb k k' then Some v else lookup k t
  end.

(** ** Calls are replaced by the effects their summary allows *)
Definition argn (args : list var) (i : nat) : list var :=
  match nth_error args i with Some a => [a] | None => [] end.

Definition expand_call (sm : summary) (x : var) (args : list var) : list stmt :=
  Fresh x
  :: flat_map (fun i => map Mutate (argn args i)) (s_mut sm)
  ++ flat_map (fun i => map (Alias x) (argn args i)) (s_ret sm)
  ++ flat_map (fun ij => flat_map (fun a => map (Alias a) (argn args (snd ij)))
                                  (argn args (fst ij))) (s_lnk sm)
  ++ (if s_rng sm then [GlobalRng] else [])
  ++ flat_map (fun i => map Draw (argn args i)) (s_drw sm)
  ++ flat_map (fun gi => map (StateWrite (fst gi)) (argn args (snd gi))) (s_sw sm)
  ++ flat_map (fun gi => map (StateRead (fst gi)) (argn args (snd gi))) (s_sr sm).

Definition expand (S : summaries) (st : stmt) : option (list stmt) :=
  match st with
  | Call x f args =>
      match lookup f S with
      | Some sm => Some (expand_call sm x args)
      | None => None                      (* unknown callee: fail closed *)
      end
  | _ => Some [st]
  end.

Fixpoint prims (S : summaries) (body : list stmt) : option (list stmt) :=
  match body with
  | [] => Some []
  | st :: t =>
      match expand S st, prims S t with
      | Some a, Some b => Some (a ++ b)
      | _, _ => None
      end
  end.

(** ** Abstract heap semantics *)
Definition cell := nat.

Record state := mkSt {
  env : var -> cell -> Prop;        (* cells the value of a variable is or directly refers to *)
  edges : cell -> cell -> Prop;     (* "shares a buffer with / contains a reference to" *)
  alloc : cell -> Prop }.

(** cells that share memory directly or through any chain of containers / views *)
Definition conn (s : state) : cell -> cell -> Prop := clos_refl_sym_trans cell (edges s).

(** [near s x c]: c is reachable from the value of x *)
Definition near (s : state) (x : var) (c : cell) : Prop :=
  exists d, env s x d /\ conn s c d.

Inductive event :=
| EWrite (c : cell)
| ERng
| EDraw (c : cell)
| ESRead (g : sname) (c : cell)
| ESWrite (g : sname) (c : cell).

(** One step of a primitive statement.  [Alias x y] is deliberately permissive: x may be
    rebound to any cells reachable from the old x or from y (assignment, view, load from a
    container, phi), and any new links between what x reaches and what y reaches may be
    created (store into a container).  A fresh value is modelled by [Fresh]. *)
Inductive step (s : state) : stmt -> option event -> state -> Prop :=
| step_fresh : forall x c s',
    ~ alloc s c ->
    (forall d, env s' x d <-> d = c) ->
    (forall y, y <> x -> forall d, env s' y d <-> env s y d) ->
    (forall a b, edges s' a b <-> edges s a b) ->
    (forall d, alloc s' d <-> (alloc s d \/ d = c)) ->
    step s (Fresh x) None s'
| step_alias : forall x y s',
    (forall c, env s' x c -> near s x c \/ near s y c) ->
    (forall z, z <> x -> forall d, env s' z d <-> env s z d) ->
    (forall a b, edges s a b -> edges s' a b) ->
    (forall a b, edges s' a b ->
        edges s a b \/ ((near s x a \/ near s y a) /\ (near s x b \/ near s y b))) ->
    (forall d, alloc s' d <-> alloc s d) ->
    step s (Alias x y) None s'
| step_mutate : forall x c, near s x c -> step s (Mutate x) (Some (EWrite c)) s
| step_rng : step s GlobalRng (Some ERng) s
| step_draw : forall r c, near s r c -> step s (Draw r) (Some (EDraw c)) s
| step_sread : forall g r c, near s r c -> step s (StateRead g r) (Some (ESRead g c)) s
| step_swrite : forall g r c, near s r c -> step s (StateWrite g r) (Some (ESWrite g c)) s.

Definition ev_list (oe : option event) : list event :=
  match oe with Some e => [e] | None => [] end.

(** Flow-insensitive executions: any finite sequence of steps of statements drawn from
    the statement set [P], in any order, with repetitions. *)
Inductive run (P : list stmt) : state -> list event -> state -> Prop :=
| run_nil : forall s, run P s [] s
| run_cons : forall s st oe s' tr s'',
    In st P -> step s st oe s' -> run P s' tr s'' -> run P s (ev_list oe ++ tr) s''.

(** Entry condition: only roots are bound; everything bound is allocated; the receiver's
    private roots [owned] share no memory with the protected roots [params]; the global
    generator [g] shares no memory with any other root. *)
Definition sep (s0 : state) (A B : list var) : Prop :=
  forall a b c d, In a A -> In b B -> env s0 a c -> env s0 b d -> ~ conn s0 c d.

Definition entry_ok (params owned : list var) (g : var) (s0 : state) : Prop :=
  (forall x c, env s0 x c -> alloc s0 c) /\
  (forall a b, edges s0 a b -> alloc s0 a /\ alloc s0 b) /\
  (forall x c, env s0 x c -> In x params \/ In x owned \/ x = g) /\
  sep s0 owned params /\
  sep s0 [g] (params ++ owned).

(** cells reachable from one of the roots [R] at entry *)
Definition protected (R : list var) (s0 : state) (c : cell) : Prop :=
  exists p d, In p R /\ env s0 p d /\ conn s0 d c.

(** [Prot]: cells of the caller's arguments / module constants; [GProt]: the global
    generator.  [allow_g]: the function is a documented user of the global generator. *)
Definition safe_event (wl rd : list sname) (allow_g : bool)
           (Prot GProt : cell -> Prop) (e : event) : Prop :=
  match e with
  | EWrite c => ~ Prot c
  | ERng => False
  | EDraw c => allow_g = true \/ ~ GProt c
  | ESWrite g c => In g wl \/ ~ Prot c
  | ESRead g c => In g rd \/ ~ Prot c
  end.

(** ** The checker *)
Definition edge_list (P : list stmt) : list (var * var) :=
  flat_map (fun st => match st with Alias x y => [(x, y)] | _ => [] end) P.

(** variables adjacent (in either direction) to a member of T and not yet in T *)
Fixpoint frontier (E : list (var * var)) (T : list var) : list var :=
  match E with
  | [] => []
  | (x, y) :: t =>
      let r := frontier t T in
      let r := if mem y T && negb (mem x T) && negb (mem x r) then x :: r else r in
      if mem x T && negb (mem y T) && negb (mem y r) then y :: r else r
  end.

Fixpoint grow (fuel : nat) (E : list (var * var)) (T : list var) : list var :=
  match fuel with
  | 0 => T
  | S k => match frontier E T with
           | [] => T
           | nw => grow k E (nw ++ T)
           end
  end.

(** undirected may-share closure of [seeds]; every productive round adds a variable.
    (Soundness does not rely on [grow] reaching the fixpoint: [closed] is re-checked.) *)
Definition taint (E : list (var * var)) (seeds : list var) : list var :=
  grow (2 * length E + 1) E seeds.

Definition closed (E : list (var * var)) (T : list var) : bool :=
  forallb (fun xy => Bool.eqb (mem (fst xy) T) (mem (snd xy) T)) E.

Definition stmt_ok (wl rd : list sname) (allow_g : bool) (T Tg : list var) (st : stmt) : bool :=
  match st with
  | Fresh _ | Alias _ _ => true
  | Mutate x => negb (mem x T)
  | Call _ _ _ => false
  | GlobalRng => false
  | Draw r => allow_g || negb (mem r Tg)
  | StateWrite g r => mem g wl || negb (mem r T)
  | StateRead g r => mem g rd || negb (mem r T)
  end.

(** [wl]: state slots that may be rebound/updated on objects received from the caller
    (the documented exception: the estimate state of sensor models handed to a filter);
    [rd]: state slots that may be read on objects received from the caller;
    [allow_g]: documented user of numpy's global generator. *)
Definition check_fun (wl rd : list sname) (allow_g : bool) (S : summaries) (f : func) : bool :=
  match prims S (f_body f) with
  | None => false
  | Some P =>
      let E := edge_list P in
      let T := taint E (f_params f) in
      let Tg := taint E [f_grng f] in
      closed E T
      && forallb (fun p => mem p T) (f_params f)
      && forallb (fun g => negb (mem g T)) (f_owned f)
      && closed E Tg
      && mem (f_grng f) Tg
      && (allow_g || forallb (fun p => negb (mem p Tg)) (f_params f ++ f_owned f))
      && forallb (stmt_ok wl rd allow_g T Tg) P
  end.

(** every generator drawn from is derived from something the caller supplied (a parameter
    or the receiver), never from module-level state or from the global generator *)
Definition seed_plumbed (S : summaries) (f : func) : bool :=
  match prims S (f_body f) with
  | None => false
  | Some P =>
      let E := edge_list P in
      let Tc := taint E (f_owned f ++ concat (f_formals f)) in
      let Tg := taint E [f_grng f] in
      forallb (fun st => match st with
                         | Draw r => mem r Tc && negb (mem r Tg)
                         | GlobalRng => false
                         | _ => true end) P
  end.

Definition draws (S : summaries) (f : func) : bool :=
  match prims S (f_body f) with
  | None => true
  | Some P => existsb (fun st => match st with Draw _ | GlobalRng => true | _ => false end) P
  end.

(** ** Summaries (same closure, per argument position) *)
Definition positions {A : Type} (l : list A) : list nat := seq 0 (length l).

Definition summary_of (S : summaries) (f : func) : option summary :=
  match prims S (f_body f) with
  | None => None
  | Some P =>
      let E := edge_list P in
      let priv := map snd (f_slots f) in
      let cls := map (taint E) (f_formals f) in
      let cl := fun i => nth i cls [] in
      (* closure of a position without the receiver's private slots: used for [s_mut] *)
      let clp := fun i => taint E (filter (fun v => negb (mem v priv)) (nth i (f_formals f) [])) in
      let pos := positions cls in
      if forallb (closed E) cls
         && forallb (fun i => closed E (clp i)) pos
         && forallb (fun gv => closed E (taint E [snd gv])) (f_slots f)
         && forallb (fun ic => forallb (fun r => mem r (snd ic)) (nth (fst ic) (f_formals f) []))
                    (combine pos cls)
      then Some {|
        s_mut := filter (fun i => existsb (fun st => match st with
                                                     | Mutate x => mem x (clp i)
                                                     | _ => false end) P) pos;
        s_ret := filter (fun i => mem (f_ret f) (cl i)) pos;
        s_lnk := flat_map (fun i => flat_map (fun j =>
                     if Nat.ltb i j && existsb (fun r => mem r (cl i)) (nth j (f_formals f) [])
                     then [(i, j)] else []) pos) pos;
        s_rng := existsb (fun st => match st with
                                    | GlobalRng => true
                                    | Draw r => mem r (taint E [f_grng f])
                                    | _ => false end) P;
        s_drw := filter (fun i => existsb (fun st => match st with
                                                     | Draw r => mem r (cl i)
                                                     | _ => false end) P) pos;
        s_sw := flat_map (fun st => match st with
                                    | StateWrite g r =>
                                        map (fun i => (g, i)) (filter (fun i => mem r (cl i)) pos)
                                    | Mutate x =>
                                        flat_map (fun gv => if mem x (taint E [snd gv])
                                                            then [(fst gv, 0)] else []) (f_slots f)
                                    | _ => [] end) P;
        s_sr := flat_map (fun st => match st with
                                    | StateRead g r =>
                                        map (fun i => (g, i)) (filter (fun i => mem r (cl i)) pos)
                                    | _ => [] end) P |}
      else None
  end.

(** Summaries of a program given in dependency order (callees first).  A function whose
    callee is missing (recursion, wrong order) gets no summary, so every caller fails
    closed. *)
Fixpoint summaries_of (S : summaries) (prog : list (fname * func)) : summaries :=
  match prog with
  | [] => S
  | (n, f) :: t =>
      match summary_of S f with
      | Some sm => summaries_of ((n, sm) :: S) t
      | None => summaries_of S t
      end
  end.

(** per-function policy: (wl, rd, allow_g) *)
Definition policy := fname -> list sname * list sname * bool.

Definition check_named (pol : policy) (S : summaries) (nf : fname * func) : bool :=
  let '(wl, rd, ag) := pol (fst nf) in check_fun wl rd ag S (snd nf).

Definition check_prog (pol : policy) (prog : list (fname * func)) : list (fname * bool) :=
  let S := summaries_of [] prog in
  map (fun nf => (fst nf, check_named pol S nf)) prog.

(** state slots written anywhere in a list of functions (used to validate read-only lists) *)
Definition written_slots (prog : list (fname * func)) : list sname :=
  flat_map (fun nf => flat_map (fun st => match st with StateWrite g _ => [g] | _ => [] end)
                               (f_body (snd nf))) prog.
