(** * C19 — aliasing IR, abstract heap semantics and the purity checker (definitions only)

    The translator [tools/alias2ir.py] turns every public callable of pyins (and the
    private helpers it calls) into a [func]: a flow-insensitive SET of statements over
    SSA-renamed Python variables, instance-state slot variables and a few distinguished
    roots (module constants, numpy's global generator).  This file gives

    - the IR datatypes,
    - an abstract semantics: a heap of cells (a cell = one mutable buffer / container /
      object; views of a buffer are the same cell), DIRECTED "contains a reference to"
      edges between cells and an environment [var -> set of cells]; statements are executed
      in ANY order and ANY number of times (flow-insensitive executions, [run]); a call
      behaves as any sequence of the effects its callee summary allows ([expand]);
    - the checker [check_fun]: a VALIDATOR of a points-to solution ([hints]: for every variable
      the allocation sites it may be bound to, for every site the sites it may reach) that
      the translator computes; nothing about the solver is trusted, the solution is
      re-checked against every statement ([valid_hints]);
    - [summary_ok]: a validator for the callee summaries used by [expand].

    Soundness of [check_fun] is proved in [Proofs/AliasProofs.v]. *)
From Coq Require Import List Arith Bool PArith FMapPositive Relations.
Import ListNotations.

Definition var := positive.
Definition site := positive.          (* an allocation site = the variable of a [Fresh], or a root *)
Definition fname := nat.
Definition sname := nat.   (* name of a state slot: "Class.attr" or a module-level name *)

(** ** IR *)
Inductive stmt :=
| Fresh (x : var)                       (* x := newly allocated value *)
| Assign (x y : var)                    (* x may become y (or a view of y: same buffer, same cell) *)
| Load (x y : var)                      (* x may become something directly referenced by y (an element) *)
| Reach (x y : var)                     (* x may become y or anything reachable from y *)
| Store (x y : var)                     (* the objects x is bound to may now reference those of y *)
| Mutate (x : var)                      (* the objects x is bound to are written *)
| Call (x x0 : var) (f : fname) (args : list var)     (* x: the result; x0: reserved for its fresh part *)
| CallNew (x x0 : var) (f : fname) (args : list var)  (* constructor call: args[0] is the new object *)
| GlobalRng                             (* a draw from numpy's module-level generator / an unseeded one *)
| Draw (r : var)                        (* a draw from the generator object held by r *)
| StateRead (g : sname) (r : var)       (* slot g of the object held by r is read *)
| StateWrite (g : sname) (r : var).     (* slot g of the object held by r is rebound / updated *)

(** [f_params]: protected roots (the module-constants root first, positional parameters,
    state slots that may hold caller memory).  [f_owned]: unprotected roots (the receiver
    object and its private state slots).  [f_ownref]: slots whose object is the receiver's
    own (e.g. a list created by the constructor) but may REFERENCE caller memory stored by
    earlier calls ([f_rsite] stands for those objects).  [f_grng]: the root standing for numpy's global
    generator (what [check_random_state None] returns; passed by the translator for an
    omitted or [None] rng argument).  [f_psite], [f_osite]: the abstract sites that stand
    for all entry cells reachable from the protected / the owned roots ([f_grng] is its own
    site).  [f_formals]: for each argument POSITION of a call, the roots that position
    stands for.  Every Python argument occupies two positions: an EXACT one ([f_exact]: the
    object bound to the argument itself) and one for everything reachable from it (for a
    receiver: its slots); the last two Python arguments are the module root and the global
    generator.  [f_slots]: the PRIVATE slots of the
    receiver (slot name, root variable): a write to the content of such a slot is
    reported to callers as an update of that slot ([s_sw]), not as a write through the
    argument ([s_mut]). *)
Record func := mkFunc {
  f_params : list var;
  f_owned : list var;
  f_ownref : list var;
  f_grng : var;
  f_psite : site;
  f_osite : site;
  f_rsite : site;
  f_formals : list (list var);
  f_exact : list nat;
  f_slots : list (sname * (var * var));   (* name, content variable, its "reachable from" companion *)
  f_body : list stmt;
  f_ret : var;
  f_rreach : var }.   (* reserved: its solution is the closure of what the result may reach *)

Record summary := mkSum {
  s_mut : list nat;                (* positions: something reachable from the argument may be written *)
  s_ret : list nat;                (* positions the result may share with / reference *)
  s_lnk : list (nat * nat);        (* (i, j): objects reachable from argument i may now reference argument j *)
  s_rng : bool;                    (* draws from a global / unseeded generator *)
  s_drw : list nat;                (* positions whose generator object may be drawn from *)
  s_sw : list (sname * nat);       (* slot g of (an object reachable from) position i is rebound / updated *)
  s_sr : list (sname * nat) }.

Definition summaries := list (fname * summary).

Definition memn (x : nat) (l : list nat) : bool := existsb (Nat.eqb x) l.
Definition memp (x : positive) (l : list positive) : bool := existsb (Pos.eqb x) l.
Definition inclb (a b : list positive) : bool := forallb (fun x => memp x b) a.

Fixpoint lookup {A : Type} (k : nat) (l : list (nat * A)) : option A :=
  match l with
  | [] => None
  | (k', v) :: t => if Nat.eqb k k' then Some v else lookup k t
  end.

(** ** Calls are replaced by the effects their summary allows.
    The translator passes every argument twice: the argument itself (exact position) and a
    temporary [t] with [Reach t a] (anything reachable from the argument), so "reachable from
    position i" is "bound to args[i]". *)
Definition argn (args : list var) (i : nat) : list var :=
  match nth_error args i with Some a => [a] | None => [] end.

Definition expand_call (new : bool) (sm : summary) (x x0 : var) (args : list var) : list stmt :=
  let keep := fun gi : sname * nat => negb (new && Nat.eqb (snd gi) 0) in
  (* the result is a fresh object (which may reference arguments) or (part of) an argument *)
  Fresh x0 :: Assign x x0
  :: flat_map (fun i => map Mutate (argn args i)) (s_mut sm)
  ++ flat_map (fun i => flat_map (fun a => [Assign x a; Store x0 a]) (argn args i)) (s_ret sm)
  ++ flat_map (fun ij => flat_map (fun a => map (Store a) (argn args (snd ij)))
                                  (argn args (fst ij))) (s_lnk sm)
  ++ (if s_rng sm then [GlobalRng] else [])
  ++ flat_map (fun i => map Draw (argn args i)) (s_drw sm)
  ++ flat_map (fun gi => map (StateWrite (fst gi)) (argn args (snd gi))) (filter keep (s_sw sm))
  ++ flat_map (fun gi => map (StateRead (fst gi)) (argn args (snd gi))) (filter keep (s_sr sm)).

Definition expand (S : summaries) (st : stmt) : option (list stmt) :=
  match st with
  | Call x x0 f args =>
      match lookup f S with
      | Some sm => Some (expand_call false sm x x0 args)
      | None => None                      (* unknown callee: fail closed *)
      end
  | CallNew x x0 f args =>
      match lookup f S with
      | Some sm => Some (expand_call true sm x x0 args)
      | None => None
      end
  | _ => Some [st]
  end.

Fixpoint prims (S : summaries) (body : list stmt) : option (list stmt) :=
  match body with
  | [] => Some []
  | st :: t =>
      match expand S st, prims S t with
      | Some a, Some b => Some (a ++ b)
      | _, _ => None
      end
  end.

(** ** Abstract heap semantics *)
Definition cell := nat.

Record state := mkSt {
  env : var -> cell -> Prop;        (* cells the value of a variable may be *)
  edges : cell -> cell -> Prop;     (* "contains a reference to" (directed) *)
  alloc : cell -> Prop }.

Definition reach (s : state) : cell -> cell -> Prop := clos_refl_trans_1n cell (edges s).

(** [below s x c]: c is the value of x or reachable from it *)
Definition below (s : state) (x : var) (c : cell) : Prop :=
  exists d, env s x d /\ reach s d c.

Inductive event :=
| EWrite (c : cell)
| ERng
| EDraw (c : cell)
| ESRead (g : sname) (c : cell)
| ESWrite (g : sname) (c : cell).

Inductive step (s : state) : stmt -> option event -> state -> Prop :=
| step_fresh : forall x c s',
    ~ alloc s c ->
    (forall d, env s' x d <-> d = c) ->
    (forall y, y <> x -> forall d, env s' y d <-> env s y d) ->
    (forall a b, edges s' a b <-> edges s a b) ->
    (forall d, alloc s' d <-> (alloc s d \/ d = c)) ->
    step s (Fresh x) None s'
| step_assign : forall x y s',
    (forall c, env s' x c -> env s x c \/ env s y c) ->
    (forall z, z <> x -> forall d, env s' z d <-> env s z d) ->
    (forall a b, edges s' a b <-> edges s a b) ->
    (forall d, alloc s' d <-> alloc s d) ->
    step s (Assign x y) None s'
| step_load : forall x y s',
    (forall c, env s' x c -> env s x c \/ exists d, env s y d /\ edges s d c) ->
    (forall z, z <> x -> forall d, env s' z d <-> env s z d) ->
    (forall a b, edges s' a b <-> edges s a b) ->
    (forall d, alloc s' d <-> alloc s d) ->
    step s (Load x y) None s'
| step_reach : forall x y s',
    (forall c, env s' x c -> env s x c \/ below s y c) ->
    (forall z, z <> x -> forall d, env s' z d <-> env s z d) ->
    (forall a b, edges s' a b <-> edges s a b) ->
    (forall d, alloc s' d <-> alloc s d) ->
    step s (Reach x y) None s'
| step_store : forall x y s',
    (forall z d, env s' z d <-> env s z d) ->
    (forall a b, edges s a b -> edges s' a b) ->
    (forall a b, edges s' a b -> edges s a b \/ (env s x a /\ env s y b)) ->
    (forall d, alloc s' d <-> alloc s d) ->
    step s (Store x y) None s'
| step_mutate : forall x c, env s x c -> step s (Mutate x) (Some (EWrite c)) s
| step_rng : step s GlobalRng (Some ERng) s
| step_draw : forall r c, env s r c -> step s (Draw r) (Some (EDraw c)) s
| step_sread : forall g r c, env s r c -> step s (StateRead g r) (Some (ESRead g c)) s
| step_swrite : forall g r c, env s r c -> step s (StateWrite g r) (Some (ESWrite g c)) s.

Definition ev_list (oe : option event) : list event :=
  match oe with Some e => [e] | None => [] end.

(** Flow-insensitive executions: any finite sequence of steps of statements drawn from
    the statement set [P], in any order, with repetitions. *)
Inductive run (P : list stmt) : state -> list event -> state -> Prop :=
| run_nil : forall s, run P s [] s
| run_cons : forall s st oe s' tr s'',
    In st P -> step s st oe s' -> run P s' tr s'' -> run P s (ev_list oe ++ tr) s''.

(** Entry condition.  Every allocated cell belongs to exactly one of four regions
    ([kind]: 0 = the caller's memory: arguments and module constants, 1 = the receiver's
    private state, 2 = numpy's global generator, 3 = containers owned by the receiver that
    may reference caller memory); only roots are bound, each to cells of its own region;
    no reference crosses a region boundary except from region 3 into region 0. *)
Definition entry_ok (params owned ownref : list var) (g : var) (kind : cell -> nat) (s0 : state) : Prop :=
  (forall x c, env s0 x c -> alloc s0 c) /\
  (forall a b, edges s0 a b -> alloc s0 a /\ alloc s0 b /\
                              (kind a = kind b \/ (kind a = 3 /\ kind b = 0))) /\
  (forall x c, env s0 x c -> In x params \/ In x owned \/ x = g \/ In x ownref) /\
  (forall x c, env s0 x c -> In x params -> kind c = 0) /\
  (forall x c, env s0 x c -> In x owned -> kind c = 1) /\
  (forall c, env s0 g c -> kind c = 2) /\
  (forall x c, env s0 x c -> In x ownref -> kind c = 3).

(** cells reachable from one of the roots [R] at entry *)
Definition protected (R : list var) (s0 : state) (c : cell) : Prop :=
  exists p, In p R /\ below s0 p c.

(** [Prot]: cells of the caller's arguments / module constants; [GProt]: the global
    generator.  [allow_g]: the function is a documented user of the global generator. *)
Definition safe_event (wl rd : list sname) (allow_g : bool)
           (Prot GProt : cell -> Prop) (e : event) : Prop :=
  match e with
  | EWrite c => ~ Prot c
  | ERng => False
  | EDraw c => allow_g = true \/ ~ GProt c
  | ESWrite g c => In g wl \/ ~ Prot c
  | ESRead g c => In g rd \/ ~ Prot c
  end.

(** ** Points-to solutions and their validation *)
Definition pmap := PositiveMap.t (list positive).

Definition get (m : pmap) (k : positive) : list positive :=
  match PositiveMap.find k m with Some l => l | None => [] end.

(** [h_pt x]: sites x may be bound to; [h_cont o]: sites an object of site o may directly reference *)
Record hints := mkHints { h_pt : pmap; h_cont : pmap }.

Definition pt (h : hints) (x : var) : list site := get (h_pt h) x.
Definition cont (h : hints) (o : site) : list site := get (h_cont h) o.

Definition of_list (l : list (positive * list positive)) : pmap :=
  fold_left (fun m kv => PositiveMap.add (fst kv) (snd kv) m) l (PositiveMap.empty _).

(** [l] is closed under "may reference" *)
Definition reach_closed (h : hints) (l : list site) : bool :=
  forallb (fun o => inclb (cont h o) l) l.

Definition valid_stmt (h : hints) (st : stmt) : bool :=
  match st with
  | Fresh x => memp x (pt h x)
  | Assign x y => inclb (pt h y) (pt h x)
  | Load x y => forallb (fun o => inclb (cont h o) (pt h x)) (pt h y)
  | Reach x y => inclb (pt h y) (pt h x) && reach_closed h (pt h x)
  | Store x y => forallb (fun o => inclb (pt h y) (cont h o)) (pt h x)
  | _ => true
  end.

Definition valid_hints (h : hints) (P : list stmt) : bool := forallb (valid_stmt h) P.

(** ** The checker *)
Definition stmt_ok (wl rd : list sname) (allow_g : bool) (h : hints) (ps gs : site) (st : stmt) : bool :=
  match st with
  | Fresh _ | Assign _ _ | Load _ _ | Reach _ _ | Store _ _ => true
  | Mutate x => negb (memp ps (pt h x))
  | Call _ _ _ _ | CallNew _ _ _ _ => false
  | GlobalRng => false
  | Draw r => allow_g || negb (memp gs (pt h r))
  | StateWrite g r => memn g wl || negb (memp ps (pt h r))
  | StateRead g r => memn g rd || negb (memp ps (pt h r))
  end.

(** [wl]: state slots that may be rebound/updated on objects received from the caller
    (the documented exception: the estimate state of sensor models handed to a filter);
    [rd]: state slots that may be read on objects received from the caller;
    [allow_g]: documented user of numpy's global generator;
    [h]: a points-to solution in which all protected roots are collapsed into the site
    [f_psite], all owned roots into [f_osite]. *)
Definition check_fun (wl rd : list sname) (allow_g : bool) (S : summaries) (h : hints) (f : func) : bool :=
  match prims S (f_body f) with
  | None => false
  | Some P =>
      let ps := f_psite f in let os := f_osite f in let gs := f_grng f in let rs := f_rsite f in
      valid_hints h P
      && forallb (fun p => memp ps (pt h p)) (f_params f)
      && forallb (fun o => memp os (pt h o)) (f_owned f)
      && forallb (fun o => memp rs (pt h o)) (f_ownref f)
      && memp gs (pt h gs)
      && memp ps (cont h ps) && memp os (cont h os) && memp gs (cont h gs)
      && memp rs (cont h rs) && memp ps (cont h rs)
      (* class invariant: the receiver's private state never comes to hold or (transitively)
         reference caller memory; its own containers never become the caller's objects.
         [pt h os]'s closure is given by the solution of the reserved variable [os] *)
      && forallb (fun o => inclb (pt h o) (pt h os)) (f_owned f)
      && reach_closed h (pt h os)
      && negb (memp ps (pt h os))
      && forallb (fun o => negb (memp ps (pt h o))) (f_ownref f)
      && forallb (stmt_ok wl rd allow_g h ps gs) P
  end.

(** every generator drawn from may come from the caller (a parameter or the receiver) and
    is never the global generator; no unseeded draw; the result does not carry the global
    generator away (an [rng] argument that is not passed on to a constructed object) *)
Definition seed_plumbed (S : summaries) (h : hints) (f : func) : bool :=
  match prims S (f_body f) with
  | None => false
  | Some P =>
      forallb (fun st => match st with
                         | Draw r => negb (memp (f_grng f) (pt h r))
                                     && (memp (f_psite f) (pt h r) || memp (f_osite f) (pt h r))
                         | GlobalRng => false
                         | _ => true end) P
      && inclb (pt h (f_ret f)) (pt h (f_rreach f))
      && reach_closed h (pt h (f_rreach f))
      && negb (memp (f_grng f) (pt h (f_rreach f)))
  end.

Definition draws (S : summaries) (f : func) : bool :=
  match prims S (f_body f) with
  | None => true
  | Some P => existsb (fun st => match st with Draw _ | GlobalRng => true | _ => false end) P
  end.

(** ** Validation of a summary against the body.
    [h]: a points-to solution of the same statement set in which every root is its own
    site.  [q]: for every quantity "reachable from ..." a list of sites that contains the
    roots and is closed under "may reference" (checked): [q_pos i]: from position i;
    [q_posp i]: from position i without the receiver's private slots; [q_slot k]: from the
    k-th private slot; [q_ret]: from the result. *)
Definition positions {A : Type} (l : list A) : list nat := seq 0 (length l).

Definition meets (a b : list positive) : bool := existsb (fun x => memp x b) a.

Record reachsets := mkReach {
  q_pos : list (list site);
  q_posp : list (list site);
  q_slot : list (list site);
  q_ret : list site }.

Definition covers (exact : bool) (h : hints) (roots : list var) (l : list site) : bool :=
  forallb (fun r => inclb (pt h r) l) roots && (exact || reach_closed h l).

Definition summary_ok (S : summaries) (h : hints) (q : reachsets) (f : func) (sm : summary) : bool :=
  match prims S (f_body f) with
  | None => false
  | Some P =>
      let priv := flat_map (fun gv => [fst (snd gv); snd (snd gv)]) (f_slots f) in
      let pos := positions (f_formals f) in
      let rs := fun i => nth i (q_pos q) [] in
      let rsp := fun i => nth i (q_posp q) [] in
      let rslot := fun k => nth k (q_slot q) [] in
      valid_hints h P
      && forallb (fun r => memp r (pt h r)) (concat (f_formals f))
      && forallb (fun i => covers (memn i (f_exact f)) h (nth i (f_formals f) []) (rs i)) pos
      && forallb (fun i => covers (memn i (f_exact f)) h
                                  (filter (fun v => negb (memp v priv)) (nth i (f_formals f) [])) (rsp i)) pos
      && forallb (fun k => covers false h [fst (snd (nth k (f_slots f) (0, (xH, xH))))] (rslot k)) (positions (f_slots f))
      && covers false h [f_ret f] (q_ret q)
      && forallb (fun st =>
           match st with
           | Mutate x =>
               forallb (fun i => negb (meets (pt h x) (rsp i)) || memn i (s_mut sm)) pos
               && forallb (fun k => negb (meets (pt h x) (rslot k))
                                    || existsb (fun gi => Nat.eqb (fst gi) (fst (nth k (f_slots f) (0, (xH, xH))))
                                                          && Nat.eqb (snd gi) 0) (s_sw sm))
                          (positions (f_slots f))
           | GlobalRng => s_rng sm
           | Draw r =>
               (negb (memp (f_grng f) (pt h r)) || s_rng sm)
               && forallb (fun i => negb (meets (pt h r) (rs i)) || memn i (s_drw sm)) pos
           | StateWrite g r =>
               forallb (fun i => negb (meets (pt h r) (rs i))
                                 || existsb (fun gi => Nat.eqb (fst gi) g && Nat.eqb (snd gi) i) (s_sw sm)) pos
           | StateRead g r =>
               forallb (fun i => negb (meets (pt h r) (rs i))
                                 || existsb (fun gi => Nat.eqb (fst gi) g && Nat.eqb (snd gi) i) (s_sr sm)) pos
           | _ => true
           end) P
      && forallb (fun i => negb (meets (q_ret q) (rs i)) || memn i (s_ret sm)) pos
      && forallb (fun i => forallb (fun j =>
             Nat.eqb (Nat.div2 i) (Nat.div2 j)
             || negb (meets (rs i ++ flat_map (cont h) (rs i)) (nth j (f_formals f) []))
             || existsb (fun ij => Nat.eqb (fst ij) i && Nat.eqb (snd ij) j) (s_lnk sm)) pos) pos
  end.

(** per-function policy: (wl, rd, allow_g) *)
Definition policy := fname -> list sname * list sname * bool.

(** a translated function: name, IR, collapsed solution (for [check_fun]), per-root solution and
    summary (for [summary_ok]) *)
Record entry := mkEntry {
  e_name : fname;
  e_fun : func;
  e_hints : hints;
  e_hints_sum : hints;
  e_reach : reachsets;
  e_sum : summary }.

Definition summaries_of (prog : list entry) : summaries :=
  map (fun e => (e_name e, e_sum e)) prog.

Definition check_entry (pol : policy) (S : summaries) (e : entry) : bool :=
  let '(wl, rd, ag) := pol (e_name e) in check_fun wl rd ag S (e_hints e) (e_fun e).

(** state slots written anywhere in a list of functions (used to validate read-only lists) *)
Definition written_slots (S : summaries) (prog : list entry) : list sname :=
  flat_map (fun e => map fst (s_sw (e_sum e)) ++
                     match prims S (f_body (e_fun e)) with
                     | None => []
                     | Some P => flat_map (fun st => match st with StateWrite g _ => [g] | _ => [] end) P
                     end) prog.
