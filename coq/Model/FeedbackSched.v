(* ------------------------------------------------------------------------- *)
(*  C09 — scheduling model of pyins.filters.run_feedback_filter                *)
(*                                                                             *)
(*  Executable Gallina model (definitions only, no proofs) of the loop of      *)
(*  `run_feedback_filter` at the level of CURSORS and EVENTS.  Times are       *)
(*  rationals `Q` (the harness feeds dyadic stamps, on which binary64          *)
(*  arithmetic is exact).  The numerical state (P, x, pva) is not modelled:    *)
(*  only which increment rows are integrated when, which measurement epochs    *)
(*  are corrected when, and which rows of the sd/estimate tables are recorded. *)
(*                                                                             *)
(*  The first part of the file (order helpers, merge of the stamp lists,       *)
(*  searchsorted, the per-epoch sensor loop and the inner `while`) is shared    *)
(*  with Model/FeedforwardSched.v.                                             *)
(* ------------------------------------------------------------------------- *)
From Coq Require Import List QArith Bool Arith.
Import ListNotations.
Open Scope Q_scope.

(* ---------- order helpers ------------------------------------------------ *)

(* python `x < y` on finite floats *)
Definition Qltb (x y : Q) : bool := negb (Qle_bool y x).

(* python `min(x, m)` where m may be the sentinel +inf (None):
   `min(a, b)` returns b if b < a else a *)
Definition min_inf (x : Q) (m : option Q) : Q :=
  match m with
  | None => x
  | Some y => if Qltb y x then y else x
  end.

(* measurement_times[measurement_time_index] where the cursor is represented
   by the suffix of the finite stamps still pending; the empty suffix means the
   cursor stands on the appended sentinel np.inf *)
Definition head_inf (pending : list Q) : option Q :=
  match pending with
  | [] => None
  | m :: _ => Some m
  end.

(* ---------- measurement_times = np.sort(np.unique(np.hstack(...))) ------- *)

Fixpoint insert_u (x : Q) (l : list Q) : list Q :=
  match l with
  | [] => [x]
  | y :: r => if Qltb x y then x :: l
              else if Qeq_bool x y then l
              else y :: insert_u x r
  end.

Definition sort_unique (l : list Q) : list Q := fold_right insert_u [] l.

(* one list of stamps per sensor, in the order of the `measurements` argument;
   measurements=None and measurements=[] are both the empty list *)
Definition merge_times (sensors : list (list Q)) : list Q :=
  sort_unique (concat sensors).

(* measurement_times[(measurement_times >= start) & (measurement_times <= end)] *)
Definition clip (lo hi : Q) (l : list Q) : list Q :=
  filter (fun m => Qle_bool lo m && Qle_bool m hi) l.

(* np.searchsorted(a, x, side='right') for a sorted array a:
   the number of leading entries <= x *)
Fixpoint searchsorted_right (a : list Q) (x : Q) : nat :=
  match a with
  | [] => O
  | y :: r => if Qle_bool y x then S (searchsorted_right r x) else O
  end.

(* ---------- events -------------------------------------------------------- *)

Inductive event : Type :=
| Innov (sensor : nat) (epoch : Q) (at_time : Q)
    (* one row appended to innovations[sensor]; feedback: the row is stamped
       `epoch` and at_time is the integrator time at which it was processed;
       feedforward: the row is stamped at_time = times[index] *)
| Record (time : Q)
    (* times_result.append(time): one row of the sd / estimate tables *)
| Integrate (a b : nat)
    (* feedback: integrator.integrate(increments.iloc[a:b]) *)
| Propagate (i j : nat)
    (* feedforward: covariance propagation from times[i] to times[j] *)
| OutOfFuel
    (* the model ran out of fuel: the python loop would still be running *)
| Crash.
    (* an index expression of the python code is out of range (IndexError) *)

(* `time in measurement.data.index` *)
Definition stamped (m : Q) (stamps : list Q) : bool := existsb (Qeq_bool m) stamps.

(* for measurement in measurements: ret = measurement.compute_matrices(m, ...);
   if ret is not None: innovations[name].append(...) *)
Definition epoch_events (sensors : list (list Q)) (m at_time : Q) : list event :=
  flat_map (fun ks : nat * list Q =>
              if stamped m (snd ks) then [Innov (fst ks) m at_time] else [])
           (combine (seq 0 (length sensors)) sensors).

(* inner loop of both filters
     while measurement_times[measurement_time_index] < bound:
         <one epoch>; measurement_time_index += 1
   `bound` and `at_time` do not change inside the loop.  The sentinel +inf is
   never < bound, so the loop is structural on the pending finite stamps.
   Returns the events and the new cursor. *)
Fixpoint inner (sensors : list (list Q)) (at_time bound : Q) (pending : list Q)
  : list event * list Q :=
  match pending with
  | [] => ([], [])
  | m :: rest =>
      if Qltb m bound then
        let (ev, p) := inner sensors at_time bound rest in
        (epoch_events sensors m at_time ++ ev, p)
      else ([], pending)
  end.

(* ---------- the feedback loop -------------------------------------------- *)

(* index of increments.iloc[a:b]; python slicing: empty when b <= a, clamped
   to the table length *)
Definition batch (incs : list Q) (a b : nat) : list Q := firstn (b - a) (skipn a incs).

(*  increments_index = 0
    while integrator.get_time() < end_time:
        time = integrator.get_time()
        while measurement_times[mi] < increments.index[increments_index]: ...
        times_result.append(time)
        next_time = min(time + time_step, measurement_times[mi])
        next_increment_index = np.searchsorted(increments.index, next_time, side='right')
        if next_increment_index == increments_index: next_increment_index += 1
        increments_batch = increments.iloc[increments_index : next_increment_index]
        increments_index = next_increment_index
        integrator.integrate(increments_batch)     # time := last row of the batch
   `add_step time` stands for the float expression `time + time_step`. *)
Fixpoint fb_loop (fuel : nat) (add_step : Q -> Q) (incs : list Q)
         (sensors : list (list Q)) (end_time : Q)
         (itime : Q) (idx : nat) (pending : list Q) : list event :=
  if Qltb itime end_time then
    match fuel with
    | O => [OutOfFuel]
    | S fuel' =>
        match nth_error incs idx with
        | None => [Crash]                    (* increments.index[increments_index] *)
        | Some bound =>
            let (ev, pending') := inner sensors itime bound pending in
            let next_time := min_inf (add_step itime) (head_inf pending') in
            let nidx := searchsorted_right incs next_time in
            let nidx' := if Nat.eqb nidx idx then S nidx else nidx in
            let itime' := last (batch incs idx nidx') itime in
            ev ++ Record itime :: Integrate idx nidx'
               :: fb_loop fuel' add_step incs sensors end_time itime' nidx' pending'
        end
    end
  else [].

(* whole function: t0 = initial_pva.name, incs = increments.index *)
Definition fb_run (fuel : nat) (add_step : Q -> Q) (t0 : Q) (incs : list Q)
           (sensors : list (list Q)) : list event :=
  match incs with
  | [] => [Crash]                            (* end_time = increments.index[-1] *)
  | _ :: _ =>
      let end_time := last incs t0 in
      fb_loop fuel add_step incs sensors end_time t0 0
              (clip t0 end_time (merge_times sensors))
  end.

(* exact rational time arithmetic *)
Definition fb_run_exact (fuel : nat) (time_step t0 : Q) (incs : list Q)
           (sensors : list (list Q)) : list event :=
  fb_run fuel (fun t => t + time_step) t0 incs sensors.

(* ---------- observables of a trace --------------------------------------- *)

(* no OutOfFuel and no Crash *)
Definition completed (tr : list event) : bool :=
  forallb (fun e => match e with OutOfFuel | Crash => false | _ => true end) tr.

(* index of innovations[sensor k] (feedback) / the epochs used (feedforward) *)
Definition innov_epochs (k : nat) (tr : list event) : list Q :=
  flat_map (fun e => match e with
                     | Innov k' m _ => if Nat.eqb k k' then [m] else []
                     | _ => [] end) tr.

(* index of innovations[sensor k] of the feedforward filter *)
Definition innov_rows (k : nat) (tr : list event) : list Q :=
  flat_map (fun e => match e with
                     | Innov k' _ t => if Nat.eqb k k' then [t] else []
                     | _ => [] end) tr.

Definition innov_events (tr : list event) : list event :=
  filter (fun e => match e with Innov _ _ _ => true | _ => false end) tr.

(* index of trajectory_sd, gyro, gyro_sd, accel, accel_sd *)
Definition record_times (tr : list event) : list Q :=
  flat_map (fun e => match e with Record t => [t] | _ => [] end) tr.

(* positions of the integrated increment rows, in the order of integration *)
Definition integrated (tr : list event) : list nat :=
  flat_map (fun e => match e with Integrate a b => seq a (b - a) | _ => [] end) tr.

(* index of the returned trajectory = integrator.trajectory.index *)
Definition fb_trajectory_index (t0 : Q) (incs : list Q) (tr : list event) : list Q :=
  t0 :: flat_map (fun e => match e with Integrate a b => batch incs a b | _ => [] end) tr.
