(* ------------------------------------------------------------------------- *)
(*  C11 / C12 — data flow of pyins.filters.run_feedforward_filter (and one     *)
(*  cycle of run_feedback_filter) on top of the event traces of                 *)
(*  Model/FeedforwardSched.v / Model/FeedbackSched.v.   Definitions only.       *)
(*                                                                             *)
(*  Part 1 (lists, Q): which state enters which operation.                      *)
(*     ff_flow      fold of the event trace: Innov -> corr, Record -> the row   *)
(*                  appended to x_result / P_result, Propagate -> prop          *)
(*     kalman_grid  the textbook recursion on the filter's time grid, written   *)
(*                  without reference to the loop: at every grid row the        *)
(*                  corrections of the epochs lying in that row interval        *)
(*                  (epochs ascending, sensors in list order), the row is read, *)
(*                  then the propagation to the next grid row                   *)
(*     sterm        free state algebra (provenance terms) used by the           *)
(*                  correspondence check of tools/props/C11.py                  *)
(*  Part 2 (MathComp): the operations themselves                                *)
(*     k_corr       one kalman.correct call (GENERATED term of Gen/Kalman.v)    *)
(*                  with H_full = [H | 0 | 0]                                   *)
(*     k_prop       x <- Phi x, P <- Phi P Phi^T + Qd                           *)
(*     init_cov, asm_F, asm_G, asm_q, asm_Q   block layout of                   *)
(*                  _initialize_covariance / _compute_error_propagation_matrices*)
(*     batch_*      the one-shot (information-form / weighted least squares)    *)
(*                  Gauss-Markov solution of the stacked linear system          *)
(* ------------------------------------------------------------------------- *)
From Coq Require Import List QArith Bool Arith Qcanon.
From PV Require Import Model.FeedbackSched Model.FeedforwardSched.
From PV Require Model.Integrator Model.SensorModel.
Import ListNotations.
Open Scope Q_scope.

(* ========================================================================= *)
(*  Part 1                                                                   *)
(* ========================================================================= *)

Section Flow.
  Variable state : Type.
  (* one kalman.correct call: sensor k (position in `measurements`), epoch m,
     row time t = times[index] under which the innovation is filed *)
  Variable corr : nat -> Q -> Q -> state -> state.
  (* x = Phi @ x; P = Phi @ P @ Phi.T + Qd  with (Phi, Qd) of rows i -> j *)
  Variable prop : nat -> nat -> state -> state.

  (*  while index + 1 < len(trajectory):
          while measurement_times[mi] < next_time:
              for measurement in measurements: ... x, P, innovation = kalman.correct(x, P, ...)
          times_result.append(time); x_result.append(x); P_result.append(P)      <- Record
          ...
          x = Phi @ x; P = Phi @ P @ Phi.transpose() + Qd                         <- Propagate
     the pair is (current state, rows recorded so far) *)
  Definition ff_event (sa : state * list (Q * state)) (e : event) : state * list (Q * state) :=
    match e with
    | Innov k m t => (corr k m t (fst sa), snd sa)
    | Record t => (fst sa, snd sa ++ [(t, fst sa)])
    | Propagate i j => (prop i j (fst sa), snd sa)
    | _ => sa
    end.

  Definition ff_flow (tr : list event) (s0 : state) : state * list (Q * state) :=
    fold_left ff_event tr (s0, []).

  (* ---- the textbook recursion on the time grid --------------------------- *)
  Variable times : list Q.            (* trajectory index *)
  Variable sensors : list (list Q).   (* stamps of every measurement object *)
  Variable epochs : list Q.           (* all measurement epochs, ascending, each once *)

  (* all corrections at one epoch: the sensors that have this stamp, in list order *)
  Definition corr_epoch (t : Q) (s : state) (m : Q) : state :=
    fold_left (fun s ks => if stamped m (snd ks) then corr (fst ks) m t s else s)
              (combine (seq 0 (length sensors)) sensors) s.

  (* the epochs that belong to grid row i: times[i] <= m < times[i+1] *)
  Definition row_epochs (i : nat) : list Q :=
    filter (fun m => Qle_bool (nth i times 0) m && Qltb m (nth (i + 1) times 0)) epochs.

  (* steps = [(i0, i1); (i1, i2); ...]: the grid.  Returns the state after the
     last propagation and the list of rows (time, state read at that time). *)
  Fixpoint kalman_grid (steps : list (nat * nat)) (s : state) : state * list (Q * state) :=
    match steps with
    | [] => (s, [])
    | (i, j) :: rest =>
        let t := nth i times 0 in
        let s' := fold_left (corr_epoch t) (row_epochs i) s in
        let r := kalman_grid rest (prop i j s') in
        (fst r, (t, s') :: snd r)
    end.
End Flow.

Arguments ff_event {state} corr prop sa e.
Arguments ff_flow {state} corr prop tr s0.
Arguments corr_epoch {state} corr sensors t s m.
Arguments row_epochs times epochs i : assert.
Arguments kalman_grid {state} corr prop times sensors epochs steps s.

(* ---- C12: the feedback loop as a client of the strapdown integrator ---------- *)
(*  One outer iteration of run_feedback_filter without a pending measurement epoch:
        time = integrator.get_time()                                   GetTime
        increments_batch = _correct_increments(increments.iloc[a:b], ...)
        pva_old = integrator.get_pva()                                 GetPva
        integrator.integrate(increments_batch)                         Integrate chunk
        pva_new = integrator.get_pva()                                 GetPva
        time_delta = integrator.get_time() - time                      GetTime
    `data` = the rows of the (corrected) increment table; what the loop does at a measurement
    epoch (predict, get_pva, set_pva with data-dependent arguments) is the parameter on_innov. *)
Definition fb_integrator_ops {prow inc : Type}
           (on_innov : nat -> Q -> Q -> list (Integrator.op prow inc))
           (data : list inc) (tr : list event) : list (Integrator.op prow inc) :=
  flat_map (fun e => match e with
                     | Integrate a b =>
                         [Integrator.GetTime; Integrator.GetPva;
                          Integrator.Integrate (firstn (b - a) (skipn a data));
                          Integrator.GetPva; Integrator.GetTime]
                     | Innov k m t => on_innov k m t
                     | _ => []
                     end) tr.

(* ---- C12: a filter run as a client of one EstimationModel's estimate state ---- *)
(*  The operations a run performs on (transform, bias) of a sensor model, and what it observes.
    The next operation may depend on everything observed so far (the Kalman state that is fed to
    update_estimates depends on the corrected increments): a run is a CLIENT, i.e. a function from
    the history of observations to the next operation. *)
Inductive est_op : Type :=
| EReset                                                   (* reset_estimates() *)
| EUpdate (x : list Qc)                                    (* update_estimates(x) *)
| EGet                                                     (* get_estimates() *)
| ECorrect (dt : Qc) (v : SensorModel.V3 Qc).              (* correct_increments(dt, row) *)

Inductive est_obs : Type :=
| ONone
| ORaised                                                  (* the call raised *)
| OEstimates (g : list Qc)
| OCorrected (v : SensorModel.V3 Qc).

Definition est_step (m : SensorModel.emodel) (o : est_op) (st : SensorModel.est)
  : SensorModel.est * est_obs :=
  match o with
  | EReset => (SensorModel.reset, ONone)
  | EUpdate x => match SensorModel.update m x st with
                 | Some st' => (st', ONone)
                 | None => (st, ORaised)
                 end
  | EGet => match SensorModel.get_estimates m st with
            | Some g => (st, OEstimates g)
            | None => (st, ORaised)
            end
  | ECorrect dt v => match SensorModel.correct_increments st dt v with
                     | Some w => (st, OCorrected w)
                     | None => (st, ORaised)
                     end
  end.

Fixpoint est_play (m : SensorModel.emodel) (client : list est_obs -> option est_op)
         (fuel : nat) (hist : list est_obs) (st : SensorModel.est)
  : SensorModel.est * list est_obs :=
  match fuel with
  | O => (st, hist)
  | S f =>
      match client hist with
      | None => (st, hist)
      | Some o => let r := est_step m o st in est_play m client f (hist ++ [snd r]) (fst r)
      end
  end.

(* ---- the free state algebra: provenance of every (x, P) -------------------- *)
Inductive sterm : Type :=
| TInit                                           (* x = 0, P = _initialize_covariance(...) *)
| TCorr (k : nat) (m t : Q) (s : sterm)           (* output of kalman.correct *)
| TProp (i j : nat) (s : sterm).                  (* (Phi x, Phi P Phi^T + Qd) *)

Fixpoint sterm_eqb (a b : sterm) : bool :=
  match a, b with
  | TInit, TInit => true
  | TCorr k m t s, TCorr k' m' t' s' =>
      Nat.eqb k k' && Qeq_bool m m' && Qeq_bool t t' && sterm_eqb s s'
  | TProp i j s, TProp i' j' s' => Nat.eqb i i' && Nat.eqb j j' && sterm_eqb s s'
  | _, _ => false
  end.

Fixpoint recs_eqb (a b : list (Q * sterm)) : bool :=
  match a, b with
  | [], [] => true
  | (t, s) :: a', (t', s') :: b' => Qeq_bool t t' && sterm_eqb s s' && recs_eqb a' b'
  | _, _ => false
  end.

Definition t_flow (tr : list event) : sterm * list (Q * sterm) := ff_flow TCorr TProp tr TInit.

(* printable form: (kind, a, b, c) per operation, innermost first *)
Fixpoint sterm_ops (s : sterm) : list (Z * Z * Z * Z) :=
  match s with
  | TInit => []
  | TCorr k m t s' =>
      sterm_ops s' ++ [(1%Z, Z.of_nat k, Qnum (Qred (m * 128)), Qnum (Qred (t * 128)))]
  | TProp i j s' => sterm_ops s' ++ [(2%Z, Z.of_nat i, Z.of_nat j, 0%Z)]
  end.
Definition t_flow_show (tr : list event) :=
  (map (fun r => (Qnum (Qred (fst r * 128)), sterm_ops (snd r))) (snd (t_flow tr)),
   sterm_ops (fst (t_flow tr))).

(* ========================================================================= *)
(*  Part 2 : the operations, as MathComp matrices over a real field           *)
(* ========================================================================= *)
From mathcomp Require Import all_ssreflect all_algebra.
From PV Require Import Spec.LibSpecsMx Spec.Gaussian Gen.Kalman.
Set Implicit Arguments.
Unset Strict Implicit.
Import GRing.Theory.
Local Open Scope ring_scope.

Section KalmanOps.
  Variable F : realFieldType.
  (* ni = error_model.n_states (9 or 7), ng = gyro_model.n_states, na = accel_model.n_states *)
  Variables ni ng na : nat.
  Local Notation n := (ni + (ng + na))%N.

  Definition kstate : Type := ('cV[F]_n * 'M[F]_n)%type.

  (* ---- correction ---------------------------------------------------------- *)
  Variable mdim : nat -> nat.                               (* len(z) of sensor k *)
  Variable zf : forall k : nat, Q -> 'cV[F]_(mdim k).       (* z at epoch m *)
  Variable Hf : forall k : nat, Q -> 'M[F]_(mdim k, ni).    (* H at epoch m *)
  Variable Rf : forall k : nat, 'M[F]_(mdim k).
  Variable chol : forall k : nat, 'M[F]_(mdim k) -> 'M[F]_(mdim k).

  (* H_full = np.zeros((len(z), n_states)); H_full[:, inertial_block] = H *)
  Definition h_full (k : nat) (m : Q) : 'M[F]_(mdim k, n) := row_mx (Hf k m) 0.

  (* x, P, innovation = kalman.correct(x, P, z, H_full, R): the GENERATED terms *)
  Definition k_corr (k : nat) (m t : Q) (s : kstate) : kstate :=
    (@correct_ret0 F n (mdim k) (@chol k) s.1 s.2 (zf k m) (h_full k m) (Rf k),
     @correct_ret1 F n (mdim k) (@chol k) s.2 (h_full k m) (Rf k)).
  Definition k_innov (k : nat) (m : Q) (s : kstate) : 'cV[F]_(mdim k) :=
    @correct_ret2 F n (mdim k) (@chol k) s.1 s.2 (zf k m) (h_full k m) (Rf k).

  (* the same step written with the independent specification Spec/Gaussian.v *)
  Definition k_corr_spec (k : nat) (m t : Q) (s : kstate) : kstate :=
    (cond_mean s.1 s.2 (zf k m) (h_full k m) (Rf k), cond_cov s.2 (h_full k m) (Rf k)).

  (* ---- propagation ----------------------------------------------------------- *)
  Variables Phi Qd : nat -> nat -> 'M[F]_n.
  Definition k_prop (i j : nat) (s : kstate) : kstate :=
    (Phi i j *m s.1, Phi i j *m s.2 *m (Phi i j)^T + Qd i j).

  (* invariant of the covariance along the whole run *)
  Definition cov_ok (s : kstate) : Prop := s.2^T = s.2 /\ psd s.2.
End KalmanOps.

(* np.diag(q ** 2) *)
Definition diag_sq (F : fieldType) (k : nat) (u : 'cV[F]_k) : 'M[F]_k := diag_mx (\row_j (u j 0) ^+ 2).

(* ---- block layout of the assembly functions -------------------------------- *)
Section Assembly.
  Variable F : realFieldType.
  Variables ni ng na : nat.                 (* states: ins, gyro, accel *)
  Variables vg va qg qa : nat.              (* noises: gyro output, accel output, gyro, accel *)
  Local Notation n := (ni + (ng + na))%N.
  Local Notation nn := (vg + (va + (qg + qa)))%N.

  (* _initialize_covariance:  P[ins, ins] = T @ P_pva @ T.T;  P[gyro, gyro] = gyro_model.P; ... *)
  Variables (T : 'M[F]_(ni, 9)) (Ppva : 'M[F]_9) (Pg : 'M[F]_ng) (Pa : 'M[F]_na).
  Definition init_cov : 'M[F]_n :=
    block_mx (T *m Ppva *m T^T) 0 0 (block_mx Pg 0 0 Pa).

  (* _compute_error_propagation_matrices *)
  Variables (Fii : 'M[F]_ni) (Fig Fia : 'M[F]_(ni, 3)).      (* error_model.system_matrices(pva) *)
  Variables (Hg : 'M[F]_(3, ng)) (Ha : 'M[F]_(3, na)).       (* output_matrix(gyro), output_matrix(accel) *)
  Variables (Fg : 'M[F]_ng) (Fa : 'M[F]_na).                 (* gyro_model.F, accel_model.F *)
  Variables (Jg : 'M[F]_(3, vg)) (Ja : 'M[F]_(3, va)).       (* .J *)
  Variables (Gg : 'M[F]_(ng, qg)) (Ga : 'M[F]_(na, qa)).     (* .G *)
  Variables (v_g : 'cV[F]_vg) (v_a : 'cV[F]_va) (q_g : 'cV[F]_qg) (q_a : 'cV[F]_qa).

  Definition asm_F : 'M[F]_n :=
    block_mx Fii (row_mx (Fig *m Hg) (Fia *m Ha))
             0   (block_mx Fg 0 0 Fa).

  Definition asm_G : 'M[F]_(n, nn) :=
    col_mx (row_mx (Fig *m Jg) (row_mx (Fia *m Ja) 0))
           (col_mx (row_mx 0 (row_mx 0 (row_mx Gg 0)))
                   (row_mx 0 (row_mx 0 (row_mx 0 Ga)))).

  (* q = np.hstack((gyro_model.v, accel_model.v, gyro_model.q, accel_model.q)) *)
  Definition asm_q : 'cV[F]_nn := col_mx v_g (col_mx v_a (col_mx q_g q_a)).

  (* G @ np.diag(q**2) @ G.transpose() *)
  Definition asm_Q : 'M[F]_n := asm_G *m diag_sq asm_q *m asm_G^T.

  (* Phi, Qd = kalman.compute_process_matrices(F, Q, time_delta): the GENERATED terms *)
  Variable expm : 'M[F]_(n + n) -> 'M[F]_(n + n).
  Definition asm_Phi (dt : F) : 'M[F]_n := @cpm_ret0 F n expm asm_F asm_Q dt.
  Definition asm_Qd (dt : F) : 'M[F]_n := @cpm_ret1 F n expm asm_F asm_Q dt.
End Assembly.

(* ---- the one-shot Gauss-Markov (weighted least squares) solution ------------ *)
Section Batch.
  Variable F : realFieldType.
  Variable n : nat.

  (* quadratic cost of an estimate:  (x - a)^T W (x - a)  as a scalar *)
  Definition qform (k : nat) (W : 'M[F]_k) (e : 'cV[F]_k) : F := (e^T *m W *m e) 0 0.

  (* single stage: prior N(xb, P) and one measurement block z = H x + v, v ~ N(0, R).
     Stacked system  [I; H] x = [xb; z] + noise,  weight diag(P^-1, R^-1).
     Normal equations of the weighted least squares problem: *)
  Definition wls_info (m : nat) (P : 'M[F]_n) (H : 'M[F]_(m, n)) (R : 'M[F]_m) : 'M[F]_n :=
    (col_mx 1%:M H)^T *m block_mx (invmx P) 0 0 (invmx R) *m col_mx 1%:M H.
  Definition wls_rhs (m : nat) (xb : 'cV[F]_n) (P : 'M[F]_n) (z : 'cV[F]_m) (H : 'M[F]_(m, n))
             (R : 'M[F]_m) : 'cV[F]_n :=
    (col_mx 1%:M H)^T *m block_mx (invmx P) 0 0 (invmx R) *m col_mx xb z.
  Definition wls_cost (m : nat) (xb : 'cV[F]_n) (P : 'M[F]_n) (z : 'cV[F]_m) (H : 'M[F]_(m, n))
             (R : 'M[F]_m) (x : 'cV[F]_n) : F :=
    qform (invmx P) (x - xb) + qform (invmx R) (z - H *m x).
  (* the Gauss-Markov estimate and its covariance *)
  Definition wls_est (m : nat) (xb : 'cV[F]_n) (P : 'M[F]_n) (z : 'cV[F]_m) (H : 'M[F]_(m, n))
             (R : 'M[F]_m) : 'cV[F]_n := invmx (wls_info P H R) *m wls_rhs xb P z H R.
  Definition wls_cov (m : nat) (P : 'M[F]_n) (H : 'M[F]_(m, n)) (R : 'M[F]_m) : 'M[F]_n :=
    invmx (wls_info P H R).

  (* N stages.  Stage k: measurement (z k, H k, R k) of dimension md k at the current grid point, then
     the transition x_{k+1} = Phi k x_k + w_k, w_k ~ N(0, Qd k).
     Cost-to-arrive: J_0(x) = |x - xb|^2_{P0^-1};
       J_k^+(x)    = J_k(x) + |z_k - H_k x|^2_{R_k^-1}
       J_{k+1}(y)  = min_x  J_k^+(x) + |y - Phi_k x|^2_{Qd_k^-1}
     A cost (c, a, W) stands for  x |-> c + |x - a|^2_W  (W = information matrix). *)
  Record qcost : Type := mk_qcost { qc_arg : 'cV[F]_n; qc_info : 'M[F]_n }.

  Definition qc_meas (m : nat) (z : 'cV[F]_m) (H : 'M[F]_(m, n)) (R : 'M[F]_m) (c : qcost) : qcost :=
    let W := qc_info c + H^T *m invmx R *m H in
    mk_qcost (invmx W *m (qc_info c *m qc_arg c + H^T *m invmx R *m z)) W.

  (* marginalising the previous state out of  |x - a|^2_W + |y - Phi x|^2_{Q^-1}:
     minimum over x is |y - Phi a|^2_{(Phi W^-1 Phi^T + Q)^-1} *)
  Definition qc_time (Phi Q : 'M[F]_n) (c : qcost) : qcost :=
    mk_qcost (Phi *m qc_arg c) (invmx (Phi *m invmx (qc_info c) *m Phi^T + Q)).

  Variable md : nat -> nat.
  Variable zs : forall k : nat, 'cV[F]_(md k).
  Variable Hs : forall k : nat, 'M[F]_(md k, n).
  Variable Rs : forall k : nat, 'M[F]_(md k).
  Variable Phis Qds : nat -> 'M[F]_n.
  Variable chols : forall k : nat, 'M[F]_(md k) -> 'M[F]_(md k).

  (* the recursion of the filter: N times (correct; propagate) *)
  Fixpoint kf_run (N : nat) (s : 'cV[F]_n * 'M[F]_n) : 'cV[F]_n * 'M[F]_n :=
    match N with
    | O => s
    | S N' =>
        let s1 := kf_run N' s in
        let xc := @correct_ret0 F n (md N') (@chols N') s1.1 s1.2 (zs N') (Hs N') (Rs N') in
        let Pc := @correct_ret1 F n (md N') (@chols N') s1.2 (Hs N') (Rs N') in
        (Phis N' *m xc, Phis N' *m Pc *m (Phis N')^T + Qds N')
    end.

  (* the batch solution: the cost-to-arrive of the whole stacked problem *)
  Fixpoint batch_cost (N : nat) (c : qcost) : qcost :=
    match N with
    | O => c
    | S N' => qc_time (Phis N') (Qds N') (qc_meas (zs N') (Hs N') (Rs N') (batch_cost N' c))
    end.
End Batch.

(* ---- C12: one measurement epoch in both filters ------------------------------ *)
Section Cycle.
  Variable F : realFieldType.
  Variables ni ns : nat.                        (* inertial states, sensor-parameter states *)
  Local Notation n := (ni + ns)%N.
  Variable md : nat -> nat.
  Variable Hs : forall k : nat, 'M[F]_(md k, n).
  Variable Rs : forall k : nat, 'M[F]_(md k).
  Variable chols : forall k : nat, 'M[F]_(md k) -> 'M[F]_(md k).

  (* `for measurement in measurements: x, P, innovation = kalman.correct(x, P, z, H_full, R)`
     for the first N measurement blocks of the epoch (GENERATED terms) *)
  Fixpoint corr_run (zs : forall k : nat, 'cV[F]_(md k)) (N : nat) (s : 'cV[F]_n * 'M[F]_n)
    : 'cV[F]_n * 'M[F]_n :=
    match N with
    | O => s
    | S N' =>
        let s1 := corr_run zs N' s in
        (@correct_ret0 F n (md N') (@chols N') s1.1 s1.2 (zs N') (Hs N') (Rs N'),
         @correct_ret1 F n (md N') (@chols N') s1.2 (Hs N') (Rs N'))
    end.

  Variable Nav : Type.
  (* error_model.correct_pva(pva, x_ins) in the linearised world: an action of the additive group of
     error vectors (the real correct_pva is such an action to first order: C05) *)
  Variable sub : Nav -> 'cV[F]_ni -> Nav.

  (* feedback: x = 0; corrections; set_pva(correct_pva(get_pva(), x[ins]));
     update_estimates(x[sensor]) (estimates accumulate additively: C14 accumulate) *)
  Definition fb_cycle (zs : forall k : nat, 'cV[F]_(md k)) (N : nat)
             (s : Nav * 'cV[F]_ns * 'M[F]_n) : Nav * 'cV[F]_ns * 'M[F]_n :=
    let xp := corr_run zs N (0, s.2) in
    (sub s.1.1 (usubmx xp.1), s.1.2 + dsubmx xp.1, xp.2).

  (* feedforward: the state x is carried; the OUTPUT is the uncorrected trajectory minus T x and the
     sensor block of x *)
  Definition ff_cycle (zs : forall k : nat, 'cV[F]_(md k)) (N : nat)
             (s : 'cV[F]_n * 'M[F]_n) : 'cV[F]_n * 'M[F]_n := corr_run zs N s.
  Definition ff_output (nav_raw : Nav) (s : 'cV[F]_n * 'M[F]_n) : Nav * 'cV[F]_ns * 'M[F]_n :=
    (sub nav_raw (usubmx s.1), dsubmx s.1, s.2).
End Cycle.

(* ---- the NOISE-PARAMETRISED batch problem (singular process noise allowed) ------ *)
(*  dynamics  x_{k+1} = Phi_k x_k + Gam_k w_k  with unit white w_k (Qd_k = Gam_k Gam_k^T is only PSD),
    measurements z_k = H_k x_k + v_k, v_k ~ (0, R_k).  The free variables of the batch problem are the
    initial state x_0 and the noise vectors w_0 .. w_{N-1}; no inverse of Qd appears. *)
Section BatchNoise.
  Variable F : realFieldType.
  Variables n p : nat.
  Variable md : nat -> nat.
  Variable zs : forall k : nat, 'cV[F]_(md k).
  Variable Hs : forall k : nat, 'M[F]_(md k, n).
  Variable Rs : forall k : nat, 'M[F]_(md k).
  Variable Phis : nat -> 'M[F]_n.
  Variable Gams : nat -> 'M[F]_(n, p).

  (* the state sequence generated by (x0, w) *)
  Fixpoint nstate (x0 : 'cV[F]_n) (w : nat -> 'cV[F]_p) (k : nat) : 'cV[F]_n :=
    match k with
    | O => x0
    | S k' => Phis k' *m nstate x0 w k' + Gams k' *m w k'
    end.

  (* weighted least squares objective: prior on x0, unit weight on every w_k, R_k^-1 on the residuals *)
  Fixpoint noise_cost (xb : 'cV[F]_n) (P0 : 'M[F]_n) (N : nat) (x0 : 'cV[F]_n) (w : nat -> 'cV[F]_p) : F :=
    match N with
    | O => qform (invmx P0) (x0 - xb)
    | S N' => noise_cost xb P0 N' x0 w
              + qform (invmx (Rs N')) (zs N' - Hs N' *m nstate x0 w N')
              + qform 1%:M (w N')
    end.

  (* the process noise covariance the filter uses *)
  Definition gram_Qd (k : nat) : 'M[F]_n := Gams k *m (Gams k)^T.
End BatchNoise.
