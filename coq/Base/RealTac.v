(** Small shared facts/tactics for the real-analysis proofs over generated code. *)
From Coq Require Import Reals Lra.
Open Scope R_scope.

Definition A_ : R := 6378137.
Definition E2_ : R := 66943799901413 / 10000000000000000.
Definition RATE_ : R := 1458423 / 20000000000.           (* 7.292115e-5 *)
Definition GE_ : R := 97803253359 / 10000000000.
Definition FG_ : R := 3863705292792563 / 2000000000000000000.  (* earth.F as evaluated *)
Definition d2r : R := PI / 180.
Definition r2d : R := 180 / PI.

Lemma d2r_r2d : d2r * r2d = 1.
Proof. unfold d2r, r2d. field. apply PI_neq0. Qed.

Lemma one_minus_E2 : 1 - E2_ = 9933056200098587 / 10000000000000000.
Proof. unfold E2_. lra. Qed.

Lemma sin2_le1 x : sin x * sin x <= 1.
Proof. pose proof (SIN_bound x) as [H1 H2]. nra. Qed.

Lemma cos2_le1 x : cos x * cos x <= 1.
Proof. pose proof (COS_bound x) as [H1 H2]. nra. Qed.

Lemma sc1 x : sin x * sin x + cos x * cos x = 1.
Proof. pose proof (sin2_cos2 x) as H. unfold Rsqr in H. exact H. Qed.

Lemma W_pos x : 0 < 1 - E2_ * (sin x * sin x).
Proof. unfold E2_. pose proof (sin2_le1 x). nra. Qed.

Lemma W_pos' x : 0 < 1 - 66943799901413 / 10000000000000000 * (sin x * sin x).
Proof. exact (W_pos x). Qed.

Lemma sqrtW_sq x :
  sqrt (1 - 66943799901413 / 10000000000000000 * (sin x * sin x)) *
  sqrt (1 - 66943799901413 / 10000000000000000 * (sin x * sin x)) =
  1 - 66943799901413 / 10000000000000000 * (sin x * sin x).
Proof. apply sqrt_sqrt. pose proof (W_pos' x). lra. Qed.

Lemma sqrtW_pos x : 0 < sqrt (1 - 66943799901413 / 10000000000000000 * (sin x * sin x)).
Proof. apply sqrt_lt_R0. apply W_pos'. Qed.

(** sqrt(1 - sin^2) = |cos| ; equals cos when cos >= 0 (|lat| <= 90 deg). *)
Lemma sqrt_1msin2 x : 0 <= cos x -> sqrt (1 - sin x * sin x) = cos x.
Proof.
  intro H. replace (1 - sin x * sin x) with (cos x * cos x) by (pose proof (sc1 x); lra).
  apply sqrt_square. exact H.
Qed.

Lemma cos_d2r_nonneg lat : -90 <= lat <= 90 -> 0 <= cos (lat * (PI / 180)).
Proof.
  intros [H1 H2]. apply cos_ge_0; pose proof PI_RGT_0; nra.
Qed.

Lemma cos_d2r_pos lat : -90 < lat < 90 -> 0 < cos (lat * (PI / 180)).
Proof.
  intros [H1 H2]. apply cos_gt_0; pose proof PI_RGT_0; nra.
Qed.
