(** Facts about the hand specifications of Spec/LibSpecs.v (atan2, periodicity).
    Lemmas only; the definitions stay in LibSpecs.v. *)
From Coq Require Import Reals ZArith Lra Lia.
From PV Require Import Spec.LibSpecs.
Open Scope R_scope.

(** ** periodicity with integer (possibly negative) multiples *)

Lemma sin_period_Z x (k : Z) : sin (x + 2 * IZR k * PI) = sin x.
Proof.
  destruct (Z_le_gt_dec 0 k) as [Hk|Hk].
  - rewrite <- (Z2Nat.id k Hk), <- INR_IZR_INZ. apply sin_period.
  - rewrite <- (sin_period (x + 2 * IZR k * PI) (Z.to_nat (- k))).
    rewrite INR_IZR_INZ, Z2Nat.id by lia. rewrite opp_IZR. f_equal. ring.
Qed.

Lemma cos_period_Z x (k : Z) : cos (x + 2 * IZR k * PI) = cos x.
Proof.
  destruct (Z_le_gt_dec 0 k) as [Hk|Hk].
  - rewrite <- (Z2Nat.id k Hk), <- INR_IZR_INZ. apply cos_period.
  - rewrite <- (cos_period (x + 2 * IZR k * PI) (Z.to_nat (- k))).
    rewrite INR_IZR_INZ, Z2Nat.id by lia. rewrite opp_IZR. f_equal. ring.
Qed.

(** every angle in degrees has a representative in (-180, 180] *)
Lemma wrap_180 x : exists k : Z, -180 < x + 360 * IZR k <= 180.
Proof.
  exists (Int_part ((180 - x) / 360)).
  destruct (base_Int_part ((180 - x) / 360)) as [H1 H2].
  set (m := IZR (Int_part ((180 - x) / 360))) in *. lra.
Qed.

(** (sin, cos) is injective on (-PI, PI] *)
Lemma sincos_inj a b :
  - PI < a <= PI -> - PI < b <= PI -> sin a = sin b -> cos a = cos b -> a = b.
Proof.
  intros Ha Hb Hs Hc.
  assert (S0 : sin (a - b) = 0) by (rewrite sin_minus, Hs, Hc; ring).
  assert (C1 : cos (a - b) = 1).
  { rewrite cos_minus, Hs, Hc. pose proof (sin2_cos2 b) as H. unfold Rsqr in H. lra. }
  destruct (sin_eq_0_0 _ S0) as [k Hk].
  pose proof PI_RGT_0 as Hpi.
  assert (Hlt : -2 < IZR k < 2) by (split; nra).
  assert (Hk' : (-2 < k < 2)%Z) by (split; apply lt_IZR; lra).
  assert (Hcase : k = (-1)%Z \/ k = 0%Z \/ k = 1%Z) by lia.
  destruct Hcase as [E|[E|E]]; subst k.
  - exfalso. rewrite Hk in C1. replace (-1 * PI) with (- PI) in C1 by ring.
    rewrite cos_neg, cos_PI in C1. lra.
  - lra.
  - exfalso. rewrite Hk in C1. replace (1 * PI) with PI in C1 by ring.
    rewrite cos_PI in C1. lra.
Qed.

(** ** numpy.arctan2 *)

Lemma atan2_bound y x : - PI < atan2 y x <= PI.
Proof.
  unfold atan2. pose proof PI_RGT_0 as Hpi. pose proof (atan_bound (y / x)) as Hb.
  destruct (Rlt_dec 0 x) as [Hx|Hx]; [lra|].
  destruct (Rlt_dec x 0) as [Hx'|Hx'].
  - destruct (Rle_dec 0 y) as [Hy|Hy].
    + assert (y / x <= 0).
      { unfold Rdiv. assert (/ x < 0) by (apply Rinv_lt_0_compat; lra). nra. }
      assert (atan (y / x) <= 0).
      { destruct (Req_dec (y / x) 0) as [E|E]; [rewrite E, atan_0; lra|].
        left. rewrite <- atan_0. apply atan_increasing. lra. }
      lra.
    + assert (0 < y / x).
      { unfold Rdiv. assert (/ x < 0) by (apply Rinv_lt_0_compat; lra). nra. }
      assert (0 < atan (y / x)) by (rewrite <- atan_0; apply atan_increasing; lra).
      lra.
  - destruct (Rlt_dec 0 y); [lra|]. destruct (Rlt_dec y 0); lra.
Qed.

Lemma sqrt_scale_pos x y : 0 < x ->
  sqrt (x * x + y * y) = x * sqrt (1 + (y / x)²).
Proof.
  intro Hx. apply sqrt_lem_1.
  - nra.
  - apply Rmult_le_pos; [lra|apply sqrt_pos].
  - replace (x * sqrt (1 + (y / x)²) * (x * sqrt (1 + (y / x)²)))
      with (x * x * (sqrt (1 + (y / x)²) * sqrt (1 + (y / x)²))) by ring.
    rewrite sqrt_sqrt by (unfold Rsqr; nra). unfold Rsqr. field. lra.
Qed.

Lemma sqrt_scale_neg x y : x < 0 ->
  sqrt (x * x + y * y) = - x * sqrt (1 + (y / x)²).
Proof.
  intro Hx. apply sqrt_lem_1.
  - nra.
  - apply Rmult_le_pos; [lra|apply sqrt_pos].
  - replace (- x * sqrt (1 + (y / x)²) * (- x * sqrt (1 + (y / x)²)))
      with (x * x * (sqrt (1 + (y / x)²) * sqrt (1 + (y / x)²))) by ring.
    rewrite sqrt_sqrt by (unfold Rsqr; nra). unfold Rsqr. field. lra.
Qed.

Lemma sqrt1p_pos t : 0 < sqrt (1 + t²).
Proof. apply sqrt_lt_R0. unfold Rsqr. nra. Qed.

Lemma cos_atan2 y x : 0 < x * x + y * y ->
  cos (atan2 y x) = x / sqrt (x * x + y * y).
Proof.
  intro H. unfold atan2. pose proof (sqrt1p_pos (y / x)) as Hq.
  destruct (Rlt_dec 0 x) as [Hx|Hx].
  { rewrite cos_atan, (sqrt_scale_pos x y Hx). field. lra. }
  destruct (Rlt_dec x 0) as [Hx'|Hx'].
  { rewrite (sqrt_scale_neg x y Hx').
    destruct (Rle_dec 0 y) as [Hy|Hy].
    - rewrite neg_cos, cos_atan. field. lra.
    - unfold Rminus. rewrite cos_plus, cos_neg, sin_neg, cos_PI, sin_PI, cos_atan. field. lra. }
  assert (x = 0) by lra. subst x.
  destruct (Rlt_dec 0 y); [rewrite cos_PI2; unfold Rdiv; ring|].
  destruct (Rlt_dec y 0); [rewrite cos_neg, cos_PI2; unfold Rdiv; ring|]. nra.
Qed.

Lemma sin_atan2 y x : 0 < x * x + y * y ->
  sin (atan2 y x) = y / sqrt (x * x + y * y).
Proof.
  intro H. unfold atan2. pose proof (sqrt1p_pos (y / x)) as Hq.
  destruct (Rlt_dec 0 x) as [Hx|Hx].
  { rewrite sin_atan, (sqrt_scale_pos x y Hx). field. lra. }
  destruct (Rlt_dec x 0) as [Hx'|Hx'].
  { rewrite (sqrt_scale_neg x y Hx').
    destruct (Rle_dec 0 y) as [Hy|Hy].
    - rewrite neg_sin, sin_atan. field. lra.
    - unfold Rminus. rewrite sin_plus, cos_neg, sin_neg, cos_PI, sin_PI, sin_atan. field. lra. }
  assert (x = 0) by lra. subst x.
  replace (0 * 0 + y * y) with (y * y) by ring.
  destruct (Rlt_dec 0 y) as [Hy|Hy].
  { rewrite sin_PI2, sqrt_square by lra. field. lra. }
  destruct (Rlt_dec y 0) as [Hy'|Hy'].
  { rewrite sin_neg, sin_PI2. replace (y * y) with (- y * - y) by ring.
    rewrite sqrt_square by lra. field. lra. }
  nra.
Qed.

(** atan2 inverts (k sin a, k cos a) for k > 0 on the principal range *)
Lemma atan2_sin_cos k a : 0 < k -> - PI < a <= PI -> atan2 (k * sin a) (k * cos a) = a.
Proof.
  intros Hk Ha.
  assert (Hn : k * cos a * (k * cos a) + k * sin a * (k * sin a) = k * k).
  { pose proof (sin2_cos2 a) as H. unfold Rsqr in H. nra. }
  assert (Hpos : 0 < k * cos a * (k * cos a) + k * sin a * (k * sin a)) by nra.
  apply sincos_inj; [apply atan2_bound|exact Ha| |].
  - rewrite sin_atan2 by exact Hpos. rewrite Hn, sqrt_square by lra. field. lra.
  - rewrite cos_atan2 by exact Hpos. rewrite Hn, sqrt_square by lra. field. lra.
Qed.
