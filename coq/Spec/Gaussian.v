(** Hand-written, independent specification of the linear-Gaussian measurement
    update (conditional Gaussian).  Definitions only; nothing here refers to
    the generated code.

    Model:  x ~ N(xbar, P),  v ~ N(0, R) independent,  z = H x + v.
    The joint covariance of (x, z) is
         [[ P     , P H^T ],
          [ H P   , S     ]]      with  S = H P H^T + R,
    and the law of x given z is N(cond_mean, cond_cov) with
         K0        = P H^T S^-1
         cond_mean = xbar + K0 (z - H xbar)
         cond_cov  = P - K0 H P     (Schur complement of S in the joint covariance).
    For invertible P and R the same covariance is (P^-1 + H^T R^-1 H)^-1
    (information form) and the mean solves
         (P^-1 + H^T R^-1 H) x+ = P^-1 xbar + H^T R^-1 z. *)
From mathcomp Require Import all_ssreflect all_algebra.
Set Implicit Arguments.
Unset Strict Implicit.
Import GRing.Theory.
Local Open Scope ring_scope.

Section Algebraic.
Variable F : fieldType.

Definition symmetric (n : nat) (A : 'M[F]_n) : Prop := A^T = A.

Section Update.
Variables n m : nat.
Variables (x : 'cV[F]_n) (P : 'M[F]_n) (z : 'cV[F]_m) (H : 'M[F]_(m, n)) (R : 'M[F]_m).

(** covariance of the predicted measurement (innovation covariance) *)
Definition innov_cov : 'M[F]_m := H *m P *m H^T + R.

(** joint covariance of (x, z) *)
Definition joint_cov : 'M[F]_(n + m) :=
  block_mx P (P *m H^T) (H *m P) innov_cov.

(** regression coefficient of x on z *)
Definition gain : 'M[F]_(n, m) := P *m H^T *m invmx innov_cov.

Definition cond_mean : 'cV[F]_n := x + gain *m (z - H *m x).

Definition cond_cov : 'M[F]_n := P - gain *m H *m P.

(** Schur complement of the lower-right block of a 2x2 block matrix *)
Definition schur_compl (A : 'M[F]_n) (B : 'M[F]_(n, m)) (C : 'M[F]_(m, n)) (D : 'M[F]_m) :
  'M[F]_n := A - B *m invmx D *m C.

(** information (precision) form *)
Definition info_mx : 'M[F]_n := invmx P + H^T *m invmx R *m H.
Definition info_cov : 'M[F]_n := invmx info_mx.
Definition info_vec : 'cV[F]_n := invmx P *m x + H^T *m invmx R *m z.
End Update.

(** Covariance propagation through one discrete step. *)
Definition propagate (n : nat) (Phi Qd P : 'M[F]_n) : 'M[F]_n := Phi *m P *m Phi^T + Qd.

End Algebraic.

Section Ordered.
Variable F : realFieldType.

(** positive semidefinite (as a quadratic form; symmetry is stated separately) *)
Definition psd (n : nat) (A : 'M[F]_n) : Prop :=
  forall x : 'cV[F]_n, 0 <= (x^T *m A *m x) 0 0.

(** positive definite *)
Definition pd (n : nat) (A : 'M[F]_n) : Prop :=
  forall x : 'cV[F]_n, x != 0 -> 0 < (x^T *m A *m x) 0 0.

(** Loewner order:  A <= B  iff  B - A is PSD *)
Definition loewner_le (n : nat) (A B : 'M[F]_n) : Prop := psd (B - A).

End Ordered.
