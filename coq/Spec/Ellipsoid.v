(** Independent specification of the WGS-84 ellipsoid geometry (written from the
    geometry, not from the code).  Angles in radians here; the code's degrees are
    converted in the theorems. *)
From Coq Require Import Reals Lra.
Open Scope R_scope.

Section Ellipsoid.
Variables a e2 : R.            (* semi-major axis, squared eccentricity *)

Definition b2 : R := a * a * (1 - e2).      (* squared semi-minor axis *)

(** The ellipsoid of revolution x²/a² + y²/a² + z²/b² = 1. *)
Definition on_ellipsoid (x y z : R) : Prop :=
  x * x / (a * a) + y * y / (a * a) + z * z / b2 = 1.

(** Half the gradient of the level function: (x/a², y/a², z/b²). *)
Definition grad_x (x y z : R) := x / (a * a).
Definition grad_y (x y z : R) := y / (a * a).
Definition grad_z (x y z : R) := z / b2.

(** Local frame at geodetic latitude phi, longitude lam: unit vectors in ECEF. *)
Definition up_x phi lam := cos phi * cos lam.
Definition up_y phi lam := cos phi * sin lam.
Definition up_z (phi lam : R) := sin phi.
Definition north_x phi lam := - sin phi * cos lam.
Definition north_y phi lam := - sin phi * sin lam.
Definition north_z (phi lam : R) := cos phi.
Definition east_x (phi lam : R) := - sin lam.
Definition east_y (phi lam : R) := cos lam.
Definition east_z (phi lam : R) := 0.

(** Principal radii of curvature (meridian, prime vertical). *)
Definition W2 phi := 1 - e2 * (sin phi * sin phi).
Definition R_meridian phi := a * (1 - e2) / (W2 phi * sqrt (W2 phi)).
Definition R_transverse phi := a / sqrt (W2 phi).
End Ellipsoid.

(** Centrifugal acceleration  - Omega x (Omega x r)  for Omega = (0,0,w). *)
Definition centrifugal_x (w x y z : R) := w * w * x.
Definition centrifugal_y (w x y z : R) := w * w * y.
Definition centrifugal_z (w x y z : R) := 0.
