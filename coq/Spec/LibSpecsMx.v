(** Written specifications of the scipy.linalg primitives used by kalman.py,
    over an arbitrary field (MathComp matrices).  Definitions only. *)
From mathcomp Require Import all_ssreflect all_algebra.
Set Implicit Arguments.
Unset Strict Implicit.
Import GRing.Theory.
Local Open Scope ring_scope.

Section Specs.
Variable F : fieldType.

(** scipy.linalg.cho_solve((L, True), B) solves (L L^T) X = B. *)
Definition cho_solve (m n : nat) (L : 'M[F]_m) (B : 'M[F]_(m, n)) : 'M[F]_(m, n) :=
  invmx (L *m L^T) *m B.

(** scipy.linalg.solve_triangular(L, B, lower=True) solves L Y = B. *)
Definition solve_triangular (m n : nat) (L : 'M[F]_m) (B : 'M[F]_(m, n)) : 'M[F]_(m, n) :=
  invmx L *m B.

(** What scipy.linalg.cholesky(S, lower=True) is required to return. *)
Definition is_lower (m : nat) (L : 'M[F]_m) : Prop :=
  forall i j : 'I_m, (i < j)%N -> L i j = 0.
(** the factorisation alone: L lower triangular with L L^T = S *)
Definition cholesky_factor (m : nat) (chol : 'M[F]_m -> 'M[F]_m) (S : 'M[F]_m) : Prop :=
  is_lower (chol S) /\ chol S *m (chol S)^T = S.
(** ... of an invertible S (then L is invertible too) *)
Definition cholesky_spec (m : nat) (chol : 'M[F]_m -> 'M[F]_m) (S : 'M[F]_m) : Prop :=
  is_lower (chol S) /\ chol S *m (chol S)^T = S /\ chol S \in unitmx.
End Specs.
