(** The hub specification: rigid-body navigation on the rotating WGS-84 ellipsoid.

    Written by hand FROM THE PHYSICS (Groves, "Principles of GNSS, Inertial and
    Multisensor Integrated Navigation Systems", ch. 2 and 5; Savage 1998), NOT from
    the pyins code.  Only the physical constants (Base/RealTac.v: A_, E2_, RATE_,
    GE_, FG_) are shared with the code.

    State (15 reals):
      lat lon   geodetic latitude / longitude in DEGREES (the library's unit),
      alt       height above the ellipsoid, metres,
      VN VE VD  velocity relative to the Earth resolved in the local North-East-Down frame,
      C00..C22  C = C_nb, direction cosine matrix taking body-frame vectors to NED
                (row index = NED axis, column index = body axis).
    Inputs (6 reals): body-frame angular rate w = (w0,w1,w2) [rad/s] of the body with
    respect to inertial space, and specific force f = (f0,f1,f2) [m/s^2].

    Differential equations ( ' = d/dt, phi = lat*pi/180 ):
      lat' = (180/pi) * VN / (Rn + alt)
      lon' = (180/pi) * VE / ((Re + alt) * cos phi)
      alt' = - VD
      v'   = C f + (0,0,g(phi,alt)) - (2*Omega + rho) x v
      C'   = C [w x] - [(Omega + rho) x] C
    with  Omega = (RATE cos phi, 0, - RATE sin phi)            Earth rate in NED,
          rho   = (VE/(Re+alt), - VN/(Rn+alt), - VE tan phi/(Re+alt))   transport rate,
          Rn, Re the meridian / prime-vertical radii of curvature of the ellipsoid,
          g the Somigliana normal gravity with the linear free-air height term.

    All 15 right-hand sides take the SAME argument list
      lat lon alt VN VE VD C00 C01 C02 C10 C11 C12 C20 C21 C22 w0 w1 w2 f0 f1 f2
    (the argument order of the generated kernel step, without dt). *)
From Coq Require Import Reals.
From PV Require Import Base.RealTac Spec.Ellipsoid.
Open Scope R_scope.

(** ** Geometry and gravity (angles in radians here) *)

(** meridian and prime-vertical ("transverse") radii of curvature at latitude [lat] degrees *)
Definition nav_Rn (lat : R) : R := R_meridian A_ E2_ (lat * d2r).
Definition nav_Re (lat : R) : R := R_transverse A_ E2_ (lat * d2r).

(** Somigliana normal gravity on the ellipsoid, times the linear height factor *)
Definition normal_gravity (phi h : R) : R :=
  GE_ * (1 + FG_ * (sin phi * sin phi)) / sqrt (1 - E2_ * (sin phi * sin phi)) * (1 - 2 * h / A_).

(** Earth rate resolved in NED *)
Definition nav_Omega_N (lat : R) : R := RATE_ * cos (lat * d2r).
Definition nav_Omega_E (lat : R) : R := 0.
Definition nav_Omega_D (lat : R) : R := - RATE_ * sin (lat * d2r).

(** transport rate: angular rate of the NED frame with respect to the Earth *)
Definition nav_rho_N (lat alt VN VE : R) : R := VE / (nav_Re lat + alt).
Definition nav_rho_E (lat alt VN VE : R) : R := - VN / (nav_Rn lat + alt).
Definition nav_rho_D (lat alt VN VE : R) : R := - VE * tan (lat * d2r) / (nav_Re lat + alt).

(** cross product and skew matrix [a x] = ((0,-a2,a1),(a2,0,-a0),(-a1,a0,0)) *)
Definition cross0 (a0 a1 a2 b0 b1 b2 : R) : R := a1 * b2 - a2 * b1.
Definition cross1 (a0 a1 a2 b0 b1 b2 : R) : R := a2 * b0 - a0 * b2.
Definition cross2 (a0 a1 a2 b0 b1 b2 : R) : R := a0 * b1 - a1 * b0.

Definition skew00 (a0 a1 a2 : R) : R := 0.
Definition skew01 (a0 a1 a2 : R) : R := - a2.
Definition skew02 (a0 a1 a2 : R) : R := a1.
Definition skew10 (a0 a1 a2 : R) : R := a2.
Definition skew11 (a0 a1 a2 : R) : R := 0.
Definition skew12 (a0 a1 a2 : R) : R := - a0.
Definition skew20 (a0 a1 a2 : R) : R := - a1.
Definition skew21 (a0 a1 a2 : R) : R := a0.
Definition skew22 (a0 a1 a2 : R) : R := 0.

Definition dot3 (a0 a1 a2 b0 b1 b2 : R) : R := a0 * b0 + a1 * b1 + a2 * b2.

(** rotation rate of the NED frame w.r.t. inertial space (Omega + rho) and the Coriolis rate (2 Omega + rho) *)
Definition nav_om_N (lat alt VN VE : R) : R := nav_Omega_N lat + nav_rho_N lat alt VN VE.
Definition nav_om_E (lat alt VN VE : R) : R := nav_Omega_E lat + nav_rho_E lat alt VN VE.
Definition nav_om_D (lat alt VN VE : R) : R := nav_Omega_D lat + nav_rho_D lat alt VN VE.
Definition nav_cor_N (lat alt VN VE : R) : R := 2 * nav_Omega_N lat + nav_rho_N lat alt VN VE.
Definition nav_cor_E (lat alt VN VE : R) : R := 2 * nav_Omega_E lat + nav_rho_E lat alt VN VE.
Definition nav_cor_D (lat alt VN VE : R) : R := 2 * nav_Omega_D lat + nav_rho_D lat alt VN VE.

(** ** Right-hand side of the navigation equations (15 components, one common argument list) *)

Definition nav_rhs_lat (lat lon alt VN VE VD C00 C01 C02 C10 C11 C12 C20 C21 C22 w0 w1 w2 f0 f1 f2 : R) : R :=
  r2d * (VN / (nav_Rn lat + alt)).
Definition nav_rhs_lon (lat lon alt VN VE VD C00 C01 C02 C10 C11 C12 C20 C21 C22 w0 w1 w2 f0 f1 f2 : R) : R :=
  r2d * (VE / ((nav_Re lat + alt) * cos (lat * d2r))).
Definition nav_rhs_alt (lat lon alt VN VE VD C00 C01 C02 C10 C11 C12 C20 C21 C22 w0 w1 w2 f0 f1 f2 : R) : R :=
  - VD.

(** v' = C f + g_n - (2 Omega + rho) x v *)
Definition nav_rhs_VN (lat lon alt VN VE VD C00 C01 C02 C10 C11 C12 C20 C21 C22 w0 w1 w2 f0 f1 f2 : R) : R :=
  dot3 C00 C01 C02 f0 f1 f2
  - cross0 (nav_cor_N lat alt VN VE) (nav_cor_E lat alt VN VE) (nav_cor_D lat alt VN VE) VN VE VD.
Definition nav_rhs_VE (lat lon alt VN VE VD C00 C01 C02 C10 C11 C12 C20 C21 C22 w0 w1 w2 f0 f1 f2 : R) : R :=
  dot3 C10 C11 C12 f0 f1 f2
  - cross1 (nav_cor_N lat alt VN VE) (nav_cor_E lat alt VN VE) (nav_cor_D lat alt VN VE) VN VE VD.
Definition nav_rhs_VD (lat lon alt VN VE VD C00 C01 C02 C10 C11 C12 C20 C21 C22 w0 w1 w2 f0 f1 f2 : R) : R :=
  dot3 C20 C21 C22 f0 f1 f2 + normal_gravity (lat * d2r) alt
  - cross2 (nav_cor_N lat alt VN VE) (nav_cor_E lat alt VN VE) (nav_cor_D lat alt VN VE) VN VE VD.

(** C' = C [w x] - [(Omega + rho) x] C, entry (i,j):  row i of C times column j of [w x]
    minus row i of [(Omega+rho) x] times column j of C *)
Definition nav_rhs_C00 (lat lon alt VN VE VD C00 C01 C02 C10 C11 C12 C20 C21 C22 w0 w1 w2 f0 f1 f2 : R) : R :=
  dot3 C00 C01 C02 (skew00 w0 w1 w2) (skew10 w0 w1 w2) (skew20 w0 w1 w2)
  - dot3 (skew00 (nav_om_N lat alt VN VE) (nav_om_E lat alt VN VE) (nav_om_D lat alt VN VE))
         (skew01 (nav_om_N lat alt VN VE) (nav_om_E lat alt VN VE) (nav_om_D lat alt VN VE))
         (skew02 (nav_om_N lat alt VN VE) (nav_om_E lat alt VN VE) (nav_om_D lat alt VN VE))
         C00 C10 C20.
Definition nav_rhs_C01 (lat lon alt VN VE VD C00 C01 C02 C10 C11 C12 C20 C21 C22 w0 w1 w2 f0 f1 f2 : R) : R :=
  dot3 C00 C01 C02 (skew01 w0 w1 w2) (skew11 w0 w1 w2) (skew21 w0 w1 w2)
  - dot3 (skew00 (nav_om_N lat alt VN VE) (nav_om_E lat alt VN VE) (nav_om_D lat alt VN VE))
         (skew01 (nav_om_N lat alt VN VE) (nav_om_E lat alt VN VE) (nav_om_D lat alt VN VE))
         (skew02 (nav_om_N lat alt VN VE) (nav_om_E lat alt VN VE) (nav_om_D lat alt VN VE))
         C01 C11 C21.
Definition nav_rhs_C02 (lat lon alt VN VE VD C00 C01 C02 C10 C11 C12 C20 C21 C22 w0 w1 w2 f0 f1 f2 : R) : R :=
  dot3 C00 C01 C02 (skew02 w0 w1 w2) (skew12 w0 w1 w2) (skew22 w0 w1 w2)
  - dot3 (skew00 (nav_om_N lat alt VN VE) (nav_om_E lat alt VN VE) (nav_om_D lat alt VN VE))
         (skew01 (nav_om_N lat alt VN VE) (nav_om_E lat alt VN VE) (nav_om_D lat alt VN VE))
         (skew02 (nav_om_N lat alt VN VE) (nav_om_E lat alt VN VE) (nav_om_D lat alt VN VE))
         C02 C12 C22.
Definition nav_rhs_C10 (lat lon alt VN VE VD C00 C01 C02 C10 C11 C12 C20 C21 C22 w0 w1 w2 f0 f1 f2 : R) : R :=
  dot3 C10 C11 C12 (skew00 w0 w1 w2) (skew10 w0 w1 w2) (skew20 w0 w1 w2)
  - dot3 (skew10 (nav_om_N lat alt VN VE) (nav_om_E lat alt VN VE) (nav_om_D lat alt VN VE))
         (skew11 (nav_om_N lat alt VN VE) (nav_om_E lat alt VN VE) (nav_om_D lat alt VN VE))
         (skew12 (nav_om_N lat alt VN VE) (nav_om_E lat alt VN VE) (nav_om_D lat alt VN VE))
         C00 C10 C20.
Definition nav_rhs_C11 (lat lon alt VN VE VD C00 C01 C02 C10 C11 C12 C20 C21 C22 w0 w1 w2 f0 f1 f2 : R) : R :=
  dot3 C10 C11 C12 (skew01 w0 w1 w2) (skew11 w0 w1 w2) (skew21 w0 w1 w2)
  - dot3 (skew10 (nav_om_N lat alt VN VE) (nav_om_E lat alt VN VE) (nav_om_D lat alt VN VE))
         (skew11 (nav_om_N lat alt VN VE) (nav_om_E lat alt VN VE) (nav_om_D lat alt VN VE))
         (skew12 (nav_om_N lat alt VN VE) (nav_om_E lat alt VN VE) (nav_om_D lat alt VN VE))
         C01 C11 C21.
Definition nav_rhs_C12 (lat lon alt VN VE VD C00 C01 C02 C10 C11 C12 C20 C21 C22 w0 w1 w2 f0 f1 f2 : R) : R :=
  dot3 C10 C11 C12 (skew02 w0 w1 w2) (skew12 w0 w1 w2) (skew22 w0 w1 w2)
  - dot3 (skew10 (nav_om_N lat alt VN VE) (nav_om_E lat alt VN VE) (nav_om_D lat alt VN VE))
         (skew11 (nav_om_N lat alt VN VE) (nav_om_E lat alt VN VE) (nav_om_D lat alt VN VE))
         (skew12 (nav_om_N lat alt VN VE) (nav_om_E lat alt VN VE) (nav_om_D lat alt VN VE))
         C02 C12 C22.
Definition nav_rhs_C20 (lat lon alt VN VE VD C00 C01 C02 C10 C11 C12 C20 C21 C22 w0 w1 w2 f0 f1 f2 : R) : R :=
  dot3 C20 C21 C22 (skew00 w0 w1 w2) (skew10 w0 w1 w2) (skew20 w0 w1 w2)
  - dot3 (skew20 (nav_om_N lat alt VN VE) (nav_om_E lat alt VN VE) (nav_om_D lat alt VN VE))
         (skew21 (nav_om_N lat alt VN VE) (nav_om_E lat alt VN VE) (nav_om_D lat alt VN VE))
         (skew22 (nav_om_N lat alt VN VE) (nav_om_E lat alt VN VE) (nav_om_D lat alt VN VE))
         C00 C10 C20.
Definition nav_rhs_C21 (lat lon alt VN VE VD C00 C01 C02 C10 C11 C12 C20 C21 C22 w0 w1 w2 f0 f1 f2 : R) : R :=
  dot3 C20 C21 C22 (skew01 w0 w1 w2) (skew11 w0 w1 w2) (skew21 w0 w1 w2)
  - dot3 (skew20 (nav_om_N lat alt VN VE) (nav_om_E lat alt VN VE) (nav_om_D lat alt VN VE))
         (skew21 (nav_om_N lat alt VN VE) (nav_om_E lat alt VN VE) (nav_om_D lat alt VN VE))
         (skew22 (nav_om_N lat alt VN VE) (nav_om_E lat alt VN VE) (nav_om_D lat alt VN VE))
         C01 C11 C21.
Definition nav_rhs_C22 (lat lon alt VN VE VD C00 C01 C02 C10 C11 C12 C20 C21 C22 w0 w1 w2 f0 f1 f2 : R) : R :=
  dot3 C20 C21 C22 (skew02 w0 w1 w2) (skew12 w0 w1 w2) (skew22 w0 w1 w2)
  - dot3 (skew20 (nav_om_N lat alt VN VE) (nav_om_E lat alt VN VE) (nav_om_D lat alt VN VE))
         (skew21 (nav_om_N lat alt VN VE) (nav_om_E lat alt VN VE) (nav_om_D lat alt VN VE))
         (skew22 (nav_om_N lat alt VN VE) (nav_om_E lat alt VN VE) (nav_om_D lat alt VN VE))
         C02 C12 C22.
