(** Specification for C15 (hand-written, independent of the algorithm in
    pyins/strapdown.py): truncated formal power series in the interval length [t]
    (coefficients of 1, t, t^2, t^3; everything is "mod t^4") with R^3 / 3x3
    coefficients as plain records of reals, and the formal series solution of

        C' = C [w(t) x],  C(0) = I          (attitude of the body w.r.t. its start frame)
        u' = C f(t),      u(0) = 0          (specific force resolved in the start frame)

    defined by the coefficient recursion of the ODE itself (Peano-Baker / Picard):
        (k+1) C_{k+1} = sum_{i+j=k} C_i W_j ,   (k+1) u_{k+1} = sum_{i+j=k} C_i f_j .
    Definitions only; the facts that these series do solve the ODEs mod t^4 and are the
    only ones that do are proved in Proofs/C15Proofs.v.  No analysis is used here: a
    statement "X = Y mod t^4" is equality of the four coefficients.

    The last section is the list model of the table assembly (rows and stamps). *)
From Coq Require Import Reals List.
Import ListNotations.
Open Scope R_scope.

(** * R^3 and 3x3 matrices *)
Record V3 := mkV { vx : R; vy : R; vz : R }.
Record M3 := mkM { m00 : R; m01 : R; m02 : R;
                   m10 : R; m11 : R; m12 : R;
                   m20 : R; m21 : R; m22 : R }.

Definition vzero : V3 := mkV 0 0 0.
Definition vadd (a b : V3) : V3 := mkV (vx a + vx b) (vy a + vy b) (vz a + vz b).
Definition vsub (a b : V3) : V3 := mkV (vx a - vx b) (vy a - vy b) (vz a - vz b).
Definition vscale (k : R) (a : V3) : V3 := mkV (k * vx a) (k * vy a) (k * vz a).
Definition cross (a b : V3) : V3 :=
  mkV (vy a * vz b - vz a * vy b) (vz a * vx b - vx a * vz b) (vx a * vy b - vy a * vx b).

Definition mzero : M3 := mkM 0 0 0 0 0 0 0 0 0.
Definition I3 : M3 := mkM 1 0 0 0 1 0 0 0 1.
Definition madd (A B : M3) : M3 :=
  mkM (m00 A + m00 B) (m01 A + m01 B) (m02 A + m02 B)
      (m10 A + m10 B) (m11 A + m11 B) (m12 A + m12 B)
      (m20 A + m20 B) (m21 A + m21 B) (m22 A + m22 B).
Definition mscale (k : R) (A : M3) : M3 :=
  mkM (k * m00 A) (k * m01 A) (k * m02 A)
      (k * m10 A) (k * m11 A) (k * m12 A)
      (k * m20 A) (k * m21 A) (k * m22 A).
Definition mmul (A B : M3) : M3 :=
  mkM (m00 A * m00 B + m01 A * m10 B + m02 A * m20 B)
      (m00 A * m01 B + m01 A * m11 B + m02 A * m21 B)
      (m00 A * m02 B + m01 A * m12 B + m02 A * m22 B)
      (m10 A * m00 B + m11 A * m10 B + m12 A * m20 B)
      (m10 A * m01 B + m11 A * m11 B + m12 A * m21 B)
      (m10 A * m02 B + m11 A * m12 B + m12 A * m22 B)
      (m20 A * m00 B + m21 A * m10 B + m22 A * m20 B)
      (m20 A * m01 B + m21 A * m11 B + m22 A * m21 B)
      (m20 A * m02 B + m21 A * m12 B + m22 A * m22 B).
Definition mvec (A : M3) (v : V3) : V3 :=
  mkV (m00 A * vx v + m01 A * vy v + m02 A * vz v)
      (m10 A * vx v + m11 A * vy v + m12 A * vz v)
      (m20 A * vx v + m21 A * vy v + m22 A * vz v).
(** [v x] : the matrix with  skew v · x = v × x *)
Definition skew (v : V3) : M3 :=
  mkM 0 (- vz v) (vy v)
      (vz v) 0 (- vx v)
      (- vy v) (vx v) 0.

(** * Series truncated after t^3 *)
Record ser (A : Type) := mkS { s0 : A; s1 : A; s2 : A; s3 : A }.
Arguments mkS {A}. Arguments s0 {A}. Arguments s1 {A}. Arguments s2 {A}. Arguments s3 {A}.

(** value of a (vector) polynomial s0 + s1 t + s2 t^2 + s3 t^3 *)
Definition veval (s : ser V3) (t : R) : V3 :=
  vadd (vadd (s0 s) (vscale t (s1 s))) (vadd (vscale (t * t) (s2 s)) (vscale (t * t * t) (s3 s))).

Definition ssubV (a b : ser V3) : ser V3 :=
  mkS (vsub (s0 a) (s0 b)) (vsub (s1 a) (s1 b)) (vsub (s2 a) (s2 b)) (vsub (s3 a) (s3 b)).

(** Cauchy products mod t^4 *)
Definition smulMM (A B : ser M3) : ser M3 :=
  mkS (mmul (s0 A) (s0 B))
      (madd (mmul (s0 A) (s1 B)) (mmul (s1 A) (s0 B)))
      (madd (madd (mmul (s0 A) (s2 B)) (mmul (s1 A) (s1 B))) (mmul (s2 A) (s0 B)))
      (madd (madd (madd (mmul (s0 A) (s3 B)) (mmul (s1 A) (s2 B))) (mmul (s2 A) (s1 B)))
            (mmul (s3 A) (s0 B))).
Definition smulMV (A : ser M3) (f : ser V3) : ser V3 :=
  mkS (mvec (s0 A) (s0 f))
      (vadd (mvec (s0 A) (s1 f)) (mvec (s1 A) (s0 f)))
      (vadd (vadd (mvec (s0 A) (s2 f)) (mvec (s1 A) (s1 f))) (mvec (s2 A) (s0 f)))
      (vadd (vadd (vadd (mvec (s0 A) (s3 f)) (mvec (s1 A) (s2 f))) (mvec (s2 A) (s1 f)))
            (mvec (s3 A) (s0 f))).
Definition saddM (A B : ser M3) : ser M3 :=
  mkS (madd (s0 A) (s0 B)) (madd (s1 A) (s1 B)) (madd (s2 A) (s2 B)) (madd (s3 A) (s3 B)).
Definition sscaleM (k : R) (A : ser M3) : ser M3 :=
  mkS (mscale k (s0 A)) (mscale k (s1 A)) (mscale k (s2 A)) (mscale k (s3 A)).
Definition sI : ser M3 := mkS I3 mzero mzero mzero.
Definition szeroM : ser M3 := mkS mzero mzero mzero mzero.
Definition sskew (th : ser V3) : ser M3 :=
  mkS (skew (s0 th)) (skew (s1 th)) (skew (s2 th)) (skew (s3 th)).

(** * The ODEs, coefficient by coefficient.
    A series known mod t^4 has a derivative known mod t^3:
    (S')_0 = S_1, (S')_1 = 2 S_2, (S')_2 = 3 S_3. *)
Definition solves_C (W C : ser M3) : Prop :=
  s0 C = I3 /\
  s1 C = s0 (smulMM C W) /\
  mscale 2 (s2 C) = s1 (smulMM C W) /\
  mscale 3 (s3 C) = s2 (smulMM C W).

Definition solves_u (C : ser M3) (F u : ser V3) : Prop :=
  s0 u = vzero /\
  s1 u = s0 (smulMV C F) /\
  vscale 2 (s2 u) = s1 (smulMV C F) /\
  vscale 3 (s3 u) = s2 (smulMV C F).

(** * The solutions, by the recursion  (k+1) X_{k+1} = (product)_k *)
Definition pb_C (W : ser M3) : ser M3 :=
  let c0 := I3 in
  let c1 := mmul c0 (s0 W) in
  let c2 := mscale (/ 2) (madd (mmul c0 (s1 W)) (mmul c1 (s0 W))) in
  let c3 := mscale (/ 3) (madd (madd (mmul c0 (s2 W)) (mmul c1 (s1 W))) (mmul c2 (s0 W))) in
  mkS c0 c1 c2 c3.

Definition pb_u (C : ser M3) (F : ser V3) : ser V3 :=
  let p := smulMV C F in
  mkS vzero (s0 p) (vscale (/ 2) (s1 p)) (vscale (/ 3) (s2 p)).

(** * Signals that are linear in time, t = 0 at the start of the interval *)
Definition lin (a b : V3) (t : R) : V3 := vadd a (vscale t b).          (* a + b t *)
(** integral of a + b s over [x, y] (is_RInt proved in C15Proofs.int_lin_is_RInt) *)
Definition int_lin (a b : V3) (x y : R) : V3 :=
  vadd (vscale (y - x) a) (vscale ((y * y - x * x) / 2) b).
Definition omega_lin (a b : V3) : ser M3 := mkS (skew a) (skew b) mzero mzero.
Definition f_lin (d e : V3) : ser V3 := mkS d e vzero vzero.

Definition C_PB (a b : V3) : ser M3 := pb_C (omega_lin a b).
Definition u_PB (a b d e : V3) : ser V3 := pb_u (C_PB a b) (f_lin d e).

(** * exp of a rotation vector that is itself a series WITHOUT constant term:
    exp [th x] = I + K + K^2/2 + K^3/6 mod t^4,  K = [th x]  (K^n = 0 mod t^4 for n >= 4:
    C15Proofs.skew_pow4_zero). *)
Definition exp_rv3 (th : ser V3) : ser M3 :=
  let K := sskew th in
  let K2 := smulMM K K in
  let K3 := smulMM K2 K in
  saddM (saddM sI K) (saddM (sscaleM (/ 2) K2) (sscaleM (/ 6) K3)).

(** * List model of the table assembly of compute_increments_from_imu.
    An IMU table is a list of (time stamp, sample).  [sub] is the subtraction of stamps,
    [f prev cur dt] the per-row formula (it sees exactly two consecutive samples and the
    interval between them). *)
Section Rows.
  Variables (T S O : Type) (sub : T -> T -> T) (f : S -> S -> T -> O).
  Fixpoint rows_from (tp : T) (sp : S) (rest : list (T * S)) : list (T * T * O) :=
    match rest with
    | [] => []
    | (t, s) :: r => (t, sub t tp, f sp s (sub t tp)) :: rows_from t s r
    end.
  Definition rows (imu : list (T * S)) : list (T * T * O) :=
    match imu with
    | [] => []
    | (t0, s0) :: r => rows_from t0 s0 r
    end.
End Rows.
Arguments rows_from {T S O}. Arguments rows {T S O}.
