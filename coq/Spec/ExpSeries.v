(** Specification of the matrix exponential as a FORMAL POWER SERIES, and of
    the objects of Van Loan's method.  Definitions only.

    scipy.linalg.expm (Pade + scaling and squaring) approximates the limit of
    [exp_upto N A] as N -> infinity; nothing analytic is formalised here.
    The truncations make sense over any field, but are only meaningful in
    characteristic 0 (k! invertible); theorems that need this say so
    ([numFieldType]). *)
From mathcomp Require Import all_ssreflect all_algebra.
Set Implicit Arguments.
Unset Strict Implicit.
Import GRing.Theory.
Local Open Scope ring_scope.

Section ExpSeries.
Variable F : fieldType.

(** power of a square matrix of any size (['M_n] is a ring only for n = n'.+1) *)
Definition mx_pow (n : nat) (A : 'M[F]_n) (k : nat) : 'M[F]_n :=
  iter k (mulmx A) 1%:M.

(** k-th coefficient of the series  exp(A s) = sum_k (A^k / k!) s^k *)
Definition exp_coeff (n : nat) (A : 'M[F]_n) (k : nat) : 'M[F]_n :=
  (k`!%:R)^-1 *: mx_pow A k.

(** truncated exponential series: sum_{k < N} A^k / k! *)
Definition exp_upto (n : nat) (N : nat) (A : 'M[F]_n) : 'M[F]_n :=
  \sum_(k < N) exp_coeff A k.

(** Upper-right block of (block_mx A B 0 D)^k :  G 0 = 0, G (k+1) = A G k + B D^k *)
Fixpoint ur_pow (n1 n2 : nat) (A : 'M[F]_n1) (B : 'M[F]_(n1, n2)) (D : 'M[F]_n2)
  (k : nat) : 'M[F]_(n1, n2) :=
  match k with
  | 0 => 0
  | k'.+1 => A *m ur_pow A B D k' + B *m mx_pow D k'
  end.

(** Cauchy product of two coefficient sequences (product of formal series) *)
Definition cauchy (n : nat) (a b : nat -> 'M[F]_n) (d : nat) : 'M[F]_n :=
  \sum_(i < d.+1) a i *m b (d - i)%N.

Section VanLoan.
Variable n : nat.
Variables (A Q : 'M[F]_n).

(** Van Loan's block matrix [[A, Q], [0, -A^T]] *)
Definition vl_mx : 'M[F]_(n + n) := block_mx A Q 0 (- A^T).

(** coefficient sequences (in the step s) of the blocks of exp(vl_mx s) *)
Definition vl_E11 (k : nat) : 'M[F]_n := exp_coeff A k.
Definition vl_E12 (k : nat) : 'M[F]_n := (k`!%:R)^-1 *: ur_pow A Q (- A^T) k.
Definition vl_E22 (k : nat) : 'M[F]_n := exp_coeff (- A^T) k.

(** coefficient of s^d in  Qd(s) = E12(s) * E11(s)^T *)
Definition vl_Qd_coeff (d : nat) : 'M[F]_n :=
  cauchy vl_E12 (fun k => (vl_E11 k)^T) d.

(** coefficient of s^d in the integrand  W(s) = exp(A s) Q exp(A^T s):
      sum_{i+j = d} A^i Q (A^T)^j / (i! j!) *)
Definition integrand_coeff (d : nat) : 'M[F]_n :=
  \sum_(i < d.+1) ((i`! * (d - i)`!)%:R)^-1 *: (mx_pow A i *m Q *m mx_pow A^T (d - i)).

(** coefficient of s^d in the term-by-term integral  int_0^s W(u) du :
      0 for d = 0,  integrand_coeff (d-1) / d  otherwise, i.e.
      sum_{i+j+1 = d} A^i Q (A^T)^j / (i! j! (i+j+1)) *)
Definition integral_coeff (d : nat) : 'M[F]_n :=
  if d is d'.+1 then (d%:R)^-1 *: integrand_coeff d' else 0.

End VanLoan.

(** Abstract requirements on an exponential [E t = expm (t *: vl_mx A Q)]
    used by the composition theorem; they hold for the exact exponential:
      E (s + t) = E s * E t                     (semigroup on a line)
      lower-left block 0                        (block triangular)
      E22 t * (E11 t)^T = 1                     (exp(-A^T t) = (exp(A t)^T)^-1). *)
Definition vl_exp_laws (n : nat) (E : F -> 'M[F]_(n + n)) : Prop :=
  [/\ forall s t, E (s + t) = E s *m E t,
      forall t, dlsubmx (E t) = 0
    & forall t, drsubmx (E t) *m (ulsubmx (E t))^T = 1%:M].

End ExpSeries.

Arguments mx_pow : simpl never.
Arguments ur_pow : simpl never.
