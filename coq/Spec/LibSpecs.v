(** Written specifications of the numpy/scipy primitives that the traced code
    calls and that the translator does not look inside.  They are definitions
    (no axioms); their agreement with the real library is validated numerically
    on every run by tools/gen.py (trusted base: DESIGN.md section 3). *)
From Coq Require Import Reals ZArith Lra.
Open Scope R_scope.

(** floor; Python's float [x % m] for m > 0 is [x - m * floor (x / m)]. *)
Definition Rfloor (x : R) : Z := Int_part x.
Definition pymod (x m : R) : R := x - m * IZR (Rfloor (x / m)).

(** numpy.arctan2 *)
Definition atan2 (y x : R) : R :=
  if Rlt_dec 0 x then atan (y / x)
  else if Rlt_dec x 0 then
         (if Rle_dec 0 y then atan (y / x) + PI else atan (y / x) - PI)
  else if Rlt_dec 0 y then PI / 2
  else if Rlt_dec y 0 then - (PI / 2) else 0.

(** scipy Rotation.from_rotvec(v).as_matrix(): the exponential map.
    k1 = sin|v|/|v|, k2 = (1-cos|v|)/|v|^2 with their limits at 0. *)
Definition rv_norm (x y z : R) : R := sqrt (x*x + y*y + z*z).
Definition rv_k1 (x y z : R) : R :=
  if Req_EM_T (rv_norm x y z) 0 then 1 else sin (rv_norm x y z) / rv_norm x y z.
Definition rv_k2 (x y z : R) : R :=
  if Req_EM_T (rv_norm x y z) 0 then 1/2
  else (1 - cos (rv_norm x y z)) / (x*x + y*y + z*z).
Definition rv_cos (x y z : R) : R := cos (rv_norm x y z).
Definition rotvec_m00 x y z := rv_k2 x y z * x * x + rv_cos x y z.
Definition rotvec_m01 x y z := rv_k2 x y z * x * y - rv_k1 x y z * z.
Definition rotvec_m02 x y z := rv_k2 x y z * x * z + rv_k1 x y z * y.
Definition rotvec_m10 x y z := rv_k2 x y z * y * x + rv_k1 x y z * z.
Definition rotvec_m11 x y z := rv_k2 x y z * y * y + rv_cos x y z.
Definition rotvec_m12 x y z := rv_k2 x y z * y * z - rv_k1 x y z * x.
Definition rotvec_m20 x y z := rv_k2 x y z * z * x - rv_k1 x y z * y.
Definition rotvec_m21 x y z := rv_k2 x y z * z * y + rv_k1 x y z * x.
Definition rotvec_m22 x y z := rv_k2 x y z * z * z + rv_cos x y z.

(** scipy Rotation.from_matrix(M).as_euler('xyz', degrees=True) on a rotation
    matrix with |pitch| < 90 deg: extrinsic xyz = Rz(h) Ry(p) Rx(r). *)
Definition euler_roll (m00 m01 m02 m10 m11 m12 m20 m21 m22 : R) : R :=
  atan2 m21 m22 * (180 / PI).
Definition euler_pitch (m00 m01 m02 m10 m11 m12 m20 m21 m22 : R) : R :=
  atan2 (- m20) (sqrt (m21 * m21 + m22 * m22)) * (180 / PI).
Definition euler_heading (m00 m01 m02 m10 m11 m12 m20 m21 m22 : R) : R :=
  atan2 m10 m00 * (180 / PI).
